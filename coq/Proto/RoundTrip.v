(* Proof of the round-trip theorem of C03: Unmarshal (Marshal &v) ~ v.

   RESULT. The statement [roundtrip_statement] of Spec.v is FALSE as written (Lemma roundtrip_statement_false below,
   Qed). What is proved (Qed, no axioms) is [roundtrip_norm_with_hyp]:

     in_universe t v -> representable v -> keys_distinct v ->
     rep_tags_ok t = true -> top_ok v = true -> Size (TPtr t) (VPtr (Some v)) < lim ->
     Marshal (TPtr t) (VPtr (Some v)) = Ok (Some bs) ->
     exists fuel r, Unmarshal fuel t bs (zero_val t) = Ok (Some r) /\ norm r = norm v.

   Differences with the statement of Spec.v:
   (1) both sides are normalised (norm r = norm v): an omitted nil []byte / RawMessage field decodes to the zero value
       VBytes false [] / VRaw false [], which is not syntactically [norm v] (flaw of the statement, not of the code);
   (2) hypothesis [rep_tags_ok t]: the struct-tag option [rep] occurs only on slice and map fields. Without it the
       round trip fails (Lemma roundtrip_norm_needs_rep_tags_ok): struct.go sets the repeated flag from the tag
       whatever the kind of the field, the field is then written by the repeated pass, which writes no tag;
   (3) hypothesis [top_ok v]: v is not a (top-level) pointer to an empty RawMessage. Without it the round trip fails
       (Lemma roundtrip_norm_needs_top_ok): F17-like, the toplevel flag survives pointers, the message codec then
       writes zero bytes, and Unmarshal of an empty input resets the target to nil;
   (4) hypothesis Size (TPtr t) (&v) < lim: [in_universe] bounds the size of v marshalled BY VALUE (flags
       inline|toplevel), but the theorem marshals &v (flags wantzero|toplevel), whose encoding can be longer (a zero
       first field is written only under a pointer). Needed so that no Go int arithmetic wraps.

   Structure: [enc] is the pure function giving the bytes the encoder produces; size_enc: size_of = len enc;
   encode_enc: encode writes enc; D_all: decode (enc v) = r with norm r = norm v, for every well-formed codec
   ([cwf], what codec_of produces on the universe: codec_of_cwf). *)
From Verif Require Import Base.GoInt Proto.Ext Generated.ProtoGen Proto.Model Proto.PrimSpec Proto.PrimProofs Proto.Spec Proto.DecProofs.
From Coq Require Import ZifyBool.
Open Scope Z_scope.

(* F17: a non-nil pointer to a message whose encoding is empty comes back as nil *)
Lemma ptr_empty_refuted : ptr_empty_refuted_statement.
Proof.
  exists (TStruct [GField true None (TPtr (TStruct []))]),
         (VStruct [VPtr (Some (VStruct []))]), [].
  split; [|split].
  - unfold in_universe. repeat split; try reflexivity; vm_compute; congruence.
  - vm_compute. reflexivity.
  - intros fuel. unfold Unmarshal. cbn. discriminate.
Qed.

(* ==================== Part 1: lists and flags ==================== *)
(* ---------- lists ---------- *)
Lemma skipn_app_len {A} (a b : list A) : skipn (length a) (a ++ b) = b.
Proof. induction a; [reflexivity | exact IHa]. Qed.
Lemma firstn_app_len {A} (a b : list A) : firstn (length a) (a ++ b) = a.
Proof. induction a; [reflexivity | cbn; f_equal; exact IHa]. Qed.
Lemma to_nat_len {A} (l : list A) : Z.to_nat (len l) = length l.
Proof. unfold len. lia. Qed.
Lemma slice_from_app (pre w : bytes) : slice_from (pre ++ w) (len pre) = w.
Proof. unfold slice_from. rewrite to_nat_len. apply skipn_app_len. Qed.
Lemma len_0_nil {A} (l : list A) : len l = 0 -> l = [].
Proof. destruct l; [reflexivity | unfold len; cbn; lia]. Qed.
Lemma len_app3 {A} (a b c : list A) : len (a ++ b ++ c) = len a + len b + len c.
Proof. rewrite !len_app. lia. Qed.
Lemma len_pos_cons {A} (x : A) l : 0 < len (x :: l).
Proof. unfold len; cbn; lia. Qed.

Definition nonempty {A} (l : list A) : bool := match l with [] => false | _ => true end.
Lemma nonempty_len {A} (l : list A) : nonempty l = (len l >? 0).
Proof. destruct l; [reflexivity | pose proof (len_pos_cons a l); cbn [nonempty]; lia]. Qed.

Lemma varint_cons v : exists x r, varint v = x :: r.
Proof. unfold varint. cbn [varint_fuel]. destruct (v <? 128); eauto. Qed.
Lemma varint_len_pos v : 0 < len (varint v).
Proof. destruct (varint_cons v) as (x & r & ->). apply len_pos_cons. Qed.

(* ---------- flags ---------- *)
Ltac fl_enum f :=
  let H := fresh "Hc" in
  assert (f = 0 \/ f = 1 \/ f = 2 \/ f = 3 \/ f = 4 \/ f = 5 \/ f = 6 \/ f = 7 \/ f = 8 \/ f = 9 \/ f = 10 \/
          f = 11 \/ f = 12 \/ f = 13 \/ f = 14 \/ f = 15) as H by lia;
  repeat (destruct H as [H|H]; [subst f|]); [..|subst f].
Ltac sf_enum f :=
  let H := fresh "Hc" in
  assert (f = 0 \/ f = 1 \/ f = 2 \/ f = 3 \/ f = 4 \/ f = 5 \/ f = 6 \/ f = 7) as H by lia;
  repeat (destruct H as [H|H]; [subst f|]); [..|subst f].

Definition frange (f : Z) : Prop := 0 <= f < 16.
(* encoder flags / decoder flags agree on what the decoder looks at *)
Definition fl_rel (ef df : Z) : Prop :=
  frange ef /\ frange df /\ has ef proto_zigzag = has df proto_zigzag /\ has ef proto_toplevel = has df proto_toplevel.
Definition fl_rel0 (ef df : Z) : Prop :=
  frange ef /\ frange df /\ has ef proto_zigzag = has df proto_zigzag /\ has ef proto_toplevel = false /\ has df proto_toplevel = false.

Ltac fl_fin :=
  repeat match goal with |- _ /\ _ => split end;
  try assumption; try lia;
  try (vm_compute; first [reflexivity | congruence | split; congruence | intros; congruence]).
Ltac fl_abs df :=
  let z := fresh "z" in let t := fresh "t" in
  set (z := has df proto_zigzag) in *; set (t := has df proto_toplevel) in *; clearbody z t.

Lemma fl_rel0_rel ef df : fl_rel0 ef df -> fl_rel ef df.
Proof. unfold fl_rel0, fl_rel. intuition congruence. Qed.
Lemma fl_rel_ptr ef df : fl_rel ef df -> fl_rel (with_ (without ef proto_inline) proto_wantzero) df.
Proof.
  unfold fl_rel, frange. intros (H1 & H2 & H3 & H4). fl_abs df.
  fl_enum ef; vm_compute in H3, H4; subst; fl_fin.
Qed.
Lemma fl_rel_struct ef df (inl : bool) : fl_rel ef df ->
  fl_rel0 (if inl then without ef proto_toplevel else without ef (Z.lor proto_inline proto_toplevel)) (without df proto_toplevel).
Proof.
  unfold fl_rel, fl_rel0, frange. intros (H1 & H2 & H3 & H4).
  destruct inl; fl_enum ef; fl_enum df; vm_compute in H3, H4; try discriminate; fl_fin.
Qed.
Lemma fl_rel0_nowz ef df : fl_rel0 ef df -> fl_rel0 (without ef proto_wantzero) df.
Proof.
  unfold fl_rel0, frange. intros (H1 & H2 & H3 & H4 & H5). fl_abs df.
  fl_enum ef; vm_compute in H3, H4; try discriminate; subst; fl_fin.
Qed.
Definition mkfl (sf base : Z) : Z := Z.lor base (Z.land sf proto_zigzag).
Lemma make_flags_mkfl f base : make_flags f base = mkfl (sf_flags f) base.
Proof. reflexivity. Qed.
Lemma fl_rel0_field ef df sf : fl_rel0 ef df -> 0 <= sf < 8 -> fl_rel0 (mkfl sf ef) (mkfl sf df).
Proof.
  unfold fl_rel0, frange. intros (H1 & H2 & H3 & H4 & H5) Hs.
  sf_enum sf; fl_enum ef; vm_compute in H4; try discriminate;
   fl_enum df; vm_compute in H3, H5; try discriminate; fl_fin.
Qed.

(* ==================== Part 2: the byte string the encoder produces; well-formed codecs ==================== *)
(* ---------- the byte string the encoder produces ---------- *)
Definition vl (s : bytes) : bytes := varint (len s) ++ s.
Definition tagb (num wt : Z) : bytes := varint (tag_of num wt).
Definition pfx (emb : bool) (p : bytes) : bytes := if emb then varint (w64 (len p)) else [].
(* one field occurrence on the wire: tag, optional length prefix, data *)
Definition chunk (num wt : Z) (emb : bool) (p : bytes) : bytes := tagb num wt ++ pfx emb p ++ p.
Definition kf_emb (kf : Z) : bool := negb (Z.land kf proto_embedded =? 0).
Definition opt_chunk (num wt : Z) (emb : bool) (p : bytes) : bytes :=
  match p with [] => [] | _ => chunk num wt emb p end.

Section Passes.
  Variable encf : codec -> option val -> Z -> bytes.
  Fixpoint upass_of (fs : list sfield) (vs : list val) (flags : Z) {struct fs} : Z * bytes :=
    match fs, vs with
    | f :: fr, v :: vr =>
        if sf_repeated f then upass_of fr vr flags else
        let p := encf (sf_codec f) (Some v) (make_flags f flags) in
        match p with
        | [] => upass_of fr vr flags
        | _ => let '(fl', bs) := upass_of fr vr (without flags proto_wantzero) in
               (fl', chunk (sf_number f) (wire (sf_codec f)) (sf_embedded f) p ++ bs)
        end
    | _, _ => (flags, [])
    end.
  Fixpoint rpass_of (fs : list sfield) (vs : list val) (flags : Z) {struct fs} : bytes :=
    match fs, vs with
    | f :: fr, v :: vr =>
        if negb (sf_repeated f) then rpass_of fr vr flags else
        let p := encf (sf_codec f) (Some v) (make_flags f flags) in
        p ++ rpass_of fr vr (match p with [] => flags | _ => without flags proto_wantzero end)
    | _, _ => []
    end.
  Definition slice_enc (number wt : Z) (emb : bool) (c' : codec) (es : list val) : bytes :=
    flat_map (fun e => chunk number wt emb (encf c' (Some e) proto_wantzero)) es.
  Definition entry_enc (kf vf : Z) (kc vc : codec) (kv : val * val) : bytes :=
    opt_chunk 1 (wire kc) (kf_emb kf) (encf kc (Some (fst kv)) proto_wantzero) ++
    opt_chunk 2 (wire vc) (kf_emb vf) (encf vc (Some (snd kv)) proto_wantzero).
  Definition map_enc (number kf vf : Z) (kc vc : codec) (es : list (val * val)) : bytes :=
    match es with
    | [] => tagb number proto_varlen ++ [0]
    | _ => flat_map (fun kv => chunk number proto_varlen true (entry_enc kf vf kc vc kv)) es
    end.
End Passes.

Fixpoint enc (c : codec) (ov : option val) (flags : Z) {struct c} : bytes :=
  match c, ov with
  | CBool, Some (VBool x) => if x || has flags proto_wantzero then [if x then 1 else 0] else []
  | (CInt | CInt32 | CInt64), Some (VInt v) =>
      if negb (v =? 0) || has flags proto_wantzero then varint (proto_flags_uint64 flags v) else []
  | (CUint | CUint32 | CUint64), Some (VInt v) =>
      if negb (v =? 0) || has flags proto_wantzero then varint v else []
  | CFixed32, Some (VInt v) => if negb (v =? 0) || has flags proto_wantzero then le_bytes 4 v else []
  | CFixed64, Some (VInt v) => if negb (v =? 0) || has flags proto_wantzero then le_bytes 8 v else []
  | CFloat32, Some (VInt v) => if f32_nonzero v || has flags proto_wantzero || f32_signbit v then le_bytes 4 v else []
  | CFloat64, Some (VInt v) => if f64_nonzero v || has flags proto_wantzero || f64_signbit v then le_bytes 8 v else []
  | CString, Some (VStr s) => if negb (len s =? 0) || has flags proto_wantzero then vl s else []
  | CBytes, Some (VBytes nn s) => if nn || has flags proto_wantzero then vl s else []
  | CByteArray n, Some (VArr s) => if has flags proto_wantzero || negb (all_zero s) then vl s else []
  | CPtr _ c', Some (VPtr o) => enc c' o (with_ (without flags proto_inline) proto_wantzero)
  | CMessage, Some (VRaw _ s) => if has flags proto_toplevel then s else vl s
  | CStruct inl_ fields, Some (VStruct vs) =>
      let flags0 := if inl_ then without flags proto_toplevel else without flags (Z.lor proto_inline proto_toplevel) in
      let upass := fix upass (fs : list sfield) (vs : list val) (flags : Z) {struct fs} : Z * bytes :=
        match fs, vs with
        | f :: fr, v :: vr =>
            if sf_repeated f then upass fr vr flags else
            let p := enc (sf_codec f) (Some v) (make_flags f flags) in
            match p with
            | [] => upass fr vr flags
            | _ => let '(fl', bs) := upass fr vr (without flags proto_wantzero) in
                   (fl', chunk (sf_number f) (wire (sf_codec f)) (sf_embedded f) p ++ bs)
            end
        | _, _ => (flags, [])
        end in
      let rpass := fix rpass (fs : list sfield) (vs : list val) (flags : Z) {struct fs} : bytes :=
        match fs, vs with
        | f :: fr, v :: vr =>
            if negb (sf_repeated f) then rpass fr vr flags else
            let p := enc (sf_codec f) (Some v) (make_flags f flags) in
            p ++ rpass fr vr (match p with [] => flags | _ => without flags proto_wantzero end)
        | _, _ => []
        end in
      let '(fl1, bs1) := upass fields vs flags0 in bs1 ++ rpass fields vs fl1
  | CSlice number wt emb _ c', Some (VSlice es) =>
      flat_map (fun e => chunk number wt emb (enc c' (Some e) proto_wantzero)) es
  | CMap number kf vf _ _ kc vc, Some (VMap _ es) =>
      match es with
      | [] => tagb number proto_varlen ++ [0]
      | _ => flat_map (fun kv => chunk number proto_varlen true
               (opt_chunk 1 (wire kc) (kf_emb kf) (enc kc (Some (fst kv)) proto_wantzero) ++
                opt_chunk 2 (wire vc) (kf_emb vf) (enc vc (Some (snd kv)) proto_wantzero))) es
      end
  | _, _ => []
  end.

Definition struct_flags0 (inl_ : bool) (flags : Z) : Z :=
  if inl_ then without flags proto_toplevel else without flags (Z.lor proto_inline proto_toplevel).
Lemma enc_struct_eq inl_ fields vs flags :
  enc (CStruct inl_ fields) (Some (VStruct vs)) flags =
  let '(fl1, bs1) := upass_of enc fields vs (struct_flags0 inl_ flags) in bs1 ++ rpass_of enc fields vs fl1.
Proof. reflexivity. Qed.
Lemma enc_slice_eq number wt emb et c' es flags :
  enc (CSlice number wt emb et c') (Some (VSlice es)) flags = slice_enc enc number wt emb c' es.
Proof. reflexivity. Qed.
Lemma enc_map_eq number kf vf kt vt kc vc nn es flags :
  enc (CMap number kf vf kt vt kc vc) (Some (VMap nn es)) flags = map_enc enc number kf vf kc vc es.
Proof. reflexivity. Qed.
Lemma enc_ptr_eq t c' o flags :
  enc (CPtr t c') (Some (VPtr o)) flags = enc c' o (with_ (without flags proto_inline) proto_wantzero).
Proof. reflexivity. Qed.

(* ---------- well-formed (codec, type) pairs: what codec_of produces on the universe ---------- *)
Definition scalar_ct (c : codec) (t : gty) : bool :=
  match c, t with
  | CBool, TBool | CInt, TInt | CInt32, TInt32 | CInt64, TInt64 | CUint, TUint | CUint32, TUint32 | CUint64, TUint64
  | CFloat32, TFloat32 | CFloat64, TFloat64 | CFixed32, TUint32 | CFixed64, TUint64
  | CString, TString | CBytes, TBytes | CMessage, TRawMessage => true
  | CByteArray n, TByteArray m => Nat.eqb n m
  | _, _ => false
  end.
Definition elem_ty (t : gty) : bool := match t with TSlice _ | TMap _ _ => false | _ => true end.
Definition emb_of (t : gty) : Z := if is_struct (base_ty t) then proto_embedded else 0.
(* the shape of a compiled field: number, tag size, flags against the type *)
Definition fshape (f : sfield) : bool :=
  match f with
  | SField num ts fl t c =>
      (1 <=? num) && (num <? 2 ^ 16) && (0 <=? fl) && (fl <? 8) &&
      (ts =? w8 (proto_sizeOfTag num (wire c))) &&
      match t with
      | TSlice et => negb (Z.land fl proto_repeated =? 0) &&
                     Bool.eqb (negb (Z.land fl proto_embedded =? 0)) (is_struct (base_ty et)) &&
                     match c with CSlice n _ _ _ _ => n =? num | _ => false end
      | TMap _ _ => negb (Z.land fl proto_repeated =? 0) && negb (Z.land fl proto_embedded =? 0) &&
                    match c with CMap n _ _ _ _ _ _ => n =? num | _ => false end
      | _ => (Z.land fl proto_repeated =? 0) &&
             Bool.eqb (negb (Z.land fl proto_embedded =? 0)) (is_struct (base_ty t))
      end
  end.

Inductive cwf : codec -> gty -> Prop :=
| cwf_scalar c t : scalar_ct c t = true -> cwf c t
| cwf_ptr t c : elem_ty t = true -> cwf c t -> cwf (CPtr t c) (TPtr t)
| cwf_slice n wt emb et c : elem_ty et = true -> cwf c et -> wt = wire c -> emb = is_struct (base_ty et) ->
    1 <= n < 2 ^ 16 -> cwf (CSlice n wt emb et c) (TSlice et)
| cwf_map n kf vf kt vt : scalar_key kt = true -> elem_ty vt = true ->
    cwf (codec_of kt) kt -> cwf (codec_of vt) vt -> kf = emb_of kt -> vf = emb_of vt ->
    1 <= n < 2 ^ 16 -> cwf (CMap n kf vf kt vt (codec_of kt) (codec_of vt)) (TMap kt vt)
| cwf_struct inl_ fs gfs : map sf_ty fs = map field_ty gfs -> distinct (map sf_number fs) = true ->
    (forall f, In f fs -> cwf (sf_codec f) (sf_ty f)) ->
    (forall f, In f fs -> fshape f = true) ->
    cwf (CStruct inl_ fs) (TStruct gfs).

(* values against a list of types *)
Definition wf_list (ts : list gty) (vs : list val) : Prop := Forall2 (fun t v => wf_val t v = true) ts vs.
Lemma wf_struct_list gfs vs : wf_val (TStruct gfs) (VStruct vs) = true -> wf_list (map field_ty gfs) vs.
Proof.
  cbn [wf_val]. revert vs. induction gfs as [|[e tg ft] r IH]; intros [|x vr] H; try discriminate; [constructor|].
  apply andb_true_iff in H. destruct H as [H1 H2]. constructor; [exact H1 | apply IH, H2].
Qed.

(* ==================== Part 3: primitive sizes; size bookkeeping ==================== *)
Lemma lim_val : lim = 2147483648. Proof. reflexivity. Qed.

(* ---------- primitives ---------- *)
Lemma fu64_u64 f v : i64 v -> u64 (proto_flags_uint64 f v).
Proof.
  intros H. unfold proto_flags_uint64. destruct (proto_flags_has f proto_zigzag).
  - destruct (zigzag64_spec v H) as (-> & H2 & _). exact H2.
  - unfold u64. apply w64_range.
Qed.
Lemma fi64_fu64 ef df v : has ef proto_zigzag = has df proto_zigzag -> i64 v ->
  proto_flags_int64 df (proto_flags_uint64 ef v) = v.
Proof.
  unfold has. intros Hz H. unfold proto_flags_int64, proto_flags_uint64. rewrite <- Hz.
  destruct (proto_flags_has ef proto_zigzag).
  - destruct (zigzag64_spec v H) as (-> & _ & H3). exact H3.
  - unfold i64 in H. unfold s64, w64. cbv zeta.
    change (2 ^ 64) with 18446744073709551616 in *. change (2 ^ 63) with 9223372036854775808 in *.
    rewrite Z.mod_mod by lia.
    destruct (v mod 18446744073709551616 <? 9223372036854775808) eqn:E; Z.div_mod_to_equations; lia.
Qed.
Lemma sizeOfVarint_len v : u64 v -> proto_sizeOfVarint v = len (varint v).
Proof. apply sizeOfVarint_spec. Qed.
Lemma varint_len_le v : u64 v -> 1 <= len (varint v) <= 10.
Proof. intros H. apply (varint_length v H). Qed.
Lemma varint_wfb v : u64 v -> wfb (varint v) = true.
Proof. intros H. apply (varint_length v H). Qed.
Lemma sizeOfVarlen_len (s : bytes) : wfb s = true -> len s < lim -> proto_sizeOfVarlen (len s) = len (vl s).
Proof.
  intros Hw Hl. rewrite lim_val in Hl. destruct (decodeVarlen_encode s [] Hw) as [_ H]; [lia | rewrite len_nil; lia |].
  unfold vl. rewrite len_app. exact H.
Qed.
Definition wire_ok (wt : Z) : Prop := wt = 0 \/ wt = 1 \/ wt = 2 \/ wt = 5.
Lemma tag_u64 num wt : 1 <= num < 2 ^ 16 -> wire_ok wt -> u64 (tag_of num wt).
Proof. unfold wire_ok, u64, tag_of. lia. Qed.
Lemma sizeOfTag_len num wt : 1 <= num < 2 ^ 16 -> wire_ok wt -> proto_sizeOfTag num wt = len (tagb num wt).
Proof. intros Hn Hw. apply (tag_spec num wt (repeat 0 0)); unfold wire_ok in Hw; lia. Qed.
Lemma tagsize_len num wt : 1 <= num < 2 ^ 16 -> wire_ok wt -> w8 (proto_sizeOfTag num wt) = len (tagb num wt).
Proof.
  intros Hn Hw. rewrite sizeOfTag_len by assumption.
  pose proof (varint_len_le _ (tag_u64 num wt Hn Hw)). unfold tagb, w8. apply Z.mod_small. lia.
Qed.
Lemma s64_lower x : - 2 ^ 63 <= s64 x.
Proof. unfold s64, w64. cbv zeta. destruct (x mod 2 ^ 64 <? 2 ^ 63) eqn:E; Z.div_mod_to_equations; lia. Qed.
Lemma sizeOfVarint_lower x : - 2 ^ 63 <= proto_sizeOfVarint x.
Proof. unfold proto_sizeOfVarint, divi64. apply s64_lower. Qed.

(* ---------- size bookkeeping: equal, or both beyond the limit ---------- *)
Definition szok (s : Z) (e : bytes) : Prop := s = len e \/ (lim <= s /\ lim <= len e).
Lemma szok_nonneg s e : szok s e -> 0 <= s.
Proof. unfold szok. pose proof (PrimProofs.len_nonneg _ e). rewrite lim_val. lia. Qed.
Lemma szok_eq s e : szok s e -> len e < lim -> s = len e.
Proof. unfold szok. lia. Qed.
Lemma szok_eq' s e : szok s e -> s < lim -> s = len e.
Proof. unfold szok. lia. Qed.
Lemma szok_refl e : szok (len e) e.
Proof. left; reflexivity. Qed.
Lemma szok_nil : szok 0 [].
Proof. left; reflexivity. Qed.
Lemma szok_pos s e : szok s e -> (s >? 0) = nonempty e.
Proof.
  intros H. rewrite nonempty_len. unfold szok in H. rewrite lim_val in H. lia.
Qed.
Lemma szok_app a x b y : szok a x -> szok b y -> szok (a + b) (x ++ y).
Proof.
  unfold szok. rewrite len_app. pose proof (PrimProofs.len_nonneg _ x). pose proof (PrimProofs.len_nonneg _ y).
  rewrite lim_val. lia.
Qed.
Lemma szok_pfx (emb : bool) s p : szok s p ->
  szok (s + (if emb then proto_sizeOfVarint s else 0)) (pfx emb p ++ p).
Proof.
  intros H. pose proof (PrimProofs.len_nonneg _ p) as Hp. pose proof (PrimProofs.len_nonneg _ (pfx emb p)) as Hq.
  unfold szok in *. rewrite len_app. rewrite lim_val in *.
  destruct (Z_lt_dec s (2 ^ 64)) as [Hlt|Hge].
  - destruct H as [H|H].
    + left. subst s. unfold pfx. destruct emb; [|rewrite len_nil; lia].
      rewrite w64_small by lia. rewrite sizeOfVarint_len by (unfold u64; lia). lia.
    + right. split; [|lia]. destruct emb; [|lia].
      rewrite sizeOfVarint_len by (unfold u64; lia). pose proof (varint_len_pos s). lia.
  - right. pose proof (sizeOfVarint_lower s). split; [destruct emb; lia | lia].
Qed.
Lemma szok_chunk acc accb tg num wt (emb : bool) s p :
  szok acc accb -> tg = len (tagb num wt) -> szok s p ->
  szok (acc + tg + s + (if emb then proto_sizeOfVarint s else 0)) (accb ++ chunk num wt emb p).
Proof.
  intros Ha -> Hs. unfold chunk.
  replace (acc + len (tagb num wt) + s + (if emb then proto_sizeOfVarint s else 0))
    with (acc + (len (tagb num wt) + (s + (if emb then proto_sizeOfVarint s else 0)))) by lia.
  apply szok_app; [exact Ha|]. apply szok_app; [apply szok_refl | apply szok_pfx, Hs].
Qed.

(* ==================== Part 4: size_of = len enc ==================== *)
(* ---------- facts about well-formed codecs ---------- *)
Lemma wire_cwf c t : cwf c t -> wire_ok (wire c).
Proof.
  induction 1 as [c t Hs | t c He H IH | n wt emb et c He H IH Hwt Hemb Hn | n kf vf kt vt Hk Hv H1 IH1 H2 IH2 Hkf Hvf Hn
                 | inl_ fs gfs Hty Hd H IH Hsh]; unfold wire_ok in *; cbn [wire].
  - destruct c; try discriminate Hs; cbn [wire]; unfold proto_varint, proto_fixed32, proto_fixed64, proto_varlen; lia.
  - exact IH.
  - subst wt. exact IH.
  - unfold proto_varlen; lia.
  - unfold proto_varlen; lia.
Qed.
Lemma fshape_facts f : fshape f = true ->
  1 <= sf_number f < 2 ^ 16 /\ 0 <= sf_flags f < 8 /\
  sf_tagsize f = w8 (proto_sizeOfTag (sf_number f) (wire (sf_codec f))).
Proof.
  destruct f as [num ts fl t c]. cbn [fshape sf_number sf_flags sf_tagsize sf_codec].
  intros H. repeat (apply andb_true_iff in H; destruct H as [H ?]). lia.
Qed.
Lemma field_tagsize f : fshape f = true -> cwf (sf_codec f) (sf_ty f) ->
  sf_tagsize f = len (tagb (sf_number f) (wire (sf_codec f))).
Proof.
  intros Hs Hc. destruct (fshape_facts f Hs) as (Hn & _ & ->).
  apply tagsize_len; [exact Hn | eapply wire_cwf; exact Hc].
Qed.
Lemma size_none c fl : size_of c None fl = 0.
Proof. destruct c; reflexivity. Qed.
Lemma enc_none c fl : enc c None fl = [].
Proof. destruct c; reflexivity. Qed.

Lemma wf_slice_all et es : wf_val (TSlice et) (VSlice es) = true -> Forall (fun e => wf_val et e = true) es.
Proof.
  cbn [wf_val]. intros H. apply andb_true_iff in H. destruct H as [_ H].
  induction es as [|x r IH]; [constructor|].
  apply andb_true_iff in H. destruct H as [H1 H2]. constructor; [exact H1 | apply IH, H2].
Qed.
Lemma wf_map_all kt vt nn es : wf_val (TMap kt vt) (VMap nn es) = true ->
  Forall (fun kv => wf_val kt (fst kv) = true /\ wf_val vt (snd kv) = true) es.
Proof.
  cbn [wf_val]. intros H. apply andb_true_iff in H. destruct H as [_ H].
  induction es as [|[k x] r IH]; [constructor|].
  apply andb_true_iff in H. destruct H as [H1 H2]. apply andb_true_iff in H1. destruct H1 as [H0 H1].
  constructor; [cbn; split; assumption | apply IH, H2].
Qed.

(* ---------- the size passes of a struct, standalone ---------- *)
Section SPass.
  Variable szf : codec -> option val -> Z -> Z.
  Fixpoint spass_of (rep : bool) (fs : list sfield) (vs : list val) (flags : Z) (n : Z) {struct fs} : Z * Z :=
    match fs, vs with
    | f :: fr, v :: vr =>
        if Bool.eqb (sf_repeated f) rep then
          let size := szf (sf_codec f) (Some v) (make_flags f flags) in
          if size >? 0 then
            let n' := if rep then n + size
                      else n + sf_tagsize f + size + (if sf_embedded f then proto_sizeOfVarint size else 0) in
            spass_of rep fr vr (without flags proto_wantzero) n'
          else spass_of rep fr vr flags n
        else spass_of rep fr vr flags n
    | _, _ => (flags, n)
    end.
End SPass.
Lemma size_struct_eq inl_ fields vs flags :
  size_of (CStruct inl_ fields) (Some (VStruct vs)) flags =
  let '(flags1, n1) := spass_of size_of false fields vs (struct_flags0 inl_ flags) 0 in
  let '(_, n2) := spass_of size_of true fields vs flags1 n1 in n2.
Proof. reflexivity. Qed.

Definition field_sz (f : sfield) : Prop :=
  forall v fl, wf_val (sf_ty f) v = true -> szok (size_of (sf_codec f) (Some v) fl) (enc (sf_codec f) (Some v) fl).

Lemma spass_u : forall fs vs flags n nb,
  (forall f, In f fs -> field_sz f) ->
  (forall f, In f fs -> sf_tagsize f = len (tagb (sf_number f) (wire (sf_codec f)))) ->
  wf_list (map sf_ty fs) vs -> szok n nb ->
  fst (spass_of size_of false fs vs flags n) = fst (upass_of enc fs vs flags) /\
  szok (snd (spass_of size_of false fs vs flags n)) (nb ++ snd (upass_of enc fs vs flags)).
Proof.
  induction fs as [|f fr IH]; intros vs flags n nb HF HT Hwf Hn.
  - cbn. rewrite app_nil_r. split; [reflexivity | exact Hn].
  - inversion Hwf as [|t0 v ts0 vr Hv Hvr]; subst. cbn [spass_of upass_of].
    assert (HF' : forall g, In g fr -> field_sz g) by (intros; apply HF; right; assumption).
    assert (HT' : forall g, In g fr -> sf_tagsize g = len (tagb (sf_number g) (wire (sf_codec g)))) by (intros; apply HT; right; assumption).
    destruct (sf_repeated f); cbn [Bool.eqb].
    + apply IH; assumption.
    + pose proof (HF f (or_introl eq_refl) v (make_flags f flags) Hv) as Hs.
      rewrite (szok_pos _ _ Hs).
      destruct (enc (sf_codec f) (Some v) (make_flags f flags)) as [|x p] eqn:E; cbn [nonempty].
      * apply IH; assumption.
      * destruct (IH vr (without flags proto_wantzero)
                    (n + sf_tagsize f + size_of (sf_codec f) (Some v) (make_flags f flags) +
                     (if sf_embedded f then proto_sizeOfVarint (size_of (sf_codec f) (Some v) (make_flags f flags)) else 0))
                    (nb ++ chunk (sf_number f) (wire (sf_codec f)) (sf_embedded f) (x :: p)) HF' HT' Hvr) as [I1 I2].
        { apply szok_chunk; [exact Hn | apply HT; left; reflexivity | exact Hs]. }
        destruct (upass_of enc fr vr (without flags proto_wantzero)) as [fl' bs]. cbn [fst snd] in *.
        split; [exact I1|]. rewrite <- app_assoc in I2. exact I2.
Qed.

Lemma spass_r : forall fs vs flags n nb,
  (forall f, In f fs -> field_sz f) ->
  wf_list (map sf_ty fs) vs -> szok n nb ->
  szok (snd (spass_of size_of true fs vs flags n)) (nb ++ rpass_of enc fs vs flags).
Proof.
  induction fs as [|f fr IH]; intros vs flags n nb HF Hwf Hn.
  - cbn. rewrite app_nil_r. exact Hn.
  - inversion Hwf as [|t0 v ts0 vr Hv Hvr]; subst. cbn [spass_of rpass_of].
    assert (HF' : forall g, In g fr -> field_sz g) by (intros; apply HF; right; assumption).
    destruct (sf_repeated f); cbn [Bool.eqb negb].
    + pose proof (HF f (or_introl eq_refl) v (make_flags f flags) Hv) as Hs.
      rewrite (szok_pos _ _ Hs).
      destruct (enc (sf_codec f) (Some v) (make_flags f flags)) as [|x p] eqn:E; cbn [nonempty].
      * cbn [app]. apply IH; assumption.
      * rewrite app_assoc. apply IH; [assumption | assumption |]. apply szok_app; assumption.
    + apply IH; assumption.
Qed.

Lemma slice_size : forall c' tagSize number wt (emb : bool) (es : list val) acc accb,
  tagSize = len (tagb number wt) ->
  Forall (fun e => szok (size_of c' (Some e) proto_wantzero) (enc c' (Some e) proto_wantzero)) es ->
  szok acc accb ->
  szok (fold_left (fun n e => let size := size_of c' (Some e) proto_wantzero in
                              n + tagSize + size + (if emb then proto_sizeOfVarint size else 0)) es acc)
       (accb ++ slice_enc enc number wt emb c' es).
Proof.
  intros c' tagSize number wt emb es. induction es as [|e r IH]; intros acc accb Ht HF Ha.
  - cbn. rewrite app_nil_r. exact Ha.
  - inversion HF as [|x l H1 H2]; subst x l. cbn [fold_left slice_enc flat_map].
    rewrite app_assoc. apply IH; [exact Ht | exact H2 |]. cbv zeta.
    apply szok_chunk; assumption.
Qed.

Lemma opt_chunk_size ktag num wt (emb : bool) s p : ktag = len (tagb num wt) -> szok s p ->
  forall acc accb, szok acc accb ->
  szok (if s >? 0 then acc + ktag + s + (if emb then proto_sizeOfVarint s else 0) else acc) (accb ++ opt_chunk num wt emb p).
Proof.
  intros Hk Hs acc accb Ha. rewrite (szok_pos _ _ Hs). unfold opt_chunk.
  destruct p as [|x p]; cbn [nonempty]; [rewrite app_nil_r; exact Ha|].
  apply szok_chunk; assumption.
Qed.

Definition entry_sz (kc vc : codec) (kf vf : Z) (kv : val * val) : Z :=
  let keySize := size_of kc (Some (fst kv)) proto_wantzero in
  let valSize := size_of vc (Some (snd kv)) proto_wantzero in
  let elemSize := 0 in
  let elemSize := if keySize >? 0 then elemSize + proto_sizeOfTag 1 (wire kc) + keySize + (if negb (Z.land kf proto_embedded =? 0) then proto_sizeOfVarint keySize else 0) else elemSize in
  let elemSize := if valSize >? 0 then elemSize + proto_sizeOfTag 2 (wire vc) + valSize + (if negb (Z.land vf proto_embedded =? 0) then proto_sizeOfVarint valSize else 0) else elemSize in
  elemSize.
Definition map_step (kc vc : codec) (number kf vf : Z) (n : Z) (kv : val * val) : Z :=
  n + proto_sizeOfTag number proto_varlen + proto_sizeOfVarint (entry_sz kc vc kf vf kv) + entry_sz kc vc kf vf kv.
Lemma size_map_eq number kf vf kt vt kc vc nn es flags :
  size_of (CMap number kf vf kt vt kc vc) (Some (VMap nn es)) flags =
  let n := fold_left (map_step kc vc number kf vf) es 0 in
  if n =? 0 then proto_sizeOfTag number proto_varlen + proto_zeroSize else n.
Proof. reflexivity. Qed.

Lemma entry_size kc vc kf vf kv : wire_ok (wire kc) -> wire_ok (wire vc) ->
  szok (size_of kc (Some (fst kv)) proto_wantzero) (enc kc (Some (fst kv)) proto_wantzero) ->
  szok (size_of vc (Some (snd kv)) proto_wantzero) (enc vc (Some (snd kv)) proto_wantzero) ->
  szok (entry_sz kc vc kf vf kv) (entry_enc enc kf vf kc vc kv).
Proof.
  intros Hk Hv H1 H2. unfold entry_sz, entry_enc. cbv zeta.
  apply (opt_chunk_size (proto_sizeOfTag 2 (wire vc)) 2 (wire vc) (kf_emb vf)); [apply sizeOfTag_len; [lia | exact Hv] | exact H2 |].
  change (opt_chunk 1 (wire kc) (kf_emb kf) (enc kc (Some (fst kv)) proto_wantzero))
    with ([] ++ opt_chunk 1 (wire kc) (kf_emb kf) (enc kc (Some (fst kv)) proto_wantzero)).
  apply (opt_chunk_size (proto_sizeOfTag 1 (wire kc)) 1 (wire kc) (kf_emb kf)); [apply sizeOfTag_len; [lia | exact Hk] | exact H1 | apply szok_nil].
Qed.

Lemma map_size : forall kc vc number kf vf (es : list (val * val)) acc accb,
  wire_ok (wire kc) -> wire_ok (wire vc) -> 1 <= number < 2 ^ 16 ->
  Forall (fun kv => szok (size_of kc (Some (fst kv)) proto_wantzero) (enc kc (Some (fst kv)) proto_wantzero) /\
                    szok (size_of vc (Some (snd kv)) proto_wantzero) (enc vc (Some (snd kv)) proto_wantzero)) es ->
  szok acc accb ->
  szok (fold_left (map_step kc vc number kf vf) es acc)
       (accb ++ flat_map (fun kv => chunk number proto_varlen true (entry_enc enc kf vf kc vc kv)) es).
Proof.
  intros kc vc number kf vf es acc accb Hk Hv Hn HF Ha. revert acc accb Ha.
  induction es as [|kv r IH]; intros acc accb Ha.
  - cbn. rewrite app_nil_r. exact Ha.
  - inversion HF as [|x l [H1 H1'] H2]; subst x l. cbn [fold_left flat_map].
    rewrite app_assoc. apply IH; [exact H2|]. unfold map_step.
    pose proof (entry_size kc vc kf vf kv Hk Hv H1 H1') as HE.
    set (es := entry_sz kc vc kf vf kv) in *.
    replace (acc + proto_sizeOfTag number proto_varlen + proto_sizeOfVarint es + es)
      with (acc + proto_sizeOfTag number proto_varlen + es + proto_sizeOfVarint es) by lia.
    apply (szok_chunk acc accb (proto_sizeOfTag number proto_varlen) number proto_varlen true es); [exact Ha | apply sizeOfTag_len; [exact Hn | right; right; left; reflexivity] | exact HE].
Qed.

Ltac wf_split H := repeat (apply andb_true_iff in H; let H' := fresh H in destruct H as [H H']).

Theorem size_enc : forall c t, cwf c t -> forall v fl, wf_val t v = true ->
  szok (size_of c (Some v) fl) (enc c (Some v) fl).
Proof.
  induction 1 as [c t Hs | t c He H IH | n wt emb et c He H IH Hwt Hemb Hn | n kf vf kt vt Hk Hv H1 IH1 H2 IH2 Hkf Hvf Hn
                 | inl_ fs gfs Hty Hd H IH Hsh]; intros v fl Hwf.
  - (* scalars *)
    destruct c; try discriminate Hs; destruct t; try discriminate Hs; destruct v; try discriminate Hwf;
      cbn [size_of enc]; cbn [wf_val] in Hwf; wf_split Hwf;
      try (match goal with |- szok (if ?C then _ else _) _ => destruct C; [|apply szok_nil] end); left;
      try reflexivity;
      try (apply sizeOfVarint_len; first [apply fu64_u64; unfold i64; lia | unfold u64; lia]);
      try (apply sizeOfVarlen_len; [assumption | lia]).
    + (* byte array *)
      cbn [scalar_ct] in Hs. apply Nat.eqb_eq in Hs. subst n0.
      replace (Z.of_nat n) with (len s) by lia. apply sizeOfVarlen_len; [assumption | lia].
    + (* message *)
      destruct (has fl proto_toplevel); [reflexivity | apply sizeOfVarlen_len; [assumption | lia]].
  - (* pointer *)
    destruct v; try discriminate Hwf. cbn [size_of]. rewrite enc_ptr_eq.
    destruct o as [x|]; [apply IH; exact Hwf | rewrite size_none, enc_none; apply szok_nil].
  - (* slice *)
    destruct v; try discriminate Hwf. rewrite enc_slice_eq. cbn [size_of].
    change (slice_enc enc n wt emb c es) with ([] ++ slice_enc enc n wt emb c es).
    apply slice_size; [apply sizeOfTag_len; [exact Hn | subst wt; eapply wire_cwf; exact H] | | apply szok_nil].
    apply wf_slice_all in Hwf. eapply Forall_impl; [|exact Hwf]. intros e Hwe. apply IH, Hwe.
  - (* map *)
    destruct v; try discriminate Hwf. rewrite enc_map_eq, size_map_eq. cbv zeta.
    apply wf_map_all in Hwf.
    destruct es as [|kv r].
    + cbn [fold_left map_enc]. cbn [Z.eqb]. left. rewrite len_app.
      rewrite sizeOfTag_len by (try exact Hn; right; right; left; reflexivity). reflexivity.
    + unfold map_enc.
      match goal with |- szok (if ?n =? 0 then _ else _) ?e =>
        assert (HS : szok n ([] ++ e)); [| cbn [app] in HS; set (nn := n) in *; set (ee := e) in * ]
      end.
      { apply map_size; [eapply wire_cwf; exact H1 | eapply wire_cwf; exact H2 | exact Hn | | apply szok_nil].
        eapply Forall_impl; [|exact Hwf]. intros a [Ha Hb]. split; [apply IH1, Ha | apply IH2, Hb]. }
      assert (Hpos : 0 < len ee).
      { subst ee. cbn [flat_map]. unfold chunk, tagb. rewrite !len_app.
        pose proof (varint_len_pos (tag_of n proto_varlen)).
        repeat match goal with |- context [len ?x] => lazymatch goal with H : 0 <= len x |- _ => fail | _ => pose proof (PrimProofs.len_nonneg _ x) end end.
        lia. }
      clearbody nn ee. unfold szok in HS. rewrite lim_val in HS.
      destruct (nn =? 0) eqn:E; [lia | exact HS].
  - (* struct *)
    destruct v; try discriminate Hwf. rewrite size_struct_eq, enc_struct_eq.
    apply wf_struct_list in Hwf. rewrite <- Hty in Hwf.
    assert (HT : forall f, In f fs -> sf_tagsize f = len (tagb (sf_number f) (wire (sf_codec f)))).
    { intros f Hin. apply field_tagsize; [apply Hsh, Hin | apply H, Hin]. }
    assert (HF : forall f, In f fs -> field_sz f).
    { intros f Hin x fl' Hx. apply (IH f Hin), Hx. }
    destruct (spass_u fs fs0 (struct_flags0 inl_ fl) 0 [] HF HT Hwf szok_nil) as [I1 I2].
    destruct (spass_of size_of false fs fs0 (struct_flags0 inl_ fl) 0) as [flags1 n1].
    destruct (upass_of enc fs fs0 (struct_flags0 inl_ fl)) as [fl1 bs1]. cbn [fst snd app] in *. subst flags1.
    pose proof (spass_r fs fs0 fl1 n1 bs1 HF Hwf I2) as I3.
    destruct (spass_of size_of true fs fs0 fl1 n1) as [x n2]. exact I3.
Qed.

(* ==================== Part 5: writers (buffer windows) ==================== *)
(* ---------- writers: a function that overwrites the front of its buffer with x ---------- *)
Definition writes (f : bytes -> eres) (x : bytes) : Prop :=
  forall w, len x <= len w -> f w = Ok (len x, None, x ++ skipn (length x) w).

Lemma skipn_skipn {A} (x y : nat) (l : list A) : skipn x (skipn y l) = skipn (x + y) l.
Proof.
  revert l. induction y as [|y IH]; intros l; [rewrite Nat.add_0_r; reflexivity|].
  rewrite Nat.add_succ_r. destruct l; [rewrite !skipn_nil; reflexivity | cbn [skipn]; apply IH].
Qed.
Lemma skipn_len_app {A} (a b w : list A) : skipn (length (a ++ b)) w = skipn (length b) (skipn (length a) w).
Proof. rewrite app_length, skipn_skipn. f_equal. lia. Qed.
Lemma len_skipn (x w : bytes) : len x <= len w -> len (skipn (length x) w) = len w - len x.
Proof. unfold len. rewrite skipn_length. lia. Qed.
Lemma splice_app (pre w w' : bytes) : splice (pre ++ w) (len pre) w' = pre ++ w' ++ skipn (length w') w.
Proof.
  unfold splice. rewrite to_nat_len, firstn_app_len. do 2 f_equal.
  rewrite (Nat.add_comm (length pre)), <- (skipn_skipn (length w') (length pre)). rewrite skipn_app_len. reflexivity.
Qed.
Lemma skipn_all_len {A} (x w : list A) : length w = length x -> skipn (length x) w = [].
Proof. intros <-. apply skipn_all. Qed.

Lemma cfrom_app (pre w : bytes) : cfrom (pre ++ w) (len pre) = Ok w.
Proof.
  rewrite cfrom_ok; [rewrite slice_from_app; reflexivity|].
  rewrite len_app. pose proof (PrimProofs.len_nonneg _ pre). pose proof (PrimProofs.len_nonneg _ w). lia.
Qed.
Lemma in_from_writes f x pre w : writes f x -> len x <= len w ->
  in_from (pre ++ w) (len pre) f = Ok (len x, None, (pre ++ x) ++ skipn (length x) w).
Proof.
  intros Hf Hl. unfold in_from. rewrite cfrom_app. cbn [rbind]. rewrite (Hf w Hl). cbn [rbind].
  rewrite splice_app. rewrite app_length, skipn_length.
  replace (skipn (length x + (length w - length x)) w) with (@nil Z)
    by (symmetry; apply skipn_all2; unfold len in Hl; lia).
  rewrite app_nil_r, <- app_assoc. reflexivity.
Qed.
Lemma in_window_writes f x pre w : writes f x -> len x <= len w ->
  in_window (pre ++ w) (len pre) (len x) f = Ok (len x, None, (pre ++ x) ++ skipn (length x) w).
Proof.
  intros Hf Hl. unfold in_window. pose proof (PrimProofs.len_nonneg _ pre). pose proof (PrimProofs.len_nonneg _ x).
  rewrite cslice_ok by (rewrite ?len_app; lia). cbn [rbind].
  unfold slice. replace (len pre + len x - len pre) with (len x) by lia. rewrite !to_nat_len, skipn_app_len.
  rewrite (Hf (firstn (length x) w)) by (unfold len in *; rewrite firstn_length; lia). cbn [rbind].
  rewrite splice_app. rewrite app_length, skipn_length, firstn_length.
  replace (skipn (length x) (firstn (length x) w)) with (@nil Z)
    by (symmetry; apply skipn_all2; rewrite firstn_length; lia).
  rewrite app_nil_r.
  replace (length x + (Init.Nat.min (length x) (length w) - length x))%nat with (length x) by (unfold len in Hl; lia).
  rewrite <- app_assoc. reflexivity.
Qed.
Lemma copy_at_ok pre w src : len src <= len w ->
  copy_at (pre ++ w) (len pre) src = Ok (len src, (pre ++ src) ++ skipn (length src) w).
Proof.
  intros Hl. unfold copy_at. rewrite cfrom_app. cbn [rbind]. rewrite Z.min_r by lia.
  unfold slice_to. rewrite to_nat_len, firstn_all, splice_app, <- app_assoc. reflexivity.
Qed.
Lemma copy_at_0 w src : len src <= len w -> copy_at w 0 src = Ok (len src, src ++ skipn (length src) w).
Proof. intros H. apply (copy_at_ok [] w src H). Qed.

Lemma writes_varint v : u64 v -> writes (fun w => lift3 (proto_encodeVarint w v)) (varint v).
Proof. intros Hv w Hl. unfold lift3. rewrite encodeVarint_fits by assumption. reflexivity. Qed.
Lemma writes_tag num wt : 1 <= num < 2 ^ 16 -> wire_ok wt -> writes (fun w => lift3 (proto_encodeTag w num wt)) (tagb num wt).
Proof.
  intros Hn Hw w Hl. unfold lift3.
  assert (E : proto_encodeTag w num wt = proto_encodeVarint w (tag_of num wt))
    by (apply (tag_spec num wt w); unfold wire_ok in Hw; lia).
  rewrite E. unfold tagb in *. rewrite encodeVarint_fits; [reflexivity | apply tag_u64; assumption | assumption].
Qed.
Lemma tag_data num wt : 1 <= num < 2 ^ 16 -> wire_ok wt -> forall z, len z = len (tagb num wt) ->
  proto_encodeTag z num wt = (len (tagb num wt), None, tagb num wt).
Proof.
  intros Hn Hw z Hz. pose proof (writes_tag num wt Hn Hw z) as H. unfold lift3 in H.
  specialize (H ltac:(lia)). inversion H as [H']. rewrite H'.
  rewrite skipn_all_len by (unfold len in Hz; lia). rewrite app_nil_r. reflexivity.
Qed.
Lemma writes_varlen s : len s < lim -> writes (fun w => encode_varlen_bytes w s) (vl s).
Proof.
  intros Hs w Hl. unfold encode_varlen_bytes, vl in *. rewrite lim_val in Hs. pose proof (PrimProofs.len_nonneg _ s).
  rewrite len_app in Hl. rewrite w64_small by lia.
  rewrite encodeVarint_fits by (unfold u64; lia).
  pose proof (copy_at_ok (varint (len s)) (skipn (length (varint (len s))) w) s) as HC.
  rewrite HC by (rewrite len_skipn; lia). cbn [rbind]. unfold ret.
  replace (len s <? len s) with false by lia. rewrite len_app, <- skipn_len_app. reflexivity.
Qed.

(* ==================== Part 6: the loops of encode, standalone ==================== *)
(* ---------- the loops of [encode], standalone ---------- *)
Section EncLoops.
  Variable encf : codec -> bytes -> option val -> Z -> eres.
  Fixpoint uniq_of (fs : list sfield) (vs : list val) (flags : Z) (offset : Z) (b : bytes)
                   (k : Z -> Z -> bytes -> eres) {struct fs} : eres :=
    match fs, vs with
    | f :: fr, v :: vr =>
        if sf_repeated f then uniq_of fr vr flags offset b k else
        let fieldFlags := make_flags f flags in
        let size := size_of (sf_codec f) (Some v) fieldFlags in
        if size >? 0 then
          rlet (n, err, b) <- in_from b offset (fun w => lift3 (proto_encodeTag w (sf_number f) (wire (sf_codec f)))) in
          let offset := offset + n in
          match err with Some _ => ret offset err b | None =>
          rlet (offset, err, b) <-
            (if sf_embedded f then
               rlet (n, err, b) <- in_from b offset (fun w => lift3 (proto_encodeVarint w (w64 size))) in
               Ok (offset + n, err, b)
             else Ok (offset, None, b)) in
          match err with Some _ => ret offset err b | None =>
          if (len b - offset) <? size then ret (len b) (Some proto_ErrShortBuffer) b else
          rlet (n, err, b) <- in_window b offset size (fun w => encf (sf_codec f) w (Some v) fieldFlags) in
          let offset := offset + n in
          match err with Some _ => ret offset err b | None =>
          uniq_of fr vr (without flags proto_wantzero) offset b k
          end end end
        else uniq_of fr vr flags offset b k
    | _, _ => k flags offset b
    end.
  Fixpoint reps_of (fs : list sfield) (vs : list val) (flags : Z) (offset : Z) (b : bytes) {struct fs} : eres :=
    match fs, vs with
    | f :: fr, v :: vr =>
        if negb (sf_repeated f) then reps_of fr vr flags offset b else
        rlet (n, err, b) <- in_from b offset (fun w => encf (sf_codec f) w (Some v) (make_flags f flags)) in
        let offset := offset + n in
        match err with Some _ => ret offset err b | None =>
        reps_of fr vr (if n >? 0 then without flags proto_wantzero else flags) offset b
        end
    | _, _ => ret offset None b
    end.
  Section SliceGo.
  Variables (c' : codec) (emb : bool) (tagData : bytes).
  Fixpoint slice_go (es : list val) (offset : Z) (b : bytes) {struct es} : eres :=
    match es with
    | [] => ret offset None b
    | e :: er =>
        let size := size_of c' (Some e) proto_wantzero in
        rlet (n, b) <- copy_at b offset tagData in
        let offset := offset + n in
        if n <? len tagData then ret offset (Some proto_ErrShortBuffer) b else
        rlet (offset, err, b) <-
          (if emb then
             rlet (n, err, b) <- in_from b offset (fun w => lift3 (proto_encodeVarint w (w64 size))) in
             Ok (offset + n, err, b)
           else Ok (offset, None, b)) in
        match err with Some _ => ret offset err b | None =>
        if (len b - offset) <? size then ret (len b) (Some proto_ErrShortBuffer) b else
        rlet (n, err, b) <- in_window b offset size (fun w => encf c' w (Some e) proto_wantzero) in
        let offset := offset + n in
        match err with Some _ => ret offset err b | None => slice_go er offset b end end
    end.
  End SliceGo.
  Definition map_part (tg : bytes) (embf : bool) (pc : codec) (pv : val) (psize : Z) (offset : Z) (b : bytes) (short_ret_n : bool)
    : res (Z * option proto_error * bytes) :=
    if psize >? 0 then
      rlet (n, b) <- copy_at b offset tg in
      let offset' := offset + n in
      if n <? len tg then Ok ((if short_ret_n then n else offset'), Some proto_ErrShortBuffer, b) else
      rlet (offset', err, b) <-
        (if embf then
           rlet (n, err, b) <- in_from b offset' (fun w => lift3 (proto_encodeVarint w (w64 psize))) in
           Ok (offset' + n, err, b)
         else Ok (offset', None, b)) in
      match err with Some _ => Ok (offset', err, b) | None =>
      if (len b - offset') <? psize then Ok (len b, Some proto_ErrShortBuffer, b) else
      rlet (n, err, b) <- in_window b offset' psize (fun w => encf pc w (Some pv) proto_wantzero) in
      Ok (offset' + n, err, b)
      end
    else Ok (offset, None, b).
  Section MapGo.
  Variables (kf vf : Z) (kc vc : codec) (keyTag valTag zero mapTag : bytes).
  Fixpoint map_go (es : list (val * val)) (offset : Z) (b : bytes) {struct es} : eres :=
    match es with
    | [] =>
        if offset =? 0 then
          rlet (n, b) <- copy_at b 0 zero in
          if n <? len zero then ret n (Some proto_ErrShortBuffer) b else ret n None b
        else ret offset None b
    | (k, v) :: er =>
        let keySize := size_of kc (Some k) proto_wantzero in
        let valSize := size_of vc (Some v) proto_wantzero in
        let elemSize := keySize + valSize in
        let elemSize := if keySize >? 0 then elemSize + len keyTag + (if negb (Z.land kf proto_embedded =? 0) then proto_sizeOfVarint keySize else 0) else elemSize in
        let elemSize := if valSize >? 0 then elemSize + len valTag + (if negb (Z.land vf proto_embedded =? 0) then proto_sizeOfVarint valSize else 0) else elemSize in
        rlet (n, b) <- copy_at b offset mapTag in
        let offset := offset + n in
        if n <? len mapTag then ret offset (Some proto_ErrShortBuffer) b else
        rlet (n, err, b) <- in_from b offset (fun w => lift3 (proto_encodeVarint w (w64 elemSize))) in
        let offset := offset + n in
        match err with Some _ => ret offset err b | None =>
        rlet (offset, err, b) <- map_part keyTag (negb (Z.land kf proto_embedded =? 0)) kc k keySize offset b false in
        match err with Some _ => ret offset err b | None =>
        rlet (offset, err, b) <- map_part valTag (negb (Z.land vf proto_embedded =? 0)) vc v valSize offset b true in
        match err with Some _ => ret offset err b | None => map_go er offset b end end end
    end.
  End MapGo.
End EncLoops.

Lemma encode_struct_eq inl_ fields vs b flags :
  encode (CStruct inl_ fields) b (Some (VStruct vs)) flags =
  uniq_of encode fields vs (struct_flags0 inl_ flags) 0 b (fun flags offset b => reps_of encode fields vs flags offset b).
Proof. reflexivity. Qed.
Lemma encode_slice_eq number wt emb et c' b es flags :
  encode (CSlice number wt emb et c') b (Some (VSlice es)) flags =
  let tagSize := proto_sizeOfTag number wt in
  let '(_, _, tagData) := proto_encodeTag (repeat 0 (Z.to_nat tagSize)) number wt in
  slice_go encode c' emb tagData es 0 b.
Proof. reflexivity. Qed.
Lemma encode_map_eq number kf vf kt vt kc vc b nn es flags :
  encode (CMap number kf vf kt vt kc vc) b (Some (VMap nn es)) flags =
  let '(_, _, keyTag) := proto_encodeTag [0] 1 (wire kc) in
  let '(_, _, valTag) := proto_encodeTag [0] 2 (wire vc) in
  let tagsz := proto_sizeOfTag number proto_varlen in
  let '(_, _, zero) := proto_encodeTag (repeat 0 (Z.to_nat (tagsz + proto_zeroSize))) number proto_varlen in
  let mapTag := slice_to zero (len zero - 1) in
  map_go encode kf vf kc vc keyTag valTag zero mapTag es 0 b.
Proof. reflexivity. Qed.

(* ==================== Part 7: struct passes write enc ==================== *)
Definition field_enc (f : sfield) : Prop :=
  forall v fl, wf_val (sf_ty f) v = true -> len (enc (sf_codec f) (Some v) fl) < lim ->
    writes (fun w => encode (sf_codec f) w (Some v) fl) (enc (sf_codec f) (Some v) fl).
Definition field_num (f : sfield) : Prop := 1 <= sf_number f < 2 ^ 16 /\ wire_ok (wire (sf_codec f)).

Ltac lens := repeat match goal with
  | |- context [len ?x] => lazymatch goal with H : 0 <= len x |- _ => fail | _ => pose proof (PrimProofs.len_nonneg _ x) end
  | _ : context [len ?x] |- _ => lazymatch goal with H : 0 <= len x |- _ => fail | _ => pose proof (PrimProofs.len_nonneg _ x) end
  end.

(* tag, optional prefix, payload written at the end of [out] *)
Lemma write_chunk (encp : bytes -> eres) num wt (emb : bool) p size out w (k : Z -> option proto_error -> bytes -> eres) :
  1 <= num < 2 ^ 16 -> wire_ok wt -> writes encp p -> size = len p -> len p < lim ->
  len (chunk num wt emb p) <= len w ->
  (rlet (n, err, b) <- in_from (out ++ w) (len out) (fun w => lift3 (proto_encodeTag w num wt)) in
   let offset := len out + n in
   match err with Some _ => ret offset err b | None =>
   rlet (offset, err, b) <-
     (if emb then
        rlet (n, err, b) <- in_from b offset (fun w => lift3 (proto_encodeVarint w (w64 size))) in
        Ok (offset + n, err, b)
      else Ok (offset, None, b)) in
   match err with Some _ => ret offset err b | None =>
   if (len b - offset) <? size then ret (len b) (Some proto_ErrShortBuffer) b else
   rlet (n, err, b) <- in_window b offset size encp in
   k (offset + n) err b end end) =
  k (len (out ++ chunk num wt emb p)) None ((out ++ chunk num wt emb p) ++ skipn (length (chunk num wt emb p)) w).
Proof.
  intros Hn Hw Hp -> Hlim Hl. unfold chunk in *. rewrite !len_app in Hl. rewrite lim_val in Hlim.
  pose proof (PrimProofs.len_nonneg _ p). pose proof (PrimProofs.len_nonneg _ (pfx emb p)). pose proof (PrimProofs.len_nonneg _ (tagb num wt)).
  rewrite (in_from_writes _ (tagb num wt) out w (writes_tag num wt Hn Hw)) by lia. cbn [rbind]. cbv zeta.
  set (w1 := skipn (length (tagb num wt)) w).
  assert (Hw1 : len w1 = len w - len (tagb num wt)) by (apply len_skipn; lia).
  rewrite <- (len_app _ out (tagb num wt)).
  set (out1 := out ++ tagb num wt).
  match goal with |- rbind ?X _ = _ =>
    assert (E : X = Ok (len (out1 ++ pfx emb p), None, (out1 ++ pfx emb p) ++ skipn (length (pfx emb p)) w1)) end.
  { unfold pfx in *. destruct emb.
    - rewrite (in_from_writes _ (varint (w64 (len p))) out1 w1) by (try apply writes_varint; try apply w64_range; lia).
      cbn [rbind]. rewrite len_app. reflexivity.
    - rewrite app_nil_r. reflexivity. }
  rewrite E. cbn [rbind]. clear E.
  set (w2 := skipn (length (pfx emb p)) w1).
  assert (Hw2 : len w2 = len w1 - len (pfx emb p)) by (apply len_skipn; lia).
  set (out2 := out1 ++ pfx emb p).
  rewrite len_app. replace (len out2 + len w2 - len out2 <? len p) with false by lia.
  rewrite (in_window_writes encp p out2 w2 Hp) by lia. cbn [rbind].
  rewrite <- len_app. subst out2 out1 w2 w1.
  rewrite !skipn_len_app. rewrite <- !app_assoc. reflexivity.
Qed.

(* optional prefix and payload written at the end of [out1] (the tag is already there) *)
Lemma write_body (encp : bytes -> eres) (emb : bool) p size out1 w1
      (K1 : Z -> option proto_error -> bytes -> eres) (K2 : bytes -> eres) (k : Z -> option proto_error -> bytes -> eres) :
  writes encp p -> size = len p -> len p < lim -> len (pfx emb p ++ p) <= len w1 ->
  (rlet (offset, err, b) <-
     (if emb then
        rlet (n, err, b) <- in_from (out1 ++ w1) (len out1) (fun w => lift3 (proto_encodeVarint w (w64 size))) in
        Ok (len out1 + n, err, b)
      else Ok (len out1, None, out1 ++ w1)) in
   match err with Some _ => K1 offset err b | None =>
   if (len b - offset) <? size then K2 b else
   rlet (n, err, b) <- in_window b offset size encp in
   k (offset + n) err b end) =
  k (len (out1 ++ pfx emb p ++ p)) None ((out1 ++ pfx emb p ++ p) ++ skipn (length (pfx emb p ++ p)) w1).
Proof.
  intros Hp -> Hlim Hl. rewrite !len_app in Hl. rewrite lim_val in Hlim.
  pose proof (PrimProofs.len_nonneg _ p). pose proof (PrimProofs.len_nonneg _ (pfx emb p)).
  match goal with |- rbind ?X _ = _ =>
    assert (E : X = Ok (len (out1 ++ pfx emb p), None, (out1 ++ pfx emb p) ++ skipn (length (pfx emb p)) w1)) end.
  { unfold pfx in *. destruct emb.
    - rewrite (in_from_writes _ (varint (w64 (len p))) out1 w1) by (try apply writes_varint; try apply w64_range; lia).
      cbn [rbind]. rewrite len_app. reflexivity.
    - rewrite app_nil_r. reflexivity. }
  rewrite E. cbn [rbind]. clear E.
  set (w2 := skipn (length (pfx emb p)) w1).
  assert (Hw2 : len w2 = len w1 - len (pfx emb p)) by (apply len_skipn; lia).
  set (out2 := out1 ++ pfx emb p).
  rewrite len_app. replace (len out2 + len w2 - len out2 <? len p) with false by lia.
  rewrite (in_window_writes encp p out2 w2 Hp) by lia. cbn [rbind].
  rewrite <- len_app. subst out2 w2.
  rewrite !skipn_len_app. rewrite <- !app_assoc. reflexivity.
Qed.

Lemma uniq_writes : forall fs vs flags out w k,
  (forall f, In f fs -> field_enc f) -> (forall f, In f fs -> field_sz f) -> (forall f, In f fs -> field_num f) ->
  wf_list (map sf_ty fs) vs ->
  len (snd (upass_of enc fs vs flags)) <= len w -> len (snd (upass_of enc fs vs flags)) < lim ->
  uniq_of encode fs vs flags (len out) (out ++ w) k =
  k (fst (upass_of enc fs vs flags)) (len (out ++ snd (upass_of enc fs vs flags)))
    ((out ++ snd (upass_of enc fs vs flags)) ++ skipn (length (snd (upass_of enc fs vs flags))) w).
Proof.
  induction fs as [|f fr IH]; intros vs flags out w k HE HS HN Hwf Hl Hlim.
  - cbn. rewrite app_nil_r. reflexivity.
  - inversion Hwf as [|t0 v ts0 vr Hv Hvr]; subst.
    assert (HE' : forall g, In g fr -> field_enc g) by (intros; apply HE; right; assumption).
    assert (HS' : forall g, In g fr -> field_sz g) by (intros; apply HS; right; assumption).
    assert (HN' : forall g, In g fr -> field_num g) by (intros; apply HN; right; assumption).
    cbn [uniq_of upass_of] in *.
    destruct (sf_repeated f); [apply IH; assumption|]. cbv zeta in *.
    pose proof (HS f (or_introl eq_refl) v (make_flags f flags) Hv) as Hs.
    pose proof (HE f (or_introl eq_refl) v (make_flags f flags) Hv) as He.
    destruct (HN f (or_introl eq_refl)) as [Hn Hw].
    destruct (enc (sf_codec f) (Some v) (make_flags f flags)) as [|x p] eqn:Ep.
    + rewrite (szok_eq _ _ Hs) by (rewrite len_nil, lim_val; lia). rewrite len_nil. cbn [Z.gtb Z.compare].
      apply IH; assumption.
    + destruct (upass_of enc fr vr (without flags proto_wantzero)) as [fl' bs'] eqn:EU. cbn [fst snd] in *.
      set (ch := chunk (sf_number f) (wire (sf_codec f)) (sf_embedded f) (x :: p)) in *.
      rewrite len_app in Hl, Hlim.
      assert (Hpl : len (x :: p) < lim).
      { subst ch. unfold chunk in Hlim. rewrite !len_app in Hlim. lens. lia. }
      rewrite (szok_eq _ _ Hs Hpl).
      replace (len (x :: p) >? 0) with true by (pose proof (len_pos_cons x p); lia).
      lens.
      etransitivity.
      { apply (write_chunk (fun w0 => encode (sf_codec f) w0 (Some v) (make_flags f flags)) (sf_number f) (wire (sf_codec f))
                 (sf_embedded f) (x :: p) (len (x :: p)) out w
                 (fun o e b => match e with Some _ => ret o e b | None => uniq_of encode fr vr (without flags proto_wantzero) o b k end));
        [assumption | assumption | apply He; assumption | reflexivity | assumption | fold ch; lia]. }
      fold ch. cbv beta iota.
      assert (Hw' : len (skipn (length ch) w) = len w - len ch) by (apply len_skipn; lia).
      rewrite IH; [| assumption | assumption | assumption | assumption | rewrite EU; cbn [snd]; lia | rewrite EU; cbn [snd]; lia].
      rewrite EU. cbn [fst snd]. rewrite <- !skipn_len_app, <- !app_assoc. reflexivity.
Qed.

Lemma reps_writes : forall fs vs flags out w,
  (forall f, In f fs -> field_enc f) ->
  wf_list (map sf_ty fs) vs ->
  len (rpass_of enc fs vs flags) <= len w -> len (rpass_of enc fs vs flags) < lim ->
  reps_of encode fs vs flags (len out) (out ++ w) =
  Ok (len (out ++ rpass_of enc fs vs flags), None, (out ++ rpass_of enc fs vs flags) ++ skipn (length (rpass_of enc fs vs flags)) w).
Proof.
  induction fs as [|f fr IH]; intros vs flags out w HE Hwf Hl Hlim.
  - cbn. rewrite app_nil_r. reflexivity.
  - inversion Hwf as [|t0 v ts0 vr Hv Hvr]; subst.
    assert (HE' : forall g, In g fr -> field_enc g) by (intros; apply HE; right; assumption).
    cbn [reps_of rpass_of] in *.
    destruct (sf_repeated f); cbn [negb] in *; [|apply IH; assumption]. cbv zeta in *.
    pose proof (HE f (or_introl eq_refl) v (make_flags f flags) Hv) as He.
    set (p := enc (sf_codec f) (Some v) (make_flags f flags)) in *.
    rewrite len_app in Hl, Hlim. lens.
    rewrite (in_from_writes _ p out w (He ltac:(lia))) by lia. cbn [rbind].
    assert (Hw' : len (skipn (length p) w) = len w - len p) by (apply len_skipn; lia).
    rewrite <- len_app.
    replace (if len p >? 0 then without flags proto_wantzero else flags)
      with (match p with [] => flags | _ :: _ => without flags proto_wantzero end)
      by (destruct p as [|x p']; [reflexivity | pose proof (len_pos_cons x p'); replace (len (x :: p') >? 0) with true by lia; reflexivity]).
    rewrite IH; [| assumption | assumption | lia | lia].
    rewrite <- !skipn_len_app, <- !app_assoc. reflexivity.
Qed.

(* ==================== Part 8: slices and maps write enc ==================== *)
Definition elem_enc (c' : codec) (e : val) : Prop :=
  szok (size_of c' (Some e) proto_wantzero) (enc c' (Some e) proto_wantzero) /\
  (len (enc c' (Some e) proto_wantzero) < lim ->
   writes (fun w => encode c' w (Some e) proto_wantzero) (enc c' (Some e) proto_wantzero)).

Lemma slice_writes c' (emb : bool) number wt : 1 <= number < 2 ^ 16 -> wire_ok wt ->
  forall es out w, Forall (elem_enc c') es ->
  len (slice_enc enc number wt emb c' es) <= len w -> len (slice_enc enc number wt emb c' es) < lim ->
  slice_go encode c' emb (tagb number wt) es (len out) (out ++ w) =
  Ok (len (out ++ slice_enc enc number wt emb c' es), None,
      (out ++ slice_enc enc number wt emb c' es) ++ skipn (length (slice_enc enc number wt emb c' es)) w).
Proof.
  intros Hn Hw. induction es as [|e er IH]; intros out w HF Hl Hlim.
  - cbn. rewrite app_nil_r. reflexivity.
  - inversion HF as [|x l [Hs He] HF']; subst x l.
    cbn [slice_go slice_enc flat_map] in *. fold (slice_enc enc number wt emb c' er) in *.
    set (p := enc c' (Some e) proto_wantzero) in *. set (rest := slice_enc enc number wt emb c' er) in *.
    rewrite len_app in Hl, Hlim. unfold chunk in Hl, Hlim. rewrite !len_app in Hl, Hlim. lens.
    cbv zeta. rewrite (szok_eq _ _ Hs) by lia.
    rewrite copy_at_ok by lia. cbn [rbind]. rewrite Z.ltb_irrefl.
    set (w1 := skipn (length (tagb number wt)) w).
    assert (Hw1 : len w1 = len w - len (tagb number wt)) by (apply len_skipn; lia).
    rewrite <- len_app.
    etransitivity.
    { apply (write_body (fun w0 => encode c' w0 (Some e) proto_wantzero) emb p (len p) (out ++ tagb number wt) w1
               (fun o e b => ret o e b) (fun b => ret (len b) (Some proto_ErrShortBuffer) b)
               (fun o e b => match e with Some _ => ret o e b | None => slice_go encode c' emb (tagb number wt) er o b end));
        [apply He; lia | reflexivity | lia | rewrite len_app; lia]. }
    cbv beta iota.
    assert (Hw2 : len (skipn (length (pfx emb p ++ p)) w1) = len w1 - len (pfx emb p ++ p))
      by (apply len_skipn; rewrite len_app; lia).
    rewrite len_app in Hw2.
    replace ((out ++ tagb number wt) ++ pfx emb p ++ p) with (out ++ chunk number wt emb p)
      by (unfold chunk; rewrite <- !app_assoc; reflexivity).
    rewrite IH; [| assumption | fold rest; lia | fold rest; lia].
    fold rest. subst w1. unfold chunk. rewrite <- !skipn_len_app, <- !app_assoc. reflexivity.
Qed.

Lemma map_part_writes num wt (embf : bool) pc pv p psize out w short :
  (len p < lim -> writes (fun w0 => encode pc w0 (Some pv) proto_wantzero) p) -> psize = len p -> len p < lim ->
  len (opt_chunk num wt embf p) <= len w ->
  map_part encode (tagb num wt) embf pc pv psize (len out) (out ++ w) short =
  Ok (len (out ++ opt_chunk num wt embf p), None,
      (out ++ opt_chunk num wt embf p) ++ skipn (length (opt_chunk num wt embf p)) w).
Proof.
  intros He -> Hlim Hl. unfold map_part. destruct p as [|x p].
  - cbn. rewrite app_nil_r. reflexivity.
  - replace (len (x :: p) >? 0) with true by (pose proof (len_pos_cons x p); lia).
    cbn [opt_chunk] in *. set (q := x :: p) in *. unfold chunk in *. rewrite !len_app in Hl. lens.
    rewrite copy_at_ok by lia. cbn [rbind]. cbv zeta. rewrite Z.ltb_irrefl.
    set (w1 := skipn (length (tagb num wt)) w).
    assert (Hw1 : len w1 = len w - len (tagb num wt)) by (apply len_skipn; lia).
    rewrite <- len_app.
    etransitivity.
    { apply (write_body (fun w0 => encode pc w0 (Some pv) proto_wantzero) embf q (len q) (out ++ tagb num wt) w1
               (fun o e b => Ok (o, e, b)) (fun b => Ok (len b, Some proto_ErrShortBuffer, b))
               (fun o e b => Ok (o, e, b)));
        [apply He; lia | reflexivity | lia | rewrite len_app; lia]. }
    subst w1. rewrite <- !skipn_len_app, <- !app_assoc. reflexivity.
Qed.

Lemma skipn_repeat {A} (x : A) n m : skipn n (repeat x (n + m)) = repeat x m.
Proof. induction n; [reflexivity | exact IHn]. Qed.
Lemma tag1_len k wt : (k = 1 \/ k = 2) -> wire_ok wt -> len (tagb k wt) = 1.
Proof. unfold wire_ok. intros [->| ->] [->|[->|[->| ->]]]; reflexivity. Qed.

Section MapW.
  Variables (number kf vf : Z) (kc vc : codec).
  Hypothesis Hn : 1 <= number < 2 ^ 16.
  Hypothesis Hkw : wire_ok (wire kc).
  Hypothesis Hvw : wire_ok (wire vc).
  Let keyTag := tagb 1 (wire kc).
  Let valTag := tagb 2 (wire vc).
  Let mapTag := tagb number proto_varlen.
  Let zero := tagb number proto_varlen ++ [0].
  Definition entry_ok (kv : val * val) : Prop := elem_enc kc (fst kv) /\ elem_enc vc (snd kv).
  Let ch (kv : val * val) := chunk number proto_varlen true (entry_enc enc kf vf kc vc kv).

  Lemma map_step_writes kv er out w : entry_ok kv ->
    len (ch kv) <= len w -> len (ch kv) < lim ->
    map_go encode kf vf kc vc keyTag valTag zero mapTag (kv :: er) (len out) (out ++ w) =
    map_go encode kf vf kc vc keyTag valTag zero mapTag er (len (out ++ ch kv)) ((out ++ ch kv) ++ skipn (length (ch kv)) w).
  Proof.
    intros [[Hks Hke] [Hvs Hve]] Hl Hlim. destruct kv as [k v]. cbn [fst snd] in *.
    cbn [map_go]. cbv zeta.
    set (kp := enc kc (Some k) proto_wantzero) in *. set (vp := enc vc (Some v) proto_wantzero) in *.
    subst ch. cbv beta in *. unfold chunk, entry_enc in Hl, Hlim. cbn [fst snd] in Hl, Hlim. fold kp vp in Hl, Hlim.
    set (ock := opt_chunk 1 (wire kc) (kf_emb kf) kp) in *. set (ocv := opt_chunk 2 (wire vc) (kf_emb vf) vp) in *.
    rewrite !len_app in Hl, Hlim. lens.
    assert (Hkl : len kp <= len ock) by (subst ock; unfold opt_chunk; destruct kp; [lia | unfold chunk; rewrite !len_app; lens; lia]).
    assert (Hvl : len vp <= len ocv) by (subst ocv; unfold opt_chunk; destruct vp; [lia | unfold chunk; rewrite !len_app; lens; lia]).
    lens. rewrite lim_val in *.
    rewrite (szok_eq _ _ Hks) by (rewrite lim_val; lia). rewrite (szok_eq _ _ Hvs) by (rewrite lim_val; lia).
    (* the element size *)
    match goal with |- context [w64 ?E] => assert (HE : E = len (ock ++ ocv)); [|rewrite HE; clear HE] end.
    { rewrite len_app. subst ock ocv keyTag valTag. unfold opt_chunk, chunk, pfx, kf_emb.
      destruct kp as [|x kp']; destruct vp as [|y vp'];
        repeat match goal with |- context [len (?a :: ?l) >? 0] =>
          replace (len (a :: l) >? 0) with true by (pose proof (len_pos_cons a l); lia) end;
        rewrite ?len_nil; cbn [Z.gtb Z.compare]; rewrite ?len_app;
        repeat match goal with |- context [proto_sizeOfVarint (len ?l)] =>
          rewrite (sizeOfVarint_len (len l)) by (unfold u64; lia); rewrite (w64_small (len l)) by lia end;
        destruct (negb (Z.land kf proto_embedded =? 0)); destruct (negb (Z.land vf proto_embedded =? 0));
        rewrite ?len_nil; lia. }
    rewrite copy_at_ok by (subst mapTag; lia). cbn [rbind]. rewrite Z.ltb_irrefl.
    subst mapTag. set (tg := tagb number proto_varlen) in *.
    set (w1 := skipn (length tg) w). assert (Hw1 : len w1 = len w - len tg) by (apply len_skipn; lia).
    rewrite <- len_app.
    unfold pfx in Hl, Hlim. cbv iota in Hl, Hlim.
    set (pf := varint (w64 (len (ock ++ ocv)))) in *. pose proof (PrimProofs.len_nonneg _ pf).
    rewrite (in_from_writes _ pf (out ++ tg) w1)
      by (try (subst pf; apply writes_varint, w64_range); lia).
    cbn [rbind]. rewrite <- len_app.
    set (w2 := skipn (length pf) w1). assert (Hw2 : len w2 = len w1 - len pf) by (apply len_skipn; lia).
    change (negb (Z.land kf proto_embedded =? 0)) with (kf_emb kf). change (negb (Z.land vf proto_embedded =? 0)) with (kf_emb vf).
    unfold keyTag, valTag.
    rewrite (map_part_writes 1 (wire kc) (kf_emb kf) kc k kp (len kp) ((out ++ tg) ++ pf) w2 false);
      [| intros; apply Hke; lia | reflexivity | rewrite lim_val; lia | fold ock; lia].
    cbn [rbind]. fold ock.
    set (w3 := skipn (length ock) w2). assert (Hw3 : len w3 = len w2 - len ock) by (apply len_skipn; lia).
    rewrite (map_part_writes 2 (wire vc) (kf_emb vf) vc v vp (len vp) (((out ++ tg) ++ pf) ++ ock) w3 true);
      [| intros; apply Hve; lia | reflexivity | rewrite lim_val; lia | fold ocv; lia].
    cbn [rbind]. fold ocv. unfold chunk, entry_enc, pfx. cbn [fst snd]. fold kp vp ock ocv pf tg.
    subst w3 w2 w1. rewrite <- !skipn_len_app, <- !app_assoc. reflexivity.
  Qed.

  Lemma map_go_writes : forall es out w, 0 < len out -> Forall entry_ok es ->
    len (flat_map ch es) <= len w -> len (flat_map ch es) < lim ->
    map_go encode kf vf kc vc keyTag valTag zero mapTag es (len out) (out ++ w) =
    Ok (len (out ++ flat_map ch es), None, (out ++ flat_map ch es) ++ skipn (length (flat_map ch es)) w).
  Proof.
    induction es as [|kv er IH]; intros out w Ho HF Hl Hlim.
    - cbn. replace (len out =? 0) with false by lia. rewrite app_nil_r. reflexivity.
    - inversion HF as [|x l H1 H2]; subst x l. cbn [flat_map] in *. rewrite len_app in Hl, Hlim. lens.
      rewrite map_step_writes by (try assumption; lia).
      assert (Hw' : len (skipn (length (ch kv)) w) = len w - len (ch kv)) by (apply len_skipn; lia).
      rewrite IH; [| rewrite len_app; lia | assumption | lia | lia].
      rewrite <- !skipn_len_app, <- !app_assoc. reflexivity.
  Qed.

  Lemma map_writes es w : Forall entry_ok es ->
    len (map_enc enc number kf vf kc vc es) <= len w -> len (map_enc enc number kf vf kc vc es) < lim ->
    map_go encode kf vf kc vc keyTag valTag zero mapTag es 0 w =
    Ok (len (map_enc enc number kf vf kc vc es), None,
        map_enc enc number kf vf kc vc es ++ skipn (length (map_enc enc number kf vf kc vc es)) w).
  Proof.
    intros HF Hl Hlim. destruct es as [|kv er].
    - cbn [map_go map_enc] in *. cbn [Z.eqb]. fold zero in Hl |- *.
      rewrite copy_at_0 by lia. cbn [rbind]. rewrite Z.ltb_irrefl. reflexivity.
    - unfold map_enc in *. fold ch in Hl, Hlim |- *. inversion HF as [|x l H1 H2]; subst x l.
      cbn [flat_map] in *. rewrite len_app in Hl, Hlim. lens.
      pose proof (map_step_writes kv er [] w H1 ltac:(lia) ltac:(lia)) as HS. cbn [app] in HS.
      change (len []) with 0 in HS. rewrite HS.
      assert (Hw' : len (skipn (length (ch kv)) w) = len w - len (ch kv)) by (apply len_skipn; lia).
      assert (Hpos : 0 < len (ch kv)).
      { subst ch. cbv beta. unfold chunk. rewrite !len_app. pose proof (varint_len_pos (tag_of number proto_varlen)). unfold tagb. lens. lia. }
      rewrite map_go_writes; [| assumption | assumption | lia | lia].
      rewrite <- !skipn_len_app. reflexivity.
  Qed.
End MapW.

(* ==================== Part 9: encode = enc ==================== *)
Lemma writes_nil (f : bytes -> eres) : (forall w, f w = ret 0 None w) -> writes f [].
Proof. intros H w _. rewrite H. reflexivity. Qed.
Lemma encode_none c b fl : encode c b None fl = ret 0 None b.
Proof. destruct c; reflexivity. Qed.
Lemma writes_message s : wfb s = true -> len s < lim ->
  writes (fun b => let size := len s in
     let vlen := proto_sizeOfVarlen size in
        if len b <? vlen then ret 0 (Some proto_ErrShortBuffer) b
        else
          let '(n, err, b) := proto_encodeVarint b (w64 size) in
          match err with
          | Some _ => ret n err b
          | None => rlet (_, b) <- copy_at b n s in ret vlen None b
          end) (vl s).
Proof.
  intros Hw Hs w Hl. cbv zeta. rewrite sizeOfVarlen_len by assumption.
  replace (len w <? len (vl s)) with false by lia.
  unfold vl in *. rewrite lim_val in Hs. pose proof (PrimProofs.len_nonneg _ s).
  rewrite len_app in Hl. rewrite w64_small by lia.
  rewrite encodeVarint_fits by (unfold u64; lia).
  pose proof (copy_at_ok (varint (len s)) (skipn (length (varint (len s))) w) s) as HC.
  rewrite HC by (rewrite len_skipn; lia). cbn [rbind]. unfold ret.
  rewrite <- skipn_len_app. reflexivity.
Qed.

Theorem encode_enc : forall c t, cwf c t -> forall v fl, wf_val t v = true ->
  len (enc c (Some v) fl) < lim ->
  writes (fun w => encode c w (Some v) fl) (enc c (Some v) fl).
Proof.
  induction 1 as [c t Hs | t c He H IH | n wt emb et c He H IH Hwt Hemb Hn | n kf vf kt vt Hk Hv H1 IH1 H2 IH2 Hkf Hvf Hn
                 | inl_ fs gfs Hty Hd H IH Hsh]; intros v fl Hwf Hlim.
  - (* scalars *)
    destruct c; try discriminate Hs; destruct t; try discriminate Hs; destruct v; try discriminate Hwf;
      cbn [encode enc] in *; cbn [wf_val] in Hwf; wf_split Hwf;
      try (match goal with |- writes (fun w => if ?C then _ else _) _ => destruct C; [|apply writes_nil; reflexivity] end);
      try (apply writes_varint; first [apply fu64_u64; unfold i64; lia | unfold u64; lia]);
      try (apply writes_varlen; lia);
      try (intros w Hl; unfold lift3;
           first [ destruct (encodeLE_spec z w) as (E & _ & _ & _); rewrite E by (first [unfold u32; lia | exact Hl]); reflexivity
                 | destruct (encodeLE_spec z w) as (_ & _ & E & _); rewrite E by (first [unfold u64; lia | exact Hl]); reflexivity ]).
    + (* bool *)
      intros w Hl. destruct w as [|y w]; [exact (match Hl with end) || (cbn in Hl; lia)|].
      replace (len (y :: w) =? 0) with false by (pose proof (len_pos_cons y w); lia). reflexivity.
    + (* message *)
      destruct (has fl proto_toplevel).
      * intros w Hl. replace (len w <? len s) with false by lia. rewrite copy_at_0 by lia. reflexivity.
      * apply writes_message; [assumption | lia].
  - (* pointer *)
    destruct v; try discriminate Hwf. cbn [encode]. rewrite enc_ptr_eq in *.
    destruct o as [x|]; [apply IH; assumption|].
    rewrite enc_none. apply writes_nil. intros w. apply encode_none.
  - (* slice *)
    destruct v; try discriminate Hwf. rewrite enc_slice_eq in *. intros w Hl.
    rewrite encode_slice_eq. cbv zeta.
    assert (Hw : wire_ok wt) by (subst wt; eapply wire_cwf; exact H).
    rewrite sizeOfTag_len by assumption.
    rewrite (tag_data n wt Hn Hw) by (unfold len; rewrite repeat_length; lia).
    apply (slice_writes c emb n wt Hn Hw es [] w); [|assumption|assumption].
    apply wf_slice_all in Hwf. eapply Forall_impl; [|exact Hwf]. intros e Hwe. split.
    + eapply size_enc; eassumption.
    + intros Hle. apply IH; assumption.
  - (* map *)
    destruct v; try discriminate Hwf. rewrite enc_map_eq in *. intros w Hl.
    rewrite encode_map_eq.
    assert (Hkw : wire_ok (wire (codec_of kt))) by (eapply wire_cwf; exact H1).
    assert (Hvw : wire_ok (wire (codec_of vt))) by (eapply wire_cwf; exact H2).
    rewrite (tag_data 1 (wire (codec_of kt)) ltac:(lia) Hkw [0]) by (rewrite tag1_len by (auto; lia); reflexivity).
    rewrite (tag_data 2 (wire (codec_of vt)) ltac:(lia) Hvw [0]) by (rewrite tag1_len by (auto; lia); reflexivity).
    cbv zeta.
    assert (Hmw : wire_ok proto_varlen) by (right; right; left; reflexivity).
    rewrite sizeOfTag_len by assumption.
    pose proof (writes_tag n proto_varlen Hn Hmw (repeat 0 (Z.to_nat (len (tagb n proto_varlen) + proto_zeroSize)))) as HZ.
    unfold lift3 in HZ.
    assert (HZ' : proto_encodeTag (repeat 0 (Z.to_nat (len (tagb n proto_varlen) + proto_zeroSize))) n proto_varlen =
                  (len (tagb n proto_varlen), None, tagb n proto_varlen ++ [0])).
    { specialize (HZ ltac:(unfold len at 2; rewrite repeat_length; unfold proto_zeroSize; pose proof (PrimProofs.len_nonneg _ (tagb n proto_varlen)); lia)).
      inversion HZ as [HZ1]. rewrite HZ1. do 2 f_equal.
      replace (Z.to_nat (len (tagb n proto_varlen) + proto_zeroSize)) with (length (tagb n proto_varlen) + 1)%nat
        by (unfold len, proto_zeroSize; lia).
      apply (skipn_repeat 0 (length (tagb n proto_varlen)) 1). }
    rewrite HZ'.
    replace (slice_to (tagb n proto_varlen ++ [0]) (len (tagb n proto_varlen ++ [0]) - 1)) with (tagb n proto_varlen).
    2:{ unfold slice_to. rewrite len_app. replace (len (tagb n proto_varlen) + len [0] - 1) with (len (tagb n proto_varlen)) by (change (len [0]) with 1; lia).
        rewrite to_nat_len, firstn_app_len. reflexivity. }
    apply map_writes; try assumption.
    apply wf_map_all in Hwf. eapply Forall_impl; [|exact Hwf]. intros a [Ha Hb]. split; split.
    + eapply size_enc; eassumption.
    + intros Hle. apply IH1; assumption.
    + eapply size_enc; eassumption.
    + intros Hle. apply IH2; assumption.
  - (* struct *)
    destruct v as [| | | | | |vs| | |]; try discriminate Hwf. rewrite enc_struct_eq in *. intros w Hl.
    rewrite encode_struct_eq.
    apply wf_struct_list in Hwf. rewrite <- Hty in Hwf.
    assert (HE : forall f, In f fs -> field_enc f).
    { intros f Hin x fl' Hx Hxl. apply (IH f Hin); assumption. }
    assert (HS : forall f, In f fs -> field_sz f).
    { intros f Hin x fl' Hx. eapply size_enc; [apply H, Hin | exact Hx]. }
    assert (HN : forall f, In f fs -> field_num f).
    { intros f Hin. split; [apply (fshape_facts f (Hsh f Hin)) | eapply wire_cwf; apply H, Hin]. }
    destruct (upass_of enc fs vs (struct_flags0 inl_ fl)) as [fl1 bs1] eqn:EU.
    rewrite len_app in Hl, Hlim. lens.
    pose proof (uniq_writes fs vs (struct_flags0 inl_ fl) [] w (fun flags offset b => reps_of encode fs vs flags offset b) HE HS HN Hwf) as HU.
    rewrite EU in HU. cbn [fst snd app] in HU. change (len []) with 0 in HU.
    rewrite HU by lia.
    assert (Hw' : len (skipn (length bs1) w) = len w - len bs1) by (apply len_skipn; lia).
    rewrite reps_writes; [| assumption | assumption | lia | lia].
    rewrite <- skipn_len_app. reflexivity.
Qed.

(* ==================== Part 10: the struct decoding loop on a sequence of chunks ==================== *)
(* ---------- field lookup ---------- *)
Definition nf_go (number : Z) :=
  fix go (fs : list sfield) (i : nat) (acc : option (nat * sfield)) : option (nat * sfield) :=
     match fs with
     | [] => acc
     | f :: r => go r (S i) (if sf_number f =? number then Some (i, f) else acc)
     end.
Lemma nth_field_go fields vs number : nth_field fields vs number = nf_go number fields O None.
Proof. reflexivity. Qed.
Lemma nf_go_app number l1 l2 i acc :
  nf_go number (l1 ++ l2) i acc = nf_go number l2 (i + length l1)%nat (nf_go number l1 i acc).
Proof.
  revert i acc. induction l1 as [|f r IH]; intros i acc; cbn [app length nf_go].
  - rewrite Nat.add_0_r. reflexivity.
  - rewrite IH. f_equal. lia.
Qed.
Lemma nf_go_none number l i acc : existsb (Z.eqb number) (map sf_number l) = false -> nf_go number l i acc = acc.
Proof.
  revert i acc. induction l as [|f r IH]; intros i acc H; [reflexivity|].
  cbn [map existsb] in H. apply orb_false_iff in H. destruct H as [H1 H2].
  cbn [nf_go]. rewrite Z.eqb_sym, H1. apply IH, H2.
Qed.
Lemma distinct_app_r l1 l2 : distinct (l1 ++ l2) = true -> distinct l2 = true.
Proof.
  induction l1 as [|x r IH]; [trivial|]. cbn [app distinct]. intros H.
  apply andb_true_iff in H. apply IH, H.
Qed.
Lemma nth_field_at l1 f l2 vs : distinct (map sf_number (l1 ++ f :: l2)) = true ->
  nth_field (l1 ++ f :: l2) vs (sf_number f) = Some (length l1, f).
Proof.
  intros Hd. rewrite nth_field_go, nf_go_app. cbn [nf_go]. rewrite Z.eqb_refl. cbn [Nat.add].
  apply nf_go_none. rewrite map_app in Hd. apply distinct_app_r in Hd. cbn [map distinct] in Hd.
  apply andb_true_iff in Hd. destruct Hd as [Hd _]. apply negb_true_iff in Hd. exact Hd.
Qed.
Lemma max_number_ge fields f : In f fields -> sf_number f <= max_number fields.
Proof.
  unfold max_number. assert (G : forall l m, m <= fold_left (fun m f => Z.max m (sf_number f)) l m).
  { induction l as [|a r IH]; intros m; cbn [fold_left]; [lia|]. specialize (IH (Z.max m (sf_number a))). lia. }
  assert (G2 : forall l m, In f l -> sf_number f <= fold_left (fun m f => Z.max m (sf_number f)) l m).
  { induction l as [|a r IH]; intros m Hin; [contradiction|]. cbn [fold_left]. destruct Hin as [->|Hin].
    - specialize (G r (Z.max m (sf_number f))). lia.
    - apply IH, Hin. }
  intros Hin. apply G2, Hin.
Qed.

(* ---------- the data window of one field occurrence ---------- *)
Definition framed (wt : Z) (emb : bool) (d : bytes) : Prop :=
  if emb then wt = 2
  else (wt = 0 /\ exists x, u64 x /\ d = varint x) \/ (wt = 5 /\ len d = 4) \/ (wt = 1 /\ len d = 8) \/
       (wt = 2 /\ exists s, d = vl s).

Lemma slice_at (pre d rest : bytes) o : o = len pre -> slice (pre ++ d ++ rest) o (o + len d) = d.
Proof. intros ->. apply slice_mid. Qed.

Section Step.
  Variable dec : codec -> bytes -> val -> Z -> dres.
  Variable fields : list sfield.
  Variable flags : Z.

  Lemma win_of_chunk b pre f d rest :
    b = pre ++ pfx (sf_embedded f) d ++ d ++ rest -> len b < lim ->
    framed (wire (sf_codec f)) (sf_embedded f) d ->
    exists lo hi off',
      win_of b (wire (sf_codec f)) (len pre) (slice_from b (len pre)) f = Ok (Some (lo, hi), off', None) /\
      0 <= lo <= hi /\ hi <= len b /\ slice b lo hi = d /\ off' + len d = len pre + len (pfx (sf_embedded f) d ++ d).
  Proof.
    intros Hb Hlim Hfr. rewrite lim_val in Hlim. unfold win_of, framed in *.
    assert (Hsf : slice_from b (len pre) = pfx (sf_embedded f) d ++ d ++ rest) by (rewrite Hb; apply slice_from_app).
    rewrite Hsf. assert (Hlb : len b = len pre + len (pfx (sf_embedded f) d) + len d + len rest) by (rewrite Hb, !len_app; lia).
    pose proof (PrimProofs.len_nonneg _ pre). pose proof (PrimProofs.len_nonneg _ d). pose proof (PrimProofs.len_nonneg _ rest).
    pose proof (PrimProofs.len_nonneg _ (pfx (sf_embedded f) d)).
    destruct (sf_embedded f) eqn:Eemb; unfold pfx in *; lazy iota in *.
    - (* embedded *)
      rewrite Hfr. cbn [Z.eqb]. unfold proto_varint, proto_varlen. cbn [Z.eqb Pos.eqb].
      assert (Hwd : w64 (len d) = len d) by (apply w64_small; lia). rewrite Hwd in *.
      rewrite decodeVarint_encode by (unfold u64; lia).
      rewrite w64_small by lia. replace (len d >? len b - (len pre + len (varint (len d)))) with false by lia.
      rewrite s64_small by lia.
      exists (len pre + len (varint (len d))), (len pre + len (varint (len d)) + len d), (len pre + len (varint (len d))).
      split; [reflexivity|]. split; [lia|]. split; [lia|]. split; [|rewrite !len_app; lia].
      rewrite Hb. rewrite app_assoc. rewrite <- len_app. apply slice_mid.
    - cbn [app] in *. rewrite len_nil in *.
      destruct Hfr as [[Hw (x & Hx & Hd)] | [[Hw Hd] | [[Hw Hd] | [Hw (s & Hd)]]]]; rewrite Hw;
        unfold proto_varint, proto_varlen, proto_fixed32, proto_fixed64; cbn [Z.eqb Pos.eqb].
      + subst d. rewrite decodeVarint_encode by assumption.
        exists (len pre), (len pre + len (varint x)), (len pre). split; [reflexivity|]. split; [lia|]. split; [lia|].
        split; [|lia]. rewrite Hb. apply slice_mid.
      + replace (len pre + 4 >? len b) with false by lia.
        exists (len pre), (len pre + 4), (len pre). split; [reflexivity|]. split; [lia|]. split; [lia|].
        split; [|lia]. rewrite Hb, <- Hd. apply slice_mid.
      + replace (len pre + 8 >? len b) with false by lia.
        exists (len pre), (len pre + 8), (len pre). split; [reflexivity|]. split; [lia|]. split; [lia|].
        split; [|lia]. rewrite Hb, <- Hd. apply slice_mid.
      + subst d. unfold vl in *. rewrite len_app in *. pose proof (PrimProofs.len_nonneg _ s). pose proof (PrimProofs.len_nonneg _ (varint (len s))).
        rewrite <- app_assoc. rewrite decodeVarint_encode by (unfold u64; lia).
        rewrite w64_small by lia. replace (len s >? len b - (len pre + len (varint (len s)))) with false by lia.
        rewrite s64_small by lia.
        exists (len pre), (len pre + len (varint (len s)) + len s), (len pre). split; [reflexivity|]. split; [lia|]. split; [lia|].
        split; [|lia]. rewrite Hb. replace (len pre + len (varint (len s)) + len s) with (len pre + len (varint (len s) ++ s)) by (rewrite len_app; lia).
        apply slice_mid.
  Qed.

  (* one loop iteration consumes one chunk *)
  Lemma sbody_chunk b pre f i d rest vs newf rec :
    b = pre ++ chunk (sf_number f) (wire (sf_codec f)) (sf_embedded f) d ++ rest -> len b < lim ->
    nth_field fields vs (sf_number f) = Some (i, f) -> In f fields ->
    field_num f ->
    framed (wire (sf_codec f)) (sf_embedded f) d ->
    dec (sf_codec f) d (nth i vs (zero_val (sf_ty f))) (make_flags f flags) = Ok (len d, None, newf) ->
    sbody dec fields b flags (max_number fields) rec (len pre) vs =
    rec (len pre + len (chunk (sf_number f) (wire (sf_codec f)) (sf_embedded f) d)) (set_nth vs i newf).
  Proof.
    intros Hb Hlim Hnf Hin [Hn Hw] Hfr Hdec. unfold sbody.
    pose proof (max_number_ge fields f Hin) as Hmax.
    set (tg := tagb (sf_number f) (wire (sf_codec f))) in *.
    assert (Hb' : b = pre ++ tg ++ pfx (sf_embedded f) d ++ d ++ rest) by (rewrite Hb; unfold chunk; rewrite <- !app_assoc; reflexivity).
    pose proof (PrimProofs.len_nonneg _ pre). pose proof (varint_len_pos (tag_of (sf_number f) (wire (sf_codec f)))) as Htg. fold (tagb (sf_number f) (wire (sf_codec f))) in Htg. fold tg in Htg.
    assert (Hlb : len b = len pre + len tg + len (pfx (sf_embedded f) d ++ d ++ rest)) by (rewrite Hb', !len_app; lia).
    pose proof (PrimProofs.len_nonneg _ (pfx (sf_embedded f) d ++ d ++ rest)).
    replace (negb (len pre <? len b)) with false by lia.
    rewrite cfrom_ok by lia. cbn [rbind].
    rewrite Hb' at 1. rewrite slice_from_app.
    assert (Ht : proto_decodeTag (tg ++ pfx (sf_embedded f) d ++ d ++ rest) =
                 (sf_number f, wire (sf_codec f), len tg, None)).
    { apply (tag_spec (sf_number f) (wire (sf_codec f)) []); unfold wire_ok in Hw; lia. }
    rewrite Ht.
    replace ((0 <=? sf_number f) && (sf_number f <? max_number fields + 1) && (sf_number f <? 2 ^ 63)) with true by lia.
    rewrite Hnf. unfold sknown. rewrite Z.eqb_refl. cbn [negb].
    rewrite cfrom_ok by lia. cbn [rbind].
    destruct (win_of_chunk b (pre ++ tg) f d rest) as (lo & hi & off' & Hwin & Hlo & Hhi & Hsl & Hoff);
      [rewrite Hb', <- app_assoc; reflexivity | assumption | assumption |].
    rewrite len_app in Hwin, Hoff. rewrite Hwin. cbn [rbind].
    rewrite cslice_ok by lia. cbn [rbind]. rewrite Hsl, Hdec. cbn [rbind].
    f_equal. unfold chunk. fold tg. rewrite len_app. lia.
  Qed.

  (* a sequence of chunks, with the state they lead to *)
  Inductive steps : list val -> bytes -> list val -> Prop :=
  | steps_nil vs : steps vs [] vs
  | steps_cons vs i f d newf bs vs' :
      nth_field fields vs (sf_number f) = Some (i, f) -> In f fields -> field_num f ->
      framed (wire (sf_codec f)) (sf_embedded f) d ->
      dec (sf_codec f) d (nth i vs (zero_val (sf_ty f))) (make_flags f flags) = Ok (len d, None, newf) ->
      steps (set_nth vs i newf) bs vs' ->
      steps vs (chunk (sf_number f) (wire (sf_codec f)) (sf_embedded f) d ++ bs) vs'.

  Lemma steps_app vs bs1 vs1 bs2 vs2 : steps vs bs1 vs1 -> steps vs1 bs2 vs2 -> steps vs (bs1 ++ bs2) vs2.
  Proof.
    induction 1 as [vs | vs i f d newf bs vs' H1 H2 H3 H4 H5 H6 IH]; intros Hs; [exact Hs|].
    rewrite <- app_assoc. eapply steps_cons; try eassumption. apply IH, Hs.
  Qed.

  Lemma sloop_steps vs bs vs' : steps vs bs vs' -> forall pre fuel,
    len (pre ++ bs) < lim -> (length bs + 1 <= fuel)%nat ->
    sloop dec fields (pre ++ bs) flags (max_number fields) fuel (len pre) vs = Ok (len (pre ++ bs), None, VStruct vs').
  Proof.
    induction 1 as [vs | vs i f d newf bs vs' H1 H2 H3 H4 H5 H6 IH]; intros pre fuel Hlim Hfuel;
      (destruct fuel as [|k]; [lia|]).
    - change (sloop dec fields (pre ++ []) flags (max_number fields) (S k) (len pre) vs)
        with (sbody dec fields (pre ++ []) flags (max_number fields) (sloop dec fields (pre ++ []) flags (max_number fields) k) (len pre) vs).
      unfold sbody. rewrite app_nil_r. replace (negb (len pre <? len pre)) with true by lia. reflexivity.
    - set (ch := chunk (sf_number f) (wire (sf_codec f)) (sf_embedded f) d) in *.
      change (sloop dec fields (pre ++ ch ++ bs) flags (max_number fields) (S k) (len pre) vs)
        with (sbody dec fields (pre ++ ch ++ bs) flags (max_number fields) (sloop dec fields (pre ++ ch ++ bs) flags (max_number fields) k) (len pre) vs).
      rewrite (sbody_chunk (pre ++ ch ++ bs) pre f i d bs vs newf); try assumption; try reflexivity.
      fold ch. rewrite <- len_app.
      assert (Hch : (1 <= length ch)%nat).
      { subst ch. unfold chunk, tagb. destruct (varint_cons (tag_of (sf_number f) (wire (sf_codec f)))) as (x & r & ->). cbn. lia. }
      replace (pre ++ ch ++ bs) with ((pre ++ ch) ++ bs) in * by (rewrite <- app_assoc; reflexivity).
      apply IH; [assumption|]. rewrite app_length in Hfuel. lia.
  Qed.
End Step.

(* ==================== Part 11: empty encodings ==================== *)
(* ---------- more flag facts ---------- *)
Definition ptr_flags (fl : Z) : Z := with_ (without fl proto_inline) proto_wantzero.
Lemma frange_ptr fl : frange fl -> frange (ptr_flags fl).
Proof. unfold frange, ptr_flags. intros H. fl_enum fl; vm_compute; split; congruence. Qed.
Lemma has_ptr_wz fl : frange fl -> has (ptr_flags fl) proto_wantzero = true.
Proof. unfold frange, ptr_flags. intros H. fl_enum fl; reflexivity. Qed.
Lemma has_ptr_tl fl : frange fl -> has (ptr_flags fl) proto_toplevel = has fl proto_toplevel.
Proof. unfold frange, ptr_flags. intros H. fl_enum fl; reflexivity. Qed.
Lemma frange_struct inl_ fl : frange fl -> frange (struct_flags0 inl_ fl).
Proof. unfold frange, struct_flags0. intros H. destruct inl_; fl_enum fl; vm_compute; split; congruence. Qed.
Lemma has_struct_wz inl_ fl : frange fl -> has (struct_flags0 inl_ fl) proto_wantzero = has fl proto_wantzero.
Proof. unfold frange, struct_flags0. intros H. destruct inl_; fl_enum fl; reflexivity. Qed.
Lemma has_struct_tl inl_ fl : frange fl -> has (struct_flags0 inl_ fl) proto_toplevel = false.
Proof. unfold frange, struct_flags0. intros H. destruct inl_; fl_enum fl; reflexivity. Qed.
Lemma frange_mkfl sf fl : 0 <= sf < 8 -> frange fl -> frange (mkfl sf fl).
Proof. unfold frange, mkfl. intros Hs H. sf_enum sf; fl_enum fl; vm_compute; split; congruence. Qed.
Lemma has_mkfl_wz sf fl : 0 <= sf < 8 -> frange fl -> has (mkfl sf fl) proto_wantzero = has fl proto_wantzero.
Proof. unfold frange, mkfl. intros Hs H. sf_enum sf; fl_enum fl; reflexivity. Qed.
Lemma has_mkfl_tl sf fl : 0 <= sf < 8 -> frange fl -> has (mkfl sf fl) proto_toplevel = has fl proto_toplevel.
Proof. unfold frange, mkfl. intros Hs H. sf_enum sf; fl_enum fl; reflexivity. Qed.
Lemma frange_nowz fl : frange fl -> frange (without fl proto_wantzero).
Proof. unfold frange. intros H. fl_enum fl; vm_compute; split; congruence. Qed.
Lemma has_nowz_tl fl : frange fl -> has (without fl proto_wantzero) proto_toplevel = has fl proto_toplevel.
Proof. unfold frange. intros H. fl_enum fl; reflexivity. Qed.

(* ---------- the shape of a field, from [fshape] ---------- *)
Lemma fshape_kind f : fshape f = true ->
  match sf_ty f with
  | TSlice et => sf_repeated f = true /\ sf_embedded f = is_struct (base_ty et)
  | TMap _ _ => sf_repeated f = true /\ sf_embedded f = true
  | t => sf_repeated f = false /\ sf_embedded f = is_struct (base_ty t)
  end.
Proof.
  destruct f as [num ts fl t c]. unfold sf_repeated, sf_embedded. cbn [fshape sf_ty sf_flags].
  intros H. apply andb_true_iff in H. destruct H as [_ H].
  destruct t; repeat (apply andb_true_iff in H; destruct H as [H ?]);
    repeat match goal with H : Bool.eqb _ _ = true |- _ => apply eqb_prop in H end; split; try lia; try congruence.
  all: try (rewrite <- H0; reflexivity).
Qed.

(* ---------- empty encodings ---------- *)

Lemma vl_ne s : vl s <> [].
Proof. unfold vl. destruct (varint_cons (len s)) as (x & r & ->). discriminate. Qed.
Lemma varint_ne v : varint v <> [].
Proof. destruct (varint_cons v) as (x & r & ->). discriminate. Qed.
Lemma chunk_ne num wt emb p : chunk num wt emb p <> [].
Proof. unfold chunk, tagb. destruct (varint_cons (tag_of num wt)) as (x & r & ->). discriminate. Qed.

Lemma upass_nil : forall fs vs flags, wf_list (map sf_ty fs) vs ->
  snd (upass_of enc fs vs flags) = [] ->
  fst (upass_of enc fs vs flags) = flags /\
  Forall2 (fun f v => sf_repeated f = false -> enc (sf_codec f) (Some v) (make_flags f flags) = []) fs vs.
Proof.
  induction fs as [|f fr IH]; intros vs flags Hwf H; inversion Hwf as [|t0 v ts0 vr Hv Hvr]; subst.
  - split; [reflexivity | constructor].
  - cbn [upass_of] in *. destruct (sf_repeated f) eqn:Er.
    + destruct (IH vr flags Hvr H) as [I1 I2]. split; [exact I1|]. constructor; [congruence | exact I2].
    + cbv zeta in *. destruct (enc (sf_codec f) (Some v) (make_flags f flags)) as [|x p] eqn:Ep.
      * destruct (IH vr flags Hvr H) as [I1 I2]. split; [exact I1|]. constructor; [intros _; exact Ep | exact I2].
      * exfalso. destruct (upass_of enc fr vr (without flags proto_wantzero)) as [fl' bs]. cbn [snd] in H.
        apply app_eq_nil in H. destruct H as [H _]. exact (chunk_ne _ _ _ _ H).
Qed.
Lemma rpass_nil : forall fs vs flags, wf_list (map sf_ty fs) vs ->
  rpass_of enc fs vs flags = [] ->
  Forall2 (fun f v => sf_repeated f = true -> enc (sf_codec f) (Some v) (make_flags f flags) = []) fs vs.
Proof.
  induction fs as [|f fr IH]; intros vs flags Hwf H; inversion Hwf as [|t0 v ts0 vr Hv Hvr]; subst.
  - constructor.
  - cbn [rpass_of] in *. destruct (sf_repeated f) eqn:Er; cbn [negb] in H.
    + cbv zeta in H. apply app_eq_nil in H. destruct H as [H1 H2]. rewrite H1 in H2.
      constructor; [intros _; exact H1 | apply IH; assumption].
    + constructor; [congruence | apply IH; assumption].
Qed.
Lemma struct_enc_nil inl_ fs vs fl : wf_list (map sf_ty fs) vs ->
  enc (CStruct inl_ fs) (Some (VStruct vs)) fl = [] ->
  Forall2 (fun f v => enc (sf_codec f) (Some v) (make_flags f (struct_flags0 inl_ fl)) = []) fs vs.
Proof.
  intros Hwf H. rewrite enc_struct_eq in H.
  destruct (upass_of enc fs vs (struct_flags0 inl_ fl)) as [fl1 bs1] eqn:EU.
  apply app_eq_nil in H. destruct H as [H1 H2]. subst bs1.
  destruct (upass_nil fs vs (struct_flags0 inl_ fl) Hwf) as [I1 I2]; [rewrite EU; reflexivity|].
  rewrite EU in I1. cbn [fst] in I1. subst fl1.
  pose proof (rpass_nil fs vs _ Hwf H2) as I3.
  clear -I2 I3. induction I2 as [|f v fr vr Hu I2 IH]; inversion I3 as [|? ? ? ? Hr I3']; subst; constructor.
  - destruct (sf_repeated f); [apply Hr | apply Hu]; reflexivity.
  - apply IH, I3'.
Qed.

Lemma F2_fields (R Q : sfield -> val -> Prop) : forall fs vs, wf_list (map sf_ty fs) vs -> Forall2 R fs vs ->
  (forall f v, In f fs -> wf_val (sf_ty f) v = true -> R f v -> Q f v) -> Forall2 Q fs vs.
Proof.
  induction fs as [|f fr IH]; intros vs Hwf HR HQ; inversion HR as [|? v ? vr Hv HR']; subst; [constructor|].
  inversion Hwf as [|? ? ? ? Hwv Hwr]; subst. constructor.
  - apply HQ; [left; reflexivity | exact Hwv | exact Hv].
  - apply IH; [exact Hwr | exact HR' | intros g x Hg; apply HQ; right; exact Hg].
Qed.
Lemma F2_forallb (p : val -> bool) (fs : list sfield) vs : Forall2 (fun _ v => p v = true) fs vs -> forallb p vs = true.
Proof. induction 1 as [|f v fr vr H1 H2 IH]; [reflexivity|]. cbn [forallb]. rewrite H1, IH. reflexivity. Qed.

Lemma enc_empty_wz : forall c t, cwf c t -> forall v fl, wf_val t v = true -> frange fl ->
  has fl proto_wantzero = true -> enc c (Some v) fl = [] ->
  empty_enc v = true \/ (has fl proto_toplevel = true /\ top_raw_empty v = true).
Proof.
  induction 1 as [c t Hs | t c He H IH | n wt emb et c He H IH Hwt Hemb Hn | n kf vf kt vt Hk Hv H1 IH1 H2 IH2 Hkf Hvf Hn
                 | inl_ fs gfs Hty Hd H IH Hsh]; intros v fl Hwf Hfr Hwz He0.
  - destruct c; try discriminate Hs; destruct t; try discriminate Hs; destruct v; try discriminate Hwf;
      cbn [enc] in He0; rewrite ?Hwz in He0; rewrite ?orb_true_r in He0; cbn [orb] in He0;
      try discriminate He0; try (exfalso; exact (varint_ne _ He0)); try (exfalso; exact (vl_ne _ He0)).
    destruct (has fl proto_toplevel); [|exfalso; exact (vl_ne _ He0)].
    right. subst s. split; reflexivity.
  - (* pointer *)
    destruct v as [| | | | |o| | | |]; try discriminate Hwf. rewrite enc_ptr_eq in He0. fold (ptr_flags fl) in He0.
    destruct o as [x|]; [|left; reflexivity].
    destruct (IH x (ptr_flags fl) Hwf (frange_ptr fl Hfr) (has_ptr_wz fl Hfr) He0) as [Hx | [Ht Hx]].
    + left. cbn [empty_enc]. destruct x; try discriminate Hx; try exact Hx.
      exfalso. destruct t; try discriminate Hwf. discriminate He.
    + right. rewrite has_ptr_tl in Ht by assumption. split; [exact Ht | exact Hx].
  - (* slice *)
    destruct v as [| | | | | | |es| |]; try discriminate Hwf. rewrite enc_slice_eq in He0.
    destruct es as [|e r]; [left; reflexivity|]. exfalso. cbn [slice_enc flat_map] in He0.
    apply app_eq_nil in He0. destruct He0 as [He0 _]. exact (chunk_ne _ _ _ _ He0).
  - (* map *)
    destruct v as [| | | | | | | |nn es|]; try discriminate Hwf. rewrite enc_map_eq in He0. exfalso.
    destruct es as [|e r]; cbn [map_enc flat_map] in He0.
    + apply app_eq_nil in He0. destruct He0 as [_ He0]. discriminate.
    + apply app_eq_nil in He0. destruct He0 as [He0 _]. exact (chunk_ne _ _ _ _ He0).
  - (* struct *)
    destruct v as [| | | | | |vs| | |]; try discriminate Hwf. left.
    apply wf_struct_list in Hwf. rewrite <- Hty in Hwf.
    pose proof (struct_enc_nil inl_ fs vs fl Hwf He0) as HF. cbn [empty_enc].
    apply (F2_forallb empty_enc fs). eapply F2_fields; [exact Hwf | exact HF |].
    intros f v Hin Hwv Hv. cbv beta in Hv.
    destruct (fshape_facts f (Hsh f Hin)) as (_ & Hfl & _).
    rewrite make_flags_mkfl in Hv.
    destruct (IH f Hin v _ Hwv (frange_mkfl _ _ Hfl (frange_struct inl_ fl Hfr))) as [Hx | [Ht _]]; [| exact Hv | exact Hx |].
    + rewrite has_mkfl_wz, has_struct_wz by (try apply frange_struct; assumption). exact Hwz.
    + rewrite has_mkfl_tl, has_struct_tl in Ht by (try apply frange_struct; assumption). discriminate.
Qed.

(* ==================== Part 12: omitted fields, framing ==================== *)
Lemma F2_fields_p (p : val -> bool) (R Q : sfield -> val -> Prop) : forall fs vs,
  wf_list (map sf_ty fs) vs -> forallb p vs = true -> Forall2 R fs vs ->
  (forall f v, In f fs -> wf_val (sf_ty f) v = true -> p v = true -> R f v -> Q f v) -> Forall2 Q fs vs.
Proof.
  induction fs as [|f fr IH]; intros vs Hwf Hp HR HQ; inversion HR as [|? v ? vr Hv HR']; subst; [constructor|].
  inversion Hwf as [|? ? ? ? Hwv Hwr]; subst. cbn [forallb] in Hp. apply andb_true_iff in Hp. destruct Hp as [Hp1 Hp2].
  constructor.
  - apply HQ; [left; reflexivity | exact Hwv | exact Hp1 | exact Hv].
  - apply IH; [exact Hwr | exact Hp2 | exact HR' | intros g x Hg; apply HQ; right; exact Hg].
Qed.
Lemma zero_struct gfs : zero_val (TStruct gfs) = VStruct (map zero_val (map field_ty gfs)).
Proof.
  cbn [zero_val]. f_equal. induction gfs as [|[e tg ft] r IH]; [reflexivity|]. cbn [map field_ty]. rewrite <- IH. reflexivity.
Qed.
Lemma F2_norm_zero fs vs : Forall2 (fun f v => norm v = norm (zero_val (sf_ty f))) fs vs ->
  map norm vs = map norm (map zero_val (map sf_ty fs)).
Proof. induction 1 as [|f v fr vr H1 H2 IH]; [reflexivity|]. cbn [map]. rewrite H1, IH. reflexivity. Qed.

Lemma all_zero_repeat s : all_zero s = true -> s = repeat 0 (length s).
Proof.
  induction s as [|x r IH]; [reflexivity|]. cbn [all_zero forallb length repeat]. intros H.
  apply andb_true_iff in H. destruct H as [H1 H2]. apply Z.eqb_eq in H1. subst x. f_equal. apply IH, H2.
Qed.
Lemma f32_zero z : 0 <= z < 2 ^ 32 -> f32_nonzero z = false -> f32_signbit z = false -> z = 0.
Proof.
  unfold f32_nonzero, f32_signbit. intros Hr H1 H2. apply negb_false_iff in H1. apply Z.eqb_eq in H1.
  change 2147483647 with (Z.ones 31) in H1. rewrite Z.land_ones in H1 by lia.
  change (2 ^ 31) with 2147483648 in H1. Z.div_mod_to_equations. lia.
Qed.
Lemma f64_zero z : 0 <= z < 2 ^ 64 -> f64_nonzero z = false -> f64_signbit z = false -> z = 0.
Proof.
  unfold f64_nonzero, f64_signbit. intros Hr H1 H2. apply negb_false_iff in H1. apply Z.eqb_eq in H1.
  change 9223372036854775807 with (Z.ones 63) in H1. rewrite Z.land_ones in H1 by lia.
  change (2 ^ 63) with 9223372036854775808 in H1. Z.div_mod_to_equations. lia.
Qed.

(* an omitted field is the zero value, up to nil-versus-empty *)
Lemma enc_nil_norm : forall c t, cwf c t -> forall v fl, wf_val t v = true -> representable v = true -> frange fl ->
  (has fl proto_toplevel = false \/ top_ok v = true) -> enc c (Some v) fl = [] -> norm v = norm (zero_val t).
Proof.
  induction 1 as [c t Hs | t c He H IH | n wt emb et c He H IH Hwt Hemb Hn | n kf vf kt vt Hk Hv H1 IH1 H2 IH2 Hkf Hvf Hn
                 | inl_ fs gfs Hty Hd H IH Hsh]; intros v fl Hwf Hrep Hfr Htl He0.
  - destruct c; try discriminate Hs; destruct t; try discriminate Hs; destruct v; try discriminate Hwf;
      cbn [enc] in He0; cbn [wf_val] in Hwf; wf_split Hwf;
      try (destruct (z =? 0) eqn:E; [apply Z.eqb_eq in E; subst z; reflexivity |
           cbn [negb orb] in He0; exfalso; first [exact (varint_ne _ He0) | discriminate He0]]).
    + destruct b; [discriminate | reflexivity].
    + destruct (f32_nonzero z) eqn:E1; [discriminate|]. destruct (has fl proto_wantzero); [discriminate|].
      destruct (f32_signbit z) eqn:E2; [discriminate|]. rewrite (f32_zero z) by (assumption || lia). reflexivity.
    + destruct (f64_nonzero z) eqn:E1; [discriminate|]. destruct (has fl proto_wantzero); [discriminate|].
      destruct (f64_signbit z) eqn:E2; [discriminate|]. rewrite (f64_zero z) by (assumption || lia). reflexivity.
    + destruct (len s =? 0) eqn:E; [|exfalso; exact (vl_ne _ He0)]. apply Z.eqb_eq, len_0_nil in E. subst s. reflexivity.
    + destruct nonnil; [exfalso; exact (vl_ne _ He0)|]. cbn [orb] in *.
      assert (E : len s = 0) by lia. apply len_0_nil in E. subst s. reflexivity.
    + destruct (has fl proto_wantzero); [exfalso; exact (vl_ne _ He0)|]. cbn [orb] in He0.
      destruct (all_zero s) eqn:E; [|exfalso; exact (vl_ne _ He0)].
      cbn [scalar_ct] in Hs. apply Nat.eqb_eq in Hs. subst n0. cbn [norm zero_val]. f_equal.
      rewrite (all_zero_repeat s E). f_equal. unfold len in *. lia.
    + destruct (has fl proto_toplevel); [|exfalso; exact (vl_ne _ He0)]. subst s. reflexivity.
  - destruct v as [| | | | |o| | | |]; try discriminate Hwf. destruct o as [x|]; [|reflexivity]. exfalso.
    rewrite enc_ptr_eq in He0. fold (ptr_flags fl) in He0.
    cbn [representable] in Hrep. apply andb_true_iff in Hrep. destruct Hrep as [Hr1 Hr2].
    destruct (enc_empty_wz c t H x (ptr_flags fl) Hwf (frange_ptr fl Hfr) (has_ptr_wz fl Hfr) He0) as [Hx | [Ht Hx]].
    + rewrite Hx in Hr1. discriminate.
    + rewrite has_ptr_tl in Ht by assumption. destruct Htl as [Htl|Htl]; [congruence|].
      cbn [top_ok] in Htl. rewrite Hx in Htl. discriminate.
  - destruct v as [| | | | | | |es| |]; try discriminate Hwf. rewrite enc_slice_eq in He0.
    destruct es as [|e r]; [reflexivity|]. exfalso. cbn [slice_enc flat_map] in He0.
    apply app_eq_nil in He0. destruct He0 as [He0 _]. exact (chunk_ne _ _ _ _ He0).
  - destruct v as [| | | | | | | |nn es|]; try discriminate Hwf. rewrite enc_map_eq in He0. exfalso.
    destruct es as [|e r]; cbn [map_enc flat_map] in He0.
    + apply app_eq_nil in He0. destruct He0 as [_ He0]. discriminate.
    + apply app_eq_nil in He0. destruct He0 as [He0 _]. exact (chunk_ne _ _ _ _ He0).
  - destruct v as [| | | | | |vs| | |]; try discriminate Hwf.
    apply wf_struct_list in Hwf. rewrite <- Hty in Hwf.
    pose proof (struct_enc_nil inl_ fs vs fl Hwf He0) as HF.
    rewrite zero_struct, <- Hty. cbn [norm representable] in *. f_equal. apply F2_norm_zero.
    eapply (F2_fields_p representable); [exact Hwf | exact Hrep | exact HF |].
    intros f v Hin Hwv Hrv Hv. cbv beta in Hv.
    destruct (fshape_facts f (Hsh f Hin)) as (_ & Hfl & _).
    rewrite make_flags_mkfl in Hv.
    apply (IH f Hin v _ Hwv Hrv (frange_mkfl _ _ Hfl (frange_struct inl_ fl Hfr))); [|exact Hv].
    left. rewrite has_mkfl_tl, has_struct_tl by (try apply frange_struct; assumption). reflexivity.
Qed.

Lemma wire_struct_base : forall c t, cwf c t -> is_struct (base_ty t) = true -> wire c = 2.
Proof.
  induction 1 as [c t Hs | t c He H IH | n wt emb et c He H IH Hwt Hemb Hn | n kf vf kt vt Hk Hv H1 IH1 H2 IH2 Hkf Hvf Hn
                 | inl_ fs gfs Hty Hd H IH Hsh]; cbn [base_ty wire]; intros Hb; try discriminate Hb; try reflexivity.
  - destruct c; try discriminate Hs; destruct t; try discriminate Hs; discriminate Hb.
  - apply IH, Hb.
Qed.

Lemma enc_framed : forall c t, cwf c t -> forall v fl, elem_ty t = true -> is_struct (base_ty t) = false ->
  wf_val t v = true -> frange fl -> has fl proto_toplevel = false -> enc c (Some v) fl <> [] ->
  framed (wire c) false (enc c (Some v) fl).
Proof.
  induction 1 as [c t Hs | t c He H IH | n wt emb et c He H IH Hwt Hemb Hn | n kf vf kt vt Hk Hv H1 IH1 H2 IH2 Hkf Hvf Hn
                 | inl_ fs gfs Hty Hd H IH Hsh]; intros v fl Het Hbs Hwf Hfr Htl Hne; try discriminate Het; try discriminate Hbs.
  - unfold framed.
    destruct c; try discriminate Hs; destruct t; try discriminate Hs; destruct v; try discriminate Hwf;
      cbn [enc wire] in *; cbn [wf_val] in Hwf; wf_split Hwf;
      try (match type of Hne with (if ?C then _ else _) <> _ => destruct C; [|exfalso; apply Hne; reflexivity] end);
      unfold proto_varint, proto_fixed32, proto_fixed64, proto_varlen.
    + left. split; [reflexivity|]. exists (if b then 1 else 0). split; [unfold u64; destruct b; lia | destruct b; reflexivity].
    + left. split; [reflexivity|]. eexists; split; [|reflexivity]. apply fu64_u64; unfold i64; lia.
    + left. split; [reflexivity|]. eexists; split; [|reflexivity]. apply fu64_u64; unfold i64; lia.
    + left. split; [reflexivity|]. eexists; split; [|reflexivity]. apply fu64_u64; unfold i64; lia.
    + left. split; [reflexivity|]. eexists; split; [|reflexivity]. unfold u64; lia.
    + left. split; [reflexivity|]. eexists; split; [|reflexivity]. unfold u64; lia.
    + left. split; [reflexivity|]. eexists; split; [|reflexivity]. unfold u64; lia.
    + right; left. split; reflexivity.
    + right; right; left. split; reflexivity.
    + right; left. split; reflexivity.
    + right; right; left. split; reflexivity.
    + right; right; right. split; [reflexivity|]. eexists; reflexivity.
    + right; right; right. split; [reflexivity|]. eexists; reflexivity.
    + right; right; right. split; [reflexivity|]. eexists; reflexivity.
    + rewrite Htl in *. right; right; right. split; [reflexivity|]. eexists; reflexivity.
  - destruct v as [| | | | |o| | | |]; try discriminate Hwf. rewrite enc_ptr_eq in *. fold (ptr_flags fl) in *.
    destruct o as [x|]; [|exfalso; apply Hne, enc_none].
    cbn [wire base_ty] in *. apply IH; try assumption; [apply frange_ptr; assumption | rewrite has_ptr_tl; assumption].
Qed.

(* ==================== Part 13: decode (enc v) ~ v: scalars ==================== *)
Fixpoint cdepth (c : codec) : nat :=
  match c with
  | CPtr _ c' => S (cdepth c')
  | CSlice _ _ _ _ c' => S (cdepth c')
  | CMap _ _ _ _ _ kc vc => S (S (Nat.max (cdepth kc) (cdepth vc)))
  | CStruct _ fs => S ((fix go (fs : list sfield) : nat :=
                          match fs with [] => O | f :: r => Nat.max (cdepth (sf_codec f)) (go r) end) fs)
  | _ => 1%nat
  end.
Fixpoint fs_depth (fs : list sfield) : nat :=
  match fs with [] => O | f :: r => Nat.max (cdepth (sf_codec f)) (fs_depth r) end.
Lemma cdepth_struct inl_ fs : cdepth (CStruct inl_ fs) = S (fs_depth fs).
Proof. reflexivity. Qed.
Lemma fs_depth_in f fs : In f fs -> (cdepth (sf_codec f) <= fs_depth fs)%nat.
Proof. induction fs as [|a r IH]; [contradiction|]. cbn [fs_depth]. intros [->|H]; [lia | specialize (IH H); lia]. Qed.

Definition Dprop (c : codec) (t : gty) : Prop :=
  forall v ef df fuel, wf_val t v = true -> representable v = true -> keys_distinct v = true -> fl_rel ef df ->
    len (enc c (Some v) ef) < lim ->
    (enc c (Some v) ef <> [] \/ is_struct t = true) ->
    (length (enc c (Some v) ef) + cdepth c + 1 <= fuel)%nat ->
    exists r, decode fuel c (enc c (Some v) ef) (zero_val t) df = Ok (len (enc c (Some v) ef), None, r) /\ norm r = norm v.

(* exact-window forms of the primitive decoders *)
Lemma dv_exact u : u64 u -> proto_decodeVarint (varint u) = (u, len (varint u), None).
Proof. intros H. rewrite <- (app_nil_r (varint u)) at 1. apply decodeVarint_encode, H. Qed.
Lemma dl32_exact v : u32 v -> proto_decodeLE32 (le_bytes 4 v) = (v, 4, None).
Proof. intros H. rewrite <- (app_nil_r (le_bytes 4 v)). apply (decodeLE_spec v []), H. Qed.
Lemma dl64_exact v : u64 v -> proto_decodeLE64 (le_bytes 8 v) = (v, 8, None).
Proof. intros H. rewrite <- (app_nil_r (le_bytes 8 v)). apply (decodeLE_spec v []), H. Qed.
Lemma dvl_exact s : wfb s = true -> len s < lim -> proto_decodeVarlen (vl s) = (s, len (vl s), None).
Proof.
  intros Hw Hl. rewrite lim_val in Hl. unfold vl. rewrite <- (app_nil_r s) at 2. rewrite len_app.
  apply (decodeVarlen_encode s []); [assumption | lia | rewrite len_nil; lia].
Qed.

Lemma D_scalar c t : scalar_ct c t = true -> Dprop c t.
Proof.
  intros Hs v ef df fuel Hwf Hrep Hkd (Hfe & Hfd & Hzz & Htl) Hlim Hne Hfuel.
  destruct fuel as [|k]; [lia|]. clear Hfuel.
  assert (Hne' : enc c (Some v) ef <> []).
  { destruct Hne as [Hne|Hne]; [exact Hne|]. destruct c; try discriminate Hs; destruct t; try discriminate Hs; discriminate Hne. }
  clear Hne.
  destruct c; try discriminate Hs; destruct t; try discriminate Hs; destruct v; try discriminate Hwf;
    cbn [enc] in *; cbn [wf_val] in Hwf; wf_split Hwf;
    try (match type of Hne' with (if ?C then _ else _) <> _ => destruct C; [|exfalso; apply Hne'; reflexivity] end);
    cbn [decode zero_val].
  - (* bool *) exists (VBool b). split; [|reflexivity]. destruct b; reflexivity.
  - (* int *) rewrite dv_exact by (apply fu64_u64; unfold i64; lia). unfold dret.
    rewrite fi64_fu64 by (try assumption; unfold i64; lia). eexists; split; reflexivity.
  - (* int32 *) rewrite dv_exact by (apply fu64_u64; unfold i64; lia). unfold dret.
    rewrite fi64_fu64 by (try assumption; unfold i64; lia).
    replace ((z <? -2147483648) || (z >? 2147483647)) with false by lia. eexists; split; reflexivity.
  - (* int64 *) rewrite dv_exact by (apply fu64_u64; unfold i64; lia). unfold dret.
    rewrite fi64_fu64 by (try assumption; unfold i64; lia). eexists; split; reflexivity.
  - (* uint *) rewrite dv_exact by (unfold u64; lia). eexists; split; reflexivity.
  - (* uint32 *) rewrite dv_exact by (unfold u64; lia). replace (z >? 4294967295) with false by lia. eexists; split; reflexivity.
  - (* uint64 *) rewrite dv_exact by (unfold u64; lia). eexists; split; reflexivity.
  - (* fixed32 *) rewrite dl32_exact by (unfold u32; lia). eexists; split; reflexivity.
  - (* fixed64 *) rewrite dl64_exact by (unfold u64; lia). eexists; split; reflexivity.
  - (* float32 *) rewrite dl32_exact by (unfold u32; lia). eexists; split; reflexivity.
  - (* float64 *) rewrite dl64_exact by (unfold u64; lia). eexists; split; reflexivity.
  - (* string *) rewrite dvl_exact by (assumption || lia). eexists; split; reflexivity.
  - (* bytes *) rewrite dvl_exact by (assumption || lia). eexists; split; reflexivity.
  - (* byte array *)
    cbn [scalar_ct] in Hs. apply Nat.eqb_eq in Hs. subst n0.
    rewrite dvl_exact by (assumption || lia).
    assert (Hls : length s = n) by (unfold len in *; lia).
    replace (Z.min (Z.of_nat n) (len s)) with (len s) by lia.
    replace (negb (len s =? Z.of_nat n)) with false by lia.
    unfold slice_to, slice_from. rewrite to_nat_len, firstn_all, Hls.
    replace (skipn n (repeat 0 n)) with (@nil Z) by (symmetry; apply skipn_all2; rewrite repeat_length; lia).
    rewrite app_nil_r. eexists; split; reflexivity.
  - (* message *)
    rewrite <- Htl. destruct (has ef proto_toplevel).
    + eexists; split; reflexivity.
    + rewrite dvl_exact by (assumption || lia). eexists; split; reflexivity.
Qed.

(* ==================== Part 14: pointers, list state ==================== *)
Definition Dmot (c : codec) (t : gty) : Prop :=
  match c with
  | CSlice _ _ _ et c' => Dprop c' et
  | CMap _ _ _ kt vt kc vc => Dprop kc kt /\ Dprop vc vt
  | _ => Dprop c t
  end.
Lemma Dmot_elem c t : cwf c t -> elem_ty t = true -> Dmot c t -> Dprop c t.
Proof.
  intros Hc He. destruct c; try (intros H; exact H); exfalso;
    inversion Hc; subst; try discriminate He;
    match goal with H : scalar_ct _ _ = true |- _ => discriminate H end.
Qed.

Lemma D_ptr t c : Dprop c t -> Dprop (CPtr t c) (TPtr t).
Proof.
  intros IH v ef df fuel Hwf Hrep Hkd Hfl Hlim Hne Hfuel.
  destruct v as [| | | | |o| | | |]; try discriminate Hwf. rewrite enc_ptr_eq in *. fold (ptr_flags ef) in *.
  destruct Hne as [Hne|Hne]; [|discriminate Hne].
  destruct o as [x|]; [|exfalso; apply Hne, enc_none].
  destruct fuel as [|k]; [lia|]. rewrite decode_ptr_eq. cbn [zero_val].
  cbn [representable keys_distinct] in Hrep, Hkd. apply andb_true_iff in Hrep. destruct Hrep as [_ Hrep].
  destruct (IH x (ptr_flags ef) df k Hwf Hrep Hkd (fl_rel_ptr ef df Hfl) Hlim (or_introl Hne)) as (r & Hr & Hn).
  { cbn [cdepth] in Hfuel. lia. }
  rewrite Hr. cbn [rbind]. exists (VPtr (Some r)). split; [reflexivity|]. cbn [norm]. rewrite Hn. reflexivity.
Qed.

(* ---------- list state ---------- *)
Lemma nth_app_len {A} (a : list A) x b d : nth (length a) (a ++ x :: b) d = x.
Proof. rewrite app_nth2 by lia. rewrite Nat.sub_diag. reflexivity. Qed.
Lemma set_nth_app_len a x b y : set_nth (a ++ x :: b) (length a) y = a ++ y :: b.
Proof. induction a as [|z a IH]; [reflexivity|]. cbn [app length set_nth]. rewrite IH. reflexivity. Qed.

Inductive Forall3 {A B C} (R : A -> B -> C -> Prop) : list A -> list B -> list C -> Prop :=
| F3_nil : Forall3 R [] [] []
| F3_cons a b c la lb lc : R a b c -> Forall3 R la lb lc -> Forall3 R (a :: la) (b :: lb) (c :: lc).

Lemma fl_rel_2_0 : fl_rel proto_wantzero proto_noflags.
Proof. unfold fl_rel, frange. vm_compute. repeat split; congruence. Qed.

(* an element or map value with an empty encoding under wantzero is a struct *)
Lemma elem_nonempty c t v : cwf c t -> elem_ty t = true -> wf_val t v = true ->
  (match v with VPtr _ => empty_enc v | _ => false end) = false ->
  enc c (Some v) proto_wantzero <> [] \/ is_struct t = true.
Proof.
  intros Hc He Hwf Hp. destruct (enc c (Some v) proto_wantzero) as [|x p] eqn:E; [|left; discriminate].
  right. destruct (enc_empty_wz c t Hc v proto_wantzero Hwf) as [Hx | [Ht _]]; try reflexivity; try exact E;
    [unfold frange, proto_wantzero; lia | | discriminate Ht].
  destruct v; try discriminate Hx.
  - rewrite Hx in Hp. discriminate.
  - destruct t; try discriminate Hwf. reflexivity.
  - destruct t; try discriminate Hwf. discriminate He.
Qed.

(* ==================== Part 15: map entries ==================== *)
(* lia, without the boolean facts about values (ZifyBool case-splits on each of them) *)
Ltac clear_bools := repeat match goal with
  | H : ?b = true |- _ =>
      lazymatch b with (_ <? _) => fail | (_ <=? _) => fail | (_ =? _) => fail | (_ >? _) => fail | (_ >=? _) => fail | _ => clear H end
  | H : ?b = false |- _ =>
      lazymatch b with (_ <? _) => fail | (_ <=? _) => fail | (_ =? _) => fail | (_ >? _) => fail | (_ >=? _) => fail | _ => clear H end
  end.
Ltac blia := clear_bools; lia.
(* ---------- map keys ---------- *)
Definition is_key_val (k : val) : bool := match k with VBool _ | VInt _ | VStr _ => true | _ => false end.
Lemma key_shape kt k : scalar_key kt = true -> wf_val kt k = true -> is_key_val k = true.
Proof. destruct kt; try discriminate; destruct k; try discriminate; reflexivity. Qed.
Lemma scalar_key_elem kt : scalar_key kt = true -> elem_ty kt = true /\ is_struct (base_ty kt) = false.
Proof. destruct kt; try discriminate; split; reflexivity. Qed.
Lemma key_norm_inv k r : is_key_val k = true -> norm r = norm k -> r = k.
Proof. destruct k; try discriminate; destruct r as [| | | | |[?|]| | | |]; try discriminate; cbn [norm]; intros _ H; exact H. Qed.
Lemma bytes_eqb_sym a : forall b, bytes_eqb a b = bytes_eqb b a.
Proof. induction a as [|x a IH]; destruct b as [|y b]; try reflexivity. cbn [bytes_eqb]. rewrite IH, Z.eqb_sym. reflexivity. Qed.
Lemma val_eqb_sym_key a b : is_key_val a = true -> is_key_val b = true -> val_eqb a b = val_eqb b a.
Proof.
  destruct a; try discriminate; destruct b; try discriminate; try reflexivity; intros _ _; cbn [val_eqb].
  - destruct b0, b; reflexivity.
  - apply Z.eqb_sym.
  - apply bytes_eqb_sym.
Qed.
Lemma map_assign_fresh acc k v : (forall a, In a acc -> val_eqb (fst a) k = false) -> map_assign acc k v = acc ++ [(k, v)].
Proof.
  induction acc as [|[k' v'] r IH]; intros H; [reflexivity|]. cbn [map_assign app].
  pose proof (H (k', v') (or_introl eq_refl)) as H0. cbn [fst] in H0. rewrite H0. f_equal. apply IH. intros a Ha. apply H. right. exact Ha.
Qed.

(* ---------- the synthesized entry struct ---------- *)
Lemma fcodec_elem ft number : elem_ty ft = true ->
  fcodec None ft number = SField (w16 number) (w8 (proto_sizeOfTag (w16 number) (wire (codec_of ft)))) (emb_of ft) ft (codec_of ft).
Proof.
  intros He. unfold fcodec, generic_of, emb_of.
  destruct ft; try discriminate He; cbn [base_ty is_struct]; try reflexivity.
  destruct (is_struct (base_ty ft)); reflexivity.
Qed.
Definition syn_fields (kt vt : gty) : list sfield :=
  [SField 1 (w8 (proto_sizeOfTag 1 (wire (codec_of kt)))) (emb_of kt) kt (codec_of kt);
   SField 2 (w8 (proto_sizeOfTag 2 (wire (codec_of vt)))) (emb_of vt) vt (codec_of vt)].
Lemma syn_codec kt vt : elem_ty kt = true -> elem_ty vt = true ->
  codec_of (TStruct [GField true None kt; GField true None vt]) =
  CStruct (inlined_ty (TStruct [GField true None kt; GField true None vt])) (syn_fields kt vt).
Proof.
  intros Hk Hv. rewrite codec_of_struct. f_equal. cbn [cfields]. rewrite !fcodec_cons_eq.
  rewrite (fcodec_elem kt 1 Hk), (fcodec_elem vt (1 + 1) Hv). reflexivity.
Qed.
Lemma emb_of_flag t : kf_emb (emb_of t) = is_struct (base_ty t).
Proof. unfold emb_of. destruct (is_struct (base_ty t)); reflexivity. Qed.

Lemma entry_framed c t v : cwf c t -> elem_ty t = true -> wf_val t v = true ->
  enc c (Some v) proto_wantzero <> [] ->
  framed (wire c) (kf_emb (emb_of t)) (enc c (Some v) proto_wantzero).
Proof.
  intros Hc He Hwf Hne. rewrite emb_of_flag. destruct (is_struct (base_ty t)) eqn:Eb.
  - unfold framed. apply (wire_struct_base _ _ Hc Eb).
  - apply (enc_framed _ _ Hc); try assumption; [unfold frange, proto_wantzero; lia | reflexivity].
Qed.

Lemma map_entry_dec n kf vf kt vt k v nn acc fl F :
  scalar_key kt = true -> elem_ty vt = true -> cwf (codec_of kt) kt -> cwf (codec_of vt) vt ->
  kf = emb_of kt -> vf = emb_of vt -> Dprop (codec_of kt) kt -> Dprop (codec_of vt) vt ->
  wf_val kt k = true -> wf_val vt v = true -> representable v = true -> keys_distinct v = true ->
  (match v with VPtr _ => empty_enc v | _ => false end) = false ->
  len (entry_enc enc kf vf (codec_of kt) (codec_of vt) (k, v)) < lim ->
  (length (entry_enc enc kf vf (codec_of kt) (codec_of vt) (k, v)) + cdepth (CMap n kf vf kt vt (codec_of kt) (codec_of vt)) + 1 <= F)%nat ->
  exists rv, norm rv = norm v /\
    decode F (CMap n kf vf kt vt (codec_of kt) (codec_of vt)) (entry_enc enc kf vf (codec_of kt) (codec_of vt) (k, v)) (VMap nn acc) fl =
    Ok (len (entry_enc enc kf vf (codec_of kt) (codec_of vt) (k, v)), None, VMap true (map_assign acc k rv)).
Proof.
  intros Hsk Hev Hck Hcv -> -> HDk HDv Hwk Hwv Hrv Hkv Hpv Hlim Hfuel.
  destruct (scalar_key_elem kt Hsk) as [Hek Hbk].
  pose proof (key_shape kt k Hsk Hwk) as Hkey.
  unfold entry_enc in *. cbn [fst snd] in *.
  set (kc := codec_of kt) in *. set (vc := codec_of vt) in *.
  set (kp := enc kc (Some k) proto_wantzero) in *. set (vp := enc vc (Some v) proto_wantzero) in *.
  assert (Hkne : kp <> []).
  { intros E. destruct (enc_empty_wz kc kt Hck k proto_wantzero Hwk) as [Hx | [Ht _]]; [unfold frange, proto_wantzero; blia | reflexivity | exact E | destruct k; discriminate | discriminate Ht]. }
  assert (Hrk : representable k = true /\ keys_distinct k = true) by (destruct k; try discriminate Hkey; split; reflexivity).
  destruct Hrk as [Hrk Hkk].
  set (ock := opt_chunk 1 (wire kc) (kf_emb (emb_of kt)) kp) in *. set (ocv := opt_chunk 2 (wire vc) (kf_emb (emb_of vt)) vp) in *.
  assert (Hock : ock = chunk 1 (wire kc) (kf_emb (emb_of kt)) kp) by (subst ock; unfold opt_chunk; destruct kp; [contradiction | reflexivity]).
  rewrite len_app in Hlim. lens.
  assert (Hkl : len kp <= len ock) by (rewrite Hock; unfold chunk; rewrite !len_app; lens; blia).
  assert (Hvl : len vp <= len ocv) by (subst ocv; unfold opt_chunk; destruct vp; [blia | unfold chunk; rewrite !len_app; lens; blia]).
  cbn [cdepth] in Hfuel. rewrite app_length in Hfuel.
  destruct F as [|F1]; [blia|]. destruct F1 as [|F2]; [blia|].
  rewrite decode_map_eq. cbv zeta.
  assert (Hpos : 0 < len ock) by (rewrite Hock; unfold chunk, tagb; rewrite !len_app; pose proof (varint_len_pos (tag_of 1 (wire kc))); lens; blia).
  replace (len (ock ++ ocv) =? 0) with false by (rewrite len_app; blia).
  rewrite (syn_codec kt vt Hek Hev). rewrite decode_struct_eq. cbn [zero_val].
  set (f1 := SField 1 (w8 (proto_sizeOfTag 1 (wire kc))) (emb_of kt) kt kc).
  set (f2 := SField 2 (w8 (proto_sizeOfTag 2 (wire vc))) (emb_of vt) vt vc).
  change (syn_fields kt vt) with [f1; f2].
  set (df0 := without proto_noflags proto_toplevel).
  assert (Hkw : wire_ok (wire kc)) by (eapply wire_cwf; exact Hck).
  assert (Hvw : wire_ok (wire vc)) by (eapply wire_cwf; exact Hcv).
  assert (Hmf : forall t, Z.lor df0 (Z.land (emb_of t) proto_zigzag) = proto_noflags)
    by (intros t; unfold emb_of; destruct (is_struct (base_ty t)); reflexivity).
  (* key *)
  destruct (HDk k proto_wantzero proto_noflags F2 Hwk Hrk Hkk fl_rel_2_0) as (rk & Hdk & Hnk);
    [fold kp; blia | left; exact Hkne | fold kp; unfold len in *; blia |].
  fold kp in Hdk. apply (key_norm_inv k rk Hkey) in Hnk. subst rk.
  (* value *)
  assert (Hval : exists rv, norm rv = norm v /\
            steps (decode F2) [f1; f2] df0 [k; zero_val vt] ocv [k; rv]).
  { subst ocv. unfold opt_chunk. destruct vp as [|y vp'] eqn:Evp.
    - exists (zero_val vt). split; [|apply steps_nil]. symmetry.
      apply (enc_nil_norm vc vt Hcv v proto_wantzero Hwv Hrv); [unfold frange, proto_wantzero; blia | left; reflexivity | exact Evp].
    - rewrite <- Evp in *.
      destruct (HDv v proto_wantzero proto_noflags F2 Hwv Hrv Hkv fl_rel_2_0) as (rv & Hdv & Hnv);
        [fold vp; blia | left; fold vp; rewrite Evp; discriminate | fold vp; unfold len in *; blia |].
      fold vp in Hdv. exists rv. split; [exact Hnv|].
      rewrite <- (app_nil_r (chunk 2 (wire vc) (kf_emb (emb_of vt)) vp)).
      apply (steps_cons (decode F2) [f1; f2] df0 [k; zero_val vt] 1%nat f2 vp rv [] [k; rv]).
      + reflexivity.
      + right; left; reflexivity.
      + split; [cbn; blia | exact Hvw].
      + apply (entry_framed vc vt v Hcv Hev Hwv). fold vp. rewrite Evp. discriminate.
      + unfold f2, make_flags. cbn [sf_codec sf_ty sf_flags nth]. rewrite Hmf. exact Hdv.
      + apply steps_nil. }
  destruct Hval as (rv & Hnv & Hsv).
  assert (Hst : steps (decode F2) [f1; f2] df0 [zero_val kt; zero_val vt] (ock ++ ocv) [k; rv]).
  { rewrite Hock.
    apply (steps_cons (decode F2) [f1; f2] df0 [zero_val kt; zero_val vt] 0%nat f1 kp k ocv [k; rv]).
    - reflexivity.
    - left; reflexivity.
    - split; [cbn; blia | exact Hkw].
    - apply (entry_framed kc kt k Hck Hek Hwk Hkne).
    - unfold f1, make_flags. cbn [sf_codec sf_ty sf_flags nth]. rewrite Hmf. exact Hdk.
    - exact Hsv. }
  pose proof (sloop_steps (decode F2) [f1; f2] df0 _ _ _ Hst [] F2) as HL. cbn [app] in HL. change (len []) with 0 in HL.
  rewrite HL by (rewrite ?len_app, ?app_length; unfold len in *; blia).
  cbn [rbind]. exists rv. split; [exact Hnv | reflexivity].
Qed.

(* ==================== Part 16: struct fields, slices, maps, the two passes ==================== *)
Lemma fshape_cnum f : fshape f = true ->
  match sf_ty f, sf_codec f with
  | TSlice _, CSlice n _ _ _ _ => sf_number f = n
  | TMap _ _, CMap n _ _ _ _ _ _ => sf_number f = n
  | _, _ => True
  end.
Proof.
  destruct f as [num ts fl t c]. cbn [fshape sf_ty sf_codec sf_number]. intros H.
  apply andb_true_iff in H. destruct H as [_ H].
  destruct t; try exact I; destruct c; try exact I; repeat (apply andb_true_iff in H; destruct H as [H ?]); lia.
Qed.
Lemma is_struct_base t : is_struct t = true -> is_struct (base_ty t) = true.
Proof. destruct t; try discriminate; reflexivity. Qed.
Fixpoint kd_go (es : list (val * val)) : bool :=
  match es with
  | [] => true
  | (k, x) :: r => negb (existsb (fun kv => val_eqb (fst kv) k) r) && keys_distinct x && kd_go r
  end.
Lemma keys_distinct_map nn es : keys_distinct (VMap nn es) = kd_go es.
Proof. reflexivity. Qed.
Definition rep_entry (kv : val * val) : bool :=
  representable (fst kv) && representable (snd kv) && negb (match snd kv with VPtr _ => empty_enc (snd kv) | _ => false end).
Definition rep_elem (e : val) : bool := representable e && negb (match e with VPtr _ => empty_enc e | _ => false end).
Lemma chunk_empty n wt : chunk n wt true [] = tagb n wt ++ [0].
Proof. reflexivity. Qed.

Lemma cwf_slice_inv c et : cwf c (TSlice et) ->
  exists n c', c = CSlice n (wire c') (is_struct (base_ty et)) et c' /\ elem_ty et = true /\ cwf c' et.
Proof.
  intros H. inversion H as [? ? Hsc | | ? ? ? ? ? He Hc' Hwt Hemb Hn | |]; subst.
  - destruct c; discriminate Hsc.
  - eauto.
Qed.
Lemma cwf_map_inv c kt vt : cwf c (TMap kt vt) ->
  exists n, c = CMap n (emb_of kt) (emb_of vt) kt vt (codec_of kt) (codec_of vt) /\ scalar_key kt = true.
Proof.
  intros H. inversion H as [? ? Hsc | | | ? ? ? ? ? Hsk Hev Hck Hcv Hkf Hvf Hn |]; subst.
  - destruct c; discriminate Hsc.
  - eauto.
Qed.
Lemma F2_norm_map rs es : Forall2 (fun r e => norm r = norm e) rs es -> map norm rs = map norm es.
Proof. induction 1 as [|r e rs es H1 H2 IH]; [reflexivity|]. cbn [map]. rewrite H1, IH. reflexivity. Qed.
Lemma F2_norm_entries rs (es : list (val * val)) :
  Forall2 (fun a kv => fst a = fst kv /\ norm (snd a) = norm (snd kv)) rs es ->
  map (fun kv => (norm (fst kv), norm (snd kv))) rs = map (fun kv => (norm (fst kv), norm (snd kv))) es.
Proof. induction 1 as [|r e rs es [H1 H1'] H2 IH]; [reflexivity|]. cbn [map]. rewrite H1, H1', IH. reflexivity. Qed.
Lemma kd_fresh kt vt k v er : scalar_key kt = true ->
  Forall (fun kv => wf_val kt (fst kv) = true /\ wf_val vt (snd kv) = true) ((k, v) :: er) ->
  kd_go ((k, v) :: er) = true -> forall kv, In kv er -> val_eqb k (fst kv) = false.
Proof.
  intros Hsk Hwf Hkd kv Hin. inversion Hwf as [|x l [Hwk _] Hwr]; subst x l. cbn [fst] in Hwk.
  cbn [kd_go] in Hkd. apply andb_true_iff in Hkd. destruct Hkd as [Hkd _]. apply andb_true_iff in Hkd. destruct Hkd as [Hkx _].
  apply negb_true_iff in Hkx.
  assert (Hk1 : is_key_val k = true) by (eapply key_shape; eassumption).
  assert (Hk2 : is_key_val (fst kv) = true).
  { rewrite Forall_forall in Hwr. destruct (Hwr kv Hin) as [Hw2 _]. eapply key_shape; eassumption. }
  rewrite val_eqb_sym_key by assumption.
  destruct (val_eqb (fst kv) k) eqn:E; [|reflexivity]. exfalso.
  assert (Hex : exists x, In x er /\ val_eqb (fst x) k = true) by (exists kv; split; assumption).
  apply existsb_exists in Hex. rewrite Hex in Hkx. discriminate.
Qed.

Section StructDec.
  Variables (fs : list sfield) (F : nat) (df0 : Z).
  Hypothesis Hd : distinct (map sf_number fs) = true.
  Hypothesis Hcw : forall f, In f fs -> cwf (sf_codec f) (sf_ty f).
  Hypothesis Hsh : forall f, In f fs -> fshape f = true.
  Hypothesis HD : forall f, In f fs -> Dmot (sf_codec f) (sf_ty f).
  Hypothesis Hdf0 : frange df0.
  Hypothesis Hdf0t : has df0 proto_toplevel = false.

  Lemma field_num_of f : In f fs -> field_num f.
  Proof. intros Hin. split; [apply (fshape_facts f (Hsh f Hin)) | eapply wire_cwf; apply Hcw, Hin]. Qed.

  (* a data window that decodes to newf moves the state of field i *)
  Lemma one_step done_f f fr done_s old tail d newf bs vs' :
    fs = done_f ++ f :: fr -> length done_s = length done_f ->
    framed (wire (sf_codec f)) (sf_embedded f) d ->
    decode F (sf_codec f) d old (make_flags f df0) = Ok (len d, None, newf) ->
    steps (decode F) fs df0 (done_s ++ newf :: tail) bs vs' ->
    steps (decode F) fs df0 (done_s ++ old :: tail) (chunk (sf_number f) (wire (sf_codec f)) (sf_embedded f) d ++ bs) vs'.
  Proof.
    intros Hfs Hlen Hfr Hdec Hst.
    assert (Hin : In f fs) by (rewrite Hfs; apply in_or_app; right; left; reflexivity).
    eapply (steps_cons (decode F) fs df0 _ (length done_s) f d newf).
    - rewrite Hlen, Hfs. apply nth_field_at. rewrite <- Hfs. exact Hd.
    - exact Hin.
    - apply field_num_of, Hin.
    - exact Hfr.
    - rewrite nth_app_len. exact Hdec.
    - rewrite set_nth_app_len. exact Hst.
  Qed.

  Lemma ufield_step done_f f fr done_s v ef :
    fs = done_f ++ f :: fr -> length done_s = length done_f -> sf_repeated f = false ->
    wf_val (sf_ty f) v = true -> representable v = true -> keys_distinct v = true -> fl_rel0 ef df0 ->
    enc (sf_codec f) (Some v) (make_flags f ef) <> [] -> len (enc (sf_codec f) (Some v) (make_flags f ef)) < lim ->
    (length (enc (sf_codec f) (Some v) (make_flags f ef)) + fs_depth fs + 1 <= F)%nat ->
    exists r, norm r = norm v /\ forall tail bs vs',
      steps (decode F) fs df0 (done_s ++ r :: tail) bs vs' ->
      steps (decode F) fs df0 (done_s ++ zero_val (sf_ty f) :: tail)
            (chunk (sf_number f) (wire (sf_codec f)) (sf_embedded f) (enc (sf_codec f) (Some v) (make_flags f ef)) ++ bs) vs'.
  Proof.
    intros Hfs Hlen Hrepf Hwf Hrep Hkd Hfl Hne Hlim Hfuel.
    assert (Hin : In f fs) by (rewrite Hfs; apply in_or_app; right; left; reflexivity).
    pose proof (fshape_kind f (Hsh f Hin)) as Hk.
    destruct (fshape_facts f (Hsh f Hin)) as (_ & Hsf & _).
    assert (Hel : elem_ty (sf_ty f) = true /\ sf_embedded f = is_struct (base_ty (sf_ty f))).
    { destruct (sf_ty f); destruct Hk as [Hk1 Hk2]; try (rewrite Hk1 in Hrepf; discriminate); split; try reflexivity; exact Hk2. }
    destruct Hel as [Hel Hemb].
    pose proof (Dmot_elem _ _ (Hcw f Hin) Hel (HD f Hin)) as HDf.
    rewrite !make_flags_mkfl in *.
    pose proof (fl_rel0_field ef df0 (sf_flags f) Hfl Hsf) as Hfl'.
    destruct (HDf v (mkfl (sf_flags f) ef) (mkfl (sf_flags f) df0) F Hwf Hrep Hkd (fl_rel0_rel _ _ Hfl') Hlim (or_introl Hne)) as (r & Hr & Hn).
    { pose proof (fs_depth_in f fs Hin). blia. }
    exists r. split; [exact Hn|]. intros tail bs vs' Hst.
    eapply one_step; try eassumption.
    - rewrite Hemb. destruct (is_struct (base_ty (sf_ty f))) eqn:Eb.
      + unfold framed. apply (wire_struct_base _ _ (Hcw f Hin) Eb).
      + apply (enc_framed _ _ (Hcw f Hin)); try assumption; [apply Hfl' | apply Hfl'].
  Qed.

  Lemma selem_step done_f f fr done_s acc e n wt emb et c' :
    fs = done_f ++ f :: fr -> length done_s = length done_f ->
    sf_ty f = TSlice et -> sf_codec f = CSlice n wt emb et c' ->
    wf_val et e = true -> representable e = true -> keys_distinct e = true ->
    (match e with VPtr _ => empty_enc e | _ => false end) = false ->
    len (enc c' (Some e) proto_wantzero) < lim ->
    (length (enc c' (Some e) proto_wantzero) + fs_depth fs + 1 <= F)%nat ->
    exists r, norm r = norm e /\ forall tail bs vs',
      steps (decode F) fs df0 (done_s ++ VSlice (acc ++ [r]) :: tail) bs vs' ->
      steps (decode F) fs df0 (done_s ++ VSlice acc :: tail) (chunk n wt emb (enc c' (Some e) proto_wantzero) ++ bs) vs'.
  Proof.
    intros Hfs Hlen Hty Hco Hwf Hrep Hkd Hp Hlim Hfuel.
    assert (Hin : In f fs) by (rewrite Hfs; apply in_or_app; right; left; reflexivity).
    pose proof (Hcw f Hin) as Hc. rewrite Hty, Hco in Hc.
    revert Hfs. inversion Hc as [? ? Hsc | | ? ? ? ? ? He Hc' Hwt Hemb0 Hn | |]; subst; [discriminate Hsc|]. intros Hfs.
    pose proof (HD f Hin) as HDf. rewrite Hco in HDf. cbn [Dmot] in HDf.
    pose proof (fshape_kind f (Hsh f Hin)) as Hk. rewrite Hty in Hk. destruct Hk as [_ Hemb].
    pose proof (fshape_cnum f (Hsh f Hin)) as Hnum. rewrite Hty, Hco in Hnum.
    pose proof (elem_nonempty c' et e Hc' He Hwf Hp) as Hne.
    pose proof (fs_depth_in f fs Hin) as Hdp. rewrite Hco in Hdp. cbn [cdepth] in Hdp.
    assert (exists k, F = S k) as [k EF] by (destruct F; [exfalso; blia | eauto]).
    destruct (HDf e proto_wantzero proto_noflags k Hwf Hrep Hkd fl_rel_2_0 Hlim Hne) as (r & Hr & Hn'); [blia|].
    exists r. split; [exact Hn'|]. intros tail bs vs' Hst.
    pose proof (one_step done_f f fr done_s (VSlice acc) tail (enc c' (Some e) proto_wantzero) (VSlice (acc ++ [r])) bs vs' Hfs Hlen) as OS.
    rewrite Hco in OS. cbn [wire] in OS. rewrite Hnum, Hemb in OS. apply OS; [| | exact Hst].
    - destruct (is_struct (base_ty et)) eqn:Eb.
      + unfold framed. apply (wire_struct_base _ _ Hc' Eb).
      + apply (enc_framed _ _ Hc'); try assumption; try reflexivity; [unfold frange, proto_wantzero; blia|].
        destruct Hne as [Hne|Hne]; [exact Hne|]. apply is_struct_base in Hne. congruence.
    - rewrite EF, decode_slice_eq, Hr. cbn [rbind]. reflexivity.
  Qed.

  Lemma mentry_step done_f f fr done_s nn acc k v n kf vf kt vt kc vc :
    fs = done_f ++ f :: fr -> length done_s = length done_f ->
    sf_ty f = TMap kt vt -> sf_codec f = CMap n kf vf kt vt kc vc ->
    wf_val kt k = true -> wf_val vt v = true -> representable v = true -> keys_distinct v = true ->
    (match v with VPtr _ => empty_enc v | _ => false end) = false ->
    (forall a, In a acc -> val_eqb (fst a) k = false) ->
    len (entry_enc enc kf vf kc vc (k, v)) < lim ->
    (length (entry_enc enc kf vf kc vc (k, v)) + fs_depth fs + 1 <= F)%nat ->
    exists rv, norm rv = norm v /\ forall tail bs vs',
      steps (decode F) fs df0 (done_s ++ VMap true (acc ++ [(k, rv)]) :: tail) bs vs' ->
      steps (decode F) fs df0 (done_s ++ VMap nn acc :: tail)
            (chunk n proto_varlen true (entry_enc enc kf vf kc vc (k, v)) ++ bs) vs'.
  Proof.
    intros Hfs Hlen Hty Hco Hwk Hwv Hrep Hkd Hp Hfresh Hlim Hfuel.
    assert (Hin : In f fs) by (rewrite Hfs; apply in_or_app; right; left; reflexivity).
    pose proof (Hcw f Hin) as Hc. rewrite Hty, Hco in Hc.
    revert Hfs. inversion Hc as [? ? Hsc | | | ? ? ? ? ? Hsk Hev Hck Hcv Hkf Hvf Hn |]; subst; [discriminate Hsc|]. intros Hfs.
    pose proof (HD f Hin) as HDf. rewrite Hco in HDf. cbn [Dmot] in HDf. destruct HDf as [HDk HDv].
    pose proof (fshape_kind f (Hsh f Hin)) as Hk. rewrite Hty in Hk. destruct Hk as [_ Hemb].
    pose proof (fshape_cnum f (Hsh f Hin)) as Hnum. rewrite Hty, Hco in Hnum.
    pose proof (fs_depth_in f fs Hin) as Hdp. rewrite Hco in Hdp.
    destruct (map_entry_dec n (emb_of kt) (emb_of vt) kt vt k v nn acc (make_flags f df0) F Hsk Hev Hck Hcv eq_refl eq_refl HDk HDv
                Hwk Hwv Hrep Hkd Hp Hlim) as (rv & Hnv & Hdec); [blia|].
    exists rv. split; [exact Hnv|]. intros tail bs vs' Hst.
    pose proof (one_step done_f f fr done_s (VMap nn acc) tail (entry_enc enc (emb_of kt) (emb_of vt) (codec_of kt) (codec_of vt) (k, v))
                  (VMap true (acc ++ [(k, rv)])) bs vs' Hfs Hlen) as OS.
    rewrite Hco in OS. cbn [wire] in OS. rewrite Hnum, Hemb in OS. apply OS; [| | exact Hst].
    - reflexivity.
    - rewrite Hdec, map_assign_fresh by exact Hfresh. reflexivity.
  Qed.

  Lemma slice_seq done_f f fr done_s n wt emb et c' :
    fs = done_f ++ f :: fr -> length done_s = length done_f ->
    sf_ty f = TSlice et -> sf_codec f = CSlice n wt emb et c' ->
    forall es acc,
    Forall (fun e => wf_val et e = true) es -> forallb rep_elem es = true -> forallb keys_distinct es = true ->
    len (slice_enc enc n wt emb c' es) < lim ->
    (length (slice_enc enc n wt emb c' es) + fs_depth fs + 1 <= F)%nat ->
    exists rs, Forall2 (fun r e => norm r = norm e) rs es /\ forall tail bs vs',
      steps (decode F) fs df0 (done_s ++ VSlice (acc ++ rs) :: tail) bs vs' ->
      steps (decode F) fs df0 (done_s ++ VSlice acc :: tail) (slice_enc enc n wt emb c' es ++ bs) vs'.
  Proof.
    intros Hfs Hlen Hty Hco. induction es as [|e er IH]; intros acc Hwf Hrep Hkd Hlim Hfuel.
    - exists []. split; [constructor|]. intros tail bs vs' Hst. rewrite app_nil_r in Hst. exact Hst.
    - inversion Hwf as [|x l Hwe Hwr]; subst x l. cbn [forallb] in Hrep, Hkd.
      apply andb_true_iff in Hrep. destruct Hrep as [Hre Hrr]. apply andb_true_iff in Hkd. destruct Hkd as [Hke Hkr].
      unfold rep_elem in Hre. apply andb_true_iff in Hre. destruct Hre as [Hre Hpe]. apply negb_true_iff in Hpe.
      cbn [slice_enc flat_map] in *. fold (slice_enc enc n wt emb c' er) in *.
      rewrite len_app in Hlim. rewrite app_length in Hfuel.
      set (d := enc c' (Some e) proto_wantzero) in *.
      assert (Hdl : len d <= len (chunk n wt emb d)) by (unfold chunk; rewrite !len_app; clear; lens; lia).
      pose proof (PrimProofs.len_nonneg _ (slice_enc enc n wt emb c' er)).
      destruct (selem_step done_f f fr done_s acc e n wt emb et c' Hfs Hlen Hty Hco Hwe Hre Hke Hpe) as (r & Hnr & Hs1);
        [fold d; blia | fold d; unfold len in *; blia |].
      destruct (IH (acc ++ [r]) Hwr Hrr Hkr) as (rs & HF & Hs2);
        [pose proof (PrimProofs.len_nonneg _ (chunk n wt emb d)); blia | blia |].
      exists (r :: rs). split; [constructor; assumption|]. intros tail bs vs' Hst.
      rewrite <- app_assoc. apply Hs1. apply Hs2. rewrite <- app_assoc. exact Hst.
  Qed.

  Lemma map_seq done_f f fr done_s n kf vf kt vt kc vc :
    fs = done_f ++ f :: fr -> length done_s = length done_f ->
    sf_ty f = TMap kt vt -> sf_codec f = CMap n kf vf kt vt kc vc -> scalar_key kt = true ->
    forall es acc,
    Forall (fun kv => wf_val kt (fst kv) = true /\ wf_val vt (snd kv) = true) es ->
    forallb rep_entry es = true -> kd_go es = true ->
    (forall a kv, In a acc -> In kv es -> val_eqb (fst a) (fst kv) = false) ->
    len (flat_map (fun kv => chunk n proto_varlen true (entry_enc enc kf vf kc vc kv)) es) < lim ->
    (length (flat_map (fun kv => chunk n proto_varlen true (entry_enc enc kf vf kc vc kv)) es) + fs_depth fs + 1 <= F)%nat ->
    exists rs, Forall2 (fun a kv => fst a = fst kv /\ norm (snd a) = norm (snd kv)) rs es /\ forall tail bs vs',
      steps (decode F) fs df0 (done_s ++ VMap true (acc ++ rs) :: tail) bs vs' ->
      steps (decode F) fs df0 (done_s ++ VMap true acc :: tail)
            (flat_map (fun kv => chunk n proto_varlen true (entry_enc enc kf vf kc vc kv)) es ++ bs) vs'.
  Proof.
    intros Hfs Hlen Hty Hco Hsk. induction es as [|[k v] er IH]; intros acc Hwf Hrep Hkd Hfresh Hlim Hfuel.
    - exists []. split; [constructor|]. intros tail bs vs' Hst. rewrite app_nil_r in Hst. exact Hst.
    - inversion Hwf as [|x l [Hwk Hwv] Hwr]; subst x l. cbn [fst snd] in *. cbn [forallb kd_go] in Hrep, Hkd.
      apply andb_true_iff in Hrep. destruct Hrep as [Hre Hrr].
      apply andb_true_iff in Hkd. destruct Hkd as [Hkd Hkr]. apply andb_true_iff in Hkd. destruct Hkd as [Hkx Hkv].
      apply negb_true_iff in Hkx.
      unfold rep_entry in Hre. cbn [fst snd] in Hre.
      apply andb_true_iff in Hre. destruct Hre as [Hre Hpv]. apply andb_true_iff in Hre. destruct Hre as [_ Hrv].
      apply negb_true_iff in Hpv.
      cbn [flat_map] in *. rewrite len_app in Hlim. rewrite app_length in Hfuel.
      set (d := entry_enc enc kf vf kc vc (k, v)) in *.
      set (rest := flat_map (fun kv => chunk n proto_varlen true (entry_enc enc kf vf kc vc kv)) er) in *.
      assert (Hdl : len d <= len (chunk n proto_varlen true d)) by (unfold chunk; rewrite !len_app; clear; lens; lia).
      pose proof (PrimProofs.len_nonneg _ rest). pose proof (PrimProofs.len_nonneg _ (chunk n proto_varlen true d)).
      destruct (mentry_step done_f f fr done_s true acc k v n kf vf kt vt kc vc Hfs Hlen Hty Hco Hwk Hwv Hrv Hkv Hpv) as (rv & Hnv & Hs1);
        [intros a Ha; apply (Hfresh a (k, v) Ha); left; reflexivity | fold d; blia | fold d; unfold len in *; blia |].
      destruct (IH (acc ++ [(k, rv)]) Hwr Hrr Hkr) as (rs & HF & Hs2); [| blia | blia |].
      { intros a kv Ha Hkvin. apply in_app_or in Ha. destruct Ha as [Ha|[<-|[]]].
        - apply (Hfresh a kv Ha). right. exact Hkvin.
        - cbn [fst].
          assert (Hk1 : is_key_val k = true) by (eapply key_shape; eassumption).
          assert (Hk2 : is_key_val (fst kv) = true).
          { rewrite Forall_forall in Hwr. destruct (Hwr kv Hkvin) as [Hw2 _]. eapply key_shape; eassumption. }
          rewrite val_eqb_sym_key by assumption.
          destruct (val_eqb (fst kv) k) eqn:E; [|reflexivity]. exfalso.
          assert (Hex : exists x, In x er /\ val_eqb (fst x) k = true) by (exists kv; split; assumption).
          apply existsb_exists in Hex. rewrite Hex in Hkx. discriminate. }
      exists ((k, rv) :: rs). split; [constructor; [split; [reflexivity | exact Hnv] | exact HF]|]. intros tail bs vs' Hst.
      rewrite <- app_assoc. apply Hs1. apply Hs2. rewrite <- app_assoc. exact Hst.
  Qed.

  Definition urel (f : sfield) (v s : val) : Prop :=
    if sf_repeated f then s = zero_val (sf_ty f) else norm s = norm v.

  Lemma wf_list_nil_inv vr : wf_list [] vr -> vr = [].
  Proof. intros H. inversion H. reflexivity. Qed.
  Lemma wf_list_cons_inv t ts vr : wf_list (t :: ts) vr -> exists v vr', vr = v :: vr' /\ wf_val t v = true /\ wf_list ts vr'.
  Proof. intros H. inversion H as [|? v ? vr' Hv Hr]; subst. exists v, vr'. auto. Qed.

  Lemma upass_steps : forall fr vr done_f done_s ef,
    fs = done_f ++ fr -> length done_s = length done_f ->
    wf_list (map sf_ty fr) vr -> forallb representable vr = true -> forallb keys_distinct vr = true ->
    fl_rel0 ef df0 ->
    len (snd (upass_of enc fr vr ef)) < lim ->
    (length (snd (upass_of enc fr vr ef)) + fs_depth fs + 1 <= F)%nat ->
    exists new_s, Forall3 urel fr vr new_s /\ forall bs vs',
      steps (decode F) fs df0 (done_s ++ new_s) bs vs' ->
      steps (decode F) fs df0 (done_s ++ map zero_val (map sf_ty fr)) (snd (upass_of enc fr vr ef) ++ bs) vs'.
  Proof.
    induction fr as [|f fr IH]; intros vr done_f done_s ef Hfs Hlen Hwf Hrep Hkd Hfl Hlim Hfuel.
    - apply wf_list_nil_inv in Hwf. rewrite Hwf. exists []. split; [constructor|]. intros bs vs' Hst. exact Hst.
    - cbn [map] in Hwf. apply wf_list_cons_inv in Hwf. destruct Hwf as (v & vr' & Evr & Hv & Hvr). rewrite Evr in *. clear Evr vr.
      cbn [forallb] in Hrep, Hkd. apply andb_true_iff in Hrep. destruct Hrep as [Hr1 Hr2].
      apply andb_true_iff in Hkd. destruct Hkd as [Hk1 Hk2].
      assert (Hfs' : fs = (done_f ++ [f]) ++ fr) by (rewrite <- app_assoc; exact Hfs).
      assert (Hin : In f fs) by (rewrite Hfs; apply in_or_app; right; left; reflexivity).
      destruct (fshape_facts f (Hsh f Hin)) as (_ & Hsf & _).
      cbn [upass_of map] in *.
      assert (Hskip : forall z, urel f v z -> len (snd (upass_of enc fr vr' ef)) < lim ->
                (length (snd (upass_of enc fr vr' ef)) + fs_depth fs + 1 <= F)%nat ->
                exists new_s, Forall3 urel (f :: fr) (v :: vr') new_s /\ forall bs vs',
                  steps (decode F) fs df0 (done_s ++ new_s) bs vs' ->
                  steps (decode F) fs df0 (done_s ++ z :: map zero_val (map sf_ty fr)) (snd (upass_of enc fr vr' ef) ++ bs) vs').
      { intros z Hz Hl Hf.
        destruct (IH vr' (done_f ++ [f]) (done_s ++ [z]) ef Hfs') as (new_s & HF & Hs); try assumption.
        { rewrite !app_length, Hlen. reflexivity. }
        exists (z :: new_s). split; [constructor; assumption|]. intros bs vs' Hst.
        specialize (Hs bs vs'). rewrite <- !app_assoc in Hs. apply Hs, Hst. }
      destruct (sf_repeated f) eqn:Erep.
      + apply Hskip; try assumption. unfold urel. rewrite Erep. reflexivity.
      + cbv zeta in *. destruct (enc (sf_codec f) (Some v) (make_flags f ef)) as [|x p] eqn:Ep.
        * apply Hskip; try assumption. unfold urel. rewrite Erep. symmetry.
          rewrite make_flags_mkfl in Ep.
          apply (enc_nil_norm _ _ (Hcw f Hin) v _ Hv Hr1 (frange_mkfl _ _ Hsf (proj1 Hfl))); [|exact Ep].
          left. rewrite has_mkfl_tl by (try apply Hfl; assumption). apply Hfl.
        * destruct (upass_of enc fr vr' (without ef proto_wantzero)) as [fl' bs'] eqn:EU. cbn [snd] in *.
          set (q := x :: p) in *.
          set (ch := chunk (sf_number f) (wire (sf_codec f)) (sf_embedded f) q) in *.
          rewrite len_app in Hlim. rewrite app_length in Hfuel.
          assert (Hpl : len q <= len ch) by (subst ch; unfold chunk; rewrite !len_app; clear; lens; lia).
          pose proof (PrimProofs.len_nonneg _ bs'). pose proof (PrimProofs.len_nonneg _ ch).
          destruct (ufield_step done_f f fr done_s v ef Hfs Hlen Erep Hv Hr1 Hk1 Hfl) as (r & Hnr & Hs1);
            [rewrite Ep; discriminate | rewrite Ep; fold q; blia | rewrite Ep; fold q; unfold len in *; blia |].
          rewrite Ep in Hs1. fold q ch in Hs1.
          destruct (IH vr' (done_f ++ [f]) (done_s ++ [r]) (without ef proto_wantzero) Hfs') as (new_s & HF & Hs2); try assumption.
          { rewrite !app_length, Hlen. reflexivity. }
          { apply fl_rel0_nowz, Hfl. }
          { rewrite EU. cbn [snd]. blia. }
          { rewrite EU. cbn [snd]. blia. }
          rewrite EU in Hs2. cbn [snd] in Hs2.
          exists (r :: new_s). split; [constructor; [unfold urel; rewrite Erep; exact Hnr | exact HF]|].
          intros bs vs' Hst. rewrite <- app_assoc. apply Hs1.
          specialize (Hs2 bs vs'). rewrite <- !app_assoc in Hs2. apply Hs2, Hst.
  Qed.

  Lemma rfield_step done_f f fr done_s v fl :
    fs = done_f ++ f :: fr -> length done_s = length done_f -> sf_repeated f = true ->
    wf_val (sf_ty f) v = true -> representable v = true -> keys_distinct v = true ->
    len (enc (sf_codec f) (Some v) fl) < lim ->
    (length (enc (sf_codec f) (Some v) fl) + fs_depth fs + 1 <= F)%nat ->
    exists s', norm s' = norm v /\ forall tail bs vs',
      steps (decode F) fs df0 (done_s ++ s' :: tail) bs vs' ->
      steps (decode F) fs df0 (done_s ++ zero_val (sf_ty f) :: tail) (enc (sf_codec f) (Some v) fl ++ bs) vs'.
  Proof.
    intros Hfs Hlen Hrepf Hwf Hrep Hkd Hlim Hfuel.
    assert (Hin : In f fs) by (rewrite Hfs; apply in_or_app; right; left; reflexivity).
    pose proof (fshape_kind f (Hsh f Hin)) as Hk. pose proof (Hcw f Hin) as Hc.
    destruct (sf_ty f) as [| | | | | | | | | | | | | |et|kt vt|] eqn:Hty;
      try (destruct Hk as [Hk _]; rewrite Hk in Hrepf; discriminate Hrepf).
    - (* slice *)
      destruct (cwf_slice_inv _ _ Hc) as (n & c' & Hco & He & Hc').
      destruct v as [| | | | | | |es| |]; try discriminate Hwf.
      rewrite Hco in *. rewrite enc_slice_eq in *. cbn [zero_val].
      destruct (slice_seq done_f f fr done_s n (wire c') (is_struct (base_ty et)) et c' Hfs Hlen Hty Hco es []) as (rs & HF & Hs);
        try assumption; [apply wf_slice_all, Hwf|].
      exists (VSlice rs). split; [cbn [norm]; f_equal; apply F2_norm_map, HF|].
      intros tail bs vs' Hst. apply (Hs tail bs vs'). exact Hst.
    - (* map *)
      destruct (cwf_map_inv _ _ _ Hc) as (n & Hco & Hsk).
      destruct v as [| | | | | | | |nn es|]; try discriminate Hwf.
      rewrite Hco in *. rewrite enc_map_eq in *. cbn [zero_val].
      rewrite keys_distinct_map in Hkd. change (representable (VMap nn es)) with (forallb rep_entry es) in Hrep.
      pose proof (wf_map_all _ _ _ _ Hwf) as Hwe.
      destruct es as [|[k v] er].
      + (* the empty-map marker *)
        exists (VMap true []). split; [reflexivity|]. intros tail bs vs' Hst.
        cbn [map_enc]. rewrite <- chunk_empty.
        pose proof (fshape_kind f (Hsh f Hin)) as Hk'. rewrite Hty in Hk'. destruct Hk' as [_ Hemb].
        pose proof (fshape_cnum f (Hsh f Hin)) as Hnum. rewrite Hty, Hco in Hnum.
        assert (exists k, F = S k) as [k EF] by (destruct F; [exfalso; blia | eauto]).
        pose proof (one_step done_f f fr done_s (VMap false []) tail [] (VMap true []) bs vs' Hfs Hlen) as OS.
        rewrite Hco in OS. cbn [wire] in OS. rewrite Hnum, Hemb in OS. apply OS; [reflexivity | | exact Hst].
        rewrite EF, decode_map_eq. reflexivity.
      + unfold map_enc in *. cbn [flat_map] in *. cbn [forallb] in Hrep.
        apply andb_true_iff in Hrep. destruct Hrep as [Hre Hrr].
        pose proof (kd_fresh kt vt k v er Hsk Hwe Hkd) as Hfr.
        cbn [kd_go] in Hkd. apply andb_true_iff in Hkd. destruct Hkd as [Hkd Hkr]. apply andb_true_iff in Hkd. destruct Hkd as [_ Hkv].
        unfold rep_entry in Hre. cbn [fst snd] in Hre.
        apply andb_true_iff in Hre. destruct Hre as [Hre Hpv]. apply andb_true_iff in Hre. destruct Hre as [_ Hrv].
        apply negb_true_iff in Hpv.
        inversion Hwe as [|x l [Hwk Hwv] Hwr]; subst x l. cbn [fst snd] in Hwk, Hwv.
        rewrite len_app in Hlim. rewrite app_length in Hfuel.
        set (d := entry_enc enc (emb_of kt) (emb_of vt) (codec_of kt) (codec_of vt) (k, v)) in *.
        set (rest := flat_map (fun kv => chunk n proto_varlen true (entry_enc enc (emb_of kt) (emb_of vt) (codec_of kt) (codec_of vt) kv)) er) in *.
        assert (Hdl : len d <= len (chunk n proto_varlen true d)) by (unfold chunk; rewrite !len_app; clear; lens; lia).
        pose proof (PrimProofs.len_nonneg _ rest). pose proof (PrimProofs.len_nonneg _ (chunk n proto_varlen true d)).
        destruct (mentry_step done_f f fr done_s false [] k v n _ _ kt vt _ _ Hfs Hlen Hty Hco Hwk Hwv Hrv Hkv Hpv) as (rv & Hnv & Hs1);
          [intros a [] | fold d; blia | fold d; unfold len in *; blia |].
        destruct (map_seq done_f f fr done_s n _ _ kt vt _ _ Hfs Hlen Hty Hco Hsk er [(k, rv)] Hwr Hrr Hkr) as (rs & HF & Hs2);
          [| fold rest; blia | fold rest; blia |].
        { intros a kv [<-|[]] Hkvin. cbn [fst]. apply Hfr, Hkvin. }
        exists (VMap true ((k, rv) :: rs)). split.
        { cbn [norm map fst snd]. f_equal. rewrite Hnv.
          assert (Ek : norm k = norm k) by reflexivity. f_equal. apply F2_norm_entries, HF. }
        intros tail bs vs' Hst. rewrite <- app_assoc. apply Hs1. cbn [app]. apply Hs2. exact Hst.
  Qed.

  Lemma rpass_steps : forall fr vr sr done_f done_s ef,
    fs = done_f ++ fr -> length done_s = length done_f ->
    wf_list (map sf_ty fr) vr -> forallb representable vr = true -> forallb keys_distinct vr = true ->
    Forall3 urel fr vr sr ->
    len (rpass_of enc fr vr ef) < lim -> (length (rpass_of enc fr vr ef) + fs_depth fs + 1 <= F)%nat ->
    exists new_s, Forall3 (fun _ v s => norm s = norm v) fr vr new_s /\ forall bs vs',
      steps (decode F) fs df0 (done_s ++ new_s) bs vs' ->
      steps (decode F) fs df0 (done_s ++ sr) (rpass_of enc fr vr ef ++ bs) vs'.
  Proof.
    induction fr as [|f fr IH]; intros vr sr done_f done_s ef Hfs Hlen Hwf Hrep Hkd HU Hlim Hfuel.
    - inversion HU; subst vr sr. exists []. split; [constructor|]. intros bs vs' Hst. exact Hst.
    - inversion HU as [|f0 v s fr0 vr' sr' Hu HU']; subst f0 fr0 vr sr.
      cbn [map] in Hwf. apply wf_list_cons_inv in Hwf. destruct Hwf as (v0 & vr0 & Evr & Hv & Hvr).
      inversion Evr; subst v0 vr0. clear Evr.
      cbn [forallb] in Hrep, Hkd. apply andb_true_iff in Hrep. destruct Hrep as [Hr1 Hr2].
      apply andb_true_iff in Hkd. destruct Hkd as [Hk1 Hk2].
      assert (Hfs' : fs = (done_f ++ [f]) ++ fr) by (rewrite <- app_assoc; exact Hfs).
      cbn [rpass_of] in *. unfold urel in Hu.
      destruct (sf_repeated f) eqn:Erep; cbn [negb] in *.
      + cbv zeta in *. subst s.
        set (p := enc (sf_codec f) (Some v) (make_flags f ef)) in *.
        rewrite len_app in Hlim. rewrite app_length in Hfuel.
        pose proof (PrimProofs.len_nonneg _ p).
        match type of Hlim with len p + len ?R < _ => set (rest := R) in *; pose proof (PrimProofs.len_nonneg _ rest) end.
        destruct (rfield_step done_f f fr done_s v (make_flags f ef) Hfs Hlen Erep Hv Hr1 Hk1) as (s' & Hn & Hs1);
          [fold p; blia | fold p; unfold len in *; blia |]. fold p in Hs1.
        destruct (IH vr' sr' (done_f ++ [f]) (done_s ++ [s']) (match p with [] => ef | _ :: _ => without ef proto_wantzero end) Hfs') as (new_s & HF & Hs2);
          try assumption; [rewrite !app_length, Hlen; reflexivity | fold rest; blia | fold rest; unfold len in *; blia |].
        exists (s' :: new_s). split; [constructor; assumption|]. intros bs vs' Hst.
        rewrite <- app_assoc. apply Hs1. specialize (Hs2 bs vs'). rewrite <- !app_assoc in Hs2. apply Hs2, Hst.
      + destruct (IH vr' sr' (done_f ++ [f]) (done_s ++ [s]) ef Hfs') as (new_s & HF & Hs2);
          try assumption; [rewrite !app_length, Hlen; reflexivity|].
        exists (s :: new_s). split; [constructor; assumption|]. intros bs vs' Hst.
        specialize (Hs2 bs vs'). rewrite <- !app_assoc in Hs2. apply Hs2, Hst.
  Qed.
End StructDec.

(* ==================== Part 17: structs; all codecs ==================== *)
Lemma F3_norm_map (fs : list sfield) vs ss : Forall3 (fun _ v s => norm s = norm v) fs vs ss -> map norm ss = map norm vs.
Proof. induction 1 as [|f v s fr vr sr H1 H2 IH]; [reflexivity|]. cbn [map]. rewrite H1, IH. reflexivity. Qed.

Lemma D_struct inl_ fs gfs : map sf_ty fs = map field_ty gfs -> distinct (map sf_number fs) = true ->
  (forall f, In f fs -> cwf (sf_codec f) (sf_ty f)) -> (forall f, In f fs -> fshape f = true) ->
  (forall f, In f fs -> Dmot (sf_codec f) (sf_ty f)) -> Dprop (CStruct inl_ fs) (TStruct gfs).
Proof.
  intros Hty Hd Hcw Hsh HD v ef df fuel Hwf Hrep Hkd Hfl Hlim _ Hfuel.
  destruct v as [| | | | | |vs| | |]; try discriminate Hwf.
  apply wf_struct_list in Hwf. rewrite <- Hty in Hwf.
  cbn [representable keys_distinct] in Hrep, Hkd.
  rewrite cdepth_struct in Hfuel. destruct fuel as [|F]; [lia|].
  rewrite decode_struct_eq, zero_struct, <- Hty. rewrite enc_struct_eq in *.
  pose proof (fl_rel_struct ef df inl_ Hfl) as Hfl0. fold (struct_flags0 inl_ ef) in Hfl0.
  set (ef0 := struct_flags0 inl_ ef) in *. set (df0 := without df proto_toplevel) in *.
  destruct (upass_of enc fs vs ef0) as [fl1 bs1] eqn:EU.
  rewrite len_app in Hlim. rewrite app_length in Hfuel.
  pose proof (PrimProofs.len_nonneg _ bs1). pose proof (PrimProofs.len_nonneg _ (rpass_of enc fs vs fl1)).
  destruct (upass_steps fs F df0 Hd Hcw Hsh HD fs vs [] [] ef0 eq_refl eq_refl Hwf Hrep Hkd Hfl0) as (s1 & HF1 & Hs1);
    [rewrite EU; cbn [snd]; blia | rewrite EU; cbn [snd]; blia |].
  rewrite EU in Hs1. cbn [snd app] in Hs1.
  destruct (rpass_steps fs F df0 Hd Hcw Hsh HD fs vs s1 [] [] fl1 eq_refl eq_refl Hwf Hrep Hkd HF1) as (s2 & HF2 & Hs2);
    [blia | blia |].
  cbn [app] in Hs2.
  pose proof (Hs1 _ _ (Hs2 [] s2 (steps_nil _ _ _ s2))) as Hst. rewrite app_nil_r in Hst.
  pose proof (sloop_steps (decode F) fs df0 _ _ _ Hst [] F) as HL. cbn [app] in HL. change (len []) with 0 in HL.
  rewrite HL by (rewrite ?len_app, ?app_length; blia).
  exists (VStruct s2). split; [reflexivity|]. cbn [norm]. f_equal. eapply F3_norm_map, HF2.
Qed.

Theorem D_all : forall c t, cwf c t -> Dmot c t.
Proof.
  induction 1 as [c t Hs | t c He H IH | n wt emb et c He H IH Hwt Hemb Hn | n kf vf kt vt Hk Hv H1 IH1 H2 IH2 Hkf Hvf Hn
                 | inl_ fs gfs Hty Hd H IH Hsh].
  - pose proof (D_scalar c t Hs) as HD. destruct c; try discriminate Hs; exact HD.
  - cbn [Dmot]. apply D_ptr. apply Dmot_elem; assumption.
  - cbn [Dmot]. apply Dmot_elem; assumption.
  - cbn [Dmot]. split; apply Dmot_elem; try assumption. apply (scalar_key_elem kt Hk).
  - cbn [Dmot]. apply D_struct; assumption.
Qed.
Corollary D_elem c t : cwf c t -> elem_ty t = true -> Dprop c t.
Proof. intros Hc He. apply Dmot_elem; [assumption | assumption | apply D_all, Hc]. Qed.

(* ==================== Part 18: codec_of is well-formed on the universe ==================== *)
(* ---------- hypothesis (2): a [rep] tag only on slice and map fields ---------- *)
Fixpoint rep_fs (fs : list gfield) : bool :=
  match fs with [] => true | GField _ tag ft :: r => tag_rep_ok tag ft && rep_tags_ok ft && rep_fs r end.
Lemma rep_tags_struct fs : rep_tags_ok (TStruct fs) = rep_fs fs.
Proof. reflexivity. Qed.

(* ---------- numbers_ok on a struct ---------- *)
Fixpoint nums_fs (fs : list sfield) : bool :=
  match fs with
  | [] => true
  | SField n _ _ _ c' :: r => (1 <=? n) && (n <? 2 ^ 16) && numbers_ok c' && nums_fs r
  end.
Lemma numbers_ok_struct inl_ fs : numbers_ok (CStruct inl_ fs) = distinct (map sf_number fs) && nums_fs fs.
Proof. reflexivity. Qed.
Lemma nums_fs_in fs f : nums_fs fs = true -> In f fs -> 1 <= sf_number f < 2 ^ 16 /\ numbers_ok (sf_codec f) = true.
Proof.
  induction fs as [|[n ts fl t c] r IH]; [contradiction|]. cbn [nums_fs]. intros H [<-|Hin].
  - cbn [sf_number sf_codec]. repeat (apply andb_true_iff in H; destruct H as [H ?]). split; [lia | assumption].
  - apply IH; [|exact Hin]. apply andb_true_iff in H. apply H.
Qed.

(* ---------- forced fixed-width codecs ---------- *)
Lemma pointers_to_cwf c bt : scalar_ct c bt = true -> forall ft, base_ty ft = bt ->
  cwf (pointers_to ft c) ft /\ elem_ty ft = true /\ is_struct (base_ty ft) = false.
Proof.
  intros Hs. assert (Hbt : elem_ty bt = true /\ is_struct bt = false /\ base_ty bt = bt)
    by (destruct c; try discriminate Hs; destruct bt; try discriminate Hs; repeat split).
  induction ft; cbn [base_ty pointers_to]; intros Hb.
  all: try (destruct (IHft Hb) as (I1 & I2 & I3); split; [apply cwf_ptr; assumption | split; [reflexivity | exact I3]]).
  all: rewrite <- Hb in Hs, Hbt; destruct Hbt as (H1 & H2 & H3); try discriminate;
       try (split; [apply cwf_scalar; exact Hs | split; reflexivity]).
Qed.
Lemma forced_cwf tg ft c : forced_of tg ft = Some c ->
  cwf c ft /\ elem_ty ft = true /\ is_struct (base_ty ft) = false.
Proof.
  unfold forced_of. intros H.
  destruct (tag_wire tg =? proto_fixed32); [|destruct (tag_wire tg =? proto_fixed64); [|discriminate]];
    destruct (base_ty ft) eqn:E; try discriminate; inversion H; subst;
    match type of E with _ = ?bt => match goal with |- cwf (pointers_to ft ?c) ft /\ _ =>
      destruct (pointers_to_cwf c bt eq_refl ft E) as (A & B & C) end end;
    rewrite E in C; repeat split; assumption.
Qed.

Lemma elem_ok_elem_ty t : elem_ok t = true -> elem_ty t = true.
Proof. destruct t; try discriminate; reflexivity. Qed.
Lemma scalar_key_ok kt : scalar_key kt = true -> elem_ok kt = true /\ rep_tags_ok kt = true.
Proof. destruct kt; try discriminate; split; reflexivity. Qed.

Definition Qc (t : gty) : Prop :=
  elem_ok t = true -> rep_tags_ok t = true -> numbers_ok (codec_of t) = true -> cwf (codec_of t) t.
Definition Fc (t : gty) : Prop :=
  fok t = true -> rep_tags_ok t = true -> forall fl0 num, numbers_ok (snd (generic_of fl0 num t)) = true ->
  cwf (snd (generic_of fl0 num t)) t.

(* the flags of a compiled field *)
Lemma fshape_generic fl0 num ft : fok ft = true ->
  (fl0 = 0 \/ fl0 = 4 \/ ((fl0 = 2 \/ fl0 = 6) /\ elem_ty ft = false)) -> 1 <= num < 2 ^ 16 ->
  fshape (SField num (w8 (proto_sizeOfTag num (wire (snd (generic_of fl0 num ft))))) (fst (generic_of fl0 num ft)) ft
                 (snd (generic_of fl0 num ft))) = true.
Proof.
  intros Hok Hfl Hn. unfold fshape.
  replace ((1 <=? num) && (num <? 2 ^ 16)) with true by lia. rewrite Z.eqb_refl.
  destruct ft; cbn [generic_of base_ty is_struct fst snd elem_ty] in *;
    try (destruct Hfl as [->|[->|[_ Hfl]]]; [| | discriminate Hfl]);
    try (destruct Hfl as [->|[->|[[->| ->] _]]]);
    try (destruct (is_struct (base_ty ft)));
    cbn [base_ty is_struct fst snd]; rewrite ?Z.eqb_refl; reflexivity.
Qed.

Lemma fcodec_ok tag ft number : fok ft = true -> rep_tags_ok ft = true -> tag_rep_ok tag ft = true -> Qc ft -> Fc ft ->
  1 <= sf_number (fcodec tag ft number) < 2 ^ 16 -> numbers_ok (sf_codec (fcodec tag ft number)) = true ->
  cwf (sf_codec (fcodec tag ft number)) (sf_ty (fcodec tag ft number)) /\ fshape (fcodec tag ft number) = true /\
  sf_ty (fcodec tag ft number) = ft.
Proof.
  intros Hok Hrt Htag HQ HF. unfold fcodec. destruct tag as [tg|]; cbv zeta.
  - destruct (forced_of tg ft) as [c|] eqn:Ef.
    + cbn [sf_number sf_codec sf_ty]. intros Hn Hnum.
      destruct (forced_cwf tg ft c Ef) as (Hc & He & Hb). split; [exact Hc|]. split; [|reflexivity].
      assert (Hrep : tag_repeated tg = false) by (destruct ft; try discriminate He; cbn in Htag; apply negb_true_iff in Htag; exact Htag).
      rewrite Hrep. unfold fshape.
      replace ((1 <=? w16 (tag_number tg)) && (w16 (tag_number tg) <? 2 ^ 16)) with true by lia. rewrite Z.eqb_refl.
      destruct ft; try discriminate He; cbn [base_ty] in Hb |- *; rewrite ?Hb; destruct (tag_zigzag tg); reflexivity.
    + destruct (generic_of ((if tag_repeated tg then proto_repeated else 0) + (if tag_zigzag tg then proto_zigzag else 0)) (w16 (tag_number tg)) ft)
        as [fl c] eqn:Eg. cbn [sf_number sf_codec sf_ty]. intros Hn Hnum.
      pose proof (HF Hok Hrt _ (w16 (tag_number tg)) ltac:(rewrite Eg; exact Hnum)) as Hc. rewrite Eg in Hc. cbn [snd] in Hc.
      split; [exact Hc|]. split; [|reflexivity].
      pose proof (fshape_generic ((if tag_repeated tg then proto_repeated else 0) + (if tag_zigzag tg then proto_zigzag else 0)) (w16 (tag_number tg)) ft Hok) as HS.
      rewrite Eg in HS. cbn [fst snd] in HS. apply HS; [|exact Hn].
      assert (Hel : tag_repeated tg = true -> elem_ty ft = false).
      { intros E. unfold tag_rep_ok in Htag. rewrite E in Htag. destruct ft; try discriminate Htag; reflexivity. }
      unfold proto_repeated, proto_zigzag.
      destruct (tag_repeated tg) eqn:Er; destruct (tag_zigzag tg); cbn [Z.add Pos.add]; auto;
        right; right; (split; [auto | apply Hel; reflexivity]).
  - destruct (generic_of 0 (w16 number) ft) as [fl c] eqn:Eg. cbn [sf_number sf_codec sf_ty]. intros Hn Hnum.
    pose proof (HF Hok Hrt 0 (w16 number) ltac:(rewrite Eg; exact Hnum)) as Hc. rewrite Eg in Hc. cbn [snd] in Hc.
    split; [exact Hc|]. split; [|reflexivity].
    pose proof (fshape_generic 0 (w16 number) ft Hok) as HS. rewrite Eg in HS. cbn [fst snd] in HS. apply HS; [auto | exact Hn].
Qed.

Lemma cfields_cwf : forall fs number, fsok fs = true -> rep_fs fs = true ->
  Forall (fun g => Qc (field_ty g) /\ Fc (field_ty g)) fs -> nums_fs (cfields fs number) = true ->
  (forall f, In f (cfields fs number) -> cwf (sf_codec f) (sf_ty f) /\ fshape f = true) /\
  map sf_ty (cfields fs number) = map field_ty fs.
Proof.
  induction fs as [|[e tg ft] r IH]; intros number Hok Hrep HF Hnum; [split; [intros f []| reflexivity]|].
  cbn [fsok rep_fs] in Hok, Hrep. apply andb_true_iff in Hok. destruct Hok as [Hok Hr].
  apply andb_true_iff in Hok. destruct Hok as [He Hft]. subst e.
  apply andb_true_iff in Hrep. destruct Hrep as [Hrep Hrr]. apply andb_true_iff in Hrep. destruct Hrep as [Htag Hrt].
  inversion HF as [|x l [HQ1 HF1] HF2]; subst. cbn [field_ty] in HQ1, HF1.
  cbn [cfields] in *. rewrite fcodec_cons_eq in *.
  assert (Hin0 : In (fcodec tg ft number) (fcodec tg ft number :: cfields r (number + 1))) by (left; reflexivity).
  destruct (nums_fs_in _ _ Hnum Hin0) as [Hn Hno].
  destruct (fcodec_ok tg ft number Hft Hrt Htag HQ1 HF1 Hn Hno) as (Hc & Hs & Ht).
  assert (Hnum' : nums_fs (cfields r (number + 1)) = true).
  { destruct (fcodec tg ft number). cbn [nums_fs] in Hnum. apply andb_true_iff in Hnum. apply Hnum. }
  destruct (IH (number + 1) Hr Hrr HF2 Hnum') as [I1 I2]. split.
  - intros f [<-|Hin]; [split; assumption | apply I1, Hin].
  - cbn [map field_ty]. rewrite Ht, I2. reflexivity.
Qed.

Lemma codec_of_cwf_all : forall t, Qc t /\ Fc t.
Proof.
  apply gty_ind2.
  - (* leaves *)
    intros t Ht. assert (HQ : Qc t).
    { intros _ _ _. apply cwf_scalar. destruct t; try contradiction; try reflexivity. cbn. apply Nat.eqb_refl. }
    split; [exact HQ|]. intros Hok Hrt fl0 num Hnum. rewrite generic_same in * by (destruct t; try contradiction; exact I).
    apply HQ; [destruct t; try contradiction; reflexivity | exact Hrt | exact Hnum].
  - (* pointer *)
    intros t [HQ _]. assert (HQ' : Qc (TPtr t)).
    { intros Hok Hrt Hnum. cbn [codec_of]. apply cwf_ptr; [apply elem_ok_elem_ty, Hok | apply HQ; assumption]. }
    split; [exact HQ'|]. intros Hok Hrt fl0 num Hnum. rewrite generic_same in * by exact I. apply HQ'; assumption.
  - (* slice *)
    intros t [HQ _]. split; [intros Hok; discriminate Hok|].
    intros Hok Hrt fl0 num Hnum. cbn [generic_of snd fok rep_tags_ok] in *. cbv zeta in *. cbn [snd numbers_ok] in *.
    apply andb_true_iff in Hnum. destruct Hnum as [Hn Hnum].
    apply cwf_slice; [apply elem_ok_elem_ty, Hok | apply HQ; assumption | reflexivity | reflexivity | lia].
  - (* map *)
    intros k v [HQk _] [HQv _]. split; [intros Hok; discriminate Hok|].
    intros Hok Hrt fl0 num Hnum. cbn [fok rep_tags_ok] in Hok, Hrt. apply andb_true_iff in Hok. destruct Hok as [Hk Hv].
    apply andb_true_iff in Hrt. destruct Hrt as [Hrk Hrv].
    cbn [generic_of] in *. cbv zeta in *. cbn [snd numbers_ok] in *.
    apply andb_true_iff in Hnum. destruct Hnum as [Hnum Hnv]. apply andb_true_iff in Hnum. destruct Hnum as [Hn Hnk].
    destruct (scalar_key_ok k Hk) as [Hek _].
    apply cwf_map; try reflexivity; try assumption; [apply elem_ok_elem_ty, Hv | apply HQk; assumption | apply HQv; assumption | lia].
  - (* struct *)
    intros fs HF. assert (HQ' : Qc (TStruct fs)).
    { intros Hok Hrt Hnum. rewrite elem_ok_struct in Hok. rewrite rep_tags_struct in Hrt. rewrite codec_of_struct in *.
      rewrite numbers_ok_struct in Hnum. apply andb_true_iff in Hnum. destruct Hnum as [Hd Hnum].
      destruct (cfields_cwf fs 1 Hok Hrt HF Hnum) as [I1 I2].
      apply cwf_struct; [exact I2 | exact Hd | intros f Hin; apply I1, Hin | intros f Hin; apply I1, Hin]. }
    split; [exact HQ'|]. intros Hok Hrt fl0 num Hnum. rewrite generic_same in * by exact I. apply HQ'; assumption.
Qed.
Lemma codec_of_cwf t : type_ok t = true -> rep_tags_ok t = true -> numbers_ok (codec_of t) = true -> cwf (codec_of t) t.
Proof. intros H1 H2 H3. apply (proj1 (codec_of_cwf_all t)); assumption. Qed.

(* ==================== Part 19: the round trip ==================== *)
(* what Marshal (&v) produces *)
Definition wire_bytes (t : gty) (v : val) : bytes := enc (codec_of t) (Some v) (ptr_flags top_flags).

Lemma marshal_ptr_enc t v bs :
  type_ok t = true -> rep_tags_ok t = true -> numbers_ok (codec_of t) = true -> wf_val t v = true ->
  Size (TPtr t) (VPtr (Some v)) < lim ->
  Marshal (TPtr t) (VPtr (Some v)) = Ok (Some bs) -> bs = wire_bytes t v /\ len bs < lim.
Proof.
  intros Hty Hrt Hnum Hwf Hsz HM. pose proof (codec_of_cwf t Hty Hrt Hnum) as Hc.
  unfold Size, Marshal in *. cbn [codec_of size_of encode] in *. fold (ptr_flags top_flags) in *.
  pose proof (size_enc _ _ Hc v (ptr_flags top_flags) Hwf) as Hs. fold (wire_bytes t v) in Hs.
  pose proof (szok_eq' _ _ Hs Hsz) as Hn. rewrite Hn in *.
  pose proof (PrimProofs.len_nonneg _ (wire_bytes t v)).
  replace (len (wire_bytes t v) <? 0) with false in HM by lia.
  pose proof (encode_enc _ _ Hc v (ptr_flags top_flags) Hwf Hsz (repeat 0 (Z.to_nat (len (wire_bytes t v))))) as HE.
  fold (wire_bytes t v) in HE. rewrite HE in HM by (unfold len at 2; rewrite repeat_length; lia).
  cbn [rbind] in HM. inversion HM as [Hbs]. rewrite to_nat_len.
  rewrite skipn_all_len by (rewrite repeat_length; reflexivity). rewrite app_nil_r. split; [reflexivity | exact Hsz].
Qed.

Lemma fl_rel_top : fl_rel (ptr_flags top_flags) proto_toplevel.
Proof. unfold fl_rel, frange. vm_compute. repeat split; congruence. Qed.

(* The round trip, up to the nil-versus-empty distinction, with the hypotheses the statement of Spec.v lacks:
   - [rep_tags_ok t]: the [rep] tag option only on slice and map fields (counterexample class (2));
   - [top_ok v]: not a top-level pointer to an empty RawMessage (class (3));
   - the size of what is actually marshalled, [&v], is below the limit ([in_universe] bounds the size of [v]
     marshalled by value, which can be smaller: a zero first field is emitted only under a pointer). *)
Theorem roundtrip_norm_with_hyp : forall t v bs,
  in_universe t v -> representable v = true -> keys_distinct v = true ->
  rep_tags_ok t = true -> top_ok v = true -> Size (TPtr t) (VPtr (Some v)) < lim ->
  Marshal (TPtr t) (VPtr (Some v)) = Ok (Some bs) ->
  exists fuel r, Unmarshal fuel t bs (zero_val t) = Ok (Some r) /\ norm r = norm v.
Proof.
  intros t v bs (Hty & Hnum & Hwf & _) Hrep Hkd Hrt Htop Hsz HM.
  destruct (marshal_ptr_enc t v bs Hty Hrt Hnum Hwf Hsz HM) as [-> Hlim].
  pose proof (codec_of_cwf t Hty Hrt Hnum) as Hc. unfold Unmarshal, wire_bytes in *.
  set (e := enc (codec_of t) (Some v) (ptr_flags top_flags)) in *.
  destruct (len e =? 0) eqn:E0.
  - exists O, (zero_val t). split; [reflexivity|]. symmetry.
    apply (enc_nil_norm _ _ Hc v (ptr_flags top_flags) Hwf Hrep); [unfold frange; vm_compute; split; congruence | right; exact Htop |].
    apply len_0_nil. fold e. apply Z.eqb_eq, E0.
  - assert (He : elem_ty t = true) by (apply elem_ok_elem_ty, Hty).
    destruct (D_elem _ _ Hc He v (ptr_flags top_flags) proto_toplevel (length e + cdepth (codec_of t) + 1)%nat
                Hwf Hrep Hkd fl_rel_top Hlim) as (r & Hr & Hn); [left; intros E; fold e in E; rewrite E in E0; discriminate | fold e; lia |].
    fold e in Hr. exists (length e + cdepth (codec_of t) + 1)%nat, r. rewrite Hr. cbn [rbind].
    rewrite Z.ltb_irrefl. split; [reflexivity | exact Hn].
Qed.

(* ==================== Part 20: the counterexamples, machine-checked ==================== *)
(* (1) the statement of Spec.v is false: an omitted nil RawMessage (or []byte) comes back nil, [norm] makes it non-nil *)
Lemma roundtrip_statement_false : ~ roundtrip_naive_statement.
Proof.
  intros H.
  destruct (H TRawMessage (VRaw false []) []) as (fuel & Hf).
  - unfold in_universe. repeat split; try reflexivity; vm_compute; congruence.
  - reflexivity.
  - reflexivity.
  - vm_compute. reflexivity.
  - unfold Unmarshal in Hf. cbn in Hf. discriminate Hf.
Qed.

Definition roundtrip_norm_statement (extra : gty -> val -> Prop) : Prop :=
  forall t v bs, in_universe t v -> representable v = true -> keys_distinct v = true -> extra t v ->
    Marshal (TPtr t) (VPtr (Some v)) = Ok (Some bs) ->
    exists fuel r, Unmarshal fuel t bs (zero_val t) = Ok (Some r) /\ norm r = norm v.

(* (3) without [top_ok]: a top-level pointer to an empty RawMessage comes back as a nil pointer *)
Lemma roundtrip_norm_needs_top_ok :
  ~ roundtrip_norm_statement (fun t v => rep_tags_ok t = true /\ Size (TPtr t) (VPtr (Some v)) < lim).
Proof.
  intros H.
  destruct (H (TPtr TRawMessage) (VPtr (Some (VRaw true []))) []) as (fuel & r & Hf & Hn).
  - unfold in_universe. repeat split; try reflexivity; vm_compute; congruence.
  - reflexivity.
  - reflexivity.
  - split; [reflexivity | vm_compute; reflexivity].
  - vm_compute. reflexivity.
  - unfold Unmarshal in Hf. cbn in Hf. inversion Hf; subst r. discriminate Hn.
Qed.

(* (2) without [rep_tags_ok]: a scalar field tagged [rep] is written without its tag and cannot be read back *)
Lemma roundtrip_norm_needs_rep_tags_ok :
  ~ roundtrip_norm_statement (fun t v => top_ok v = true /\ Size (TPtr t) (VPtr (Some v)) < lim).
Proof.
  intros H.
  destruct (H (TStruct [GField true (Some {| tag_wire := 0; tag_number := 1; tag_repeated := true; tag_zigzag := false |}) TInt])
              (VStruct [VInt 5]) [5]) as (fuel & r & Hf & Hn).
  - unfold in_universe. repeat split; try reflexivity; vm_compute; congruence.
  - reflexivity.
  - reflexivity.
  - split; [reflexivity | vm_compute; reflexivity].
  - vm_compute. reflexivity.
  - destruct fuel as [|[|[|f]]]; vm_compute in Hf; discriminate Hf.
Qed.

(* STATEMENT FALSE: three classes of counterexamples, each confirmed by vm_compute on the model and by the
   Qed-closed lemmas of Part 20 (in_universe, representable, keys_distinct all hold):
   (1) nil-versus-empty (flaw of the statement's [norm], not of the code) -- Lemma roundtrip_statement_false:
       t = TRawMessage, v = VRaw false []: Marshal (TPtr t) (&v) = [], Unmarshal = zero_val = VRaw false [] <> VRaw true [].
       Also t = TStruct [GField true None TInt; GField true None TBytes], v = VStruct [VInt 5; VBytes false []]:
       Marshal = [8;5]; Unmarshal = VStruct [VInt 5; VBytes false []] <> norm v = VStruct [VInt 5; VBytes true []].
   (2) a [rep] struct tag on a field that is neither a slice nor a map (fails even up to norm)
       -- Lemma roundtrip_norm_needs_rep_tags_ok:
       t = TStruct [GField true (Some {| tag_wire := 0; tag_number := 1; tag_repeated := true; tag_zigzag := false |}) TInt],
       v = VStruct [VInt 5]: Marshal = [5] (the repeated pass writes no tag), Unmarshal = Ok None (an error).
   (3) top-level pointer to an empty RawMessage (fails even up to norm; F17-like, not covered by [representable])
       -- Lemma roundtrip_norm_needs_top_ok:
       t = TPtr TRawMessage, v = VPtr (Some (VRaw true [])): Marshal = [], Unmarshal = zero_val = VPtr None.
   NEEDS-HYPOTHESIS (for the norm variant, see roundtrip_norm_with_hyp): rep_tags_ok t = true, top_ok v = true,
   Size (TPtr t) (VPtr (Some v)) < lim.
   The naive statement is refuted (roundtrip_statement_false); Spec.v now states the proved form. *)
Lemma roundtrip : roundtrip_statement.
Proof. exact roundtrip_norm_with_hyp. Qed.

