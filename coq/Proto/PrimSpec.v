(* Specification of the protobuf wire primitives (LEB128 varints, zig-zag, tags, little-endian fixed
   widths, length-delimited payloads) and the statements tying the MACHINE-TRANSLATED primitives of
   Generated/ProtoGen.v to it. Definitions and statements only; proofs in Proto/PrimProofs.v. *)
From Verif Require Import Base.GoInt Proto.Ext Generated.ProtoGen.
Open Scope Z_scope.

Definition u64 (v : Z) : Prop := 0 <= v < 2 ^ 64.
Definition u32 (v : Z) : Prop := 0 <= v < 2 ^ 32.
Definition i64 (v : Z) : Prop := - 2 ^ 63 <= v < 2 ^ 63.
Definition i32 (v : Z) : Prop := - 2 ^ 31 <= v < 2 ^ 31.

(* canonical (minimal) LEB128 encoding: 7 bits per byte, least significant group first *)
Fixpoint varint_fuel (fuel : nat) (v : Z) : bytes :=
  match fuel with
  | O => []
  | S f => if v <? 128 then [v] else (v mod 128 + 128) :: varint_fuel f (v / 128)
  end.
Definition varint (v : Z) : bytes := varint_fuel 10 v.
(* zig-zag as the protobuf specification defines it *)
Definition zigzag (v : Z) : Z := if 0 <=? v then 2 * v else - 2 * v - 1.
Definition unzigzag (u : Z) : Z := if Z.even u then u / 2 else - ((u + 1) / 2).
Definition tag_of (number wt : Z) : Z := number * 8 + wt.

(* ---- statements ---- *)
Definition varint_length_statement : Prop :=
  forall v, u64 v -> 1 <= len (varint v) <= 10 /\ wfb (varint v) = true.
Definition sizeOfVarint_statement : Prop :=
  forall v, u64 v -> proto_sizeOfVarint v = len (varint v).
Definition encodeVarint_fits_statement : Prop :=
  forall v b, u64 v -> len (varint v) <= len b ->
    proto_encodeVarint b v = (len (varint v), None, varint v ++ skipn (length (varint v)) b).
Definition encodeVarint_short_statement : Prop :=
  forall v b, u64 v -> len b < len (varint v) ->
    proto_encodeVarint b v = (0, Some proto_ErrShortBuffer, b).
Definition decodeVarint_encode_statement : Prop :=
  forall v rest, u64 v -> proto_decodeVarint (varint v ++ rest) = (v, len (varint v), None).
(* totality facts used by the decoders: consumed count within the input, value is a uint64 *)
Definition decodeVarint_bounds_statement : Prop :=
  forall b, wfb b = true ->
    let '(v, n, e) := proto_decodeVarint b in
    0 <= n <= len b /\ u64 v /\ (e = None -> 1 <= n <= 10).
Definition zigzag64_statement : Prop :=
  forall v, i64 v ->
    proto_encodeZigZag64 v = zigzag v /\ u64 (zigzag v) /\ proto_decodeZigZag64 (zigzag v) = v.
Definition unzigzag64_statement : Prop :=
  forall u, u64 u -> proto_decodeZigZag64 u = unzigzag u /\ i64 (unzigzag u) /\ proto_encodeZigZag64 (unzigzag u) = u.
Definition zigzag32_statement : Prop :=
  forall v, i32 v ->
    proto_encodeZigZag32 v = zigzag v /\ u32 (zigzag v) /\ proto_decodeZigZag32 (zigzag v) = v.
Definition flags_int64_statement : Prop :=
  (* flags.uint64 / flags.int64 are inverse on int64 for either value of the zigzag bit *)
  forall f v, 0 <= f < 2 ^ 64 -> i64 v ->
    u64 (proto_flags_uint64 f v) /\ proto_flags_int64 f (proto_flags_uint64 f v) = v.
Definition encodeLE_statement : Prop :=
  forall v b,
    (u32 v -> 4 <= len b -> proto_encodeLE32 b v = (4, None, le_bytes 4 v ++ skipn 4 b)) /\
    (len b < 4 -> proto_encodeLE32 b v = (0, Some proto_ErrShortBuffer, b)) /\
    (u64 v -> 8 <= len b -> proto_encodeLE64 b v = (8, None, le_bytes 8 v ++ skipn 8 b)) /\
    (len b < 8 -> proto_encodeLE64 b v = (0, Some proto_ErrShortBuffer, b)).
Definition decodeLE_statement : Prop :=
  forall v rest,
    (u32 v -> proto_decodeLE32 (le_bytes 4 v ++ rest) = (v, 4, None)) /\
    (u64 v -> proto_decodeLE64 (le_bytes 8 v ++ rest) = (v, 8, None)).
Definition tag_statement : Prop :=
  forall number wt b, 0 <= number < 2 ^ 61 -> 0 <= wt < 8 ->
    proto_encodeTag b number wt = proto_encodeVarint b (tag_of number wt) /\
    proto_sizeOfTag number wt = len (varint (tag_of number wt)) /\
    (forall rest, proto_decodeTag (varint (tag_of number wt) ++ rest) = (number, wt, len (varint (tag_of number wt)), None)).
Definition decodeVarlen_encode_statement : Prop :=
  forall s rest, wfb s = true -> len s < 2 ^ 62 -> len rest < 2 ^ 62 ->
    proto_decodeVarlen (varint (len s) ++ s ++ rest) = (s, len (varint (len s)) + len s, None) /\
    proto_sizeOfVarlen (len s) = len (varint (len s)) + len s.
Definition decodeVarlen_bounds_statement : Prop :=
  forall b, wfb b = true -> len b < 2 ^ 62 ->
    let '(v, n, e) := proto_decodeVarlen b in
    0 <= n <= len b /\ (e = None -> len v <= n /\ wfb v = true).
