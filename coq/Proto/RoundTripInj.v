(* Corollaries of the proto round trip (C03): the fuel of the round trip made explicit (a function of the bytes and
   the type only), and from it the injectivity of Marshal up to the normalisation [norm]: two values of the universe
   whose encodings are equal are the same value -- nothing the property calls "v" is lost or confused by Marshal. *)
From Verif Require Import Base.GoInt Proto.Ext Generated.ProtoGen Proto.Model Proto.PrimSpec Proto.PrimProofs Proto.Spec Proto.DecProofs Proto.RoundTrip.
From Coq Require Import ZifyBool.
Open Scope Z_scope.

Definition rt_fuel (t : gty) (bs : list Z) : nat :=
  if len bs =? 0 then O else (length bs + cdepth (codec_of t) + 1)%nat.

Definition roundtrip_explicit_fuel_statement : Prop :=
  forall t v bs,
  in_universe t v -> representable v = true -> keys_distinct v = true ->
  rep_tags_ok t = true -> top_ok v = true -> Size (TPtr t) (VPtr (Some v)) < lim ->
  Marshal (TPtr t) (VPtr (Some v)) = Ok (Some bs) ->
  exists r, Unmarshal (rt_fuel t bs) t bs (zero_val t) = Ok (Some r) /\ norm r = norm v.

Definition marshal_injective_statement : Prop :=
  forall t v1 v2 bs,
  in_universe t v1 -> representable v1 = true -> keys_distinct v1 = true -> top_ok v1 = true -> Size (TPtr t) (VPtr (Some v1)) < lim ->
  in_universe t v2 -> representable v2 = true -> keys_distinct v2 = true -> top_ok v2 = true -> Size (TPtr t) (VPtr (Some v2)) < lim ->
  rep_tags_ok t = true ->
  Marshal (TPtr t) (VPtr (Some v1)) = Ok (Some bs) -> Marshal (TPtr t) (VPtr (Some v2)) = Ok (Some bs) ->
  norm v1 = norm v2.

Lemma roundtrip_explicit_fuel : roundtrip_explicit_fuel_statement.
Proof.
  intros t v bs (Hty & Hnum & Hwf & _) Hrep Hkd Hrt Htop Hsz HM.
  destruct (marshal_ptr_enc t v bs Hty Hrt Hnum Hwf Hsz HM) as [-> Hlim].
  pose proof (codec_of_cwf t Hty Hrt Hnum) as Hc. unfold rt_fuel, Unmarshal, wire_bytes in *.
  set (e := enc (codec_of t) (Some v) (ptr_flags top_flags)) in *.
  destruct (len e =? 0) eqn:E0.
  - exists (zero_val t). split; [reflexivity|]. symmetry.
    apply (enc_nil_norm _ _ Hc v (ptr_flags top_flags) Hwf Hrep); [unfold frange; vm_compute; split; congruence | right; exact Htop |].
    apply len_0_nil. fold e. apply Z.eqb_eq, E0.
  - assert (He : elem_ty t = true) by (apply elem_ok_elem_ty, Hty).
    destruct (D_elem _ _ Hc He v (ptr_flags top_flags) proto_toplevel (length e + cdepth (codec_of t) + 1)%nat
                Hwf Hrep Hkd fl_rel_top Hlim) as (r & Hr & Hn); [left; intros E; fold e in E; rewrite E in E0; discriminate | fold e; lia |].
    fold e in Hr. exists r. rewrite Hr. cbn [rbind].
    rewrite Z.ltb_irrefl. split; [reflexivity | exact Hn].
Qed.

Lemma marshal_injective : marshal_injective_statement.
Proof.
  intros t v1 v2 bs U1 R1 K1 T1 S1 U2 R2 K2 T2 S2 Hrt M1 M2.
  destruct (roundtrip_explicit_fuel t v1 bs U1 R1 K1 Hrt T1 S1 M1) as (r1 & E1 & N1).
  destruct (roundtrip_explicit_fuel t v2 bs U2 R2 K2 Hrt T2 S2 M2) as (r2 & E2 & N2).
  rewrite E1 in E2. injection E2 as E2. subst r2. rewrite <- N1, <- N2. reflexivity.
Qed.
