(* Hand-written executable model of proto/rewrite.go (Rewriter implementations: RawMessage,
   multiRewriter, MessageRewriter with its fieldset, embddedRewriter, bitOrRW) and of the parts of
   proto/message.go they call (Parse, Append, AppendVarint, FieldNumber.Int32/Int64/Uint32/Uint64).
   The wire primitives (decodeVarint, encodeVarint, EncodeTag, zig-zag) are the MACHINE-TRANSLATED
   definitions of Generated/ProtoGen.v.

   A Go slice expression is written as a checked operation: a violated bound is [RPanic], exactly
   where Go panics; an index into the fieldset is checked the same way. Loops run on structural
   fuel (the length of the input as a nat, the depth of the rewriter); exhaustion is [RFuel].
   Definitions only. *)
From Verif Require Import Base.GoInt Proto.Ext Generated.ProtoGen.
Open Scope Z_scope.

(* ---------- outcomes ---------- *)
Inductive rerr : Set :=
| EEof              (* io.ErrUnexpectedEOF, wrapped *)
| EVarintOverflow   (* errVarintOverflow, wrapped *)
| EWireType         (* invalid wire type *)
| ETrailing.        (* bitOrRW: read < buffer *)

Inductive rres (A : Type) : Type := ROk (a : A) | RErr (e : rerr) | RPanic | RFuel.
Arguments ROk {A} a.
Arguments RErr {A} e.
Arguments RPanic {A}.
Arguments RFuel {A}.
Definition rrbind {A B} (r : rres A) (f : A -> rres B) : rres B :=
  match r with ROk a => f a | RErr e => RErr e | RPanic => RPanic | RFuel => RFuel end.
Notation "'rrlet' x <- e 'in' k" := (rrbind e (fun x => k))
  (at level 200, x pattern, e at level 100, k at level 200, right associativity).

Definition err_of (e : proto_error) : rerr :=
  match e with
  | proto_errVarintOverflow => EVarintOverflow
  | proto_ErrWireTypeUnknown => EWireType
  | _ => EEof
  end.

(* checked slice expressions b[i:] and b[i:j] (len = cap in the model, which is stricter than Go) *)
Definition rfrom (b : bytes) (i : Z) : rres bytes :=
  if (0 <=? i) && (i <=? len b) then ROk (slice_from b i) else RPanic.
Definition rslice (b : bytes) (i j : Z) : rres bytes :=
  if (0 <=? i) && (i <=? j) && (j <=? len b) then ROk (slice b i j) else RPanic.

(* ---------- message.go ---------- *)
(* decode.go DecodeTag *)
Definition DecodeTag (tag : Z) : Z * Z := (shr64 tag 3, and64 tag 7).

(* message.go Parse: (field number, wire type, raw value, rest) *)
Definition Parse (m : bytes) : rres (Z * Z * bytes * bytes) :=
  let '(tag, n, err) := proto_decodeVarint m in
  match err with
  | Some e => RErr (err_of e)
  | None =>
      rrlet m <- rfrom m n in
      let '(f, t) := DecodeTag tag in
      if t =? proto_varint then
        let '(_, n, err) := proto_decodeVarint m in
        match err with
        | Some e => RErr (err_of e)
        | None =>
            if len m <? n then RErr EEof else
            rrlet v <- rslice m 0 n in
            rrlet r <- rfrom m n in
            ROk (f, t, v, r)
        end
      else if t =? proto_varlen then
        let '(l, n, err) := proto_decodeVarint m in
        match err with
        | Some e => RErr (err_of e)
        | None =>
            if w64 (len m - n) <? l then RErr EEof else
            rrlet v <- rslice m n (n + s64 l) in
            rrlet r <- rfrom m (n + s64 l) in
            ROk (f, t, v, r)
        end
      else if t =? proto_fixed32 then
        if len m <? 4 then RErr EEof else
        rrlet v <- rslice m 0 4 in
        rrlet r <- rfrom m 4 in
        ROk (f, t, v, r)
      else if t =? proto_fixed64 then
        if len m <? 8 then RErr EEof else
        rrlet v <- rslice m 0 8 in
        rrlet r <- rfrom m 8 in
        ROk (f, t, v, r)
      else RErr EWireType
  end.

(* message.go Append: tag (and the length for Varlen) are encoded into a 20-byte array, then
   b[:n] and v are appended *)
Definition Append (m : bytes) (f t : Z) (v : bytes) : rres bytes :=
  let b := repeat 0 20 in
  let '(n, _, b) := proto_encodeVarint b (proto_EncodeTag f t) in
  rrlet (n, b) <-
    (if t =? proto_varlen then
       rrlet w <- rfrom b n in
       let '(n1, _, w') := proto_encodeVarint w (w64 (len v)) in
       ROk (n + n1, splice b n w')
     else ROk (n, b)) in
  rrlet hd <- rslice b 0 n in
  ROk (m ++ hd ++ v).

Definition AppendVarint (m : bytes) (f : Z) (v : Z) : rres bytes :=
  let b := repeat 0 10 in
  let '(n, _, b) := proto_encodeVarint b v in
  rrlet hd <- rslice b 0 n in
  Append m f proto_varint hd.

(* ---------- rewrite.go: fieldset ---------- *)
Definition fieldset := list Z.            (* []uint64 *)

(* makeFieldset(n): make(fieldset, (n+63)/64) (Go int arithmetic: / truncates) *)
Definition makeFieldset_words (n : Z) : Z := Z.quot (n + 63) 64.
Definition zero_words (k : Z) : fieldset :=
  (fix go (p : nat) : fieldset := match p with O => [] | S p' => 0 :: go p' end) (Z.to_nat k).
(* make(fieldset, k): k < 0 panics *)
Definition makeFieldset (n : Z) : rres fieldset :=
  let k := makeFieldset_words n in
  if k <? 0 then RPanic else ROk (zero_words k).
Definition fs_len (f : fieldset) : Z := len f * 64.
Definition fs_index (i : Z) : Z * Z := (Z.quot i 64, Z.rem i 64).
Definition fs_has (f : fieldset) (i : Z) : rres bool :=
  let '(x, y) := fs_index i in
  if (0 <=? x) && (x <? len f) then ROk (negb (and64 (shr64 (nth (Z.to_nat x) f 0) y) 1 =? 0)) else RPanic.
Fixpoint set_word (f : fieldset) (x : nat) (w : Z) : fieldset :=
  match f, x with
  | [], _ => []
  | _ :: r, O => w :: r
  | a :: r, S x' => a :: set_word r x' w
  end.
Definition fs_set (f : fieldset) (i : Z) : rres fieldset :=
  let '(x, y) := fs_index i in
  if (0 <=? x) && (x <? len f)
  then ROk (set_word f (Z.to_nat x) (or64 (nth (Z.to_nat x) f 0) (shl64 1 y)))
  else RPanic.

(* ---------- rewriters ---------- *)
(* the Go type T of bitOrRW[T] / BitOr[T] *)
Inductive gokind : Set := GInt | GInt32 | GInt64 | GUint | GUint32 | GUint64.
(* the protobuf kind of the field (reflect.go Kind): the kinds BitOrRewriter accepts
   and that a struct type can produce *)
Inductive pbkind : Set :=
| KInt32 | KInt64 | KSint32 | KSint64 | KUint32 | KUint64 | KFix32 | KFix64 | KSfix32 | KSfix64.

(* A MessageRewriter is a Go slice of length n whose non-nil entries are listed with their index,
   in increasing index order (the slice itself may be 2^29 entries long). *)
Inductive rewriter : Type :=
| RwRaw (m : bytes)                                     (* RawMessage: appends the constant m *)
| RwMulti (rs : list rewriter)                          (* *multiRewriter *)
| RwMessage (n : Z) (es : list (Z * rewriter))          (* MessageRewriter *)
| RwEmbedded (number : Z) (n : Z) (es : list (Z * rewriter))   (* *embddedRewriter *)
| RwBitOr (g : gokind) (k : pbkind) (mask : Z) (number : Z).   (* bitOrRW[T] *)

Fixpoint lookup (es : list (Z * rewriter)) (i : Z) : option rewriter :=
  match es with
  | [] => None
  | (j, r) :: es' => if j =? i then Some r else lookup es' i
  end.

(* r[i] for i := int(f) when i >= 0 && i < len(r) && r[i] != nil *)
Definition tlookup (n : Z) (es : list (Z * rewriter)) (i : Z) : option rewriter :=
  if (0 <=? i) && (i <? n) then lookup es i else None.

Definition rwfun : Type := rewriter -> bytes -> bytes -> rres bytes.

(* MessageRewriter.Rewrite, first loop: one iteration per parsed field *)
Fixpoint msg_loop (rw : rwfun) (k : nat) (n : Z) (es : list (Z * rewriter))
                  (seen : fieldset) (out inp : bytes) {struct k} : rres (fieldset * bytes) :=
  match k with
  | O => RFuel
  | S k' =>
      if len inp =? 0 then ROk (seen, out) else
      rrlet (f, t, v, m) <- Parse inp in
      match tlookup n es f with
      | Some r =>
          rrlet h <- fs_has seen f in
          if h then msg_loop rw k' n es seen out m
          else
            rrlet seen <- fs_set seen f in
            rrlet out <- rw r out v in
            msg_loop rw k' n es seen out m
      | None =>
          rrlet out <- Append out f t v in
          msg_loop rw k' n es seen out m
      end
  end.

(* second loop: templated fields that were not seen are produced from an empty input *)
Fixpoint msg_tail (rw : rwfun) (es : list (Z * rewriter)) (seen : fieldset) (out : bytes) : rres bytes :=
  match es with
  | [] => ROk out
  | (i, r) :: es' =>
      rrlet h <- fs_has seen i in
      if h then msg_tail rw es' seen out
      else rrlet out <- rw r out [] in msg_tail rw es' seen out
  end.

Definition msg_rewrite (rw : rwfun) (n : Z) (es : list (Z * rewriter)) (out inp : bytes) : rres bytes :=
  rrlet seen <- (if n >=? fs_len (zero_words 4) then makeFieldset (n + 1) else ROk (zero_words 4)) in
  rrlet (seen, out) <- msg_loop rw (S (length inp)) n es seen out inp in
  msg_tail rw es seen out.

(* embddedRewriter.Rewrite after the inner message has been rewritten to out (len out > prefix) *)
Definition embed_splice (number : Z) (prefix : Z) (out : bytes) : rres bytes :=
  let b := repeat 0 24 in
  let '(n1, _, b) := proto_encodeVarint b (proto_EncodeTag number proto_varlen) in
  rrlet w <- rfrom b n1 in
  let '(n2, _, w') := proto_encodeVarint w (w64 (len out - prefix)) in
  let b := splice b n1 w' in
  let tagAndLen := n1 + n2 in
  rrlet hd <- rslice b 0 tagAndLen in
  let out := out ++ hd in
  (* copy(out[prefix+tagAndLen:], out[prefix:]) *)
  rrlet dst <- rfrom out (prefix + tagAndLen) in
  rrlet src <- rfrom out prefix in
  let c := Z.min (len dst) (len src) in
  let out := splice out (prefix + tagAndLen) (slice_to src c) in
  (* copy(out[prefix:], b[:tagAndLen]) *)
  rrlet dst <- rfrom out prefix in
  let c := Z.min (len dst) (len hd) in
  ROk (splice out prefix (slice_to hd c)).

(* wire type of a kind (reflect.go primitiveTypes) *)
Definition kind_wire (k : pbkind) : Z :=
  match k with
  | KFix32 | KSfix32 => proto_fixed32
  | KFix64 | KSfix64 => proto_fixed64
  | _ => proto_varint
  end.

(* bitOrRW.Rewrite, first part: the input value decoded by the wire type of the field; an empty
   input is 0, trailing bytes are an error *)
Definition bitor_decode (k : pbkind) (inp : bytes) : rres Z :=
  if len inp =? 0 then ROk 0 else
  let '(u, n, err) :=
    if kind_wire k =? proto_fixed32 then proto_decodeLE32 inp
    else if kind_wire k =? proto_fixed64 then proto_decodeLE64 inp
    else proto_decodeVarint inp in
  match err with
  | Some e => RErr (err_of e)
  | None => if n <? len inp then RErr ETrailing else ROk u
  end.

(* the conversion T(x) of a 64-bit value (signed or unsigned) to the Go type T *)
Definition conv (g : gokind) (x : Z) : Z :=
  match g with
  | GInt | GInt64 => s64 x
  | GInt32 => s32 x
  | GUint | GUint64 => w64 x
  | GUint32 => w32 x
  end.

(* second part: the value as a T, zig-zag removed for the signed zig-zag kinds *)
Definition bitor_in (g : gokind) (k : pbkind) (u : Z) : Z :=
  match k with
  | KSint32 | KSfix32 => conv g (proto_decodeZigZag32 (w32 u))
  | KSint64 | KSfix64 => conv g (proto_decodeZigZag64 u)
  | _ => conv g u
  end.

(* third part: the number written for v (v |= mask done, Z.lor on two's complement integers stays
   in the range of T) *)
Definition bitor_value (k : pbkind) (v : Z) : Z :=
  match k with
  | KInt32 => w64 (s32 v)                               (* f.Int32(int32(v)) = AppendVarint(uint64(int64(int32(v)))) *)
  | KInt64 => w64 (s64 v)
  | KSint32 => proto_encodeZigZag32 (s32 v)             (* f.Uint32(encodeZigZag32(int32(v))) *)
  | KSint64 => proto_encodeZigZag64 (s64 v)
  | KUint32 | KUint64 => w64 v                          (* f.Uint64(uint64(v)) *)
  | KFix32 => w32 v                                     (* f.Fixed32(uint32(v)) *)
  | KFix64 => w64 v                                     (* f.Fixed64(uint64(v)) *)
  | KSfix32 => proto_encodeZigZag32 (s32 v)             (* f.Fixed32(encodeZigZag32(int32(v))) *)
  | KSfix64 => proto_encodeZigZag64 (s64 v)
  end.

(* message.go AppendFixed32 / AppendFixed64 *)
Definition AppendFixed32 (m : bytes) (f : Z) (v : Z) : rres bytes := Append m f proto_fixed32 (put_le32 (repeat 0 4) v).
Definition AppendFixed64 (m : bytes) (f : Z) (v : Z) : rres bytes := Append m f proto_fixed64 (put_le64 (repeat 0 8) v).
Definition AppendVarlen (m : bytes) (f : Z) (v : bytes) : rres bytes := Append m f proto_varlen v.

(* the field written by bitOrRW: f.X(..) builds a RawMessage from nil *)
Definition bitor_field (k : pbkind) (number : Z) (x : Z) : rres bytes :=
  if kind_wire k =? proto_fixed32 then AppendFixed32 [] number x
  else if kind_wire k =? proto_fixed64 then AppendFixed64 [] number x
  else AppendVarint [] number x.

Fixpoint rewrite (fuel : nat) (r : rewriter) (out inp : bytes) {struct fuel} : rres bytes :=
  match fuel with
  | O => RFuel
  | S fuel' =>
      match r with
      | RwRaw m => ROk (out ++ m)
      | RwMulti rs =>
          (fix go (rs : list rewriter) (out : bytes) : rres bytes :=
             match rs with
             | [] => ROk out
             | r :: rs' => rrlet out <- rewrite fuel' r out inp in go rs' out
             end) rs out
      | RwMessage n es => msg_rewrite (rewrite fuel') n es out inp
      | RwEmbedded number n es =>
          let prefix := len out in
          rrlet out <- msg_rewrite (rewrite fuel') n es out inp in
          if len out =? prefix then ROk out else embed_splice number prefix out
      | RwBitOr g k mask number =>
          rrlet u <- bitor_decode k inp in
          rrlet m <- bitor_field k number (bitor_value k (Z.lor (bitor_in g k u) mask)) in
          ROk (out ++ m)
      end
  end.

(* nesting depth: the fuel [rewrite] needs *)
Fixpoint depth (r : rewriter) : nat :=
  match r with
  | RwRaw _ => 1
  | RwMulti rs => S (fold_right (fun r d => Nat.max (depth r) d) O rs)
  | RwMessage _ es => S (fold_right (fun e d => Nat.max (depth (snd e)) d) O es)
  | RwEmbedded _ _ es => S (fold_right (fun e d => Nat.max (depth (snd e)) d) O es)
  | RwBitOr _ _ _ _ => 1
  end.

Definition Rewrite (r : rewriter) (out inp : bytes) : rres bytes := rewrite (depth r) r out inp.
