(* C12: assembly of the final statements from the three proof files
   (WireSpecProofs: the specification reads every legal encoding; WireDecProofs: the package decoder refines the
   package dialect of the specification; WireEncProofs: the package's bytes are standard). *)
From Coq Require Import ZArith List Bool Lia.
From Verif Require Import Base.GoInt Proto.Ext Generated.ProtoGen Proto.Model Proto.PrimSpec Proto.Spec Proto.WireSpec.
Import ListNotations.
Open Scope Z_scope.

Lemma wfb_app (a b : bytes) : wfb (a ++ b) = wfb a && wfb b.
Proof. unfold wfb. apply forallb_app. Qed.

Lemma leb_wfb : forall n v, 0 <= v < 128 ^ (Z.of_nat n + 1) -> wfb (leb n v) = true.
Proof.
  induction n as [|n IH]; intros v Hv.
  - cbn [leb wfb forallb]. change (128 ^ (Z.of_nat 0 + 1)) with 128 in Hv. unfold is_byte.
    apply andb_true_iff; split; [|reflexivity]. apply andb_true_iff; split; [apply Z.leb_le|apply Z.ltb_lt]; lia.
  - cbn [leb]. change (wfb ((v mod 128 + 128) :: leb n (v / 128))) with (is_byte (v mod 128 + 128) && wfb (leb n (v / 128))).
    apply andb_true_iff; split.
    + pose proof (Z.mod_pos_bound v 128 ltac:(lia)). unfold is_byte.
      apply andb_true_iff; split; [apply Z.leb_le|apply Z.ltb_lt]; lia.
    + apply IH. replace (Z.of_nat (S n) + 1) with (Z.succ (Z.of_nat n + 1)) in Hv by lia.
      rewrite Z.pow_succ_r in Hv by lia. split; [apply Z.div_pos; lia|apply Z.div_lt_upper_bound; lia].
Qed.

Lemma le_bytes_wfb : forall n z, wfb (le_bytes n z) = true.
Proof.
  induction n as [|n IH]; intros z; [reflexivity|]. cbn [le_bytes].
  change (wfb (z mod 256 :: le_bytes n (z / 256))) with (is_byte (z mod 256) && wfb (le_bytes n (z / 256))).
  rewrite IH, andb_true_r. pose proof (Z.mod_pos_bound z 256 ltac:(lia)). unfold is_byte.
  apply andb_true_iff; split; [apply Z.leb_le|apply Z.ltb_lt]; lia.
Qed.

Lemma leb_ok_wfb n v : leb_ok n v -> wfb (leb n v) = true.
Proof. intros (_ & H & _). apply leb_wfb, H. Qed.

(* induction on record trees (nested through lists) *)
Fixpoint rtree_size (t : rtree) : nat :=
  match t with
  | RLeaf _ _ _ => 1%nat
  | RNode _ _ _ sub => S ((fix go (l : list rtree) : nat := match l with [] => O | x :: r => (rtree_size x + go r)%nat end) sub)
  end.

Lemma ser_node_eq num kt kl sub :
  ser (RNode num kt kl sub) = leb kt (num * 8 + 2) ++ leb kl (len (sers sub)) ++ sers sub.
Proof.
  cbn [ser].
  assert (E : (fix sers (ts : list rtree) : bytes := match ts with [] => [] | x :: r => ser x ++ sers r end) sub = sers sub).
  { induction sub as [|x r IH]; [reflexivity|]. cbn [sers]. rewrite IH. reflexivity. }
  rewrite E. reflexivity.
Qed.

Lemma pad_ok_node num kt kl sub :
  pad_ok (RNode num kt kl sub) <-> leb_ok kt (num * 8 + 2) /\ leb_ok kl (len (sers sub)) /\ Forall pad_ok sub.
Proof.
  cbn [pad_ok].
  assert (E : (fix sers (ts : list rtree) : bytes := match ts with [] => [] | x :: r => ser x ++ sers r end) sub = sers sub).
  { induction sub as [|x r IH]; [reflexivity|]. cbn [sers]. rewrite IH. reflexivity. }
  rewrite E. clear E.
  assert (F : (fix all (ts : list rtree) : Prop := match ts with [] => True | x :: r => pad_ok x /\ all r end) sub <-> Forall pad_ok sub).
  { induction sub as [|x r IH]; [split; constructor|]. split.
    - intros [H1 H2]. constructor; [exact H1|]. apply IH. exact H2.
    - intros H. inversion H; subst. split; [assumption|]. apply IH. assumption. }
  tauto.
Qed.

Lemma ser_wfb_strong : forall n t, (rtree_size t <= n)%nat -> pad_ok t -> wfb (ser t) = true.
Proof.
  induction n as [|n IH]; intros t Hs Hp.
  - destruct t; cbn in Hs; lia.
  - destruct t as [num kt l | num kt kl sub].
    + cbn [ser]. cbn [pad_ok] in Hp. destruct Hp as [Ht Hl]. rewrite wfb_app, (leb_ok_wfb _ _ Ht). cbn [andb].
      destruct l as [z k | z | z | s k].
      * apply leb_ok_wfb, Hl.
      * apply le_bytes_wfb.
      * apply le_bytes_wfb.
      * destruct Hl as [Hk Hs']. rewrite wfb_app, (leb_ok_wfb _ _ Hk), Hs'. reflexivity.
    + rewrite ser_node_eq. apply pad_ok_node in Hp. destruct Hp as (Ht & Hl & Hsub).
      rewrite !wfb_app, (leb_ok_wfb _ _ Ht), (leb_ok_wfb _ _ Hl). cbn [andb].
      cbn [rtree_size] in Hs.
      assert (G : forall l, ((fix go (l : list rtree) : nat := match l with [] => O | x :: r => (rtree_size x + go r)%nat end) l <= n)%nat ->
                            Forall pad_ok l -> wfb (sers l) = true).
      { induction l as [|x r IHl]; intros Hn Hf; [reflexivity|]. cbn [sers]. inversion Hf; subst.
        rewrite wfb_app. apply andb_true_iff; split.
        - apply IH; [lia|assumption].
        - apply IHl; [lia|assumption]. }
      apply G; [lia|assumption].
Qed.

Lemma sers_wfb : forall ts, Forall pad_ok ts -> wfb (sers ts) = true.
Proof.
  induction ts as [|x r IH]; intros H; [reflexivity|]. inversion H; subst. cbn [sers]. rewrite wfb_app.
  apply andb_true_iff; split; [eapply ser_wfb_strong; [apply le_n|assumption]|apply IH; assumption].
Qed.

(* ================= (b): Unmarshal reads every legal encoding ================= *)
From Verif Require Proto.WireSpecProofs Proto.WireDecProofs.
(* no zigzag tag on a field whose type is a struct or a pointer to a struct *)
Definition zz_struct_ok : gty -> bool := WireDecProofs.A.zz_ok.

(* the statement (b) of WireSpec.v with the hypothesis found missing by the proof of (b1): no zigzag tag on a field
   whose type is a struct or a pointer to a struct (WireDecProofs.zz_ok) *)
Definition unmarshal_reencoded_zz_statement : Prop :=
  forall bp t m w, type_ok t = true -> is_struct_ty t = true -> numbers_ok (codec_of t) = true ->
    tags_sane t = true -> plain t = true -> zz_struct_ok t = true ->
    desc_wf (PMsg (fields_of t)) = true -> msg_wf (PMsg (fields_of t)) (PVMsg m) = true ->
    reencodes bp (fields_of t) m w -> len w < lim ->
    exists fuel r v0, Unmarshal fuel t w (zero_val t) = Ok (Some r) /\ of_msg t m = Some v0 /\ norm r = norm v0.

Theorem unmarshal_reencoded_zz : unmarshal_reencoded_zz_statement.
Proof.
  intros bp t m w Hty Hst Hnum Htag Hpl Hzz Hdw Hmw Hre Hlen.
  assert (Hw : wfb w = true).
  { destruct Hre as (trees & _ & Hp & ->). apply sers_wfb, Hp. }
  apply (WireDecProofs.unmarshal_refines_zz t w m); try assumption.
  apply (WireSpecProofs.spec_reencode pkgd bp (fields_of t) m w); try assumption.
  right. left. reflexivity.
Qed.

(* and the reference semantics agrees: the specification itself reads w as m *)
Corollary reencoded_both : forall bp t m w, type_ok t = true -> is_struct_ty t = true -> numbers_ok (codec_of t) = true ->
    tags_sane t = true -> plain t = true -> zz_struct_ok t = true ->
    desc_wf (PMsg (fields_of t)) = true -> msg_wf (PMsg (fields_of t)) (PVMsg m) = true ->
    reencodes bp (fields_of t) m w -> len w < lim ->
    spec_decode std (fields_of t) w = Some m /\
    exists fuel r v0, Unmarshal fuel t w (zero_val t) = Ok (Some r) /\ of_msg t m = Some v0 /\ norm r = norm v0.
Proof.
  intros bp t m w Hty Hst Hnum Htag Hpl Hzz Hdw Hmw Hre Hlen. split.
  - apply (WireSpecProofs.spec_reencode std bp (fields_of t) m w); try assumption. left. reflexivity.
  - apply (unmarshal_reencoded_zz bp t m w); assumption.
Qed.
