(* proto/message.go Scan: the loop over Parse (model of Parse: Proto/RewriteModel.v, written for C19 and tied to the
   code there and here by correspondence). The callback of the harness records every field and never stops early. *)
From Verif Require Import Base.GoInt Proto.Ext Generated.ProtoGen Proto.RewriteModel.

Fixpoint scan (fuel : nat) (b : bytes) : rres (list (Z * Z * bytes)) :=
  match b with
  | [] => ROk []
  | _ =>
    match fuel with
    | O => RFuel
    | S f =>
      match Parse b with
      | ROk (fn, t, v, m) =>
          match scan f m with
          | ROk l => ROk ((fn, t, v) :: l)
          | RErr e => RErr e
          | RPanic => RPanic
          | RFuel => RFuel
          end
      | RErr e => RErr e
      | RPanic => RPanic
      | RFuel => RFuel
      end
    end
  end.
Definition Scan (b : bytes) : rres (list (Z * Z * bytes)) := scan (length b) b.

(* EVERY byte string: Scan terminates within len(b) calls of Parse and returns fields or an error, never a Go panic
   (out-of-range slice) -- the bound is the one Parse_total carries (a model artefact of signed lengths) *)
Definition scan_total_statement : Prop :=
  forall b, wfb b = true -> len b < 2 ^ 62 ->
    match Scan b with ROk _ | RErr _ => True | RPanic | RFuel => False end.
