(* Specification side of C19 (proto rewriters): messages as lists of raw fields, the abstract
   rewrite on field lists, the regularity conditions on rewriters, and the statements proved in
   Proto/RewriteLemmas.v and Proto/RewriteProofs.v. Definitions and statements only. *)
From Verif Require Import Base.GoInt Proto.Ext Generated.ProtoGen Proto.PrimSpec Proto.RewriteModel.
Open Scope Z_scope.

(* ---------- messages as field lists ---------- *)
Record field : Type := mkField { fnum : Z; fwt : Z; fval : bytes }.

(* the fields of a message, as message.go Parse splits them; an error is the error of Parse *)
Fixpoint parse_fields (k : nat) (b : bytes) : rres (list field) :=
  match k with
  | O => RFuel
  | S k' =>
      if len b =? 0 then ROk [] else
      rrlet (f, t, v, m) <- Parse b in
      rrlet fs <- parse_fields k' m in
      ROk (mkField f t v :: fs)
  end.
Definition fields_of (b : bytes) : rres (list field) := parse_fields (S (length b)) b.

(* the canonical encoding of a field: minimal tag, minimal length prefix, value as it stands *)
Definition enc_field (f : field) : bytes :=
  varint (tag_of (fnum f) (fwt f)) ++ (if fwt f =? 2 then varint (len (fval f)) else []) ++ fval f.
Definition enc_fields (fs : list field) : bytes := flat_map enc_field fs.

(* a complete varint (possibly over-long), the raw value of a field of wire type 0 *)
Definition is_varint (v : bytes) : bool :=
  let '(_, n, e) := proto_decodeVarint v in isnil e && (n =? len v).
Definition wf_field (f : field) : bool :=
  (0 <=? fnum f) && (fnum f <? 2 ^ 61) && wfb (fval f) &&
  (if fwt f =? 0 then is_varint (fval f)
   else if fwt f =? 1 then len (fval f) =? 8
   else if fwt f =? 2 then len (fval f) <? 2 ^ 62
   else if fwt f =? 5 then len (fval f) =? 4
   else false).
Definition wf_fields (fs : list field) : bool := forallb wf_field fs.

(* ---------- the abstract rewrite ---------- *)
Definition mem (i : Z) (l : list Z) : bool := existsb (Z.eqb i) l.

Section Msg.
  Variable emit : rewriter -> bytes -> option bytes.
  Variable n : Z.
  Variable es : list (Z * rewriter).
  (* fields in input order: a templated number is rewritten at its first occurrence from the value
     of that occurrence and dropped afterwards; every other field is written back *)
  Fixpoint spec_body (fs : list field) (seen : list Z) : option bytes :=
    match fs with
    | [] => Some []
    | f :: rest =>
        match tlookup n es (fnum f) with
        | Some r =>
            if mem (fnum f) seen then spec_body rest seen
            else dlet a <- emit r (fval f) in
                 dlet b <- spec_body rest (fnum f :: seen) in Some (a ++ b)
        | None => dlet b <- spec_body rest seen in Some (enc_field f ++ b)
        end
    end.
  (* templated numbers absent from the input are produced from the empty value, in number order *)
  Fixpoint spec_tail (es' : list (Z * rewriter)) (present : list Z) : option bytes :=
    match es' with
    | [] => Some []
    | (i, r) :: es'' =>
        if mem i present then spec_tail es'' present
        else dlet a <- emit r [] in dlet b <- spec_tail es'' present in Some (a ++ b)
    end.
  Definition spec_msg (fs : list field) : option bytes :=
    dlet a <- spec_body fs [] in dlet b <- spec_tail es (map fnum fs) in Some (a ++ b).
End Msg.

(* the field a bit-or rewriter writes for the number x: a varint, or 4 / 8 little-endian bytes *)
Definition bitor_spec_field (k : pbkind) (number : Z) (x : Z) : field :=
  mkField number (kind_wire k)
    (if kind_wire k =? proto_fixed32 then le_bytes 4 x
     else if kind_wire k =? proto_fixed64 then le_bytes 8 x
     else varint x).

(* what a rewriter appends for the value v (None: an error) *)
Fixpoint emit (fuel : nat) (r : rewriter) (v : bytes) {struct fuel} : option bytes :=
  match fuel with
  | O => None
  | S fuel' =>
      match r with
      | RwRaw m => Some m
      | RwMulti rs =>
          (fix go (rs : list rewriter) : option bytes :=
             match rs with
             | [] => Some []
             | r :: rs' => dlet a <- emit fuel' r v in dlet b <- go rs' in Some (a ++ b)
             end) rs
      | RwMessage n es =>
          match fields_of v with
          | ROk fs => spec_msg (emit fuel') n es fs
          | _ => None
          end
      | RwEmbedded number n es =>
          match fields_of v with
          | ROk fs =>
              dlet inner <- spec_msg (emit fuel') n es fs in
              Some (if len inner =? 0 then [] else enc_field (mkField number 2 inner))
          | _ => None
          end
      | RwBitOr g k mask number =>
          match bitor_decode k v with
          | ROk u => Some (enc_field (bitor_spec_field k number (bitor_value k (Z.lor (bitor_in g k u) mask))))
          | _ => None
          end
      end
  end.
Definition spec_rewrite (r : rewriter) (inp : bytes) : option bytes := emit (depth r) r inp.

(* the value a slot rewriter sees: the first occurrence of its number, or the empty value *)
Fixpoint first_value (i : Z) (fs : list field) : bytes :=
  match fs with
  | [] => []
  | f :: rest => if fnum f =? i then fval f else first_value i rest
  end.
Definition untouched (n : Z) (es : list (Z * rewriter)) (f : field) : bool :=
  match tlookup n es (fnum f) with Some _ => false | None => true end.

(* ---------- conditions on rewriters ---------- *)
(* the non-nil entries of a MessageRewriter of length n, in increasing index order *)
Fixpoint sorted_from (lo : Z) (es : list (Z * rewriter)) (n : Z) : bool :=
  match es with
  | [] => true
  | (i, _) :: es' => (lo <=? i) && (i <? n) && sorted_from (i + 1) es' n
  end.
Definition wf_entries (n : Z) (es : list (Z * rewriter)) : Prop :=
  sorted_from 0 es n = true /\ 0 <= n < 2 ^ 62.
Inductive wf_rw : rewriter -> Prop :=
| wf_raw : forall m, wfb m = true -> wf_rw (RwRaw m)
| wf_multi : forall rs, Forall wf_rw rs -> wf_rw (RwMulti rs)
| wf_message : forall n es, wf_entries n es -> Forall (fun e => wf_rw (snd e)) es -> wf_rw (RwMessage n es)
| wf_embedded : forall number n es, 0 <= number < 2 ^ 61 -> wf_entries n es ->
    Forall (fun e => wf_rw (snd e)) es -> wf_rw (RwEmbedded number n es)
| wf_bitor : forall g k mask number, 0 <= number < 2 ^ 61 -> wf_rw (RwBitOr g k mask number).

(* the seen-set allocated for a MessageRewriter of length n, in bits *)
Definition seen_bits (n : Z) : Z := 64 * (if n >=? 256 then makeFieldset_words (n + 1) else 4).
(* every non-nil entry has a bit in the seen-set, at every level (always true: fits_all_statement) *)
Inductive fits : rewriter -> Prop :=
| fits_raw : forall m, fits (RwRaw m)
| fits_multi : forall rs, Forall fits rs -> fits (RwMulti rs)
| fits_message : forall n es, Forall (fun e => fst e < seen_bits n /\ fits (snd e)) es -> fits (RwMessage n es)
| fits_embedded : forall number n es, Forall (fun e => fst e < seen_bits n /\ fits (snd e)) es -> fits (RwEmbedded number n es)
| fits_bitor : forall g k mask number, fits (RwBitOr g k mask number).

(* regular slots: the rewriter stored at index i produces fields numbered i only (what the template
   compiler builds: constants f.Int64(..) etc., embedded message rewriters, bit-or rewriters) *)
Inductive slot_ok : Z -> rewriter -> Prop :=
| so_raw : forall i m fs, wfb m = true -> fields_of m = ROk fs -> Forall (fun f => fnum f = i) fs -> slot_ok i (RwRaw m)
| so_multi : forall i rs, Forall (slot_ok i) rs -> slot_ok i (RwMulti rs)
| so_embedded : forall i n es, 0 <= i < 2 ^ 61 -> entries_ok es -> slot_ok i (RwEmbedded i n es)
| so_bitor : forall i g k mask, 0 <= i < 2 ^ 61 -> slot_ok i (RwBitOr g k mask i)
with entries_ok : list (Z * rewriter) -> Prop :=
| eo_nil : entries_ok []
| eo_cons : forall i r es, slot_ok i r -> entries_ok es -> entries_ok ((i, r) :: es).

(* ---------- statements: wire level (Proto/RewriteLemmas.v) ---------- *)
(* decodeVarint looks at the varint only *)
Definition decodeVarint_app_statement : Prop :=
  forall b r v n, proto_decodeVarint b = (v, n, None) -> proto_decodeVarint (b ++ r) = (v, n, None).
Definition decodeVarint_firstn_statement : Prop :=
  forall b v n, wfb b = true -> proto_decodeVarint b = (v, n, None) ->
    proto_decodeVarint (firstn (Z.to_nat n) b) = (v, n, None).
(* Parse: total on byte strings, consumes at least one byte, returns pieces of its input.
   Without a bound on the length of the input the model of Parse can reach a negative slice bound
   (a declared payload length of 2^63 or more inside an input at least that long): no Go slice is
   that long, the statements below carry the bound explicitly. *)
Definition Parse_total_unbounded_statement : Prop :=
  forall b, wfb b = true ->
    match Parse b with
    | ROk (f, t, v, m) =>
        wf_field (mkField f t v) = true /\ wfb m = true /\ (length m < length b)%nat
    | RErr _ => True
    | RPanic | RFuel => False
    end.
Definition Parse_total_statement : Prop :=
  forall b, wfb b = true -> len b < 2 ^ 62 ->
    match Parse b with
    | ROk (f, t, v, m) =>
        wf_field (mkField f t v) = true /\ wfb m = true /\ (length m < length b)%nat
    | RErr _ => True
    | RPanic | RFuel => False
    end.
Definition Parse_app_statement : Prop :=
  forall b r f t v m, wfb b = true -> len (b ++ r) < 2 ^ 64 -> Parse b = ROk (f, t, v, m) ->
    Parse (b ++ r) = ROk (f, t, v, m ++ r).
Definition Parse_enc_statement : Prop :=
  forall f r, wf_field f = true -> len r < 2 ^ 62 ->
    Parse (enc_field f ++ r) = ROk (fnum f, fwt f, fval f, r).
Definition Append_spec_statement : Prop :=
  forall m f, wf_field f = true -> Append m (fnum f) (fwt f) (fval f) = ROk (m ++ enc_field f).
Definition bitor_field_statement : Prop :=
  forall k number x, 0 <= number < 2 ^ 61 -> 0 <= x < 2 ^ 64 ->
    bitor_field k number x = ROk (enc_field (bitor_spec_field k number x)) /\
    wf_field (bitor_spec_field k number x) = true.
Definition AppendVarint_spec_statement : Prop :=
  forall m number x, 0 <= number < 2 ^ 61 -> 0 <= x < 2 ^ 64 ->
    AppendVarint m number x = ROk (m ++ enc_field (mkField number 0 (varint x))) /\
    wf_field (mkField number 0 (varint x)) = true.
(* field lists *)
Definition parse_fields_fuel_statement : Prop :=
  forall k b, wfb b = true -> (length b < k)%nat -> parse_fields k b = fields_of b.
Definition fields_of_total_statement : Prop :=
  forall b, wfb b = true -> len b < 2 ^ 62 ->
    match fields_of b with
    | ROk fs => wf_fields fs = true
    | RErr _ => True
    | RPanic | RFuel => False
    end.
Definition fields_of_app_statement : Prop :=
  forall a b fa fb, wfb a = true -> wfb b = true -> len (a ++ b) < 2 ^ 64 ->
    fields_of a = ROk fa -> fields_of b = ROk fb ->
    fields_of (a ++ b) = ROk (fa ++ fb).
Definition fields_of_enc_statement : Prop :=
  forall fs, wf_fields fs = true -> len (enc_fields fs) < 2 ^ 62 -> fields_of (enc_fields fs) = ROk fs.

(* ---------- statements: the seen-set and the splice (Proto/RewriteLemmas.v) ---------- *)
Definition fieldset_statement : Prop :=
  forall k, 0 <= k ->
    (forall i, 0 <= i < 64 * k -> fs_has (zero_words k) i = ROk false) /\
    (forall (s : fieldset) i, len s = k -> 0 <= i < 64 * k ->
       exists s', fs_set s i = ROk s' /\ len s' = k /\
         forall j, 0 <= j < 64 * k ->
           fs_has s' j = rrbind (fs_has s j) (fun h => ROk ((j =? i) || h))) /\
    (forall (s : fieldset) i, len s = k -> 0 <= i -> 64 * k <= i -> fs_has s i = RPanic /\ fs_set s i = RPanic).
Definition embed_splice_w_statement : Prop :=
  forall number out inner, 0 <= number < 2 ^ 64 -> 0 < len inner ->
    embed_splice number (len out) (out ++ inner) =
      ROk (out ++ varint (proto_EncodeTag number proto_varlen) ++ varint (w64 (len inner)) ++ inner).
Definition embed_splice_statement : Prop :=
  forall number out inner, 0 <= number < 2 ^ 64 -> 0 < len inner < 2 ^ 62 ->
    embed_splice number (len out) (out ++ inner) =
      ROk (out ++ varint (proto_EncodeTag number proto_varlen) ++ varint (len inner) ++ inner).

(* ---------- statements: the rewriters (Proto/RewriteProofs.v) ---------- *)
(* refinement and totality: on every byte string the model returns what the abstract rewrite says,
   appended to out, or an error where the abstract rewrite has none; it never panics and never runs
   out of fuel. (A length prefix is written modulo 2^64: the outputs are equal below that size.) *)
Definition rewrite_refines_statement : Prop :=
  forall r out inp, wf_rw r -> wfb inp = true -> len inp < 2 ^ 62 ->
    match spec_rewrite r inp with
    | Some o => exists o', Rewrite r out inp = ROk (out ++ o') /\ (len o < 2 ^ 64 \/ len o' < 2 ^ 64 -> o' = o)
    | None => exists e, Rewrite r out inp = RErr e
    end.
(* no Go panic (no slice or seen-set index out of range) and termination, for every rewriter *)
Definition rewrite_no_panic_statement : Prop :=
  forall r out inp, wf_rw r -> wfb inp = true -> len inp < 2 ^ 62 ->
    Rewrite r out inp <> RPanic /\ Rewrite r out inp <> RFuel.
(* the seen-set has a bit for every index of the MessageRewriter, whatever its length *)
Definition seen_bits_statement : Prop := forall n, 0 <= n -> n <= seen_bits n.
Definition fits_all_statement : Prop := forall r, wf_rw r -> fits r.

(* the output of a regular message rewriter on a valid message: it is a valid message (a); the
   fields with numbers the rewriter does not mention are those of the input, same values, same
   order (b); the fields with a templated number i are exactly what the rewriter of i emits for
   the first value of i in the input, or for the empty value when i is absent (c) *)
Definition rewrite_output_statement : Prop :=
  forall n es inp fs o,
    wf_rw (RwMessage n es) -> entries_ok es -> wfb inp = true -> len inp < 2 ^ 62 ->
    fields_of inp = ROk fs ->
    spec_rewrite (RwMessage n es) inp = Some o -> len o < 2 ^ 62 ->
    exists ofs,
      fields_of o = ROk ofs /\ wf_fields ofs = true /\
      filter (untouched n es) ofs = filter (untouched n es) fs /\
      forall i r, In (i, r) es ->
        exists chunk cfs,
          emit (depth r) r (first_value i fs) = Some chunk /\
          fields_of chunk = ROk cfs /\
          filter (fun f => fnum f =? i) ofs = cfs.
(* the same read off the model's result: whenever the model of a regular MessageRewriter returns a value
   for a valid message, that value is out followed by a valid message with the properties above *)
Definition rewrite_message_statement : Prop :=
  forall n es out inp fs res,
    wf_rw (RwMessage n es) -> entries_ok es ->
    wfb inp = true -> len inp < 2 ^ 62 -> fields_of inp = ROk fs ->
    Rewrite (RwMessage n es) out inp = ROk res -> len res < 2 ^ 62 ->
    exists o ofs,
      res = out ++ o /\ fields_of o = ROk ofs /\ wf_fields ofs = true /\
      filter (untouched n es) ofs = filter (untouched n es) fs /\
      forall i r, In (i, r) es ->
        exists chunk cfs,
          spec_rewrite r (first_value i fs) = Some chunk /\
          fields_of chunk = ROk cfs /\
          filter (fun f => fnum f =? i) ofs = cfs.
(* byte level: for a canonically encoded input, the untouched part of the output is byte-identical *)
Definition rewrite_canonical_statement : Prop :=
  forall n es fs o ofs,
    fields_of o = ROk ofs ->
    filter (untouched n es) ofs = filter (untouched n es) fs ->
    enc_fields (filter (untouched n es) ofs) = enc_fields (filter (untouched n es) fs).
(* what the emitted chunk of a slot is, by kind of rewriter *)
Definition emit_kinds_statement : Prop :=
  forall fuel v,
    (forall m, emit (S fuel) (RwRaw m) v = Some m) /\
    (forall number n es,
       emit (S fuel) (RwEmbedded number n es) v =
       match emit (S fuel) (RwMessage n es) v with
       | Some inner => Some (if len inner =? 0 then [] else enc_field (mkField number 2 inner))
       | None => None
       end) /\
    (forall g k mask number u, bitor_decode k v = ROk u ->
       emit (S fuel) (RwBitOr g k mask number) v =
       Some (enc_field (bitor_spec_field k number (bitor_value k (Z.lor (bitor_in g k u) mask))))).
(* bit-or: for T the Go type of the field, the number written is the field's encoding of value | mask,
   where the input number is the field's encoding of value: plain, two's complement or zig-zag, for
   every kind BitOrRewriter accepts *)
Definition kind_go (k : pbkind) : gokind :=
  match k with
  | KInt32 | KSint32 | KSfix32 => GInt32
  | KInt64 | KSint64 | KSfix64 => GInt64
  | KUint32 | KFix32 => GUint32
  | KUint64 | KFix64 => GUint64
  end.
Definition kind_range (k : pbkind) (x : Z) : Prop :=
  match kind_go k with
  | GInt32 => - 2 ^ 31 <= x < 2 ^ 31
  | GInt64 | GInt => - 2 ^ 63 <= x < 2 ^ 63
  | GUint32 => 0 <= x < 2 ^ 32
  | GUint64 | GUint => 0 <= x < 2 ^ 64
  end.
Definition kind_enc (k : pbkind) (x : Z) : Z :=
  match k with
  | KInt32 | KInt64 => w64 x
  | KSint32 | KSint64 | KSfix32 | KSfix64 => zigzag x
  | KUint32 | KUint64 | KFix32 | KFix64 => x
  end.
Definition bitor_roundtrip_statement : Prop :=
  forall k x mask, kind_range k x -> kind_range k mask ->
    bitor_value k (Z.lor (bitor_in (kind_go k) k (kind_enc k x)) mask) = kind_enc k (Z.lor x mask) /\
    kind_range k (Z.lor x mask).
