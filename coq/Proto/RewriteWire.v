(* Wire-level lemmas of C19 (proto rewriters): decodeVarint looks at the varint only, Parse is total
   and returns pieces of its input, Append writes the canonical encoding of a field, and the field
   list of a message behaves well under concatenation and encoding. Statements in Proto/RewriteSpec.v. *)
From Verif Require Import Base.GoInt Proto.Ext Generated.ProtoGen Proto.PrimSpec Proto.PrimProofs
  Proto.RewriteModel Proto.RewriteSpec.
From Coq Require Import Lia ZifyBool ZifyNat.
Open Scope Z_scope.

Local Ltac lits :=
  change (2 ^ 64) with 18446744073709551616 in *;
  change (2 ^ 63) with 9223372036854775808 in *;
  change (2 ^ 62) with 4611686018427387904 in *;
  change (2 ^ 61) with 2305843009213693952 in *.

(* ------------------------------------------------------------------ *)
(* decodeVarint looks at the varint only                               *)
(* ------------------------------------------------------------------ *)

Lemma dv_loop_app : forall l r lb lb' i x s v n,
  dv_loop lb l i x s = (v, n, None) -> dv_loop lb' (l ++ r) i x s = (v, n, None).
Proof.
  induction l as [|c l IH]; intros r lb lb' i x s v n H.
  - cbn [dv_loop] in H. discriminate.
  - cbn [app dv_loop] in *.
    destruct (c <? 128).
    + destruct ((i >? 9) || ((i =? 9) && (c >? 1))); [discriminate | exact H].
    + eapply IH. exact H.
Qed.

Lemma decodeVarint_app : decodeVarint_app_statement.
Proof.
  intros b r v n H. rewrite decodeVarint_unfold in *.
  destruct b as [|c b].
  - cbn in H. discriminate.
  - cbn [app]. rewrite !len_cons in *. unfold at_ in *. cbn [Z.to_nat nth] in *.
    pose proof (len_nonneg _ b) as L1. pose proof (len_nonneg _ (b ++ r)) as L2.
    destruct (Z.eqb_spec (len b + 1) 0); [lia|].
    destruct (Z.eqb_spec (len (b ++ r) + 1) 0); [lia|].
    cbn [negb andb] in *.
    destruct (c <? 128); [exact H|].
    eapply (dv_loop_app (c :: b)). exact H.
Qed.

Lemma dv_loop_firstn : forall l lb lb' i x s v n,
  0 <= i -> dv_loop lb l i x s = (v, n, None) ->
  i + 1 <= n /\ dv_loop lb' (firstn (Z.to_nat (n - i)) l) i x s = (v, n, None).
Proof.
  induction l as [|c l IH]; intros lb lb' i x s v n Hi H.
  - cbn [dv_loop] in H. discriminate.
  - cbn [dv_loop] in H.
    destruct (c <? 128) eqn:C.
    + destruct (Z.gtb_spec i 9) as [G|G]; cbn [orb] in H; [discriminate|].
      destruct ((i =? 9) && (c >? 1)) eqn:O; [discriminate|].
      unfold addi64 in H. rewrite s64_small in H by (lits; lia).
      inversion H; subst. split; [lia|].
      replace (i + 1 - i) with 1 by lia. change (Z.to_nat 1) with 1%nat.
      cbn [firstn dv_loop]. rewrite C.
      destruct (Z.gtb_spec i 9) as [G'|G']; [lia|]. cbn [orb]. rewrite O.
      unfold addi64. rewrite s64_small by (lits; lia). reflexivity.
    + destruct (IH lb lb' (i + 1) _ _ v n ltac:(lia) H) as [B E].
      split; [lia|].
      replace (Z.to_nat (n - i)) with (S (Z.to_nat (n - (i + 1)))) by lia.
      cbn [firstn dv_loop]. rewrite C. exact E.
Qed.

Lemma decodeVarint_firstn : decodeVarint_firstn_statement.
Proof.
  intros b v n _ H. rewrite decodeVarint_unfold in *.
  destruct b as [|c b].
  - cbn in H. discriminate.
  - rewrite len_cons in H. unfold at_ in *. cbn [Z.to_nat nth] in H.
    pose proof (len_nonneg _ b) as L1.
    destruct (Z.eqb_spec (len b + 1) 0); [lia|].
    cbn [negb andb] in H.
    destruct (c <? 128) eqn:C.
    + inversion H; subst. change (Z.to_nat 1) with 1%nat. cbn [firstn].
      cbn [len length Z.of_nat Z.eqb negb andb Z.to_nat nth Pos.of_succ_nat]. 
      change (len [v] =? 0) with false. cbn [negb andb nth Z.to_nat]. rewrite C. reflexivity.
    + destruct (dv_loop_firstn (c :: b) _ (len (firstn (Z.to_nat n) (c :: b))) 0 0 0 v n ltac:(lia) H) as [B E].
      rewrite Z.sub_0_r in E.
      replace (Z.to_nat n) with (S (Z.to_nat (n - 1))) in * by lia.
      cbn [firstn] in *. rewrite len_cons.
      pose proof (len_nonneg _ (firstn (Z.to_nat (n - 1)) b)) as L2.
      destruct (Z.eqb_spec (len (firstn (Z.to_nat (n - 1)) b) + 1) 0); [lia|].
      cbn [negb andb Z.to_nat nth]. rewrite C. rewrite len_cons in E. exact E.
Qed.

(* ------------------------------------------------------------------ *)
(* checked slices and lists                                            *)
(* ------------------------------------------------------------------ *)

Lemma rfrom_ok : forall b i, 0 <= i <= len b -> rfrom b i = ROk (skipn (Z.to_nat i) b).
Proof.
  intros b i H. unfold rfrom, slice_from.
  destruct (Z.leb_spec 0 i); [|lia]. destruct (Z.leb_spec i (len b)); [|lia]. reflexivity.
Qed.

Lemma rfrom_inv : forall b i m, rfrom b i = ROk m -> 0 <= i <= len b /\ m = skipn (Z.to_nat i) b.
Proof.
  intros b i m H. unfold rfrom, slice_from in H.
  destruct (Z.leb_spec 0 i); destruct (Z.leb_spec i (len b)); cbn [andb] in H; try discriminate.
  inversion H. split; [lia | reflexivity].
Qed.

Lemma rslice_ok : forall b i j, 0 <= i -> i <= j -> j <= len b ->
  rslice b i j = ROk (firstn (Z.to_nat (j - i)) (skipn (Z.to_nat i) b)).
Proof.
  intros b i j H1 H2 H3. unfold rslice, slice.
  destruct (Z.leb_spec 0 i); [|lia]. destruct (Z.leb_spec i j); [|lia].
  destruct (Z.leb_spec j (len b)); [|lia]. reflexivity.
Qed.

Lemma rslice_inv : forall b i j m, rslice b i j = ROk m ->
  0 <= i /\ i <= j /\ j <= len b /\ m = firstn (Z.to_nat (j - i)) (skipn (Z.to_nat i) b).
Proof.
  intros b i j m H. unfold rslice, slice in H.
  destruct (Z.leb_spec 0 i); destruct (Z.leb_spec i j); destruct (Z.leb_spec j (len b));
    cbn [andb] in H; try discriminate.
  inversion H. repeat split; try lia.
Qed.

Lemma skipn_app_le : forall A n (l r : list A), (n <= length l)%nat -> skipn n (l ++ r) = skipn n l ++ r.
Proof.
  intros A n l r H. rewrite skipn_app. replace (n - length l)%nat with O by lia. reflexivity.
Qed.

Lemma firstn_app_le : forall A n (l r : list A), (n <= length l)%nat -> firstn n (l ++ r) = firstn n l.
Proof.
  intros A n l r H. rewrite firstn_app. replace (n - length l)%nat with O by lia.
  cbn [firstn]. apply app_nil_r.
Qed.

Lemma len_skipn : forall A n (l : list A), (n <= length l)%nat -> len (skipn n l) = len l - Z.of_nat n.
Proof. intros A n l H. unfold len. rewrite skipn_length. lia. Qed.

Lemma len_firstn : forall A n (l : list A), (n <= length l)%nat -> len (firstn n l) = Z.of_nat n.
Proof. intros A n l H. unfold len. rewrite firstn_length. lia. Qed.

Lemma skipn_len_app : forall (l r : bytes), skipn (Z.to_nat (len l)) (l ++ r) = r.
Proof.
  intros l r. unfold len. rewrite Nat2Z.id. rewrite skipn_app, skipn_all, Nat.sub_diag. reflexivity.
Qed.

Lemma firstn_len_app : forall (l r : bytes), firstn (Z.to_nat (len l)) (l ++ r) = l.
Proof.
  intros l r. unfold len. rewrite Nat2Z.id. rewrite firstn_app, firstn_all, Nat.sub_diag.
  cbn [firstn]. apply app_nil_r.
Qed.

Lemma wfb_app : forall a b, wfb (a ++ b) = wfb a && wfb b.
Proof. intros a b. unfold wfb. apply forallb_app. Qed.

(* ------------------------------------------------------------------ *)
(* Parse                                                               *)
(* ------------------------------------------------------------------ *)

(* what Parse does after the tag *)
Definition pbody (tag : Z) (m : bytes) : rres (Z * Z * bytes * bytes) :=
  let '(f, t) := DecodeTag tag in
  if t =? proto_varint then
    let '(_, n, err) := proto_decodeVarint m in
    match err with
    | Some e => RErr (err_of e)
    | None =>
        if len m <? n then RErr EEof else
        rrlet v <- rslice m 0 n in
        rrlet r <- rfrom m n in
        ROk (f, t, v, r)
    end
  else if t =? proto_varlen then
    let '(l, n, err) := proto_decodeVarint m in
    match err with
    | Some e => RErr (err_of e)
    | None =>
        if w64 (len m - n) <? l then RErr EEof else
        rrlet v <- rslice m n (n + s64 l) in
        rrlet r <- rfrom m (n + s64 l) in
        ROk (f, t, v, r)
    end
  else if t =? proto_fixed32 then
    if len m <? 4 then RErr EEof else
    rrlet v <- rslice m 0 4 in
    rrlet r <- rfrom m 4 in
    ROk (f, t, v, r)
  else if t =? proto_fixed64 then
    if len m <? 8 then RErr EEof else
    rrlet v <- rslice m 0 8 in
    rrlet r <- rfrom m 8 in
    ROk (f, t, v, r)
  else RErr EWireType.

Lemma Parse_unfold : forall b,
  Parse b =
  let '(tag, n, err) := proto_decodeVarint b in
  match err with
  | Some e => RErr (err_of e)
  | None => rrlet m <- rfrom b n in pbody tag m
  end.
Proof. reflexivity. Qed.

Lemma is_varint_intro : forall v x, proto_decodeVarint v = (x, len v, None) -> is_varint v = true.
Proof.
  intros v x H. unfold is_varint. rewrite H. cbn [isnil andb]. apply Z.eqb_refl.
Qed.

Lemma wf_field_intro : forall f t v,
  0 <= f < 2 ^ 61 -> wfb v = true ->
  (if t =? 0 then is_varint v
   else if t =? 1 then len v =? 8
   else if t =? 2 then len v <? 2 ^ 62
   else if t =? 5 then len v =? 4
   else false) = true ->
  wf_field (mkField f t v) = true.
Proof.
  intros f t v Hf Hv Ht. unfold wf_field. cbn [fnum fwt fval]. rewrite Hv, Ht.
  destruct (Z.leb_spec 0 f); [|lia]. destruct (Z.ltb_spec f (2 ^ 61)); [|lia]. reflexivity.
Qed.

Lemma tag_fnum_range : forall tag, u64 tag -> 0 <= shr64 tag 3 < 2 ^ 61.
Proof.
  intros tag H. unfold u64 in H. rewrite shr64_div by lia. change (2 ^ 3) with 8. lits. lia.
Qed.

(* the pieces Parse returns are pieces of its input, whatever the length *)
Lemma pbody_shrinks : forall tag m f t v m',
  wfb m = true -> pbody tag m = ROk (f, t, v, m') -> wfb m' = true /\ (length m' <= length m)%nat.
Proof.
  intros tag m f t v m' Hm H.
  assert (G : forall k, m' = skipn k m -> wfb m' = true /\ (length m' <= length m)%nat).
  { intros k ->. split; [apply wfb_skipn; exact Hm | rewrite skipn_length; lia]. }
  unfold pbody, DecodeTag in H.
  destruct (and64 tag 7 =? proto_varint).
  { destruct (proto_decodeVarint m) as [[x n2] e]. destruct e; [discriminate|].
    destruct (len m <? n2); [discriminate|].
    destruct (rslice m 0 n2); try discriminate. cbn [rrbind] in H.
    destruct (rfrom m n2) eqn:R; try discriminate. cbn [rrbind] in H.
    apply rfrom_inv in R. destruct R as [_ R]. inversion H; subst. eapply G; reflexivity. }
  destruct (and64 tag 7 =? proto_varlen).
  { destruct (proto_decodeVarint m) as [[x n2] e]. destruct e; [discriminate|].
    destruct (w64 (len m - n2) <? x); [discriminate|].
    destruct (rslice m n2 (n2 + s64 x)); try discriminate. cbn [rrbind] in H.
    destruct (rfrom m (n2 + s64 x)) eqn:R; try discriminate. cbn [rrbind] in H.
    apply rfrom_inv in R. destruct R as [_ R]. inversion H; subst. eapply G; reflexivity. }
  destruct (and64 tag 7 =? proto_fixed32).
  { destruct (len m <? 4); [discriminate|].
    destruct (rslice m 0 4); try discriminate. cbn [rrbind] in H.
    destruct (rfrom m 4) eqn:R; try discriminate. cbn [rrbind] in H.
    apply rfrom_inv in R. destruct R as [_ R]. inversion H; subst. eapply G; reflexivity. }
  destruct (and64 tag 7 =? proto_fixed64).
  { destruct (len m <? 8); [discriminate|].
    destruct (rslice m 0 8); try discriminate. cbn [rrbind] in H.
    destruct (rfrom m 8) eqn:R; try discriminate. cbn [rrbind] in H.
    apply rfrom_inv in R. destruct R as [_ R]. inversion H; subst. eapply G; reflexivity. }
  discriminate.
Qed.

Lemma Parse_shrinks : forall b f t v m,
  wfb b = true -> Parse b = ROk (f, t, v, m) -> wfb m = true /\ (length m < length b)%nat.
Proof.
  intros b f t v m Hb H. rewrite Parse_unfold in H.
  destruct (proto_decodeVarint b) as [[tag n] e] eqn:D.
  destruct e; [discriminate|].
  destruct (decodeVarint_bounds_gen b tag n None Hb D) as (Hn & _ & Hn1). specialize (Hn1 eq_refl).
  rewrite rfrom_ok in H by lia. cbn [rrbind] in H.
  apply pbody_shrinks in H; [|apply wfb_skipn; exact Hb].
  destruct H as [H1 H2]. split; [exact H1|].
  rewrite skipn_length in H2. unfold len in Hn. lia.
Qed.

Lemma pbody_total : forall tag m, wfb m = true -> u64 tag -> len m < 2 ^ 62 ->
  match pbody tag m with
  | ROk (f, t, v, m') => wf_field (mkField f t v) = true
  | RErr _ => True
  | RPanic | RFuel => False
  end.
Proof.
  intros tag m Hm Ht Hl. pose proof (tag_fnum_range tag Ht) as Hf.
  pose proof (len_nonneg _ m) as L0.
  unfold pbody, DecodeTag. unfold proto_varint, proto_varlen, proto_fixed32, proto_fixed64.
  remember (and64 tag 7) as t eqn:Et. remember (shr64 tag 3) as f eqn:Ef. clear Et Ef Ht.
  destruct (Z.eqb_spec t 0) as [T0|T0].
  { destruct (proto_decodeVarint m) as [[x n2] e] eqn:D. destruct e; [exact I|].
    destruct (decodeVarint_bounds_gen m x n2 None Hm D) as (Hn & _ & Hn1). specialize (Hn1 eq_refl).
    destruct (Z.ltb_spec (len m) n2); [lia|].
    rewrite rslice_ok by lia. cbn [rrbind]. rewrite rfrom_ok by lia. cbn [rrbind].
    rewrite Z.sub_0_r. cbn [Z.to_nat skipn].
    apply wf_field_intro; [exact Hf | apply wfb_firstn; exact Hm |].
    subst t. cbn [Z.eqb].
    apply (is_varint_intro _ x). rewrite len_firstn by (unfold len in Hn; lia).
    rewrite Z2Nat.id by lia. apply decodeVarint_firstn; assumption. }
  destruct (Z.eqb_spec t 2) as [T2|T2].
  { destruct (proto_decodeVarint m) as [[x n2] e] eqn:D. destruct e; [exact I|].
    destruct (decodeVarint_bounds_gen m x n2 None Hm D) as (Hn & Hx & Hn1). specialize (Hn1 eq_refl).
    unfold u64 in Hx.
    rewrite w64_small by (lits; lia).
    destruct (Z.ltb_spec (len m - n2) x); [exact I|].
    rewrite (s64_small x) by (lits; lia).
    rewrite rslice_ok by lia. cbn [rrbind]. rewrite rfrom_ok by lia. cbn [rrbind].
    apply wf_field_intro; [exact Hf | apply wfb_firstn; apply wfb_skipn; exact Hm |].
    subst t. cbn [Z.eqb].
    apply Z.ltb_lt. rewrite len_firstn.
    - lia.
    - rewrite skipn_length. unfold len in *. lia. }
  destruct (Z.eqb_spec t 5) as [T5|T5].
  { destruct (Z.ltb_spec (len m) 4); [exact I|].
    rewrite rslice_ok by lia. cbn [rrbind]. rewrite rfrom_ok by lia. cbn [rrbind].
    apply wf_field_intro; [exact Hf | apply wfb_firstn; apply wfb_skipn; exact Hm |].
    subst t. cbn [Z.eqb].
    apply Z.eqb_eq. rewrite len_firstn; [reflexivity|].
    rewrite skipn_length. unfold len in *. lia. }
  destruct (Z.eqb_spec t 1) as [T1|T1].
  { destruct (Z.ltb_spec (len m) 8); [exact I|].
    rewrite rslice_ok by lia. cbn [rrbind]. rewrite rfrom_ok by lia. cbn [rrbind].
    apply wf_field_intro; [exact Hf | apply wfb_firstn; apply wfb_skipn; exact Hm |].
    subst t. cbn [Z.eqb].
    apply Z.eqb_eq. rewrite len_firstn; [reflexivity|].
    rewrite skipn_length. unfold len in *. lia. }
  exact I.
Qed.

(* Parse_total_statement needs a bound on the length: a declared payload length of 2^63 or more
   inside an input at least that long makes the slice bound n + int(l) negative *)
Lemma Parse_total : Parse_total_statement.
Proof.
  intros b Hb Hl.
  destruct (Parse b) as [[[[f t] v] m]| | |] eqn:P.
  - split; [|eapply Parse_shrinks; eassumption].
    rewrite Parse_unfold in P.
    destruct (proto_decodeVarint b) as [[tag n] e] eqn:D.
    destruct e; [discriminate|].
    destruct (decodeVarint_bounds_gen b tag n None Hb D) as (Hn & Ht & Hn1). specialize (Hn1 eq_refl).
    rewrite rfrom_ok in P by lia. cbn [rrbind] in P.
    assert (W : wfb (skipn (Z.to_nat n) b) = true) by (apply wfb_skipn; exact Hb).
    assert (L : len (skipn (Z.to_nat n) b) < 2 ^ 62).
    { rewrite len_skipn by (unfold len in Hn; lia). lia. }
    pose proof (pbody_total tag _ W Ht L) as T. rewrite P in T. exact T.
  - exact I.
  - rewrite Parse_unfold in P.
    destruct (proto_decodeVarint b) as [[tag n] e] eqn:D.
    destruct e; [discriminate|].
    destruct (decodeVarint_bounds_gen b tag n None Hb D) as (Hn & Ht & Hn1). specialize (Hn1 eq_refl).
    rewrite rfrom_ok in P by lia. cbn [rrbind] in P.
    assert (W : wfb (skipn (Z.to_nat n) b) = true) by (apply wfb_skipn; exact Hb).
    assert (L : len (skipn (Z.to_nat n) b) < 2 ^ 62).
    { rewrite len_skipn by (unfold len in Hn; lia). lia. }
    pose proof (pbody_total tag _ W Ht L) as T. rewrite P in T. exact T.
  - rewrite Parse_unfold in P.
    destruct (proto_decodeVarint b) as [[tag n] e] eqn:D.
    destruct e; [discriminate|].
    destruct (decodeVarint_bounds_gen b tag n None Hb D) as (Hn & Ht & Hn1). specialize (Hn1 eq_refl).
    rewrite rfrom_ok in P by lia. cbn [rrbind] in P.
    assert (W : wfb (skipn (Z.to_nat n) b) = true) by (apply wfb_skipn; exact Hb).
    assert (L : len (skipn (Z.to_nat n) b) < 2 ^ 62).
    { rewrite len_skipn by (unfold len in Hn; lia). lia. }
    pose proof (pbody_total tag _ W Ht L) as T. rewrite P in T. exact T.
Qed.

Lemma pbody_app : forall tag m r f t v m',
  wfb m = true -> len m + len r < 2 ^ 64 ->
  pbody tag m = ROk (f, t, v, m') -> pbody tag (m ++ r) = ROk (f, t, v, m' ++ r).
Proof.
  intros tag m r f t v m' Hm Hl H.
  pose proof (len_nonneg _ m) as L0. pose proof (len_nonneg _ r) as L1.
  unfold pbody, DecodeTag in *.
  destruct (and64 tag 7 =? proto_varint).
  { destruct (proto_decodeVarint m) as [[x n2] e] eqn:D. destruct e; [discriminate|].
    rewrite (decodeVarint_app m r x n2 D).
    destruct (Z.ltb_spec (len m) n2); [discriminate|].
    destruct (rslice m 0 n2) eqn:S; try discriminate. cbn [rrbind] in H.
    destruct (rfrom m n2) eqn:R; try discriminate. cbn [rrbind] in H.
    apply rfrom_inv in R. destruct R as [Rn R]. apply rslice_inv in S. destruct S as (_ & _ & _ & S).
    rewrite len_app. destruct (Z.ltb_spec (len m + len r) n2); [lia|].
    rewrite rslice_ok by (try rewrite len_app; lia). cbn [rrbind].
    rewrite rfrom_ok by (try rewrite len_app; lia). cbn [rrbind].
    inversion H; subst. f_equal. f_equal; [f_equal|].
    - cbn [Z.to_nat skipn]. rewrite firstn_app_le by (unfold len in *; lia). reflexivity.
    - apply skipn_app_le. unfold len in *; lia. }
  destruct (and64 tag 7 =? proto_varlen).
  { destruct (proto_decodeVarint m) as [[x n2] e] eqn:D. destruct e; [discriminate|].
    rewrite (decodeVarint_app m r x n2 D).
    destruct (decodeVarint_bounds_gen m x n2 None Hm D) as (Hn & Hx & _).
    destruct (Z.ltb_spec (w64 (len m - n2)) x) as [|W]; [discriminate|].
    rewrite w64_small in W by lia.
    destruct (rslice m n2 (n2 + s64 x)) eqn:S; try discriminate. cbn [rrbind] in H.
    destruct (rfrom m (n2 + s64 x)) eqn:R; try discriminate. cbn [rrbind] in H.
    apply rfrom_inv in R. destruct R as [Rn R].
    apply rslice_inv in S. destruct S as (S1 & S2 & S3 & S).
    rewrite len_app. rewrite w64_small by lia.
    destruct (Z.ltb_spec (len m + len r - n2) x); [lia|].
    rewrite rslice_ok by (try rewrite len_app; lia). cbn [rrbind].
    rewrite rfrom_ok by (try rewrite len_app; lia). cbn [rrbind].
    inversion H; subst. f_equal. f_equal; [f_equal|].
    - rewrite skipn_app_le by (unfold len in *; lia).
      apply firstn_app_le. rewrite skipn_length. unfold len in *. lia.
    - apply skipn_app_le. unfold len in *; lia. }
  destruct (and64 tag 7 =? proto_fixed32).
  { destruct (Z.ltb_spec (len m) 4); [discriminate|].
    destruct (rslice m 0 4) eqn:S; try discriminate. cbn [rrbind] in H.
    destruct (rfrom m 4) eqn:R; try discriminate. cbn [rrbind] in H.
    apply rfrom_inv in R. destruct R as [Rn R]. apply rslice_inv in S. destruct S as (_ & _ & _ & S).
    rewrite len_app. destruct (Z.ltb_spec (len m + len r) 4); [lia|].
    rewrite rslice_ok by (try rewrite len_app; lia). cbn [rrbind].
    rewrite rfrom_ok by (try rewrite len_app; lia). cbn [rrbind].
    inversion H; subst. f_equal. f_equal; [f_equal|].
    - cbn [Z.to_nat skipn]. rewrite firstn_app_le by (unfold len in *; lia). reflexivity.
    - apply skipn_app_le. unfold len in *; lia. }
  destruct (and64 tag 7 =? proto_fixed64).
  { destruct (Z.ltb_spec (len m) 8); [discriminate|].
    destruct (rslice m 0 8) eqn:S; try discriminate. cbn [rrbind] in H.
    destruct (rfrom m 8) eqn:R; try discriminate. cbn [rrbind] in H.
    apply rfrom_inv in R. destruct R as [Rn R]. apply rslice_inv in S. destruct S as (_ & _ & _ & S).
    rewrite len_app. destruct (Z.ltb_spec (len m + len r) 8); [lia|].
    rewrite rslice_ok by (try rewrite len_app; lia). cbn [rrbind].
    rewrite rfrom_ok by (try rewrite len_app; lia). cbn [rrbind].
    inversion H; subst. f_equal. f_equal; [f_equal|].
    - cbn [Z.to_nat skipn]. rewrite firstn_app_le by (unfold len in *; lia). reflexivity.
    - apply skipn_app_le. unfold len in *; lia. }
  discriminate.
Qed.

(* Parse_app_statement needs the concatenation to be shorter than 2^64: the remaining-length test of
   a length-delimited field is computed in uint64 *)
Lemma Parse_app : Parse_app_statement.
Proof.
  intros b r f t v m Hb Hl H. rewrite len_app in Hl.
  pose proof (len_nonneg _ r) as L1.
  rewrite Parse_unfold in *.
  destruct (proto_decodeVarint b) as [[tag n] e] eqn:D.
  destruct e; [discriminate|].
  rewrite (decodeVarint_app b r tag n D).
  destruct (decodeVarint_bounds_gen b tag n None Hb D) as (Hn & Ht & Hn1). specialize (Hn1 eq_refl).
  rewrite rfrom_ok in H by lia. cbn [rrbind] in H.
  rewrite rfrom_ok by (rewrite len_app; lia). cbn [rrbind].
  rewrite skipn_app_le by (unfold len in *; lia).
  apply pbody_app; [apply wfb_skipn; exact Hb | | exact H].
  rewrite len_skipn by (unfold len in *; lia). lia.
Qed.

Lemma DecodeTag_tag_of : forall fn wt, 0 <= fn < 2 ^ 61 -> 0 <= wt < 8 ->
  DecodeTag (tag_of fn wt) = (fn, wt).
Proof.
  intros fn wt Hf Hw. unfold DecodeTag, tag_of. rewrite shr64_div by lia. unfold and64.
  rewrite land7. change (2 ^ 3) with 8. f_equal; lia.
Qed.

Lemma tag_of_u64 : forall fn wt, 0 <= fn < 2 ^ 61 -> 0 <= wt < 8 -> u64 (tag_of fn wt).
Proof. intros fn wt Hf Hw. unfold u64, tag_of. lits. lia. Qed.

Lemma wf_field_inv : forall f, wf_field f = true ->
  0 <= fnum f < 2 ^ 61 /\ wfb (fval f) = true /\
  ((fwt f = 0 /\ is_varint (fval f) = true) \/ (fwt f = 1 /\ len (fval f) = 8) \/
   (fwt f = 2 /\ len (fval f) < 2 ^ 62) \/ (fwt f = 5 /\ len (fval f) = 4)).
Proof.
  intros f H. unfold wf_field in H.
  apply andb_prop in H. destruct H as [H H4]. apply andb_prop in H. destruct H as [H H3].
  apply andb_prop in H. destruct H as [H1 H2].
  apply Z.leb_le in H1. apply Z.ltb_lt in H2.
  split; [lia|]. split; [exact H3|]. clear H1 H2 H3.
  destruct (Z.eqb_spec (fwt f) 0); [left; split; assumption|].
  destruct (Z.eqb_spec (fwt f) 1); [right; left; split; [assumption | apply Z.eqb_eq; exact H4]|].
  destruct (Z.eqb_spec (fwt f) 2); [right; right; left; split; [assumption | apply Z.ltb_lt; exact H4]|].
  destruct (Z.eqb_spec (fwt f) 5); [right; right; right; split; [assumption | apply Z.eqb_eq; exact H4]|].
  discriminate.
Qed.

Lemma is_varint_inv : forall v, is_varint v = true -> exists x, proto_decodeVarint v = (x, len v, None).
Proof.
  intros v H. unfold is_varint in H.
  destruct (proto_decodeVarint v) as [[x n] e]. destruct e; [discriminate|].
  cbn [isnil andb] in H. apply Z.eqb_eq in H. subst n. exists x. reflexivity.
Qed.

Lemma Parse_enc : Parse_enc_statement.
Proof.
  intros f r Hf Hr. destruct f as [fn wt v].
  apply wf_field_inv in Hf. cbn [fnum fwt fval] in *. destruct Hf as (Hn & Hv & Hw).
  pose proof (len_nonneg _ r) as L1. pose proof (len_nonneg _ v) as L2.
  assert (Hwt : 0 <= wt < 8) by lia.
  pose proof (tag_of_u64 fn wt Hn Hwt) as Ut.
  destruct (varint_length _ Ut) as [Lt _].
  unfold enc_field. cbn [fnum fwt fval]. rewrite <- !app_assoc.
  rewrite Parse_unfold. rewrite decodeVarint_encode by exact Ut.
  rewrite rfrom_ok by (rewrite len_app; pose proof (len_nonneg _ ((if wt =? 2 then varint (len v) else []) ++ v ++ r)); lia).
  cbn [rrbind]. rewrite skipn_len_app.
  unfold pbody. rewrite DecodeTag_tag_of by assumption.
  unfold proto_varint, proto_varlen, proto_fixed32, proto_fixed64.
  destruct Hw as [[W H]|[[W H]|[[W H]|[W H]]]]; subst wt; cbn [Z.eqb Pos.eqb app].
  - apply is_varint_inv in H. destruct H as [x D].
    rewrite (decodeVarint_app v r x (len v) D).
    rewrite len_app. destruct (Z.ltb_spec (len v + len r) (len v)); [lia|].
    rewrite rslice_ok by (try rewrite len_app; lia). cbn [rrbind].
    rewrite rfrom_ok by (try rewrite len_app; lia). cbn [rrbind].
    rewrite Z.sub_0_r. cbn [Z.to_nat skipn]. rewrite firstn_len_app, skipn_len_app. reflexivity.
  - rewrite len_app. destruct (Z.ltb_spec (len v + len r) 8); [lia|].
    rewrite <- H.
    rewrite rslice_ok by (try rewrite len_app; lia). cbn [rrbind].
    rewrite rfrom_ok by (try rewrite len_app; lia). cbn [rrbind].
    rewrite Z.sub_0_r. change (Z.to_nat 0) with O. cbn [skipn]. rewrite firstn_len_app, skipn_len_app. reflexivity.
  - assert (Ul : u64 (len v)) by (unfold u64; lits; lia).
    destruct (varint_length _ Ul) as [Ll _].
    rewrite decodeVarint_encode by exact Ul.
    rewrite !len_app.
    rewrite w64_small by (lits; lia).
    destruct (Z.ltb_spec (len (varint (len v)) + (len v + len r) - len (varint (len v))) (len v)); [lia|].
    rewrite (s64_small (len v)) by (lits; lia).
    rewrite rslice_ok by (try rewrite !len_app; lia). cbn [rrbind].
    rewrite rfrom_ok by (try rewrite !len_app; lia). cbn [rrbind].
    replace (len (varint (len v)) + len v - len (varint (len v))) with (len v) by lia.
    rewrite skipn_len_app, firstn_len_app.
    rewrite <- len_app. rewrite app_assoc. rewrite skipn_len_app. reflexivity.
  - rewrite len_app. destruct (Z.ltb_spec (len v + len r) 4); [lia|].
    rewrite <- H.
    rewrite rslice_ok by (try rewrite len_app; lia). cbn [rrbind].
    rewrite rfrom_ok by (try rewrite len_app; lia). cbn [rrbind].
    rewrite Z.sub_0_r. change (Z.to_nat 0) with O. cbn [skipn]. rewrite firstn_len_app, skipn_len_app. reflexivity.
Qed.

(* ------------------------------------------------------------------ *)
(* Append                                                              *)
(* ------------------------------------------------------------------ *)

Lemma EncodeTag_tag_of : forall f t, 0 <= f < 2 ^ 61 -> 0 <= t < 8 -> proto_EncodeTag f t = tag_of f t.
Proof.
  intros f t Hf Ht. unfold proto_EncodeTag.
  rewrite shl64_mul by lia. change (2 ^ 3) with 8.
  rewrite w64_small by (lits; lia). unfold or64, tag_of.
  rewrite Z.lor_comm. change 8 with (2 ^ 3). rewrite lor_add by (change (2 ^ 3) with 8; lia).
  lia.
Qed.

Lemma len_repeat : forall (x : Z) n, len (repeat x n) = Z.of_nat n.
Proof. intros. unfold len. rewrite repeat_length. reflexivity. Qed.

Lemma Append_spec : Append_spec_statement.
Proof.
  intros m f Hf. destruct f as [fn wt v].
  apply wf_field_inv in Hf. cbn [fnum fwt fval] in *. destruct Hf as (Hn & Hv & Hw).
  pose proof (len_nonneg _ v) as L2.
  assert (Hwt : 0 <= wt < 8) by lia.
  pose proof (tag_of_u64 fn wt Hn Hwt) as Ut.
  destruct (varint_length _ Ut) as [Lt _].
  unfold enc_field, Append. cbn [fnum fwt fval].
  rewrite EncodeTag_tag_of by assumption.
  rewrite encodeVarint_fits by (try exact Ut; rewrite len_repeat; lia).
  cbv beta iota zeta.
  set (vt := varint (tag_of fn wt)) in *.
  set (X := skipn (length vt) (repeat 0 20)).
  assert (LX : len X = 20 - len vt).
  { unfold X. rewrite len_skipn by (rewrite repeat_length; unfold len in Lt; lia).
    rewrite len_repeat. unfold len. lia. }
  unfold proto_varlen.
  destruct (Z.eqb_spec wt 2) as [W2|W2].
  - assert (Hl : len v < 2 ^ 62) by lia. clear Hw.
    assert (Ul : u64 (len v)) by (unfold u64; lits; lia).
    destruct (varint_length _ Ul) as [Ll _].
    rewrite rfrom_ok by (rewrite len_app; lia). cbn [rrbind].
    rewrite skipn_len_app.
    rewrite w64_small by (lits; lia).
    rewrite encodeVarint_fits by (try exact Ul; lia).
    cbv beta iota zeta. cbn [rrbind].
    set (vl := varint (len v)) in *.
    unfold splice. rewrite firstn_len_app.
    set (Y := skipn (length vl) X).
    set (Z0 := skipn (Z.to_nat (len vt) + length (vl ++ Y)) (vt ++ X)).
    replace (vt ++ (vl ++ Y) ++ Z0) with ((vt ++ vl) ++ (Y ++ Z0)) by (rewrite <- !app_assoc; reflexivity).
    pose proof (len_nonneg _ Y) as L3. pose proof (len_nonneg _ Z0) as L4.
    rewrite rslice_ok by (try rewrite !len_app; lia). cbn [rrbind].
    rewrite Z.sub_0_r. change (Z.to_nat 0) with O. cbn [skipn].
    rewrite <- len_app. rewrite firstn_len_app.
    rewrite <- !app_assoc. reflexivity.
  - cbn [rrbind].
    pose proof (len_nonneg _ X) as L3.
    rewrite rslice_ok by (try rewrite !len_app; lia). cbn [rrbind].
    rewrite Z.sub_0_r. change (Z.to_nat 0) with O. cbn [skipn].
    rewrite firstn_len_app. reflexivity.
Qed.

Lemma wf_field_varint : forall number x, 0 <= number < 2 ^ 61 -> 0 <= x < 2 ^ 64 ->
  wf_field (mkField number 0 (varint x)) = true.
Proof.
  intros number x Hn Hx. assert (Ux : u64 x) by exact Hx.
  destruct (varint_length _ Ux) as [_ Wx].
  apply wf_field_intro; [exact Hn | exact Wx |]. cbn [Z.eqb].
  apply (is_varint_intro _ x).
  rewrite <- (app_nil_r (varint x)) at 1. apply decodeVarint_encode. exact Ux.
Qed.

Lemma AppendVarint_spec : AppendVarint_spec_statement.
Proof.
  intros m number x Hn Hx. assert (Ux : u64 x) by exact Hx.
  pose proof (wf_field_varint number x Hn Hx) as W.
  split; [|exact W].
  destruct (varint_length _ Ux) as [Lx _].
  unfold AppendVarint.
  rewrite encodeVarint_fits by (try exact Ux; rewrite len_repeat; lia).
  cbv beta iota zeta.
  pose proof (len_nonneg _ (skipn (length (varint x)) (repeat 0 10))) as L3.
  rewrite rslice_ok by (try rewrite !len_app; lia). cbn [rrbind].
  rewrite Z.sub_0_r. change (Z.to_nat 0) with O. cbn [skipn].
  rewrite firstn_len_app.
  exact (Append_spec m (mkField number 0 (varint x)) W).
Qed.

Lemma wfb_enc_field : forall f, wf_field f = true -> wfb (enc_field f) = true.
Proof.
  intros f Hf. apply wf_field_inv in Hf. destruct Hf as (Hn & Hv & Hw).
  pose proof (len_nonneg _ (fval f)) as L2.
  assert (Hwt : 0 <= fwt f < 8) by lia.
  pose proof (tag_of_u64 _ _ Hn Hwt) as Ut.
  destruct (varint_length _ Ut) as [_ Wt].
  unfold enc_field. rewrite !wfb_app. rewrite Wt, Hv.
  destruct (Z.eqb_spec (fwt f) 2) as [W2|W2]; [|reflexivity].
  assert (Ul : u64 (len (fval f))) by (unfold u64; lits; lia).
  destruct (varint_length _ Ul) as [_ Wl]. rewrite Wl. reflexivity.
Qed.

Lemma wfb_enc_fields : forall fs, wf_fields fs = true -> wfb (enc_fields fs) = true.
Proof.
  induction fs as [|f fs IH]; intros H; [reflexivity|].
  cbn [wf_fields forallb] in H. apply andb_prop in H. destruct H as [H1 H2].
  unfold enc_fields. cbn [flat_map]. rewrite wfb_app.
  rewrite (wfb_enc_field f H1). apply IH. exact H2.
Qed.

Lemma len_enc_field_pos : forall f, wf_field f = true -> 1 <= len (enc_field f).
Proof.
  intros f Hf. apply wf_field_inv in Hf. destruct Hf as (Hn & Hv & Hw).
  assert (Hwt : 0 <= fwt f < 8) by lia.
  pose proof (tag_of_u64 _ _ Hn Hwt) as Ut.
  destruct (varint_length _ Ut) as [Lt _].
  unfold enc_field. rewrite len_app.
  pose proof (len_nonneg _ ((if fwt f =? 2 then varint (len (fval f)) else []) ++ fval f)). lia.
Qed.

(* ------------------------------------------------------------------ *)
(* field lists                                                         *)
(* ------------------------------------------------------------------ *)

Lemma parse_fields_fuel2 : forall k1 k2 b, wfb b = true ->
  (length b < k1)%nat -> (length b < k2)%nat -> parse_fields k1 b = parse_fields k2 b.
Proof.
  induction k1 as [|k1 IH]; intros k2 b Hb H1 H2; [lia|].
  destruct k2 as [|k2]; [lia|].
  cbn [parse_fields].
  destruct (len b =? 0); [reflexivity|].
  destruct (Parse b) as [[[[f t] v] m]| | |] eqn:P; cbn [rrbind]; try reflexivity.
  destruct (Parse_shrinks b f t v m Hb P) as [Wm Lm].
  rewrite (IH k2 m Wm) by lia. reflexivity.
Qed.

Lemma parse_fields_fuel : parse_fields_fuel_statement.
Proof.
  intros k b Hb H. unfold fields_of. apply parse_fields_fuel2; [exact Hb | exact H | lia].
Qed.

Lemma parse_fields_total : forall k b, wfb b = true -> len b < 2 ^ 62 -> (length b < k)%nat ->
  match parse_fields k b with
  | ROk fs => wf_fields fs = true
  | RErr _ => True
  | RPanic | RFuel => False
  end.
Proof.
  induction k as [|k IH]; intros b Hb Hl Hk; [lia|].
  cbn [parse_fields].
  destruct (len b =? 0); [reflexivity|].
  pose proof (Parse_total b Hb Hl) as T.
  destruct (Parse b) as [[[[f t] v] m]| | |] eqn:P; cbn [rrbind]; try exact T.
  destruct T as (Wf & Wm & Lm).
  assert (Hlm : len m < 2 ^ 62) by (unfold len in *; lia).
  pose proof (IH m Wm Hlm ltac:(lia)) as T2.
  destruct (parse_fields k m) as [fs| | |]; cbn [rrbind]; try exact T2.
  cbn [wf_fields forallb]. rewrite Wf. exact T2.
Qed.

(* fields_of_total_statement needs the same bound as Parse_total *)
Lemma fields_of_total : fields_of_total_statement.
Proof.
  intros b Hb Hl. unfold fields_of. apply parse_fields_total; [exact Hb | exact Hl | lia].
Qed.

Lemma parse_fields_app : forall b fb, wfb b = true -> fields_of b = ROk fb ->
  forall k a fa, wfb a = true -> len (a ++ b) < 2 ^ 64 -> parse_fields k a = ROk fa ->
  forall k', (length (a ++ b) < k')%nat -> parse_fields k' (a ++ b) = ROk (fa ++ fb).
Proof.
  intros b fb Hb Fb.
  induction k as [|k IH]; intros a fa Ha Hl Pa k' Hk'; [discriminate|].
  cbn [parse_fields] in Pa.
  destruct (Z.eqb_spec (len a) 0) as [E|E].
  - inversion Pa; subst fa. destruct a as [|c a]; [|rewrite len_cons in E; pose proof (len_nonneg _ a); lia].
    cbn [app] in *. rewrite <- Fb. apply parse_fields_fuel; assumption.
  - destruct (Parse a) as [[[[f t] v] m]| | |] eqn:P; cbn [rrbind] in Pa; try discriminate.
    destruct (parse_fields k m) as [fs| | |] eqn:Pm; cbn [rrbind] in Pa; try discriminate.
    inversion Pa; subst fa.
    destruct (Parse_shrinks a f t v m Ha P) as [Wm Lm].
    destruct k' as [|k']; [lia|].
    cbn [parse_fields].
    rewrite len_app. pose proof (len_nonneg _ a) as L1. pose proof (len_nonneg _ b) as L2.
    destruct (Z.eqb_spec (len a + len b) 0); [lia|].
    rewrite (Parse_app a b f t v m Ha Hl P). cbn [rrbind].
    assert (Hl' : len (m ++ b) < 2 ^ 64).
    { rewrite len_app in *. unfold len in *. lia. }
    assert (Hk'' : (length (m ++ b) < k')%nat).
    { rewrite app_length in *. lia. }
    rewrite (IH m fs Wm Hl' Pm k' Hk''). cbn [rrbind]. reflexivity.
Qed.

(* fields_of_app_statement needs the same bound as Parse_app *)
Lemma fields_of_app : fields_of_app_statement.
Proof.
  intros a b fa fb Ha Hb Hl Fa Fb. unfold fields_of at 1.
  apply (parse_fields_app b fb Hb Fb (S (length a)) a fa Ha Hl Fa). lia.
Qed.

Lemma parse_fields_enc : forall fs k, wf_fields fs = true -> len (enc_fields fs) < 2 ^ 62 ->
  (length (enc_fields fs) < k)%nat -> parse_fields k (enc_fields fs) = ROk fs.
Proof.
  induction fs as [|f fs IH]; intros k Hw Hl Hk.
  - destruct k as [|k]; [lia|]. reflexivity.
  - cbn [wf_fields forallb] in Hw. apply andb_prop in Hw. destruct Hw as [H1 H2].
    unfold enc_fields in *. cbn [flat_map] in *. fold (enc_fields fs) in *.
    pose proof (len_enc_field_pos f H1) as Lf.
    pose proof (len_nonneg _ (enc_fields fs)) as Lr.
    rewrite len_app in Hl. rewrite app_length in Hk.
    destruct k as [|k]; [lia|].
    cbn [parse_fields]. rewrite len_app.
    destruct (Z.eqb_spec (len (enc_field f) + len (enc_fields fs)) 0); [lia|].
    rewrite (Parse_enc f (enc_fields fs) H1) by lia. cbn [rrbind].
    rewrite (IH k H2) by (unfold len in *; lia). cbn [rrbind].
    destruct f; reflexivity.
Qed.

Lemma fields_of_enc : fields_of_enc_statement.
Proof.
  intros fs Hw Hl. unfold fields_of. apply parse_fields_enc; [exact Hw | exact Hl | lia].
Qed.

(* ------------------------------------------------------------------ *)
(* why the length bounds are needed                                    *)
(* ------------------------------------------------------------------ *)

(* a length-delimited field declaring 2^63 bytes inside an input that long: the slice bound
   n + int(l) is negative. No Go slice is that long; the bound len b < 2^62 excludes it. *)
Lemma Parse_long_panics : forall z, len z = 2 ^ 63 ->
  Parse (varint (tag_of 1 2) ++ varint (2 ^ 63) ++ z) = RPanic.
Proof.
  intros z Hz.
  assert (Ut : u64 (tag_of 1 2)) by (apply tag_of_u64; lits; lia).
  assert (Ul : u64 (2 ^ 63)) by (unfold u64; lits; lia).
  destruct (varint_length _ Ut) as [Lt _]. destruct (varint_length _ Ul) as [Ll _].
  rewrite Parse_unfold. rewrite decodeVarint_encode by exact Ut.
  rewrite rfrom_ok by (rewrite !len_app; lits; lia). cbn [rrbind].
  rewrite skipn_len_app. unfold pbody.
  rewrite DecodeTag_tag_of by (lits; lia).
  change (2 =? proto_varint) with false. change (2 =? proto_varlen) with true. cbv iota.
  rewrite decodeVarint_encode by exact Ul.
  rewrite len_app, Hz.
  replace (len (varint (2 ^ 63)) + 2 ^ 63 - len (varint (2 ^ 63))) with (2 ^ 63) by lia.
  change (w64 (2 ^ 63) <? 2 ^ 63) with false. cbv iota.
  change (s64 (2 ^ 63)) with (- 2 ^ 63).
  unfold rslice.
  destruct (Z.leb_spec (len (varint (2 ^ 63))) (len (varint (2 ^ 63)) + - 2 ^ 63)) as [C|C]; [lits; lia|].
  rewrite andb_false_r. reflexivity.
Qed.

Lemma wfb_repeat0 : forall n, wfb (repeat 0 n) = true.
Proof. induction n; [reflexivity|]. cbn [repeat wfb forallb]. exact IHn. Qed.

Lemma Parse_total_unbounded_refuted : ~ Parse_total_unbounded_statement.
Proof.
  intro H.
  assert (Ut : u64 (tag_of 1 2)) by (apply tag_of_u64; lits; lia).
  assert (Ul : u64 (2 ^ 63)) by (unfold u64; lits; lia).
  destruct (varint_length _ Ut) as [_ Wt]. destruct (varint_length _ Ul) as [_ Wl].
  remember (Z.to_nat (2 ^ 63)) as k eqn:Ek.
  assert (Hz : len (repeat 0 k) = 2 ^ 63).
  { rewrite len_repeat. subst k. apply Z2Nat.id. lits. lia. }
  clear Ek.
  specialize (H (varint (tag_of 1 2) ++ varint (2 ^ 63) ++ repeat 0 k)).
  rewrite (Parse_long_panics _ Hz) in H. apply H.
  rewrite !wfb_app. rewrite Wt, Wl. apply wfb_repeat0.
Qed.
