(* Corollaries of the MarshalTo theorems of EncProofs.v (C16), stated for the caller's view of the buffer:
   the boundary case len(b) = Size(v), independence of the written prefix from the previous content of b,
   preservation of the length of b, and the exact threshold between success and io.ErrShortBuffer. *)
From Verif Require Import Base.GoInt Proto.Ext Generated.ProtoGen Proto.Model Proto.PrimSpec Proto.Spec Proto.EncProofs.
Open Scope Z_scope.

(* a buffer of EXACTLY Size(v) bytes is filled with Marshal(v) and nothing else *)
Definition marshal_to_exact_fit_statement : Prop :=
  forall t v b, in_universe t v -> len b = Size t v ->
    exists bs, Marshal t v = Ok (Some bs) /\ MarshalTo t b v = Ok (Size t v, None, bs).

(* what is written does not depend on what the buffer held before, and what lies beyond Size(v) is kept *)
Definition marshal_to_oblivious_statement : Prop :=
  forall t v b1 b2, in_universe t v -> Size t v <= len b1 -> Size t v <= len b2 ->
    exists bs, len bs = Size t v /\
      MarshalTo t b1 v = Ok (Size t v, None, bs ++ skipn (Z.to_nat (Size t v)) b1) /\
      MarshalTo t b2 v = Ok (Size t v, None, bs ++ skipn (Z.to_nat (Size t v)) b2).

(* the buffer handed back has the length of the buffer passed in, on success and on failure alike *)
Definition marshal_to_keeps_length_statement : Prop :=
  forall t v b, in_universe t v ->
    exists k e b', MarshalTo t b v = Ok (k, e, b') /\ length b' = length b.

(* success exactly when the buffer is long enough: the threshold is Size(v), not one more or one less *)
Definition marshal_to_threshold_statement : Prop :=
  forall t v b, in_universe t v ->
    (Size t v <= len b <-> exists k b', MarshalTo t b v = Ok (k, None, b')).

Lemma skipn_len_all {A} (l : list A) n : len l = n -> skipn (Z.to_nat n) l = [].
Proof. intros H. apply skipn_all2. unfold len in H. lia. Qed.

Lemma marshal_to_exact_fit : marshal_to_exact_fit_statement.
Proof.
  intros t v b Hu Hl.
  destruct (marshal_to_fits t v b Hu ltac:(lia)) as [bs [Hm Ht]].
  exists bs. split; [exact Hm|].
  rewrite Ht. rewrite (skipn_len_all b (Size t v) Hl), app_nil_r. reflexivity.
Qed.

Lemma marshal_to_oblivious : marshal_to_oblivious_statement.
Proof.
  intros t v b1 b2 Hu H1 H2.
  destruct (marshal_never_fails t v Hu) as [bs0 [Hm0 Hlen]].
  destruct (marshal_to_fits t v b1 Hu H1) as [bs1 [Hm1 Ht1]].
  destruct (marshal_to_fits t v b2 Hu H2) as [bs2 [Hm2 Ht2]].
  rewrite Hm0 in Hm1, Hm2.
  assert (bs1 = bs0) by congruence. assert (bs2 = bs0) by congruence. subst bs1 bs2.
  exists bs0. repeat split; assumption.
Qed.

Lemma marshal_to_keeps_length : marshal_to_keeps_length_statement.
Proof.
  intros t v b Hu.
  destruct (Z_le_gt_dec (Size t v) (len b)) as [Hle|Hgt].
  - destruct (marshal_never_fails t v Hu) as [bs0 [Hm0 Hlen]].
    destruct (marshal_to_fits t v b Hu Hle) as [bs [Hm Ht]].
    assert (bs = bs0) by congruence; subst bs.
    eexists _, _, _. split; [exact Ht|].
    rewrite app_length, skipn_length. unfold len in *. lia.
  - destruct (marshal_to_short t v b Hu ltac:(lia)) as [k [b' [Ht Hl]]].
    eexists _, _, _. split; [exact Ht|exact Hl].
Qed.

Lemma marshal_to_threshold : marshal_to_threshold_statement.
Proof.
  intros t v b Hu. split.
  - intros Hle. destruct (marshal_to_fits t v b Hu Hle) as [bs [_ Ht]]. eexists _, _. exact Ht.
  - intros [k [b' Ht]].
    destruct (Z_le_gt_dec (Size t v) (len b)) as [Hle|Hgt]; [exact Hle|].
    destruct (marshal_to_short t v b Hu ltac:(lia)) as [k' [b'' [Ht' _]]].
    rewrite Ht in Ht'. discriminate.
Qed.
