(* Proofs about the machine-translated protobuf wire primitives. *)
From Verif Require Import Base.GoInt Proto.Ext Generated.ProtoGen Proto.PrimSpec.
From Coq Require Import ZifyBool.
Open Scope Z_scope.

Local Ltac Zify.zify_post_hook ::= Z.div_mod_to_equations.

(* ------------------------------------------------------------------ *)
(* machine-integer basics                                              *)
(* ------------------------------------------------------------------ *)

Lemma w64_small : forall x, 0 <= x < 2 ^ 64 -> w64 x = x.
Proof. intros x H. unfold w64. apply Z.mod_small. exact H. Qed.

Lemma w32_small : forall x, 0 <= x < 2 ^ 32 -> w32 x = x.
Proof. intros x H. unfold w32. apply Z.mod_small. exact H. Qed.

Lemma w64_range : forall x, 0 <= w64 x < 2 ^ 64.
Proof. intros x. unfold w64. apply Z.mod_pos_bound. reflexivity. Qed.

Lemma s64_small : forall x, - 2 ^ 63 <= x < 2 ^ 63 -> s64 x = x.
Proof.
  intros x H. unfold s64, w64.
  change (2 ^ 63) with 9223372036854775808 in *.
  change (2 ^ 64) with 18446744073709551616 in *.
  destruct (Z.ltb_spec (x mod 18446744073709551616) 9223372036854775808); lia.
Qed.

Lemma s32_small : forall x, - 2 ^ 31 <= x < 2 ^ 31 -> s32 x = x.
Proof.
  intros x H. unfold s32, w32.
  change (2 ^ 31) with 2147483648 in *.
  change (2 ^ 32) with 4294967296 in *.
  destruct (Z.ltb_spec (x mod 4294967296) 2147483648); lia.
Qed.

Lemma shr64_div : forall v n, 0 <= n < 64 -> shr64 v n = v / 2 ^ n.
Proof.
  intros v n H. unfold shr64.
  destruct (Z.ltb_spec n 64); [|lia]. apply Z.shiftr_div_pow2. lia.
Qed.

Lemma shl64_mul : forall v n, 0 <= n < 64 -> shl64 v n = w64 (v * 2 ^ n).
Proof.
  intros v n H. unfold shl64.
  destruct (Z.ltb_spec n 64); [|lia]. rewrite Z.shiftl_mul_pow2 by lia. reflexivity.
Qed.

Lemma shl64_range : forall v n, 0 <= shl64 v n < 2 ^ 64.
Proof.
  intros v n. unfold shl64. destruct (n <? 64).
  - apply w64_range.
  - split; [lia | reflexivity].
Qed.

Lemma lor_range : forall a b n, 0 < n -> 0 <= a < 2 ^ n -> 0 <= b < 2 ^ n -> 0 <= Z.lor a b < 2 ^ n.
Proof.
  intros a b n Hn Ha Hb.
  assert (H0 : 0 <= Z.lor a b) by (apply Z.lor_nonneg; lia).
  split; [exact H0|].
  destruct (Z.eq_dec (Z.lor a b) 0) as [E|E].
  - rewrite E. apply Z.pow_pos_nonneg; lia.
  - apply Z.log2_lt_pow2; [lia|].
    rewrite Z.log2_lor by lia.
    assert (La : Z.log2 a < n).
    { destruct (Z.eq_dec a 0) as [->|]; [simpl; lia|]. apply Z.log2_lt_pow2; lia. }
    assert (Lb : Z.log2 b < n).
    { destruct (Z.eq_dec b 0) as [->|]; [simpl; lia|]. apply Z.log2_lt_pow2; lia. }
    lia.
Qed.

Lemma bits_high_zero : forall a n m, 0 <= a < 2 ^ n -> 0 <= n <= m -> Z.testbit a m = false.
Proof.
  intros a n m Ha Hm.
  rewrite <- (Z.mod_small a (2 ^ n)) by exact Ha.
  apply Z.mod_pow2_bits_high. lia.
Qed.

(* disjoint bits: or is addition *)
Lemma lor_add : forall a b n, 0 <= n -> 0 <= a < 2 ^ n -> Z.lor a (b * 2 ^ n) = a + b * 2 ^ n.
Proof.
  intros a b n Hn Ha.
  assert (L : Z.land a (b * 2 ^ n) = 0).
  { apply Z.bits_inj'. intros m Hm.
    rewrite Z.land_spec, Z.bits_0.
    destruct (Z.lt_ge_cases m n).
    - rewrite Z.mul_pow2_bits_low by lia. apply andb_false_r.
    - rewrite (bits_high_zero a n m) by lia. reflexivity. }
  rewrite <- Z.lxor_lor by exact L.
  symmetry. apply Z.add_nocarry_lxor. exact L.
Qed.

(* finite sweeps over bytes *)
Lemma byte_sweep : forall (P : Z -> bool),
  forallb P (map Z.of_nat (seq 0 256)) = true -> forall y, 0 <= y < 256 -> P y = true.
Proof.
  intros P H y Hy.
  rewrite forallb_forall in H. apply H.
  rewrite <- (Z2Nat.id y) by lia.
  apply in_map. apply in_seq. lia.
Qed.

Lemma lor128 : forall y, 0 <= y < 256 -> Z.lor y 128 = y mod 128 + 128.
Proof.
  intros y Hy.
  apply Z.eqb_eq.
  apply (byte_sweep (fun y => Z.lor y 128 =? y mod 128 + 128)); [vm_compute; reflexivity | exact Hy].
Qed.

Lemma land127 : forall y, 0 <= y < 256 -> Z.land y 127 = y mod 128.
Proof.
  intros y Hy.
  apply Z.eqb_eq.
  apply (byte_sweep (fun y => Z.land y 127 =? y mod 128)); [vm_compute; reflexivity | exact Hy].
Qed.

(* ------------------------------------------------------------------ *)
(* list helpers                                                        *)
(* ------------------------------------------------------------------ *)

Lemma len_nil : forall A, len (@nil A) = 0.
Proof. reflexivity. Qed.

Lemma len_cons : forall A (x : A) l, len (x :: l) = len l + 1.
Proof. intros. unfold len. cbn [length]. lia. Qed.

Lemma len_app : forall A (l1 l2 : list A), len (l1 ++ l2) = len l1 + len l2.
Proof. intros. unfold len. rewrite app_length. lia. Qed.

Lemma len_nonneg : forall A (l : list A), 0 <= len l.
Proof. intros. unfold len. lia. Qed.

(* ------------------------------------------------------------------ *)
(* varints: the shape of the canonical encoding                        *)
(* ------------------------------------------------------------------ *)

(* the bytes exactly as the generated encoder computes them: n continuation bytes
   followed by a final byte, group j at bit offset j *)
Fixpoint vb (n : nat) (v : Z) (j : Z) : bytes :=
  match n with
  | O => [w8 (shr64 v j)]
  | S n' => or8 (w8 (shr64 v j)) 128 :: vb n' v (j + 7)
  end.

Lemma vb_length : forall n v j, length (vb n v j) = S n.
Proof. induction n; intros; cbn [vb length]; [reflexivity | rewrite IHn; reflexivity]. Qed.

Lemma w8_byte : forall x, is_byte (w8 x) = true.
Proof.
  intros x. unfold is_byte, w8. change (2 ^ 8) with 256.
  apply andb_true_intro. split; [apply Z.leb_le | apply Z.ltb_lt]; lia.
Qed.

Lemma or8_w8_128 : forall x, or8 (w8 x) 128 = x mod 128 + 128.
Proof.
  intros x. unfold or8, w8. change (2 ^ 8) with 256.
  rewrite lor128 by lia. lia.
Qed.

Lemma vb_wfb : forall n v j, wfb (vb n v j) = true.
Proof.
  induction n; intros; cbn [vb wfb forallb].
  - rewrite w8_byte. reflexivity.
  - fold (wfb (vb n v (j + 7))). rewrite IHn. rewrite or8_w8_128.
    unfold is_byte. apply andb_true_intro. split; [|reflexivity].
    apply andb_true_intro. split; [apply Z.leb_le | apply Z.ltb_lt]; lia.
Qed.

Lemma varint_fuel_vb : forall n f v j,
  (n < f)%nat -> 0 <= j -> j + 7 * Z.of_nat n < 64 -> 0 <= v ->
  (n = O \/ 128 ^ Z.of_nat n <= v / 2 ^ j) -> v / 2 ^ j < 128 ^ (Z.of_nat n + 1) ->
  varint_fuel f (v / 2 ^ j) = vb n v j.
Proof.
  induction n; intros f v j Hf Hj Hj64 Hv Hlo Hhi.
  - destruct f as [|f]; [lia|].
    cbn [varint_fuel vb]. change (128 ^ (Z.of_nat 0 + 1)) with 128 in Hhi.
    destruct (Z.ltb_spec (v / 2 ^ j) 128); [|lia].
    rewrite shr64_div by lia. unfold w8. change (2 ^ 8) with 256.
    assert (0 <= v / 2 ^ j) by (apply Z.div_pos; [lia | apply Z.pow_pos_nonneg; lia]).
    rewrite Z.mod_small by lia. reflexivity.
  - destruct f as [|f]; [lia|].
    destruct Hlo as [Hlo|Hlo]; [discriminate|].
    assert (P : 0 < 128 ^ Z.of_nat n) by (apply Z.pow_pos_nonneg; lia).
    assert (E1 : 128 ^ Z.of_nat (S n) = 128 * 128 ^ Z.of_nat n).
    { rewrite Nat2Z.inj_succ. rewrite Z.pow_succ_r by lia. reflexivity. }
    assert (E2 : 128 ^ (Z.of_nat (S n) + 1) = 128 * 128 ^ (Z.of_nat n + 1)).
    { rewrite Nat2Z.inj_succ. unfold Z.succ. rewrite (Z.pow_add_r 128 (Z.of_nat n + 1) 1) by lia.
      change (128 ^ 1) with 128. lia. }
    rewrite E1 in Hlo. rewrite E2 in Hhi.
    cbn [varint_fuel vb].
    destruct (Z.ltb_spec (v / 2 ^ j) 128); [nia|].
    rewrite or8_w8_128. rewrite shr64_div by lia.
    assert (E3 : v / 2 ^ j / 128 = v / 2 ^ (j + 7)).
    { rewrite Z.pow_add_r by lia. change (2 ^ 7) with 128.
      rewrite Z.div_div; [reflexivity | | lia].
      assert (0 < 2 ^ j) by (apply Z.pow_pos_nonneg; lia). lia. }
    rewrite E3. f_equal.
    apply IHn; try lia; rewrite <- E3.
    all: try (right; apply Z.div_le_lower_bound; lia).
    all: try (apply Z.div_lt_upper_bound; lia).
Qed.

Lemma varint_range : forall (k : nat) v,
  (1 <= k <= 10)%nat -> 0 <= v ->
  (k = 1%nat \/ 128 ^ (Z.of_nat k - 1) <= v) -> v < 128 ^ Z.of_nat k ->
  varint v = vb (k - 1) v 0.
Proof.
  intros k v Hk Hv Hlo Hhi.
  unfold varint.
  rewrite <- (varint_fuel_vb (k - 1) 10 v 0).
  - change (2 ^ 0) with 1. rewrite Z.div_1_r. reflexivity.
  - lia.
  - lia.
  - lia.
  - exact Hv.
  - change (2 ^ 0) with 1. rewrite Z.div_1_r.
    destruct Hlo as [->|Hlo]; [left; reflexivity|].
    right. replace (Z.of_nat (k - 1)) with (Z.of_nat k - 1) by lia. exact Hlo.
  - change (2 ^ 0) with 1. rewrite Z.div_1_r.
    replace (Z.of_nat (k - 1) + 1) with (Z.of_nat k) by lia. exact Hhi.
Qed.

Lemma bitlen64_pos : forall x, 0 < x -> bitlen64 x = Z.log2 x + 1.
Proof. intros x H. destruct x; try lia. reflexivity. Qed.

Lemma sizeOf_range : forall v k,
  0 <= v -> 1 <= k <= 10 -> (k = 1 \/ 2 ^ (7 * (k - 1)) <= v) -> v < 2 ^ (7 * k) ->
  proto_sizeOfVarint v = k.
Proof.
  intros v k Hv Hk Hlo Hhi.
  unfold proto_sizeOfVarint, or64.
  assert (W0 : 0 <= Z.lor v 1) by (apply Z.lor_nonneg; lia).
  assert (W1 : Z.lor v 1 <> 0).
  { intro E. apply Z.lor_eq_0_iff in E. lia. }
  rewrite bitlen64_pos by lia.
  rewrite Z.log2_lor by lia. change (Z.log2 1) with 0.
  pose proof (Z.log2_nonneg v) as L0.
  rewrite Z.max_l by lia.
  assert (Lhi : Z.log2 v < 7 * k).
  { destruct (Z.eq_dec v 0) as [->|]; [change (Z.log2 0) with 0; lia|]. apply Z.log2_lt_pow2; lia. }
  assert (Llo : 7 * (k - 1) <= Z.log2 v).
  { destruct Hlo as [->|Hlo]; [lia|].
    assert (0 < 2 ^ (7 * (k - 1))) by (apply Z.pow_pos_nonneg; lia).
    apply Z.log2_le_pow2; lia. }
  unfold divi64, addi64.
  rewrite (s64_small (Z.log2 v + 1 + 6)) by (change (2 ^ 63) with 9223372036854775808; lia).
  rewrite Z.quot_div_nonneg by lia.
  rewrite s64_small by (change (2 ^ 63) with 9223372036854775808; lia).
  lia.
Qed.

(* the ten ranges *)
Local Ltac shape_case k :=
  exists k; split; [lia|]; split;
  [ apply sizeOf_range; [lia | lia | first [left; reflexivity | right; simpl; lia] | simpl; lia]
  | apply varint_range; [lia | lia | first [left; reflexivity | right; simpl; lia] | simpl; lia] ].

Lemma varint_shape : forall v, u64 v ->
  exists k : nat, (1 <= k <= 10)%nat /\ proto_sizeOfVarint v = Z.of_nat k /\ varint v = vb (k - 1) v 0.
Proof.
  intros v Hv. unfold u64 in Hv.
  assert (C : v < 2 ^ 7 \/ 2 ^ 7 <= v < 2 ^ 14 \/ 2 ^ 14 <= v < 2 ^ 21 \/ 2 ^ 21 <= v < 2 ^ 28 \/
              2 ^ 28 <= v < 2 ^ 35 \/ 2 ^ 35 <= v < 2 ^ 42 \/ 2 ^ 42 <= v < 2 ^ 49 \/
              2 ^ 49 <= v < 2 ^ 56 \/ 2 ^ 56 <= v < 2 ^ 63 \/ 2 ^ 63 <= v < 2 ^ 64) by lia.
  destruct C as [C|[C|[C|[C|[C|[C|[C|[C|[C|C]]]]]]]]].
  - shape_case 1%nat.
  - shape_case 2%nat.
  - shape_case 3%nat.
  - shape_case 4%nat.
  - shape_case 5%nat.
  - shape_case 6%nat.
  - shape_case 7%nat.
  - shape_case 8%nat.
  - shape_case 9%nat.
  - shape_case 10%nat.
Qed.

Lemma varint_length : varint_length_statement.
Proof.
  intros v Hv. destruct (varint_shape v Hv) as (k & Hk & _ & E).
  rewrite E. split.
  - unfold len. rewrite vb_length. lia.
  - apply vb_wfb.
Qed.

Lemma sizeOfVarint_spec : sizeOfVarint_statement.
Proof.
  intros v Hv. destruct (varint_shape v Hv) as (k & Hk & S & E).
  rewrite S, E. unfold len. rewrite vb_length. lia.
Qed.

Lemma shr64_0 : forall v, shr64 v 0 = v.
Proof. reflexivity. Qed.

Lemma encodeVarint_fits : encodeVarint_fits_statement.
Proof.
  intros v b Hv Hlen. destruct (varint_shape v Hv) as (k & Hk & S & E).
  rewrite E in *. unfold len in Hlen. rewrite vb_length in Hlen.
  unfold proto_encodeVarint. rewrite S.
  destruct (Z.ltb_spec (len b) (Z.of_nat k)) as [L|_]; [unfold len in L; lia|].
  assert (C : (k = 1 \/ k = 2 \/ k = 3 \/ k = 4 \/ k = 5 \/ k = 6 \/ k = 7 \/ k = 8 \/ k = 9 \/ k = 10)%nat) by lia.
  clear S E Hk.
  destruct C as [C|[C|[C|[C|[C|[C|[C|[C|[C|C]]]]]]]]]; subst k.
  - destruct b as [|b0 b]; [simpl in Hlen; lia|]. reflexivity.
  - do 1 (destruct b as [|? b]; [simpl in Hlen; lia|]).
    destruct b as [|? b]; [simpl in Hlen; lia|]. reflexivity.
  - do 2 (destruct b as [|? b]; [simpl in Hlen; lia|]).
    destruct b as [|? b]; [simpl in Hlen; lia|]. reflexivity.
  - do 3 (destruct b as [|? b]; [simpl in Hlen; lia|]).
    destruct b as [|? b]; [simpl in Hlen; lia|]. reflexivity.
  - do 4 (destruct b as [|? b]; [simpl in Hlen; lia|]).
    destruct b as [|? b]; [simpl in Hlen; lia|]. reflexivity.
  - do 5 (destruct b as [|? b]; [simpl in Hlen; lia|]).
    destruct b as [|? b]; [simpl in Hlen; lia|]. reflexivity.
  - do 6 (destruct b as [|? b]; [simpl in Hlen; lia|]).
    destruct b as [|? b]; [simpl in Hlen; lia|]. reflexivity.
  - do 7 (destruct b as [|? b]; [simpl in Hlen; lia|]).
    destruct b as [|? b]; [simpl in Hlen; lia|]. reflexivity.
  - do 8 (destruct b as [|? b]; [simpl in Hlen; lia|]).
    destruct b as [|? b]; [simpl in Hlen; lia|]. reflexivity.
  - do 9 (destruct b as [|? b]; [simpl in Hlen; lia|]).
    destruct b as [|? b]; [simpl in Hlen; lia|]. reflexivity.
Qed.

Lemma encodeVarint_short : encodeVarint_short_statement.
Proof.
  intros v b Hv Hlen. unfold proto_encodeVarint.
  rewrite (sizeOfVarint_spec v Hv).
  destruct (Z.ltb_spec (len b) (len (varint v))); [reflexivity | lia].
Qed.
(* the slow-path loop of decodeVarint, named *)
Definition dv_loop (lb : Z) : list Z -> Z -> Z -> Z -> Z * Z * option proto_error :=
  fix loop2_ (l3_ : list Z) (i4_ : Z) (x : Z) (s : Z) {struct l3_} : (Z * Z * (option proto_error)) :=
    match l3_ with
    | [] => (x, lb, Some proto_ErrUnexpectedEOF)
    | h5_ :: t6_ =>
      if (h5_ <? 128) then
        (if ((i4_ >? 9) || ((i4_ =? 9) && (h5_ >? 1))) then
          ((0, i4_, (Some proto_errVarintOverflow)))
        else
          ((or64 x (shl64 h5_ s), addi64 i4_ 1, None)))
      else
        loop2_ t6_ (i4_ + 1) (or64 x (shl64 (and8 h5_ 127) s)) (add64 s 7)
    end.

Lemma decodeVarint_unfold : forall b,
  proto_decodeVarint b =
  if (negb (len b =? 0)) && (at_ b 0 <? 128) then (at_ b 0, 1, None) else dv_loop (len b) b 0 0 0.
Proof. reflexivity. Qed.

Lemma dv_loop_varint : forall f lb r rest i x,
  0 <= i -> i + Z.of_nat f = 9 -> 0 <= x < 2 ^ (7 * i) -> 0 <= r -> x + r * 2 ^ (7 * i) < 2 ^ 64 ->
  dv_loop lb (varint_fuel (S f) r ++ rest) i x (7 * i) =
  (x + r * 2 ^ (7 * i), i + len (varint_fuel (S f) r), None).
Proof.
  induction f; intros lb r rest i x Hi Hf Hx Hr Hb.
  - assert (i = 9) by lia. subst i. change (7 * 9) with 63 in *.
    change (2 ^ 63) with 9223372036854775808 in *.
    change (2 ^ 64) with 18446744073709551616 in *.
    cbn [varint_fuel]. destruct (Z.ltb_spec r 128); [|lia].
    cbn [app dv_loop].
    destruct (Z.ltb_spec r 128); [|lia].
    change (9 >? 9) with false. change (9 =? 9) with true. cbn [orb andb].
    destruct (Z.gtb_spec r 1); [lia|].
    rewrite shl64_mul by lia. change (2 ^ 63) with 9223372036854775808.
    rewrite w64_small by (change (2 ^ 64) with 18446744073709551616; lia).
    unfold or64. change 9223372036854775808 with (2 ^ 63) at 1.
    rewrite lor_add by (change (2 ^ 63) with 9223372036854775808; lia).
    reflexivity.
  - assert (P : 0 < 2 ^ (7 * i)) by (apply Z.pow_pos_nonneg; lia).
    assert (P7 : 2 ^ (7 * (i + 1)) = 128 * 2 ^ (7 * i)).
    { replace (7 * (i + 1)) with (7 * i + 7) by lia. rewrite Z.pow_add_r by lia.
      change (2 ^ 7) with 128. lia. }
    assert (P63 : 2 ^ (7 * i) * 2 ^ (64 - 7 * i) = 2 ^ 64).
    { rewrite <- Z.pow_add_r by lia. f_equal. lia. }
    remember (S f) as f1. cbn [varint_fuel].
    destruct (Z.ltb_spec r 128) as [R|R].
    + cbn [app dv_loop]. destruct (Z.ltb_spec r 128); [|lia].
      destruct (Z.gtb_spec i 9); [lia|]. destruct (Z.eqb_spec i 9); [lia|]. cbn [orb andb].
      rewrite shl64_mul by lia. rewrite w64_small by nia.
      unfold or64. rewrite lor_add by lia.
      unfold addi64. rewrite s64_small by (change (2 ^ 63) with 9223372036854775808; lia).
      rewrite len_cons, len_nil. reflexivity.
    + cbn [app dv_loop].
      destruct (Z.ltb_spec (r mod 128 + 128) 128); [lia|].
      unfold and8. rewrite land127 by lia.
      replace ((r mod 128 + 128) mod 128) with (r mod 128) by lia.
      rewrite shl64_mul by lia.
      assert (M : 0 <= r mod 128 < 128) by lia.
      assert (Q : 0 <= r / 128) by lia.
      assert (D : r = 128 * (r / 128) + r mod 128) by lia.
      assert (B1 : (r mod 128) * 2 ^ (7 * i) <= 127 * 2 ^ (7 * i)) by (apply Z.mul_le_mono_nonneg_r; lia).
      assert (B2 : 0 <= (r mod 128) * 2 ^ (7 * i)) by (apply Z.mul_nonneg_nonneg; lia).
      assert (B3 : 0 <= r / 128 * (128 * 2 ^ (7 * i))) by (apply Z.mul_nonneg_nonneg; lia).
      assert (E : x + r * 2 ^ (7 * i) = x + r mod 128 * 2 ^ (7 * i) + r / 128 * (128 * 2 ^ (7 * i))).
      { rewrite D at 1. ring. }
      rewrite w64_small by lia.
      unfold or64. rewrite lor_add by lia.
      unfold add64. rewrite w64_small by (change (2 ^ 64) with 18446744073709551616; lia).
      replace (7 * i + 7) with (7 * (i + 1)) by lia.
      subst f1. rewrite IHf by lia.
      rewrite P7, len_cons. rewrite E. f_equal. f_equal. lia.
Qed.

Lemma decodeVarint_encode : decodeVarint_encode_statement.
Proof.
  intros v rest Hv. unfold u64 in Hv.
  rewrite decodeVarint_unfold.
  unfold varint. 
  destruct (Z.ltb_spec v 128) as [V|V].
  - cbn [varint_fuel]. destruct (Z.ltb_spec v 128); [|lia].
    cbn [app]. rewrite len_cons. unfold at_. cbn [Z.to_nat nth].
    destruct (Z.eqb_spec (len rest + 1) 0); [pose proof (len_nonneg _ rest); lia|].
    destruct (Z.ltb_spec v 128); [|lia]. cbn [negb andb]. reflexivity.
  - replace ((negb (len (varint_fuel 10 v ++ rest) =? 0)) && (at_ (varint_fuel 10 v ++ rest) 0 <? 128)) with false.
    + rewrite (dv_loop_varint 9 _ v rest 0 0); try (simpl; lia).
      change (2 ^ (7 * 0)) with 1. f_equal. f_equal. lia.
    + symmetry. apply andb_false_intro2.
      cbn [varint_fuel]. destruct (Z.ltb_spec v 128); [lia|].
      cbn [app]. unfold at_. cbn [Z.to_nat nth]. apply Z.ltb_ge. lia.
Qed.

Lemma dv_loop_bounds : forall l lb i x s v n e,
  lb = i + len l -> 0 <= i -> 0 <= x < 2 ^ 64 ->
  dv_loop lb l i x s = (v, n, e) ->
  i <= n <= lb /\ u64 v /\ (e = None -> 1 <= n <= 10).
Proof.
  induction l as [|c l IH]; intros lb i x s v n e Hlb Hi Hx H.
  - cbn [dv_loop] in H. inversion H; subst. rewrite len_nil.
    split; [lia|]. split; [exact Hx | discriminate].
  - rewrite len_cons in Hlb. pose proof (len_nonneg _ l) as Hl.
    cbn [dv_loop] in H.
    destruct (c <? 128).
    + destruct (Z.gtb_spec i 9) as [G|G]; cbn [orb] in H.
      * inversion H; subst. split; [lia|]. split; [unfold u64; split; [lia|reflexivity] | discriminate].
      * destruct ((i =? 9) && (c >? 1)).
        -- inversion H; subst. split; [lia|]. split; [unfold u64; split; [lia|reflexivity] | discriminate].
        -- inversion H; subst. unfold addi64.
           rewrite s64_small by (change (2 ^ 63) with 9223372036854775808; lia).
           split; [lia|]. split; [|intros _; lia].
           unfold u64, or64. apply lor_range; [lia | exact Hx | apply shl64_range].
    + apply IH in H; try lia.
      * destruct H as (H1 & H2 & H3). split; [lia|]. split; assumption.
      * unfold or64. apply lor_range; [lia | exact Hx | apply shl64_range].
Qed.

Lemma decodeVarint_bounds_gen : forall b v n e, wfb b = true ->
  proto_decodeVarint b = (v, n, e) ->
  0 <= n <= len b /\ u64 v /\ (e = None -> 1 <= n <= 10).
Proof.
  intros b v n e Hb H. rewrite decodeVarint_unfold in H.
  destruct b as [|c b].
  - cbn in H. inversion H; subst. rewrite len_nil. unfold u64.
    split; [lia|]. split; [split; [lia|reflexivity] | discriminate].
  - cbn [wfb forallb] in Hb. apply andb_prop in Hb. destruct Hb as [Hc _].
    unfold is_byte in Hc. apply andb_prop in Hc. destruct Hc as [Hc1 Hc2].
    apply Z.leb_le in Hc1. apply Z.ltb_lt in Hc2.
    pose proof (len_nonneg _ b) as Hl.
    destruct ((negb (len (c :: b) =? 0)) && (at_ (c :: b) 0 <? 128)).
    + unfold at_ in H. cbn [Z.to_nat nth] in H. inversion H; subst.
      rewrite len_cons. split; [lia|]. split; [|intros _; lia].
      unfold u64. change (2 ^ 64) with 18446744073709551616. lia.
    + apply dv_loop_bounds in H; try lia.
      destruct H as (H1 & H2 & H3). split; [lia|]. split; assumption.
Qed.

Lemma decodeVarint_bounds : decodeVarint_bounds_statement.
Proof.
  intros b Hb.
  destruct (proto_decodeVarint b) as [[v n] e] eqn:E.
  apply (decodeVarint_bounds_gen b v n e Hb E).
Qed.
(* ------------------------------------------------------------------ *)
(* zig-zag                                                             *)
(* ------------------------------------------------------------------ *)

Local Ltac lits :=
  change (2 ^ 64) with 18446744073709551616 in *;
  change (2 ^ 63) with 9223372036854775808 in *;
  change (2 ^ 32) with 4294967296 in *;
  change (2 ^ 31) with 2147483648 in *;
  change (2 ^ 1) with 2 in *.

Lemma lxor_ones : forall a n, 0 <= n -> 0 <= a < 2 ^ n -> Z.lxor a (2 ^ n - 1) = 2 ^ n - 1 - a.
Proof.
  intros a n Hn Ha.
  assert (E : Z.lxor a (Z.ones n) = (Z.lnot a) mod 2 ^ n).
  { apply Z.bits_inj'. intros m Hm. rewrite Z.lxor_spec.
    destruct (Z.lt_ge_cases m n).
    - rewrite Z.ones_spec_low by lia. rewrite Z.mod_pow2_bits_low by lia.
      rewrite Z.lnot_spec by lia. apply xorb_true_r.
    - rewrite Z.ones_spec_high by lia. rewrite Z.mod_pow2_bits_high by lia.
      rewrite (bits_high_zero a n m) by lia. reflexivity. }
  replace (2 ^ n - 1) with (Z.ones n) by (rewrite Z.ones_equiv; unfold Z.pred; lia).
  rewrite E. rewrite Z.ones_equiv.
  unfold Z.lnot, Z.pred. symmetry.
  apply (Z.mod_unique _ _ (-1)); lia.
Qed.

Lemma land1 : forall x, Z.land x 1 = x mod 2.
Proof. intros x. exact (Z.land_ones x 1 ltac:(lia)). Qed.

Lemma unzigzag_zigzag : forall v, unzigzag (zigzag v) = v.
Proof.
  intros v. unfold unzigzag. pose proof (Zmod_even (zigzag v)) as E. revert E.
  unfold zigzag. destruct (Z.leb_spec 0 v); destruct (Z.even _); lia.
Qed.

Lemma zigzag_unzigzag : forall u, 0 <= u -> zigzag (unzigzag u) = u.
Proof.
  intros u Hu. unfold zigzag, unzigzag. pose proof (Zmod_even u) as E.
  destruct (Z.even u).
  - destruct (Z.leb_spec 0 (u / 2)); lia.
  - destruct (Z.leb_spec 0 (- ((u + 1) / 2))); lia.
Qed.

Lemma encodeZigZag64_zigzag : forall v, i64 v -> proto_encodeZigZag64 v = zigzag v.
Proof.
  intros v Hv. unfold i64 in Hv.
  unfold proto_encodeZigZag64, zigzag, xor64, shri64.
  change (63 <? 64) with true. cbv iota. rewrite Z.shiftr_div_pow2 by lia.
  rewrite shl64_mul by lia. unfold w64. lits.
  destruct (Z.leb_spec 0 v).
  - replace (v / 9223372036854775808) with 0 by lia.
    change (0 mod 18446744073709551616) with 0. rewrite Z.lxor_0_r. lia.
  - replace (v / 9223372036854775808) with (-1) by lia.
    change (-1 mod 18446744073709551616) with (2 ^ 64 - 1).
    rewrite lxor_ones by (lits; lia). lits. lia.
Qed.

Lemma s64_parity : forall u, (s64 u) mod 2 = u mod 2.
Proof.
  intros u. unfold s64, w64. lits.
  destruct (Z.ltb_spec (u mod 18446744073709551616) 9223372036854775808); lia.
Qed.

Lemma decodeZigZag64_unzigzag : forall u, u64 u -> proto_decodeZigZag64 u = unzigzag u.
Proof.
  intros u Hu. unfold u64 in Hu.
  unfold proto_decodeZigZag64, unzigzag, xori64, negi64, andi64.
  rewrite shr64_div by lia. rewrite land1, s64_parity.
  pose proof (Zmod_even u) as E. lits.
  rewrite (s64_small (u / 2)) by (lits; lia).
  destruct (Z.even u); rewrite E.
  - change (s64 0) with 0. change (- 0) with 0. rewrite Z.lxor_0_r.
    apply s64_small. lits. lia.
  - change (s64 1) with 1. change (s64 (- 1)) with (-1).
    rewrite Z.lxor_m1_r. unfold Z.lnot, Z.pred.
    rewrite s64_small by (lits; lia). lia.
Qed.

Lemma zigzag_u64 : forall v, i64 v -> u64 (zigzag v).
Proof.
  intros v Hv. unfold i64, u64, zigzag in *. lits. destruct (Z.leb_spec 0 v); lia.
Qed.

Lemma unzigzag_i64 : forall u, u64 u -> i64 (unzigzag u).
Proof.
  intros u Hu. unfold i64, u64, unzigzag in *. lits. destruct (Z.even u); lia.
Qed.

Lemma zigzag64_spec : zigzag64_statement.
Proof.
  intros v Hv. split; [apply encodeZigZag64_zigzag; exact Hv|].
  split; [apply zigzag_u64; exact Hv|].
  rewrite decodeZigZag64_unzigzag by (apply zigzag_u64; exact Hv).
  apply unzigzag_zigzag.
Qed.

Lemma unzigzag64_spec : unzigzag64_statement.
Proof.
  intros u Hu. split; [apply decodeZigZag64_unzigzag; exact Hu|].
  split; [apply unzigzag_i64; exact Hu|].
  rewrite encodeZigZag64_zigzag by (apply unzigzag_i64; exact Hu).
  apply zigzag_unzigzag. unfold u64 in Hu. lia.
Qed.

Lemma encodeZigZag32_zigzag : forall v, i32 v -> proto_encodeZigZag32 v = zigzag v.
Proof.
  intros v Hv. unfold i32 in Hv.
  unfold proto_encodeZigZag32, zigzag, xor32, shri32, shl32.
  change (31 <? 32) with true. change (1 <? 32) with true. cbv iota.
  rewrite Z.shiftr_div_pow2 by lia. rewrite Z.shiftl_mul_pow2 by lia.
  unfold w32. lits.
  destruct (Z.leb_spec 0 v).
  - replace (v / 2147483648) with 0 by lia.
    change (0 mod 4294967296) with 0. rewrite Z.lxor_0_r. lia.
  - replace (v / 2147483648) with (-1) by lia.
    change (-1 mod 4294967296) with (2 ^ 32 - 1).
    rewrite lxor_ones by (lits; lia). lits. lia.
Qed.

Lemma s32_parity : forall u, (s32 u) mod 2 = u mod 2.
Proof.
  intros u. unfold s32, w32. lits.
  destruct (Z.ltb_spec (u mod 4294967296) 2147483648); lia.
Qed.

Lemma decodeZigZag32_unzigzag : forall u, u32 u -> proto_decodeZigZag32 u = unzigzag u.
Proof.
  intros u Hu. unfold u32 in Hu.
  unfold proto_decodeZigZag32, unzigzag, xori32, negi32, andi32, shr32.
  change (1 <? 32) with true. cbv iota.
  rewrite Z.shiftr_div_pow2 by lia. rewrite land1, s32_parity.
  pose proof (Zmod_even u) as E. lits.
  rewrite (s32_small (u / 2)) by (lits; lia).
  destruct (Z.even u); rewrite E.
  - change (s32 0) with 0. change (- 0) with 0. rewrite Z.lxor_0_r.
    apply s32_small. lits. lia.
  - change (s32 1) with 1. change (s32 (- 1)) with (-1).
    rewrite Z.lxor_m1_r. unfold Z.lnot, Z.pred.
    rewrite s32_small by (lits; lia). lia.
Qed.

Lemma zigzag32_spec : zigzag32_statement.
Proof.
  intros v Hv.
  assert (U : u32 (zigzag v)).
  { unfold i32, u32, zigzag in *. lits. destruct (Z.leb_spec 0 v); lia. }
  split; [apply encodeZigZag32_zigzag; exact Hv|].
  split; [exact U|].
  rewrite decodeZigZag32_unzigzag by exact U.
  apply unzigzag_zigzag.
Qed.

Lemma flags_int64_spec : flags_int64_statement.
Proof.
  intros f v Hf Hv. unfold proto_flags_uint64, proto_flags_int64.
  destruct (proto_flags_has f proto_zigzag).
  - destruct (zigzag64_spec v Hv) as (E & U & D). rewrite E. split; assumption.
  - unfold i64 in Hv. unfold u64. split.
    + apply w64_range.
    + unfold s64, w64. lits. rewrite Z.mod_mod by lia.
      destruct (Z.ltb_spec (v mod 18446744073709551616) 9223372036854775808); lia.
Qed.
(* ------------------------------------------------------------------ *)
(* little-endian fixed widths                                          *)
(* ------------------------------------------------------------------ *)

Lemma encodeLE_spec : encodeLE_statement.
Proof.
  intros v b. unfold proto_encodeLE32, proto_encodeLE64, put_le32, put_le64, splice.
  split; [|split; [|split]].
  - intros _ Hb. destruct (Z.ltb_spec (len b) 4); [lia|]. reflexivity.
  - intros Hb. destruct (Z.ltb_spec (len b) 4); [|lia]. reflexivity.
  - intros _ Hb. destruct (Z.ltb_spec (len b) 8); [lia|]. reflexivity.
  - intros Hb. destruct (Z.ltb_spec (len b) 8); [|lia]. reflexivity.
Qed.

Lemma decodeLE_spec : decodeLE_statement.
Proof.
  intros v rest. pose proof (len_nonneg _ rest) as Hr. split; intros Hv.
  - unfold u32 in Hv. unfold proto_decodeLE32. rewrite len_app.
    change (len (le_bytes 4 v)) with 4.
    destruct (Z.ltb_spec (4 + len rest) 4); [lia|].
    f_equal. f_equal. unfold le32. cbn [le_bytes app le_load]. lits. lia.
  - unfold u64 in Hv. unfold proto_decodeLE64. rewrite len_app.
    change (len (le_bytes 8 v)) with 8.
    destruct (Z.ltb_spec (8 + len rest) 8); [lia|].
    f_equal. f_equal. unfold le64. cbn [le_bytes app le_load]. lits. lia.
Qed.

(* ------------------------------------------------------------------ *)
(* tags                                                                *)
(* ------------------------------------------------------------------ *)

Lemma land7 : forall x, Z.land x 7 = x mod 8.
Proof. intros x. exact (Z.land_ones x 3 ltac:(lia)). Qed.

Lemma tag_spec : tag_statement.
Proof.
  intros number wt b Hn Hw.
  change (2 ^ 61) with 2305843009213693952 in Hn.
  assert (T : or64 (shl64 number 3) wt = tag_of number wt).
  { rewrite shl64_mul by lia. change (2 ^ 3) with 8.
    rewrite w64_small by (lits; lia). unfold or64, tag_of.
    rewrite Z.lor_comm. change 8 with (2 ^ 3). rewrite lor_add by (change (2 ^ 3) with 8; lia).
    lia. }
  assert (U : u64 (tag_of number wt)) by (unfold u64, tag_of; lits; lia).
  split; [|split].
  - unfold proto_encodeTag. rewrite T.
    destruct (proto_encodeVarint b (tag_of number wt)) as [[r1 r2] b']. reflexivity.
  - unfold proto_sizeOfTag. rewrite T. apply sizeOfVarint_spec. exact U.
  - intros rest. unfold proto_decodeTag. rewrite decodeVarint_encode by exact U.
    cbv beta iota zeta. rewrite shr64_div by lia. unfold and64. rewrite land7.
    unfold tag_of. change (2 ^ 3) with 8.
    f_equal. f_equal. f_equal; lia.
Qed.

(* ------------------------------------------------------------------ *)
(* length-delimited payloads                                           *)
(* ------------------------------------------------------------------ *)

Lemma slice_mid : forall (p s r : bytes), slice (p ++ s ++ r) (len p) (len p + len s) = s.
Proof.
  intros p s r. unfold slice, len.
  replace (Z.of_nat (length p) + Z.of_nat (length s) - Z.of_nat (length p)) with (Z.of_nat (length s)) by lia.
  rewrite !Nat2Z.id.
  rewrite skipn_app, skipn_all, Nat.sub_diag. cbn [skipn app].
  rewrite firstn_app, firstn_all, Nat.sub_diag. cbn [firstn]. apply app_nil_r.
Qed.

Lemma wfb_firstn : forall n b, wfb b = true -> wfb (firstn n b) = true.
Proof.
  induction n; intros b H; [reflexivity|].
  destruct b as [|c b]; [reflexivity|].
  cbn [firstn wfb forallb] in *. apply andb_prop in H. destruct H as [H1 H2].
  rewrite H1. cbn [andb]. apply IHn. exact H2.
Qed.

Lemma wfb_skipn : forall n b, wfb b = true -> wfb (skipn n b) = true.
Proof.
  induction n; intros b H; [exact H|].
  destruct b as [|c b]; [reflexivity|].
  cbn [skipn]. cbn [wfb forallb] in H. apply andb_prop in H. destruct H as [H1 H2].
  apply IHn. exact H2.
Qed.

Lemma decodeVarlen_encode : decodeVarlen_encode_statement.
Proof.
  intros s rest Hs Hl Hr.
  pose proof (len_nonneg _ s) as Ls. pose proof (len_nonneg _ rest) as Lr.
  change (2 ^ 62) with 4611686018427387904 in *.
  assert (U : u64 (len s)) by (unfold u64; lits; lia).
  destruct (varint_length (len s) U) as [K _].
  split.
  - unfold proto_decodeVarlen. rewrite decodeVarint_encode by exact U.
    cbn [isnil negb]. rewrite !len_app.
    unfold subi64, addi64.
    rewrite (s64_small (len s)) by (lits; lia).
    rewrite !s64_small by (lits; lia).
    rewrite w64_small by (lits; lia).
    destruct (Z.gtb_spec (len s) (len (varint (len s)) + (len s + len rest) - len (varint (len s)))); [lia|].
    rewrite slice_mid. reflexivity.
  - unfold proto_sizeOfVarlen. rewrite w64_small by (lits; lia).
    rewrite sizeOfVarint_spec by exact U.
    unfold addi64. apply s64_small. lits. lia.
Qed.

Lemma decodeVarlen_bounds : decodeVarlen_bounds_statement.
Proof.
  intros b Hb Hl. unfold proto_decodeVarlen.
  change (2 ^ 62) with 4611686018427387904 in *.
  destruct (proto_decodeVarint b) as [[v n] e] eqn:E.
  destruct (decodeVarint_bounds_gen b v n e Hb E) as (Hn & Hv & He).
  unfold u64 in Hv.
  destruct e; cbn [isnil negb].
  - split; [lia|discriminate].
  - unfold subi64. rewrite s64_small by (lits; lia). rewrite w64_small by (lits; lia).
    destruct (Z.gtb_spec v (len b - n)).
    + split; [lia|discriminate].
    + unfold addi64. rewrite (s64_small v) by (lits; lia).
      rewrite s64_small by (lits; lia).
      split; [lia|]. intros _. split.
      * unfold slice, len. pose proof (firstn_le_length (Z.to_nat (n + v - n)) (skipn (Z.to_nat n) b)). lia.
      * unfold slice. apply wfb_firstn. apply wfb_skipn. exact Hb.
Qed.
