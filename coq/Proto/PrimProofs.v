(* Proofs about the machine-translated protobuf wire primitives. *)
From Verif Require Import Base.GoInt Proto.Ext Generated.ProtoGen Proto.PrimSpec.
From Coq Require Import ZifyBool.
Open Scope Z_scope.

Lemma varint_length : varint_length_statement.
Admitted.
Lemma sizeOfVarint_spec : sizeOfVarint_statement.
Admitted.
Lemma encodeVarint_fits : encodeVarint_fits_statement.
Admitted.
Lemma encodeVarint_short : encodeVarint_short_statement.
Admitted.
Lemma decodeVarint_encode : decodeVarint_encode_statement.
Admitted.
Lemma decodeVarint_bounds : decodeVarint_bounds_statement.
Admitted.
Lemma zigzag64_spec : zigzag64_statement.
Admitted.
Lemma unzigzag64_spec : unzigzag64_statement.
Admitted.
Lemma zigzag32_spec : zigzag32_statement.
Admitted.
Lemma flags_int64_spec : flags_int64_statement.
Admitted.
Lemma encodeLE_spec : encodeLE_statement.
Admitted.
Lemma decodeLE_spec : decodeLE_statement.
Admitted.
Lemma tag_spec : tag_statement.
Admitted.
Lemma decodeVarlen_encode : decodeVarlen_encode_statement.
Admitted.
Lemma decodeVarlen_bounds : decodeVarlen_bounds_statement.
Admitted.
