(* C12: machine-checked counterexamples. Each hypothesis that sets a class of inputs aside in the C12 theorems is
   shown necessary on the faithful model: without it the statement is false (the witnesses are replayed on the real
   code by the harness, classes .zzrep .emap). Also: the differences between the specification and the
   package dialect that are outside the property (over-wide 32-bit varints, packed repeated scalars). *)
From Coq Require Import ZArith List Bool Lia.
From Verif Require Import Base.GoInt Proto.Ext Generated.ProtoGen Proto.Model Proto.PrimSpec Proto.Spec Proto.WireSpec.
Import ListNotations.
Open Scope Z_scope.

Ltac universe := unfold in_universe; repeat split; try reflexivity; vm_compute; congruence.

(* ---------- a bool written on two bytes: read by the repaired decodeBool, rejected by the package before ---------- *)
Definition t_bool : gty := TStruct [GField true None TBool].
(* field 1 = true, the varint 1 written on two bytes: 08 81 00 *)
Lemma bool_padded_legal : reencodes true (fields_of t_bool) [FOne (PVBool true)] [8; 129; 0].
Proof.
  exists [RLeaf 1 0 (LVarint 1 1)]. split; [|split].
  - cbn [legal_msg fields_of ptype_of t_bool]. exists [[RLeaf 1 0 (LVarint 1 1)]], []. split; [constructor|]. split.
    + apply (il_cons [[]] (RLeaf 1 0 (LVarint 1 1)) [] [] []). apply il_nil. repeat constructor.
    + split; [|exact I]. cbn. exists [], O, 1%nat. split; [reflexivity|]. split; [left; reflexivity|constructor].
  - constructor; [|constructor]. cbn. unfold leb_ok. repeat split; try lia; vm_compute; congruence.
  - reflexivity.
Qed.
Lemma bool_padded_std : spec_decode std (fields_of t_bool) [8; 129; 0] = Some [FOne (PVBool true)].
Proof. vm_compute. reflexivity. Qed.
Lemma bool_padded_pkg : Unmarshal 10 t_bool [8; 129; 0] (zero_val t_bool) = Ok (Some (VStruct [VBool true])).
Proof. vm_compute. reflexivity. Qed.
(* the dialect of the package before the repair (decodeBool looked at one byte) rejected it *)
Lemma bool_padded_old_dialect : spec_decode pkgd_old (fields_of t_bool) [8; 129; 0] = None.
Proof. vm_compute. reflexivity. Qed.

(* ---------- (a) without tags_sane: zigzag or fixed variant on a repeated field ---------- *)
Definition marshal_standard_gen (extra : gty -> val -> Prop) : Prop :=
  forall t v bs, in_universe t v -> is_struct_ty t = true -> representable v = true -> keys_distinct v = true ->
    rep_tags_ok t = true -> extra t v ->
    Size (TPtr t) (VPtr (Some v)) < lim ->
    Marshal (TPtr t) (VPtr (Some v)) = Ok (Some bs) ->
    exists m r, spec_decode std (fields_of t) bs = Some m /\ of_msg t m = Some r /\ norm r = norm v.

Definition t_zzrep : gty :=
  TStruct [GField true (Some {| tag_wire := 0; tag_number := 1; tag_repeated := true; tag_zigzag := true |}) (TSlice TInt64)].
(* repeated sint64 [1] is written 08 01 (plain varint): the specification reads -1 *)
Lemma marshal_standard_needs_tags_sane_zigzag :
  ~ marshal_standard_gen (fun t v => no_empty_map v = true).
Proof.
  intros H.
  destruct (H t_zzrep (VStruct [VSlice [VInt 1]]) [8; 1]) as (m & r & H1 & H2 & H3); try reflexivity.
  - universe.
  - vm_compute in H1. inversion H1; subst m. vm_compute in H2. inversion H2; subst r. vm_compute in H3. discriminate H3.
Qed.
Definition t_fxrep : gty :=
  TStruct [GField true (Some {| tag_wire := 5; tag_number := 1; tag_repeated := true; tag_zigzag := false |}) (TSlice TUint32)].
(* repeated fixed32 [7] is written 08 07 (varint): the specification skips the record, the element is lost *)
Lemma marshal_standard_needs_tags_sane_fixed :
  ~ marshal_standard_gen (fun t v => no_empty_map v = true).
Proof.
  intros H.
  destruct (H t_fxrep (VStruct [VSlice [VInt 7]]) [8; 7]) as (m & r & H1 & H2 & H3); try reflexivity.
  - universe.
  - vm_compute in H1. inversion H1; subst m. vm_compute in H2. inversion H2; subst r. vm_compute in H3. discriminate H3.
Qed.

(* ---------- (a) without no_empty_map: a map without entries is written as one empty entry ---------- *)
Definition t_emap : gty := TStruct [GField true None (TMap TString TString)].
Lemma marshal_standard_needs_no_empty_map :
  ~ marshal_standard_gen (fun t v => tags_sane t = true).
Proof.
  intros H.
  destruct (H t_emap (VStruct [VMap false []]) [10; 0]) as (m & r & H1 & H2 & H3); try reflexivity.
  - universe.
  - vm_compute in H1. inversion H1; subst m. vm_compute in H2. inversion H2; subst r. vm_compute in H3. discriminate H3.
Qed.
(* conversely the package drops the entry {default key: default value} written with an empty payload *)
Lemma empty_entry_std : spec_decode std (fields_of t_emap) [10; 0] = Some [FMapv [(PVBytes [], PVBytes [])]].
Proof. vm_compute. reflexivity. Qed.
Lemma empty_entry_pkg : Unmarshal 10 t_emap [10; 0] (zero_val t_emap) = Ok (Some (VStruct [VMap true []])).
Proof. vm_compute. reflexivity. Qed.

(* ---------- (b1) without plain: a map entry without value, pointer-typed values ---------- *)
Definition t_mapptr : gty := TStruct [GField true None (TMap TString (TPtr TInt32))].
(* entry {key: a} without value field: the specification reads a -> 0, the package stores a nil pointer *)
Lemma map_ptr_value_std :
  match spec_decode pkgd (fields_of t_mapptr) [10; 3; 10; 1; 97] with
  | Some m => of_msg t_mapptr m
  | None => None
  end = Some (VStruct [VMap true [(VStr [97], VPtr (Some (VInt 0)))]]).
Proof. vm_compute. reflexivity. Qed.
Lemma map_ptr_value_pkg :
  Unmarshal 10 t_mapptr [10; 3; 10; 1; 97] (zero_val t_mapptr) = Ok (Some (VStruct [VMap true [(VStr [97], VPtr None)]])).
Proof. vm_compute. reflexivity. Qed.

(* ---------- outside the property: where the specification is more liberal than the package ---------- *)
Definition t_i32 : gty := TStruct [GField true None TInt32].
(* int32 field, varint 2^32 + 5: truncated to 5 by the specification, an error for the package *)
Lemma wide_int32_std : spec_decode std (fields_of t_i32) [8; 133; 128; 128; 128; 16] = Some [FOne (PVInt 5)].
Proof. vm_compute. reflexivity. Qed.
Lemma wide_int32_pkg : Unmarshal 10 t_i32 [8; 133; 128; 128; 128; 16] (zero_val t_i32) = Ok None.
Proof. vm_compute. reflexivity. Qed.
Definition t_rep32 : gty := TStruct [GField true None (TSlice TInt32)].
(* packed repeated int32 [1; 2]: 0a 02 01 02 *)
Lemma packed_std : spec_decode std (fields_of t_rep32) [10; 2; 1; 2] = Some [FRep [PVInt 1; PVInt 2]].
Proof. vm_compute. reflexivity. Qed.
Lemma packed_pkg : Unmarshal 10 t_rep32 [10; 2; 1; 2] (zero_val t_rep32) = Ok None.
Proof. vm_compute. reflexivity. Qed.
