(* C12 proofs (WireEncProofs): see Proto/WireSpec.v for the definitions and statements.

   RESULT. [marshal_standard_statement] of WireSpec.v is FALSE as written (Lemma marshal_standard_refuted, Qed):
   struct.go makeFlags ORs the zigzag bit of a field into the flags handed to the codec of the field, and the struct
   codec hands its own flags on to its fields. A zigzag struct tag on a field whose type is a struct (or a pointer to
   a struct) therefore zigzag-encodes every int / int32 / int64 field of the nested message (transitively through
   nested structs and pointers, not through slices and maps, whose codecs restart from wantzero), whereas the
   descriptor [fields_of] (TypeOf) gives those nested fields the plain varint types.
   Smallest witness: struct { A struct { X int } } with the tag (bytes, number 1, zigzag) on A, and X = 1: the package
   writes 0a 02 08 02, which the specification reads as X = 2.
   What is proved (Qed, no axioms) is [marshal_standard_zz]: the same statement with the extra hypothesis
   [zz_ok t = true]: wherever a zigzag flag is inherited, the int-kind fields below carry the zigzag tag themselves
   (in particular: no zigzag tag on struct-typed fields). At the level of types the hypothesis is also necessary: an
   int-kind field that inherits the flag without carrying the tag is misread as soon as it holds 1.

   Structure: Part 1 record layer on canonical encodings (get_varint / get_record / records on varint, chunk);
   Part 2 dec_value on a message = records then merge_records; Part 3 [pty c zz], the protobuf type a codec writes
   when called with zigzag bit zz, [Run] (a byte string parsed and merged into a message), of_pval on structs;
   Parts 4-7 [Eprop] by induction over [cwf] (scalars, pointers, struct fields, the two passes, slices, maps):
   the specification reads the chunk(s) [enc] writes as a value denoting the Go value, up to nil-versus-empty;
   Part 8 [pty (codec_of t) = ptype_of t] under tags_sane / zz_ok (numbering by pigeonhole on the 16-bit numbers);
   Part 9 the theorem. *)
From Coq Require Import ZArith List Bool Lia.
From Verif Require Import Base.GoInt Proto.Ext Generated.ProtoGen Proto.Model Proto.PrimSpec Proto.PrimProofs Proto.Spec Proto.WireSpec Proto.DecProofs Proto.RoundTrip.
From Coq Require Import ZifyBool.
Import ListNotations.
Open Scope Z_scope.

(* ==================== Part 0: the statement as written is false ==================== *)
Definition zz_tag : ptag := {| tag_wire := 2; tag_number := 1; tag_repeated := false; tag_zigzag := true |}.
Definition zz_ty : gty := TStruct [GField true (Some zz_tag) (TStruct [GField true None TInt])].
Definition zz_val : val := VStruct [VStruct [VInt 1]].

Lemma marshal_standard_refuted : ~ marshal_standard_statement.
Proof.
  intros H.
  destruct (H zz_ty zz_val [10; 2; 8; 2]) as (m & r & Hd & Hm & Hn); try reflexivity.
  - unfold in_universe. repeat split; try reflexivity; vm_compute; congruence.
  - vm_compute in Hd. inversion Hd; subst m. vm_compute in Hm. inversion Hm; subst r. vm_compute in Hn. discriminate Hn.
Qed.

(* ==================== Part 1: the record layer on canonical encodings ==================== *)
Lemma gv_k : forall k v rest, (1 <= k)%nat -> 0 <= v -> v * 64 < 128 ^ Z.of_nat k ->
  get_varint_k k (varint_fuel k v ++ rest) = Some (v, len (varint_fuel k v), rest).
Proof.
  induction k as [|k IH]; intros v rest Hk Hv Hb; [lia|].
  cbn [varint_fuel get_varint_k]. destruct (v <? 128) eqn:E.
  - cbn [app]. rewrite E.
    destruct (Nat.eqb k 0) eqn:Ek.
    + apply Nat.eqb_eq in Ek. subst k. change (128 ^ Z.of_nat 1) with 128 in Hb.
      replace (1 <? v) with false by lia. reflexivity.
    + reflexivity.
  - cbn [app]. replace (v mod 128 + 128 <? 128) with false by (pose proof (Z.mod_pos_bound v 128); lia).
    rewrite Nat2Z.inj_succ, Z.pow_succ_r in Hb by lia.
    assert (Hk' : (1 <= k)%nat).
    { destruct k; [|lia]. change (128 ^ Z.of_nat 0) with 1 in Hb. lia. }
    rewrite IH; [| exact Hk' | apply Z.div_pos; lia |].
    + rewrite len_cons. f_equal. f_equal. f_equal. pose proof (Z.div_mod v 128). lia.
    + assert (v / 128 * 128 <= v) by (pose proof (Z.div_mod v 128); pose proof (Z.mod_pos_bound v 128); lia). lia.
Qed.
Lemma get_varint_app v rest : u64 v -> get_varint (varint v ++ rest) = Some (v, len (varint v), rest).
Proof.
  intros [H1 H2]. unfold get_varint, varint. apply gv_k; [lia | exact H1 |].
  change (128 ^ Z.of_nat 10) with (2 ^ 64 * 64). lia.
Qed.
Lemma get_varint_exact v : u64 v -> get_varint (varint v) = Some (v, len (varint v), []).
Proof. intros H. rewrite <- (app_nil_r (varint v)) at 1. apply get_varint_app, H. Qed.

Lemma le_bytes_length n : forall z, length (le_bytes n z) = n.
Proof. induction n as [|n IH]; intros z; [reflexivity|]. cbn [le_bytes length]. rewrite IH. reflexivity. Qed.
Lemma le_val_bytes n : forall z, 0 <= z -> le_val (le_bytes n z) = z mod 256 ^ Z.of_nat n.
Proof.
  induction n as [|n IH]; intros z Hz.
  - cbn [le_bytes le_val]. change (256 ^ Z.of_nat 0) with 1. rewrite Z.mod_1_r. reflexivity.
  - cbn [le_bytes le_val]. rewrite IH by (apply Z.div_pos; lia).
    rewrite Nat2Z.inj_succ, Z.pow_succ_r by lia.
    rewrite Z.rem_mul_r by lia. reflexivity.
Qed.
Lemma le_val_4 z : u32 z -> le_val (le_bytes 4 z) = z.
Proof. intros [H1 H2]. rewrite le_val_bytes by exact H1. change (256 ^ Z.of_nat 4) with (2 ^ 32). apply Z.mod_small. lia. Qed.
Lemma le_val_8 z : u64 z -> le_val (le_bytes 8 z) = z.
Proof. intros [H1 H2]. rewrite le_val_bytes by exact H1. change (256 ^ Z.of_nat 8) with (2 ^ 64). apply Z.mod_small. lia. Qed.

(* the payload of the record a chunk is read as *)
Definition wv (wt : Z) (emb : bool) (p : bytes) : wval :=
  if emb then WLen p
  else if wt =? 0 then match get_varint p with Some (z, n, _) => WVarint z n | None => WVarint 0 0 end
  else if wt =? 5 then WFix32 (le_val p)
  else if wt =? 1 then WFix64 (le_val p)
  else match get_varint p with Some (_, _, r) => WLen r | None => WLen [] end.

Lemma firstn_len_app (a b : bytes) n : n = len a -> firstn (Z.to_nat n) (a ++ b) = a.
Proof. intros ->. rewrite to_nat_len. apply firstn_app_len. Qed.
Lemma skipn_len_app2 (a b : bytes) n : n = len a -> skipn (Z.to_nat n) (a ++ b) = b.
Proof. intros ->. rewrite to_nat_len. apply skipn_app_len. Qed.

Lemma get_record_chunk num wt emb p rest :
  1 <= num < 2 ^ 16 -> wire_ok wt -> framed wt emb p -> len p < lim ->
  get_record (chunk num wt emb p ++ rest) = Some (num, wv wt emb p, rest).
Proof.
  intros Hn Hw Hfr Hlim. rewrite lim_val in Hlim. unfold get_record, chunk, tagb.
  rewrite <- !app_assoc. rewrite get_varint_app by (apply tag_u64; assumption).
  unfold tag_of. assert (Hwt : 0 <= wt < 8) by (unfold wire_ok in Hw; lia).
  replace ((num * 8 + wt) / 8) with num by (clear - Hwt; Z.div_mod_to_equations; lia).
  replace ((num * 8 + wt) mod 8) with wt by (clear - Hwt; Z.div_mod_to_equations; lia).
  unfold max_field_number. replace ((num <? 1) || (2 ^ 29 - 1 <? num)) with false by lia.
  pose proof (PrimProofs.len_nonneg _ p) as Hp. pose proof (PrimProofs.len_nonneg _ rest) as Hr.
  unfold framed in Hfr. unfold wv, pfx. destruct emb.
  - subst wt. cbn [Z.eqb Pos.eqb]. rewrite w64_small by lia.
    rewrite get_varint_app by (unfold u64; lia). rewrite len_app.
    replace (len p + len rest <? len p) with false by lia.
    rewrite (firstn_len_app p rest) by reflexivity. rewrite (skipn_len_app2 p rest) by reflexivity. reflexivity.
  - cbn [app]. destruct Hfr as [[-> (x & Hx & ->)] | [[-> Hd] | [[-> Hd] | [-> (s & ->)]]]]; cbn [Z.eqb Pos.eqb].
    + rewrite get_varint_app, get_varint_exact by assumption. reflexivity.
    + rewrite len_app. replace (len p + len rest <? 4) with false by lia.
      assert (Hl : length p = 4%nat) by (unfold len in Hd; lia). rewrite <- Hl, firstn_app_len, skipn_app_len. reflexivity.
    + rewrite len_app. replace (len p + len rest <? 8) with false by lia.
      assert (Hl : length p = 8%nat) by (unfold len in Hd; lia). rewrite <- Hl, firstn_app_len, skipn_app_len. reflexivity.
    + unfold vl in *. rewrite len_app in Hlim. pose proof (PrimProofs.len_nonneg _ s). pose proof (PrimProofs.len_nonneg _ (varint (len s))).
      rewrite <- app_assoc. rewrite !get_varint_app by (unfold u64; lia). rewrite len_app.
      replace (len s + len rest <? len s) with false by lia.
      rewrite (firstn_len_app s rest) by reflexivity. rewrite (skipn_len_app2 s rest) by reflexivity. reflexivity.
Qed.

(* records: one more record in front *)
Lemma parse_records_mono : forall f b l, parse_records f b = Some l -> forall f', (f <= f')%nat -> parse_records f' b = Some l.
Proof.
  induction f as [|f IH]; intros b l H f' Hf.
  - destruct b; [|discriminate H]. destruct f'; exact H.
  - destruct b as [|x b]; [destruct f'; exact H|]. destruct f' as [|f']; [lia|].
    cbn [parse_records] in *. destruct (get_record (x :: b)) as [[[num w] r]|]; [|discriminate H].
    destruct (parse_records f r) as [l'|] eqn:E; [|discriminate H]. rewrite (IH r l' E f') by lia. exact H.
Qed.
Lemma records_cons ch bs num w l :
  get_record (ch ++ bs) = Some (num, w, bs) -> ch <> [] -> records bs = Some l -> records (ch ++ bs) = Some ((num, w) :: l).
Proof.
  intros Hg Hne Hr. unfold records in *. destruct ch as [|x ch]; [contradiction|].
  cbn [app length parse_records]. change (x :: ch ++ bs) with ((x :: ch) ++ bs). rewrite Hg.
  rewrite (parse_records_mono _ _ _ Hr) by (rewrite app_length; lia). reflexivity.
Qed.
Lemma records_nil : records [] = Some [].
Proof. reflexivity. Qed.

(* ==================== Part 2: dec_value on a message, with the named pieces ==================== *)
Lemma dec_value_msg d fs payload old :
  dec_value d (PMsg fs) (WLen payload) old =
  match records payload with
  | None => Bad
  | Some recs =>
      match merge_records d fs recs (match old with Some (PVMsg c) => c | _ => default_msg fs end) with
      | Some c' => Upd (PVMsg c')
      | None => Bad
      end
  end.
Proof.
  cbn [dec_value]. destruct (records payload) as [recs|]; [|reflexivity].
  generalize (match old with Some (PVMsg c) => c | _ => default_msg fs end). intros cur.
  match goal with |- match ?G recs cur with _ => _ end = _ => assert (HG : forall recs cur, G recs cur = merge_records d fs recs cur) end.
  { clear. induction recs as [|[num w] rr IH]; intros cur; [reflexivity|]. cbn [merge_records].
    match goal with |- match ?U fs cur with _ => _ end = _ => assert (HU : forall fs' cur, U fs' cur = upd_slot d fs' cur num w) end.
    { clear. induction fs' as [|[n lab ft] fr IHf]; intros cur; [reflexivity|]. destruct cur as [|c cr]; [reflexivity|].
      cbn [upd_slot]. destruct (n =? num); [reflexivity|]. rewrite IHf. reflexivity. }
    rewrite HU. destruct (upd_slot d fs cur num w); try rewrite IH; reflexivity. }
  rewrite HG. reflexivity.
Qed.

(* ==================== Part 3: the protobuf type a codec writes; runs of records ==================== *)
Definition sc_of (c : codec) (zz : bool) : pscalar :=
  match c with
  | CBool => PBool
  | CInt | CInt64 => if zz then PSint64 else PInt64
  | CInt32 => if zz then PSint32 else PInt32
  | CUint | CUint64 => PUint64
  | CUint32 => PUint32
  | CFixed32 => PFixed32
  | CFixed64 => PFixed64
  | CFloat32 => PFloat
  | CFloat64 => PDouble
  | CString => PString
  | _ => PBytes
  end.
Definition fzz (fl : Z) : bool := negb (Z.land fl proto_zigzag =? 0).
(* [zz]: the zigzag bit of the flags the codec is called with *)
Fixpoint pty (c : codec) (zz : bool) {struct c} : ptype :=
  match c with
  | CPtr _ c' => pty c' zz
  | CStruct _ fs =>
      PMsg ((fix go (fs : list sfield) : list pfield :=
               match fs with
               | [] => []
               | SField num _ fl _ fc :: r =>
                   (match fc with
                    | CSlice _ _ _ _ c' => PField num LRep (pty c' false)
                    | CMap _ _ _ _ _ kc vc => PField num (LMap (sc_of kc false)) (pty vc false)
                    | _ => PField num LOpt (pty fc (zz || fzz fl))
                    end) :: go r
               end) fs)
  | _ => PSc (sc_of c zz)
  end.
Definition pf_of (zz : bool) (f : sfield) : pfield :=
  match sf_codec f with
  | CSlice _ _ _ _ c' => PField (sf_number f) LRep (pty c' false)
  | CMap _ _ _ _ _ kc vc => PField (sf_number f) (LMap (sc_of kc false)) (pty vc false)
  | c => PField (sf_number f) LOpt (pty c (zz || fzz (sf_flags f)))
  end.
Lemma pty_struct inl_ fs zz : pty (CStruct inl_ fs) zz = PMsg (map (pf_of zz) fs).
Proof.
  cbn [pty]. f_equal. induction fs as [|[num ts fl t c] r IH]; [reflexivity|]. cbn [map]. rewrite <- IH.
  unfold pf_of. cbn [sf_codec sf_number sf_flags]. destruct c; reflexivity.
Qed.
Lemma pf_num_of zz f : pf_num (pf_of zz f) = sf_number f.
Proof. unfold pf_of. destruct (sf_codec f); reflexivity. Qed.
Lemma pf_of_elem zz f : cwf (sf_codec f) (sf_ty f) -> elem_ty (sf_ty f) = true ->
  pf_of zz f = PField (sf_number f) LOpt (pty (sf_codec f) (zz || fzz (sf_flags f))).
Proof.
  intros Hc He. unfold pf_of. destruct (sf_codec f); try reflexivity; exfalso;
    inversion Hc; subst;
    first [ match goal with H : scalar_ct _ _ = true |- _ => discriminate H end
          | match goal with H : TSlice _ = sf_ty f |- _ => rewrite <- H in He; discriminate He end
          | match goal with H : TMap _ _ = sf_ty f |- _ => rewrite <- H in He; discriminate He end ].
Qed.

(* zigzag bit of the flags *)
Lemma has_ptr_zz fl : frange fl -> has (ptr_flags fl) proto_zigzag = has fl proto_zigzag.
Proof. unfold frange, ptr_flags. intros H. fl_enum fl; reflexivity. Qed.
Lemma has_struct_zz inl_ fl : frange fl -> has (struct_flags0 inl_ fl) proto_zigzag = has fl proto_zigzag.
Proof. unfold frange, struct_flags0. intros H. destruct inl_; fl_enum fl; reflexivity. Qed.
Lemma has_mkfl_zz sf fl : 0 <= sf < 8 -> frange fl -> has (mkfl sf fl) proto_zigzag = has fl proto_zigzag || fzz sf.
Proof. unfold frange, mkfl, fzz. intros Hs H. sf_enum sf; fl_enum fl; reflexivity. Qed.
Lemma has_nowz_zz fl : frange fl -> has (without fl proto_wantzero) proto_zigzag = has fl proto_zigzag.
Proof. unfold frange. intros H. fl_enum fl; reflexivity. Qed.

(* a run of records applied to a message *)
Definition Run (pfs : list pfield) (cur : list fval) (bs : bytes) (cur' : list fval) : Prop :=
  exists recs, records bs = Some recs /\ merge_records std pfs recs cur = Some cur'.
Lemma Run_nil pfs cur : Run pfs cur [] cur.
Proof. exists []. split; reflexivity. Qed.
Lemma Run_step pfs cur ch bs num w cur1 cur' :
  get_record (ch ++ bs) = Some (num, w, bs) -> ch <> [] -> upd_slot std pfs cur num w = Upd cur1 ->
  Run pfs cur1 bs cur' -> Run pfs cur (ch ++ bs) cur'.
Proof.
  intros Hg Hne Hu (recs & Hr & Hm). exists ((num, w) :: recs). split; [apply records_cons; assumption|].
  cbn [merge_records]. rewrite Hu. exact Hm.
Qed.

Lemma distinct_mid l1 x l2 : distinct (l1 ++ x :: l2) = true -> forall y, In y l1 -> (y =? x) = false.
Proof.
  induction l1 as [|a l1 IH]; intros H y Hin; [contradiction|]. cbn [app distinct] in H.
  apply andb_true_iff in H. destruct H as [H1 H2]. destruct Hin as [<-|Hin]; [|apply IH; assumption].
  apply negb_true_iff in H1. rewrite existsb_app in H1. apply orb_false_iff in H1. destruct H1 as [_ H1].
  cbn [existsb] in H1. apply orb_false_iff in H1. apply H1.
Qed.
Lemma upd_slot_at d w : forall l1 f l2 c1 c c2,
  length c1 = length l1 -> (forall g, In g l1 -> (pf_num g =? pf_num f) = false) ->
  upd_slot d (l1 ++ f :: l2) (c1 ++ c :: c2) (pf_num f) w =
  match dec_field d (pf_lab f) (pf_ty f) (dec_value d (pf_ty f)) w c with
  | Upd c' => Upd (c1 ++ c' :: c2) | Unk => Unk | Bad => Bad end.
Proof.
  induction l1 as [|g l1 IH]; intros f l2 c1 c c2 Hl Hne.
  - destruct c1; [|discriminate Hl]. destruct f as [n lab ft]. cbn [app upd_slot pf_num pf_lab pf_ty]. rewrite Z.eqb_refl. reflexivity.
  - destruct c1 as [|x c1]; [discriminate Hl|]. destruct g as [n lab ft]. cbn [app upd_slot].
    pose proof (Hne _ (or_introl eq_refl)) as H0. change (pf_num (PField n lab ft)) with n in H0. rewrite H0.
    rewrite IH; [| cbn [length] in Hl; lia | intros g Hg; apply Hne; right; exact Hg].
    destruct (dec_field d (pf_lab f) (pf_ty f) (dec_value d (pf_ty f)) w c); reflexivity.
Qed.

(* the Go value of a slot; of_pval on a struct whose fields are all exported *)
Definition slot_val (ft : gty) (c : fval) : option val :=
  match ft, c with
  | TSlice et, FRep vs => match omap (of_pval et) vs with Some l => Some (VSlice l) | None => None end
  | TMap kt vt, FMapv es =>
      match omap (fun kv => match of_pval kt (fst kv), of_pval vt (snd kv) with
                            | Some k, Some x => Some (k, x)
                            | _, _ => None
                            end) es with
      | Some l => Some (VMap true l)
      | None => None
      end
  | (TSlice _ | TMap _ _), _ => None
  | _, FAbsent => Some (zero_val ft)
  | _, FOne x => of_pval ft x
  | _, _ => None
  end.
Fixpoint oslots (ts : list gty) (m : list fval) : option (list val) :=
  match ts with
  | [] => Some []
  | ft :: r =>
      match m with
      | [] => None
      | c :: mr => match slot_val ft c, oslots r mr with Some v, Some vs => Some (v :: vs) | _, _ => None end
      end
  end.
Lemma of_pval_struct gfs m : (forall g, In g gfs -> field_exported g = true) ->
  of_pval (TStruct gfs) (PVMsg m) = match oslots (map field_ty gfs) m with Some vs => Some (VStruct vs) | None => None end.
Proof.
  intros He. cbn [of_pval].
  match goal with |- match ?G gfs m with _ => _ end = _ => assert (HG : forall m, G gfs m = oslots (map field_ty gfs) m) end.
  { induction gfs as [|[e tg ft] r IH]; intros m'; [reflexivity|].
    pose proof (He _ (or_introl eq_refl)) as E. cbn [field_exported] in E. subst e.
    cbn [map field_ty oslots]. destruct m' as [|c mr]; [reflexivity|].
    rewrite IH by (intros g Hg; apply He; right; exact Hg). reflexivity. }
  rewrite HG. reflexivity.
Qed.

(* ==================== Part 4: one value, read back by the specification: scalars and pointers ==================== *)
Definition Eprop (c : codec) (t : gty) : Prop :=
  forall v fl, elem_ok t = true -> wf_val t v = true -> representable v = true -> keys_distinct v = true ->
    no_empty_map v = true -> frange fl -> has fl proto_toplevel = false ->
    len (enc c (Some v) fl) < lim ->
    (enc c (Some v) fl <> [] \/ is_struct t = true) ->
    exists pv r, dec_value std (pty c (has fl proto_zigzag)) (wv (wire c) (is_struct (base_ty t)) (enc c (Some v) fl)) None = Upd pv /\
                 of_pval t pv = Some r /\ norm r = norm v.

Lemma s64_w64 z : i64 z -> s64 (w64 z) = z.
Proof.
  unfold i64, s64, w64. cbv zeta. intros H.
  change (2 ^ 64) with 18446744073709551616 in *. change (2 ^ 63) with 9223372036854775808 in *.
  rewrite Z.mod_mod by lia.
  destruct (z mod 18446744073709551616 <? 9223372036854775808) eqn:E; Z.div_mod_to_equations; lia.
Qed.
Lemma s32_w64 z : i32 z -> s32 (w64 z) = z.
Proof.
  unfold i32, s32, w32, w64. cbv zeta. intros H.
  change (2 ^ 64) with 18446744073709551616 in *. change (2 ^ 32) with 4294967296 in *. change (2 ^ 31) with 2147483648 in *.
  destruct ((z mod 18446744073709551616) mod 4294967296 <? 2147483648) eqn:E; Z.div_mod_to_equations; lia.
Qed.
Lemma wv_varint x : u64 x -> wv 0 false (varint x) = WVarint x (len (varint x)).
Proof. intros H. unfold wv. cbn [Z.eqb]. rewrite get_varint_exact by exact H. reflexivity. Qed.
Lemma wv_vl s : len s < lim -> wv 2 false (vl s) = WLen s.
Proof.
  intros H. rewrite lim_val in H. pose proof (PrimProofs.len_nonneg _ s). unfold wv, vl. cbn [Z.eqb Pos.eqb].
  rewrite get_varint_app by (unfold u64; lia). reflexivity.
Qed.

Lemma E_scalar c t : scalar_ct c t = true -> Eprop c t.
Proof.
  intros Hs v fl _ Hwf _ _ _ Hfr Htl Hlim Hne.
  assert (Hne' : enc c (Some v) fl <> []).
  { destruct Hne as [Hne|Hne]; [exact Hne|]. destruct c; try discriminate Hs; destruct t; try discriminate Hs; discriminate Hne. }
  clear Hne. unfold has in *.
  destruct c; try discriminate Hs; destruct t; try discriminate Hs; destruct v; try discriminate Hwf;
    cbn [enc wire base_ty is_struct pty sc_of] in *; cbn [wf_val] in Hwf; wf_split Hwf;
    try (match type of Hne' with (if ?C then _ else _) <> _ => destruct C; [|exfalso; apply Hne'; reflexivity] end);
    unfold proto_varint, proto_fixed32, proto_fixed64, proto_varlen; cbn [dec_value].
  - (* bool *) exists (PVBool b), (VBool b). destruct b; split; try reflexivity; split; reflexivity.
  - (* int *) rewrite wv_varint by (apply fu64_u64; unfold i64; lia). unfold proto_flags_uint64.
    destruct (proto_flags_has fl proto_zigzag); cbn [dec_scalar].
    + rewrite encodeZigZag64_zigzag, unzigzag_zigzag by (unfold i64; lia). do 2 eexists; repeat split; reflexivity.
    + rewrite s64_w64 by (unfold i64; lia). do 2 eexists; repeat split; reflexivity.
  - (* int32 *) rewrite wv_varint by (apply fu64_u64; unfold i64; lia). unfold proto_flags_uint64.
    destruct (proto_flags_has fl proto_zigzag); cbn [dec_scalar strict_32 std andb].
    + rewrite encodeZigZag64_zigzag by (unfold i64; lia).
      rewrite w32_small by (unfold zigzag; destruct (0 <=? z) eqn:E; lia). rewrite unzigzag_zigzag.
      do 2 eexists; repeat split; reflexivity.
    + rewrite s32_w64 by (unfold i32; lia). do 2 eexists; repeat split; reflexivity.
  - (* int64 *) rewrite wv_varint by (apply fu64_u64; unfold i64; lia). unfold proto_flags_uint64.
    destruct (proto_flags_has fl proto_zigzag); cbn [dec_scalar].
    + rewrite encodeZigZag64_zigzag, unzigzag_zigzag by (unfold i64; lia). do 2 eexists; repeat split; reflexivity.
    + rewrite s64_w64 by (unfold i64; lia). do 2 eexists; repeat split; reflexivity.
  - (* uint *) rewrite wv_varint by (unfold u64; lia). cbn [dec_scalar]. do 2 eexists; repeat split; reflexivity.
  - (* uint32 *) rewrite wv_varint by (unfold u64; lia). cbn [dec_scalar strict_32 std andb]. rewrite w32_small by lia.
    do 2 eexists; repeat split; reflexivity.
  - (* uint64 *) rewrite wv_varint by (unfold u64; lia). cbn [dec_scalar]. do 2 eexists; repeat split; reflexivity.
  - (* fixed32 *) unfold wv. cbn [Z.eqb Pos.eqb]. rewrite le_val_4 by (unfold u32; lia). cbn [dec_scalar]. do 2 eexists; repeat split; reflexivity.
  - (* fixed64 *) unfold wv. cbn [Z.eqb Pos.eqb]. rewrite le_val_8 by (unfold u64; lia). cbn [dec_scalar]. do 2 eexists; repeat split; reflexivity.
  - (* float32 *) unfold wv. cbn [Z.eqb Pos.eqb]. rewrite le_val_4 by (unfold u32; lia). cbn [dec_scalar]. do 2 eexists; repeat split; reflexivity.
  - (* float64 *) unfold wv. cbn [Z.eqb Pos.eqb]. rewrite le_val_8 by (unfold u64; lia). cbn [dec_scalar]. do 2 eexists; repeat split; reflexivity.
  - (* string *) rewrite wv_vl by lia. cbn [dec_scalar]. do 2 eexists; repeat split; reflexivity.
  - (* bytes *) rewrite wv_vl by lia. cbn [dec_scalar]. do 2 eexists; repeat split; reflexivity.
  - (* byte array *) rewrite wv_vl by lia. cbn [dec_scalar]. cbn [scalar_ct] in Hs. apply Nat.eqb_eq in Hs. subst n0.
    exists (PVBytes s), (VArr s). split; [reflexivity|]. split; [|reflexivity]. cbn [of_pval].
    replace (len s =? Z.of_nat n) with true by lia. reflexivity.
  - (* message *) unfold has in *. rewrite Htl in *. rewrite wv_vl by lia. cbn [dec_scalar]. do 2 eexists; repeat split; reflexivity.
Qed.

Lemma E_ptr t c : Eprop c t -> Eprop (CPtr t c) (TPtr t).
Proof.
  intros IH v fl Hok Hwf Hrep Hkd Hnm Hfr Htl Hlim Hne.
  destruct v as [| | | | |o| | | |]; try discriminate Hwf. rewrite enc_ptr_eq in *. fold (ptr_flags fl) in *.
  destruct Hne as [Hne|Hne]; [|discriminate Hne].
  destruct o as [x|]; [|exfalso; apply Hne, enc_none].
  cbn [representable keys_distinct no_empty_map] in Hrep, Hkd, Hnm. apply andb_true_iff in Hrep. destruct Hrep as [_ Hrep].
  cbn [pty wire base_ty]. rewrite <- (has_ptr_zz fl Hfr).
  destruct (IH x (ptr_flags fl) Hok Hwf Hrep Hkd Hnm (frange_ptr fl Hfr)) as (pv & r & Hd & Ho & Hn);
    [rewrite has_ptr_tl by exact Hfr; exact Htl | exact Hlim | left; exact Hne |].
  exists pv, (VPtr (Some r)). split; [exact Hd|]. split; [cbn [of_pval]; rewrite Ho; reflexivity | cbn [norm]; rewrite Hn; reflexivity].
Qed.

(* ==================== Part 5: helpers for fields, slices and maps ==================== *)
Definition Emot (c : codec) (t : gty) : Prop :=
  match c with
  | CSlice _ _ _ et c' => Eprop c' et
  | CMap _ _ _ kt vt kc vc => Eprop kc kt /\ Eprop vc vt
  | _ => Eprop c t
  end.
Lemma Emot_elem c t : cwf c t -> elem_ty t = true -> Emot c t -> Eprop c t.
Proof.
  intros Hc He. destruct c; try (intros H; exact H); exfalso;
    inversion Hc; subst; try discriminate He;
    match goal with H : scalar_ct _ _ = true |- _ => discriminate H end.
Qed.

Definition not_len (w : wval) : Prop := match w with WLen _ => False | _ => True end.
Lemma dec_field_rep ft dv w acc pv : dv w None = Upd pv -> (packable ft = None \/ not_len w) ->
  dec_field std LRep ft dv w (FRep acc) = Upd (FRep (acc ++ [pv])).
Proof.
  intros H [Hp|Hw]; cbn [dec_field].
  - rewrite Hp, H. reflexivity.
  - destruct (packable ft); destruct w; try contradiction; rewrite H; reflexivity.
Qed.
Lemma wv_not_len wt p : wire_ok wt -> wt <> 2 -> not_len (wv wt false p).
Proof.
  intros [ -> | [ -> | [ -> | -> ]]] H; try contradiction; unfold wv; cbn [Z.eqb Pos.eqb]; try exact I.
  destruct (get_varint p) as [[[? ?] ?]|]; exact I.
Qed.
Lemma packable_wire : forall c t, cwf c t -> elem_ty t = true -> forall zz s, packable (pty c zz) = Some s ->
  wire c <> 2 /\ is_struct (base_ty t) = false.
Proof.
  induction 1 as [c t Hs | t c He H IH | n wt emb et c He H IH Hwt Hemb Hn | n kf vf kt vt Hk Hv H1 IH1 H2 IH2 Hkf Hvf Hn
                 | inl_ fs gfs Hty Hd H IH Hsh]; intros Het zz s Hp; try discriminate Het.
  - destruct c; try discriminate Hs; destruct t; try discriminate Hs; cbn [pty sc_of packable] in Hp;
      try discriminate Hp; (split; [cbn [wire]; unfold proto_varint, proto_fixed32, proto_fixed64; lia | reflexivity]);
      destruct zz; discriminate Hp.
  - cbn [pty wire base_ty] in *. apply (IH He zz s Hp).
  - rewrite pty_struct in Hp. discriminate Hp.
Qed.

Lemma dec_value_empty fs : dec_value std (PMsg fs) (WLen []) None = Upd (PVMsg (default_msg fs)).
Proof. rewrite dec_value_msg. reflexivity. Qed.

(* map keys *)
Definition pkey (k : val) : pval :=
  match k with VBool b => PVBool b | VInt z => PVInt z | VStr s => PVBytes s | _ => PVInt 0 end.
Lemma pkey_of kt pv k : scalar_key kt = true -> of_pval kt pv = Some k -> pv = pkey k.
Proof.
  destruct kt; try discriminate; intros _; destruct pv; cbn [of_pval]; intros H; try discriminate H; inversion H; reflexivity.
Qed.
Lemma pval_eqb_pkey a b : is_key_val a = true -> is_key_val b = true -> pval_eqb (pkey a) (pkey b) = val_eqb a b.
Proof. destruct a; try discriminate; destruct b; try discriminate; reflexivity. Qed.
Lemma map_set_fresh acc k v : (forall a, In a acc -> pval_eqb (fst a) k = false) -> map_set acc k v = acc ++ [(k, v)].
Proof.
  induction acc as [|[k' v'] r IH]; intros H; [reflexivity|]. cbn [map_set app].
  pose proof (H (k', v') (or_introl eq_refl)) as H0. cbn [fst] in H0. rewrite H0. f_equal. apply IH. intros a Ha. apply H. right. exact Ha.
Qed.
Lemma key_sc kt zz : scalar_key kt = true -> pty (codec_of kt) zz = PSc (sc_of (codec_of kt) zz).
Proof. destruct kt; try discriminate; reflexivity. Qed.
Lemma wz_range : frange proto_wantzero.
Proof. unfold frange, proto_wantzero. lia. Qed.

Lemma map_entry kt vt k v :
  scalar_key kt = true -> elem_ty vt = true -> elem_ok vt = true -> cwf (codec_of kt) kt -> cwf (codec_of vt) vt ->
  Eprop (codec_of kt) kt -> Eprop (codec_of vt) vt ->
  wf_val kt k = true -> wf_val vt v = true -> representable v = true -> keys_distinct v = true -> no_empty_map v = true ->
  (match v with VPtr _ => empty_enc v | _ => false end) = false ->
  len (entry_enc enc (emb_of kt) (emb_of vt) (codec_of kt) (codec_of vt) (k, v)) < lim ->
  exists pv rv, of_pval vt pv = Some rv /\ norm rv = norm v /\ forall acc,
    (forall a, In a acc -> pval_eqb (fst a) (pkey k) = false) ->
    dec_field std (LMap (sc_of (codec_of kt) false)) (pty (codec_of vt) false) (dec_value std (pty (codec_of vt) false))
      (WLen (entry_enc enc (emb_of kt) (emb_of vt) (codec_of kt) (codec_of vt) (k, v))) (FMapv acc) =
    Upd (FMapv (acc ++ [(pkey k, pv)])).
Proof.
  intros Hsk Hev Hokv Hck Hcv HEk HEv Hwk Hwv Hrv Hkv Hnv Hpv Hlim.
  destruct (scalar_key_elem kt Hsk) as [Hek Hbk].
  pose proof (key_shape kt k Hsk Hwk) as Hkey.
  unfold entry_enc in *. cbn [fst snd] in *. rewrite !emb_of_flag in *. rewrite Hbk in *.
  set (kc := codec_of kt) in *. set (vc := codec_of vt) in *.
  set (kp := enc kc (Some k) proto_wantzero) in *. set (vp := enc vc (Some v) proto_wantzero) in *.
  assert (Hkne : kp <> []).
  { intros E. destruct (enc_empty_wz kc kt Hck k proto_wantzero Hwk) as [Hx | [Ht _]]; [apply wz_range | reflexivity | exact E | destruct k; discriminate | discriminate Ht]. }
  assert (Hrk : representable k = true /\ keys_distinct k = true /\ no_empty_map k = true) by (destruct k; try discriminate Hkey; repeat split; reflexivity).
  destruct Hrk as (Hrk & Hkk & Hnk).
  assert (Hokk : elem_ok kt = true) by (apply scalar_key_ok, Hsk).
  set (ock := opt_chunk 1 (wire kc) false kp) in *. set (ocv := opt_chunk 2 (wire vc) (is_struct (base_ty vt)) vp) in *.
  assert (Hock : ock = chunk 1 (wire kc) false kp) by (subst ock; unfold opt_chunk; destruct kp; [contradiction | reflexivity]).
  rewrite len_app in Hlim. lens.
  assert (Hkl : len kp <= len ock) by (rewrite Hock; unfold chunk; rewrite !len_app; lens; blia).
  assert (Hvl : len vp <= len ocv) by (subst ocv; unfold opt_chunk; destruct vp; [blia | unfold chunk; rewrite !len_app; lens; blia]).
  assert (Hkw : wire_ok (wire kc)) by (eapply wire_cwf; exact Hck).
  assert (Hvw : wire_ok (wire vc)) by (eapply wire_cwf; exact Hcv).
  (* key *)
  destruct (HEk k proto_wantzero Hokk Hwk Hrk Hkk Hnk wz_range eq_refl) as (pk & rk & Hdk & Hofk & Hnk');
    [fold kp; blia | left; exact Hkne |].
  fold kp in Hdk. apply (key_norm_inv k rk Hkey) in Hnk'. subst rk.
  apply (pkey_of kt pk k Hsk) in Hofk. subst pk.
  change (has proto_wantzero proto_zigzag) with false in Hdk. rewrite Hbk in Hdk.
  unfold kc in Hdk at 1. rewrite (key_sc kt false Hsk) in Hdk. fold kc in Hdk. cbn [dec_value] in Hdk.
  pose proof (entry_framed kc kt k Hck Hek Hwk Hkne) as Hfrk. rewrite emb_of_flag, Hbk in Hfrk. fold kp in Hfrk.
  (* value *)
  pose proof (elem_nonempty vc vt v Hcv Hev Hwv Hpv) as Hvne. fold vp in Hvne.
  destruct (HEv v proto_wantzero Hokv Hwv Hrv Hkv Hnv wz_range eq_refl) as (pv & rv & Hdv & Hofv & Hnv');
    [fold vp; blia | exact Hvne |].
  fold vp in Hdv. change (has proto_wantzero proto_zigzag) with false in Hdv.
  exists pv, rv. split; [exact Hofv|]. split; [exact Hnv'|]. intros acc Hfresh.
  cbn [dec_field drop_empty_entry std andb].
  assert (Hrec : exists recs, records (ock ++ ocv) = Some ((1, wv (wire kc) false kp) :: recs) /\
            match entry_fold std (sc_of kc false) (dec_value std (pty vc false)) recs (Some (pkey k)) None with
            | Some (ok, ov) => ok = Some (pkey k) /\ match ov with Some x => x | None => default_pval (pty vc false) end = pv
            | None => False end).
  { subst ocv. unfold opt_chunk. destruct vp as [|y vp'] eqn:Evp.
    - exists []. split.
      + rewrite Hock. apply records_cons; [apply get_record_chunk; try assumption; blia | apply chunk_ne | reflexivity].
      + cbn [entry_fold]. split; [reflexivity|].
        destruct Hvne as [Hvne|Hvne]; [contradiction|].
        destruct vt; try discriminate Hvne. subst vc. rewrite codec_of_struct in *. rewrite pty_struct in *.
        cbn [wire base_ty is_struct] in Hdv. unfold wv in Hdv. rewrite dec_value_empty in Hdv. inversion Hdv. reflexivity.
    - rewrite <- Evp in *. exists [(2, wv (wire vc) (is_struct (base_ty vt)) vp)]. split.
      + rewrite Hock. apply records_cons; [apply get_record_chunk; try assumption; blia | apply chunk_ne |].
        rewrite <- (app_nil_r (chunk 2 (wire vc) (is_struct (base_ty vt)) vp)).
        apply records_cons; [apply get_record_chunk; try assumption; try blia | apply chunk_ne | reflexivity].
        pose proof (entry_framed vc vt v Hcv Hev Hwv) as Hfrv. rewrite emb_of_flag in Hfrv. apply Hfrv. fold vp. rewrite Evp. discriminate.
      + cbn [entry_fold Z.eqb Pos.eqb]. rewrite Hdv. cbn [entry_fold]. split; reflexivity. }
  destruct Hrec as (recs & Hr & Hf). rewrite Hr. cbn [entry_fold Z.eqb Pos.eqb]. rewrite Hdk.
  destruct (entry_fold std (sc_of kc false) (dec_value std (pty vc false)) recs (Some (pkey k)) None) as [[ok ov]|]; [|contradiction].
  destruct Hf as [-> Hf]. rewrite Hf. rewrite map_set_fresh by exact Hfresh. reflexivity.
Qed.

(* ==================== Part 6: the fields of a struct, the two passes ==================== *)
Definition slot_ok (f : sfield) (v : val) (c : fval) : Prop :=
  exists r, slot_val (sf_ty f) c = Some r /\ norm r = norm v.

Lemma fok_elem ft : elem_ty ft = true -> fok ft = true -> elem_ok ft = true.
Proof. destruct ft; try discriminate; intros _ H; exact H. Qed.
Lemma slot_val_one ft pv : elem_ty ft = true -> slot_val ft (FOne pv) = of_pval ft pv.
Proof. destruct ft; try discriminate; reflexivity. Qed.
Lemma slot_val_absent ft : elem_ty ft = true -> slot_val ft FAbsent = Some (zero_val ft).
Proof. destruct ft; try discriminate; reflexivity. Qed.

Section StructRun.
  Variables (fs : list sfield) (zz : bool).
  Hypothesis Hd : distinct (map sf_number fs) = true.
  Hypothesis Hcw : forall f, In f fs -> cwf (sf_codec f) (sf_ty f).
  Hypothesis Hsh : forall f, In f fs -> fshape f = true.
  Hypothesis HE : forall f, In f fs -> Emot (sf_codec f) (sf_ty f).
  Hypothesis Hfok : forall f, In f fs -> fok (sf_ty f) = true.
  Let pfs := map (pf_of zz) fs.

  Lemma one_rec done_f f fr done_s c c' tail wt emb p bs cur' :
    fs = done_f ++ f :: fr -> length done_s = length done_f ->
    wire_ok wt -> framed wt emb p -> len p < lim ->
    dec_field std (pf_lab (pf_of zz f)) (pf_ty (pf_of zz f)) (dec_value std (pf_ty (pf_of zz f))) (wv wt emb p) c = Upd c' ->
    Run pfs (done_s ++ c' :: tail) bs cur' ->
    Run pfs (done_s ++ c :: tail) (chunk (sf_number f) wt emb p ++ bs) cur'.
  Proof.
    intros Hfs Hlen Hw Hfr Hlim Hdec Hrun.
    assert (Hin : In f fs) by (rewrite Hfs; apply in_or_app; right; left; reflexivity).
    destruct (fshape_facts f (Hsh f Hin)) as (Hn & _ & _).
    eapply Run_step; [apply get_record_chunk; assumption | apply chunk_ne | | exact Hrun].
    subst pfs. rewrite Hfs, map_app. cbn [map]. rewrite <- (pf_num_of zz f).
    rewrite upd_slot_at; [rewrite Hdec; reflexivity | rewrite map_length; exact Hlen |].
    intros g Hg. apply in_map_iff in Hg. destruct Hg as (f0 & <- & Hf0). rewrite !pf_num_of.
    rewrite Hfs, map_app in Hd. cbn [map] in Hd. apply (distinct_mid _ _ _ Hd). apply in_map, Hf0.
  Qed.

  Lemma ufield done_f f fr done_s v fl :
    fs = done_f ++ f :: fr -> length done_s = length done_f -> sf_repeated f = false ->
    wf_val (sf_ty f) v = true -> representable v = true -> keys_distinct v = true -> no_empty_map v = true ->
    frange fl -> has fl proto_toplevel = false -> has fl proto_zigzag = zz ->
    enc (sf_codec f) (Some v) (make_flags f fl) <> [] -> len (enc (sf_codec f) (Some v) (make_flags f fl)) < lim ->
    exists c', slot_ok f v c' /\ forall tail bs cur',
      Run pfs (done_s ++ c' :: tail) bs cur' ->
      Run pfs (done_s ++ FAbsent :: tail)
          (chunk (sf_number f) (wire (sf_codec f)) (sf_embedded f) (enc (sf_codec f) (Some v) (make_flags f fl)) ++ bs) cur'.
  Proof.
    intros Hfs Hlen Hrepf Hwf Hrep Hkd Hnm Hfr Htl Hzz Hne Hlim.
    assert (Hin : In f fs) by (rewrite Hfs; apply in_or_app; right; left; reflexivity).
    pose proof (fshape_kind f (Hsh f Hin)) as Hk.
    destruct (fshape_facts f (Hsh f Hin)) as (_ & Hsf & _).
    assert (Hel : elem_ty (sf_ty f) = true /\ sf_embedded f = is_struct (base_ty (sf_ty f))).
    { destruct (sf_ty f); destruct Hk as [Hk1 Hk2]; try (rewrite Hk1 in Hrepf; discriminate); split; try reflexivity; exact Hk2. }
    destruct Hel as [Hel Hemb].
    pose proof (Emot_elem _ _ (Hcw f Hin) Hel (HE f Hin)) as HEf.
    rewrite !make_flags_mkfl in *.
    destruct (HEf v (mkfl (sf_flags f) fl) (fok_elem _ Hel (Hfok f Hin)) Hwf Hrep Hkd Hnm (frange_mkfl _ _ Hsf Hfr)) as (pv & r & Hdv & Hof & Hn);
      [rewrite has_mkfl_tl by assumption; exact Htl | exact Hlim | left; exact Hne |].
    rewrite has_mkfl_zz, Hzz in Hdv by assumption.
    exists (FOne pv). split; [exists r; split; [rewrite slot_val_one by exact Hel; exact Hof | exact Hn]|].
    intros tail bs cur' Hrun. eapply one_rec; try eassumption.
    - eapply wire_cwf. apply Hcw, Hin.
    - rewrite Hemb. destruct (is_struct (base_ty (sf_ty f))) eqn:Eb.
      + unfold framed. apply (wire_struct_base _ _ (Hcw f Hin) Eb).
      + apply (enc_framed _ _ (Hcw f Hin)); try assumption; [apply frange_mkfl; assumption | rewrite has_mkfl_tl by assumption; exact Htl].
    - rewrite (pf_of_elem zz f (Hcw f Hin) Hel). cbn [pf_lab pf_ty dec_field]. rewrite Hemb, Hdv. reflexivity.
  Qed.

  Lemma selem done_f f fr done_s e n wt emb et c' :
    fs = done_f ++ f :: fr -> length done_s = length done_f ->
    sf_ty f = TSlice et -> sf_codec f = CSlice n wt emb et c' ->
    wf_val et e = true -> representable e = true -> keys_distinct e = true -> no_empty_map e = true ->
    (match e with VPtr _ => empty_enc e | _ => false end) = false ->
    len (enc c' (Some e) proto_wantzero) < lim ->
    exists pv r, of_pval et pv = Some r /\ norm r = norm e /\ forall acc tail bs cur',
      Run pfs (done_s ++ FRep (acc ++ [pv]) :: tail) bs cur' ->
      Run pfs (done_s ++ FRep acc :: tail) (chunk n wt emb (enc c' (Some e) proto_wantzero) ++ bs) cur'.
  Proof.
    intros Hfs Hlen Hty Hco Hwf Hrep Hkd Hnm Hp Hlim.
    assert (Hin : In f fs) by (rewrite Hfs; apply in_or_app; right; left; reflexivity).
    pose proof (Hcw f Hin) as Hc. rewrite Hty, Hco in Hc.
    revert Hfs. inversion Hc as [? ? Hsc | | ? ? ? ? ? He Hc' Hwt Hemb0 Hn | |]; subst; [discriminate Hsc|]. intros Hfs.
    pose proof (HE f Hin) as HEf. rewrite Hco in HEf. cbn [Emot] in HEf.
    pose proof (fshape_cnum f (Hsh f Hin)) as Hnum. rewrite Hty, Hco in Hnum.
    pose proof (elem_nonempty c' et e Hc' He Hwf Hp) as Hne.
    pose proof (Hfok f Hin) as Hok. rewrite Hty in Hok. cbn [fok] in Hok.
    destruct (HEf e proto_wantzero Hok Hwf Hrep Hkd Hnm wz_range eq_refl Hlim Hne) as (pv & r & Hdv & Hof & Hn').
    change (has proto_wantzero proto_zigzag) with false in Hdv.
    exists pv, r. split; [exact Hof|]. split; [exact Hn'|]. intros acc tail bs cur' Hrun.
    rewrite <- Hnum. eapply one_rec; try eassumption.
    - eapply wire_cwf; exact Hc'.
    - destruct (is_struct (base_ty et)) eqn:Eb.
      + unfold framed. apply (wire_struct_base _ _ Hc' Eb).
      + apply (enc_framed _ _ Hc'); try assumption; try reflexivity; [apply wz_range|].
        destruct Hne as [Hne|Hne]; [exact Hne|]. apply is_struct_base in Hne. congruence.
    - unfold pf_of. rewrite Hco. cbn [pf_lab pf_ty]. apply dec_field_rep; [exact Hdv|].
      destruct (packable (pty c' false)) as [s|] eqn:Ep; [right | left; reflexivity].
      destruct (packable_wire _ _ Hc' He false s Ep) as [Hw2 Hb]. rewrite Hb.
      apply wv_not_len; [eapply wire_cwf; exact Hc' | exact Hw2].
  Qed.

  Lemma slice_seq done_f f fr done_s n wt emb et c' :
    fs = done_f ++ f :: fr -> length done_s = length done_f ->
    sf_ty f = TSlice et -> sf_codec f = CSlice n wt emb et c' ->
    forall es acc,
    Forall (fun e => wf_val et e = true) es -> forallb rep_elem es = true -> forallb keys_distinct es = true ->
    forallb no_empty_map es = true ->
    len (slice_enc enc n wt emb c' es) < lim ->
    exists pvs rs, omap (of_pval et) pvs = Some rs /\ Forall2 (fun r e => norm r = norm e) rs es /\ forall tail bs cur',
      Run pfs (done_s ++ FRep (acc ++ pvs) :: tail) bs cur' ->
      Run pfs (done_s ++ FRep acc :: tail) (slice_enc enc n wt emb c' es ++ bs) cur'.
  Proof.
    intros Hfs Hlen Hty Hco. induction es as [|e er IH]; intros acc Hwf Hrep Hkd Hnm Hlim.
    - exists [], []. split; [reflexivity|]. split; [constructor|]. intros tail bs cur' Hst. rewrite app_nil_r in Hst. exact Hst.
    - inversion Hwf as [|x l Hwe Hwr]; subst x l. cbn [forallb] in Hrep, Hkd, Hnm.
      apply andb_true_iff in Hrep. destruct Hrep as [Hre Hrr]. apply andb_true_iff in Hkd. destruct Hkd as [Hke Hkr].
      apply andb_true_iff in Hnm. destruct Hnm as [Hne Hnr].
      unfold rep_elem in Hre. apply andb_true_iff in Hre. destruct Hre as [Hre Hpe]. apply negb_true_iff in Hpe.
      cbn [slice_enc flat_map] in *. fold (slice_enc enc n wt emb c' er) in *.
      rewrite len_app in Hlim.
      set (d := enc c' (Some e) proto_wantzero) in *.
      assert (Hdl : len d <= len (chunk n wt emb d)) by (unfold chunk; rewrite !len_app; clear; lens; lia).
      pose proof (PrimProofs.len_nonneg _ (slice_enc enc n wt emb c' er)).
      destruct (selem done_f f fr done_s e n wt emb et c' Hfs Hlen Hty Hco Hwe Hre Hke Hne Hpe) as (pv & r & Hof & Hnr' & Hs1);
        [fold d; blia|].
      destruct (IH (acc ++ [pv]) Hwr Hrr Hkr Hnr) as (pvs & rs & Hom & HF & Hs2);
        [pose proof (PrimProofs.len_nonneg _ (chunk n wt emb d)); blia|].
      exists (pv :: pvs), (r :: rs). split; [cbn [omap]; rewrite Hof, Hom; reflexivity|].
      split; [constructor; assumption|]. intros tail bs cur' Hst.
      rewrite <- app_assoc. apply Hs1. apply Hs2. rewrite <- app_assoc. exact Hst.
  Qed.

  Definition entry_ok (kt vt : gty) (a : pval * pval) (kv : val * val) : Prop :=
    fst a = pkey (fst kv) /\ of_pval kt (fst a) = Some (fst kv) /\ exists r, of_pval vt (snd a) = Some r /\ norm r = norm (snd kv).

  Lemma of_pval_pkey kt k : scalar_key kt = true -> wf_val kt k = true -> of_pval kt (pkey k) = Some k.
  Proof. destruct kt; try discriminate; destruct k; try discriminate; reflexivity. Qed.

  Lemma mentry done_f f fr done_s k v n kf vf kt vt kc vc :
    fs = done_f ++ f :: fr -> length done_s = length done_f ->
    sf_ty f = TMap kt vt -> sf_codec f = CMap n kf vf kt vt kc vc ->
    wf_val kt k = true -> wf_val vt v = true -> representable v = true -> keys_distinct v = true -> no_empty_map v = true ->
    (match v with VPtr _ => empty_enc v | _ => false end) = false ->
    len (entry_enc enc kf vf kc vc (k, v)) < lim ->
    exists a, entry_ok kt vt a (k, v) /\ forall acc tail bs cur',
      (forall x, In x acc -> pval_eqb (fst x) (pkey k) = false) ->
      Run pfs (done_s ++ FMapv (acc ++ [a]) :: tail) bs cur' ->
      Run pfs (done_s ++ FMapv acc :: tail) (chunk n proto_varlen true (entry_enc enc kf vf kc vc (k, v)) ++ bs) cur'.
  Proof.
    intros Hfs Hlen Hty Hco Hwk Hwv Hrep Hkd Hnm Hp Hlim.
    assert (Hin : In f fs) by (rewrite Hfs; apply in_or_app; right; left; reflexivity).
    pose proof (Hcw f Hin) as Hc. rewrite Hty, Hco in Hc.
    revert Hfs. inversion Hc as [? ? Hsc | | | ? ? ? ? ? Hsk Hev Hck Hcv Hkf Hvf Hn |]; subst; [discriminate Hsc|]. intros Hfs.
    pose proof (HE f Hin) as HEf. rewrite Hco in HEf. cbn [Emot] in HEf. destruct HEf as [HEk HEv].
    pose proof (fshape_cnum f (Hsh f Hin)) as Hnum. rewrite Hty, Hco in Hnum.
    pose proof (Hfok f Hin) as Hok. rewrite Hty in Hok. cbn [fok] in Hok. apply andb_true_iff in Hok. destruct Hok as [_ Hokv].
    destruct (map_entry kt vt k v Hsk Hev Hokv Hck Hcv HEk HEv Hwk Hwv Hrep Hkd Hnm Hp Hlim) as (pv & rv & Hof & Hnv & Hdec).
    exists (pkey k, pv). split.
    { unfold entry_ok. cbn [fst snd]. split; [reflexivity|]. split; [apply of_pval_pkey; assumption|]. exists rv. split; assumption. }
    intros acc tail bs cur' Hfresh Hrun.
    rewrite <- Hnum. eapply one_rec; try eassumption.
    - right; right; left; reflexivity.
    - reflexivity.
    - unfold pf_of. rewrite Hco. cbn [pf_lab pf_ty]. unfold wv. apply Hdec, Hfresh.
  Qed.

  Lemma map_seq done_f f fr done_s n kf vf kt vt kc vc :
    fs = done_f ++ f :: fr -> length done_s = length done_f ->
    sf_ty f = TMap kt vt -> sf_codec f = CMap n kf vf kt vt kc vc -> scalar_key kt = true ->
    forall es acc,
    Forall (fun kv => wf_val kt (fst kv) = true /\ wf_val vt (snd kv) = true) es ->
    forallb rep_entry es = true -> kd_go es = true -> forallb (fun kv => no_empty_map (snd kv)) es = true ->
    (forall a kv, In a acc -> In kv es -> pval_eqb (fst a) (pkey (fst kv)) = false) ->
    len (flat_map (fun kv => chunk n proto_varlen true (entry_enc enc kf vf kc vc kv)) es) < lim ->
    exists ps, Forall2 (entry_ok kt vt) ps es /\ forall tail bs cur',
      Run pfs (done_s ++ FMapv (acc ++ ps) :: tail) bs cur' ->
      Run pfs (done_s ++ FMapv acc :: tail)
          (flat_map (fun kv => chunk n proto_varlen true (entry_enc enc kf vf kc vc kv)) es ++ bs) cur'.
  Proof.
    intros Hfs Hlen Hty Hco Hsk. induction es as [|[k v] er IH]; intros acc Hwf Hrep Hkd Hnm Hfresh Hlim.
    - exists []. split; [constructor|]. intros tail bs cur' Hst. rewrite app_nil_r in Hst. exact Hst.
    - inversion Hwf as [|x l [Hwk Hwv] Hwr]; subst x l. cbn [fst snd] in *. cbn [forallb kd_go] in Hrep, Hkd, Hnm.
      apply andb_true_iff in Hrep. destruct Hrep as [Hre Hrr].
      apply andb_true_iff in Hnm. destruct Hnm as [Hnv Hnr]. cbn [snd] in Hnv.
      pose proof (kd_fresh kt vt k v er Hsk Hwf Hkd) as Hfr.
      apply andb_true_iff in Hkd. destruct Hkd as [Hkd Hkr]. apply andb_true_iff in Hkd. destruct Hkd as [Hkx Hkv].
      unfold rep_entry in Hre. cbn [fst snd] in Hre.
      apply andb_true_iff in Hre. destruct Hre as [Hre Hpv]. apply andb_true_iff in Hre. destruct Hre as [_ Hrv].
      apply negb_true_iff in Hpv.
      cbn [flat_map] in *. rewrite len_app in Hlim.
      set (d := entry_enc enc kf vf kc vc (k, v)) in *.
      set (rest := flat_map (fun kv => chunk n proto_varlen true (entry_enc enc kf vf kc vc kv)) er) in *.
      assert (Hdl : len d <= len (chunk n proto_varlen true d)) by (unfold chunk; rewrite !len_app; clear; lens; lia).
      pose proof (PrimProofs.len_nonneg _ rest). pose proof (PrimProofs.len_nonneg _ (chunk n proto_varlen true d)).
      destruct (mentry done_f f fr done_s k v n kf vf kt vt kc vc Hfs Hlen Hty Hco Hwk Hwv Hrv Hkv Hnv Hpv) as (a & Ha & Hs1);
        [fold d; blia|].
      destruct (IH (acc ++ [a]) Hwr Hrr Hkr Hnr) as (ps & HF & Hs2); [| blia |].
      { intros x kv Hx Hkvin. apply in_app_or in Hx. destruct Hx as [Hx|[<-|[]]].
        - apply (Hfresh x kv Hx). right. exact Hkvin.
        - destruct Ha as (-> & _). cbn [fst].
          assert (Hk1 : is_key_val k = true) by (eapply key_shape; eassumption).
          assert (Hk2 : is_key_val (fst kv) = true).
          { rewrite Forall_forall in Hwr. destruct (Hwr kv Hkvin) as [Hw2 _]. eapply key_shape; eassumption. }
          rewrite pval_eqb_pkey by assumption. apply Hfr, Hkvin. }
      exists (a :: ps). split; [constructor; assumption|]. intros tail bs cur' Hst.
      rewrite <- app_assoc. apply Hs1.
      + intros x Hx. apply (Hfresh x (k, v) Hx). left. reflexivity.
      + apply Hs2. rewrite <- app_assoc. exact Hst.
  Qed.

  Lemma entries_omap kt vt ps es : Forall2 (entry_ok kt vt) ps es ->
    exists l, omap (fun kv => match of_pval kt (fst kv), of_pval vt (snd kv) with
                              | Some k, Some x => Some (k, x)
                              | _, _ => None
                              end) ps = Some l /\
              Forall2 (fun a kv => fst a = fst kv /\ norm (snd a) = norm (snd kv)) l es.
  Proof.
    induction 1 as [|a kv ps es (Ha1 & Ha2 & r & Ha3 & Ha4) HF (l & Hl & HF')]; [exists []; split; [reflexivity | constructor]|].
    exists ((fst kv, r) :: l). split; [cbn [omap]; rewrite Ha2, Ha3, Hl; reflexivity|].
    constructor; [split; [reflexivity | exact Ha4] | exact HF'].
  Qed.

  Definition urel (f : sfield) (v : val) (c : fval) : Prop :=
    if sf_repeated f then c = default_fval (pf_lab (pf_of zz f)) else slot_ok f v c.

  Lemma upass_run : forall fr vr done_f done_s fl,
    fs = done_f ++ fr -> length done_s = length done_f ->
    wf_list (map sf_ty fr) vr -> forallb representable vr = true -> forallb keys_distinct vr = true ->
    forallb no_empty_map vr = true ->
    frange fl -> has fl proto_toplevel = false -> has fl proto_zigzag = zz ->
    len (snd (upass_of enc fr vr fl)) < lim ->
    exists new_s, Forall3 urel fr vr new_s /\ forall bs cur',
      Run pfs (done_s ++ new_s) bs cur' ->
      Run pfs (done_s ++ default_msg (map (pf_of zz) fr)) (snd (upass_of enc fr vr fl) ++ bs) cur'.
  Proof.
    induction fr as [|f fr IH]; intros vr done_f done_s fl Hfs Hlen Hwf Hrep Hkd Hnm Hfr Htl Hzz Hlim.
    - apply wf_list_nil_inv in Hwf. rewrite Hwf. exists []. split; [constructor|]. intros bs cur' Hst. exact Hst.
    - cbn [map] in Hwf. apply wf_list_cons_inv in Hwf. destruct Hwf as (v & vr' & Evr & Hv & Hvr). rewrite Evr in *. clear Evr vr.
      cbn [forallb] in Hrep, Hkd, Hnm. apply andb_true_iff in Hrep. destruct Hrep as [Hr1 Hr2].
      apply andb_true_iff in Hkd. destruct Hkd as [Hk1 Hk2]. apply andb_true_iff in Hnm. destruct Hnm as [Hn1 Hn2].
      assert (Hfs' : fs = (done_f ++ [f]) ++ fr) by (rewrite <- app_assoc; exact Hfs).
      assert (Hin : In f fs) by (rewrite Hfs; apply in_or_app; right; left; reflexivity).
      destruct (fshape_facts f (Hsh f Hin)) as (_ & Hsf & _).
      cbn [upass_of map] in *. unfold default_msg in *. cbn [map].
      assert (Hskip : forall z, urel f v z -> len (snd (upass_of enc fr vr' fl)) < lim ->
                exists new_s, Forall3 urel (f :: fr) (v :: vr') new_s /\ forall bs cur',
                  Run pfs (done_s ++ new_s) bs cur' ->
                  Run pfs (done_s ++ z :: map (fun f0 => default_fval (pf_lab f0)) (map (pf_of zz) fr)) (snd (upass_of enc fr vr' fl) ++ bs) cur').
      { intros z Hz Hl.
        destruct (IH vr' (done_f ++ [f]) (done_s ++ [z]) fl Hfs') as (new_s & HF & Hs); try assumption.
        { rewrite !app_length, Hlen. reflexivity. }
        exists (z :: new_s). split; [constructor; assumption|]. intros bs cur' Hst.
        specialize (Hs bs cur'). rewrite <- !app_assoc in Hs. apply Hs, Hst. }
      destruct (sf_repeated f) eqn:Erep.
      + apply Hskip; try assumption. unfold urel. rewrite Erep. reflexivity.
      + pose proof (fshape_kind f (Hsh f Hin)) as Hk.
        assert (Hel : elem_ty (sf_ty f) = true).
        { destruct (sf_ty f); destruct Hk as [Hk1' Hk2']; try (rewrite Hk1' in Erep; discriminate); reflexivity. }
        rewrite (pf_of_elem zz f (Hcw f Hin) Hel). cbn [pf_lab default_fval].
        cbv zeta in *. destruct (enc (sf_codec f) (Some v) (make_flags f fl)) as [|x p] eqn:Ep.
        * apply Hskip; try assumption. unfold urel. rewrite Erep. exists (zero_val (sf_ty f)).
          split; [apply slot_val_absent, Hel|]. symmetry.
          rewrite make_flags_mkfl in Ep.
          apply (enc_nil_norm _ _ (Hcw f Hin) v _ Hv Hr1 (frange_mkfl _ _ Hsf Hfr)); [|exact Ep].
          left. rewrite has_mkfl_tl by assumption. exact Htl.
        * destruct (upass_of enc fr vr' (without fl proto_wantzero)) as [fl' bs'] eqn:EU. cbn [snd] in *.
          set (q := x :: p) in *.
          set (ch := chunk (sf_number f) (wire (sf_codec f)) (sf_embedded f) q) in *.
          rewrite len_app in Hlim.
          assert (Hpl : len q <= len ch) by (subst ch; unfold chunk; rewrite !len_app; clear; lens; lia).
          pose proof (PrimProofs.len_nonneg _ bs'). pose proof (PrimProofs.len_nonneg _ ch).
          destruct (ufield done_f f fr done_s v fl Hfs Hlen Erep Hv Hr1 Hk1 Hn1 Hfr Htl Hzz) as (c' & Hc' & Hs1);
            [rewrite Ep; discriminate | rewrite Ep; fold q; blia |].
          rewrite Ep in Hs1. fold q ch in Hs1.
          destruct (IH vr' (done_f ++ [f]) (done_s ++ [c']) (without fl proto_wantzero) Hfs') as (new_s & HF & Hs2); try assumption.
          { rewrite !app_length, Hlen. reflexivity. }
          { apply frange_nowz, Hfr. }
          { rewrite has_nowz_tl by exact Hfr. exact Htl. }
          { rewrite has_nowz_zz by exact Hfr. exact Hzz. }
          { rewrite EU. cbn [snd]. blia. }
          rewrite EU in Hs2. cbn [snd] in Hs2.
          exists (c' :: new_s). split; [constructor; [unfold urel; rewrite Erep; exact Hc' | exact HF]|].
          intros bs cur' Hst. rewrite <- app_assoc. apply Hs1.
          specialize (Hs2 bs cur'). rewrite <- !app_assoc in Hs2. apply Hs2, Hst.
  Qed.

  Lemma rfield done_f f fr done_s v fl :
    fs = done_f ++ f :: fr -> length done_s = length done_f -> sf_repeated f = true ->
    wf_val (sf_ty f) v = true -> representable v = true -> keys_distinct v = true -> no_empty_map v = true ->
    len (enc (sf_codec f) (Some v) fl) < lim ->
    exists c', slot_ok f v c' /\ forall tail bs cur',
      Run pfs (done_s ++ c' :: tail) bs cur' ->
      Run pfs (done_s ++ default_fval (pf_lab (pf_of zz f)) :: tail) (enc (sf_codec f) (Some v) fl ++ bs) cur'.
  Proof.
    intros Hfs Hlen Hrepf Hwf Hrep Hkd Hnm Hlim.
    assert (Hin : In f fs) by (rewrite Hfs; apply in_or_app; right; left; reflexivity).
    pose proof (fshape_kind f (Hsh f Hin)) as Hk. pose proof (Hcw f Hin) as Hc.
    unfold slot_ok.
    destruct (sf_ty f) as [| | | | | | | | | | | | | |et|kt vt|] eqn:Hty;
      try (destruct Hk as [Hk _]; rewrite Hk in Hrepf; discriminate Hrepf).
    - (* slice *)
      destruct (cwf_slice_inv _ _ Hc) as (n & c' & Hco & He & Hc').
      destruct v as [| | | | | | |es| |]; try discriminate Hwf.
      unfold pf_of. rewrite Hco in *. rewrite enc_slice_eq in *. cbn [pf_lab default_fval].
      destruct (slice_seq done_f f fr done_s n (wire c') (is_struct (base_ty et)) et c' Hfs Hlen Hty Hco es []) as (pvs & rs & Hom & HF & Hs);
        try assumption; [apply wf_slice_all, Hwf|].
      exists (FRep pvs). split.
      + exists (VSlice rs). cbn [slot_val]. rewrite Hom. split; [reflexivity|]. cbn [norm]. f_equal. apply F2_norm_map, HF.
      + intros tail bs cur' Hst. apply (Hs tail bs cur'). exact Hst.
    - (* map *)
      destruct (cwf_map_inv _ _ _ Hc) as (n & Hco & Hsk).
      destruct v as [| | | | | | | |nn es|]; try discriminate Hwf.
      unfold pf_of. rewrite Hco in *. rewrite enc_map_eq in *. cbn [pf_lab default_fval].
      rewrite keys_distinct_map in Hkd. change (representable (VMap nn es)) with (forallb rep_entry es) in Hrep.
      pose proof (wf_map_all _ _ _ _ Hwf) as Hwe.
      destruct es as [|e0 er]; [discriminate Hnm|].
      change (no_empty_map (VMap nn (e0 :: er))) with (forallb (fun kv => no_empty_map (snd kv)) (e0 :: er)) in Hnm.
      unfold map_enc in *.
      destruct (map_seq done_f f fr done_s n _ _ kt vt _ _ Hfs Hlen Hty Hco Hsk (e0 :: er) [] Hwe Hrep Hkd Hnm) as (ps & HF & Hs);
        [intros a kv [] | exact Hlim |].
      destruct (entries_omap kt vt ps (e0 :: er) HF) as (l & Hl & HF').
      exists (FMapv ps). split.
      + exists (VMap true l). cbn [slot_val]. rewrite Hl. split; [reflexivity|]. cbn [norm]. f_equal. apply F2_norm_entries, HF'.
      + intros tail bs cur' Hst. apply (Hs tail bs cur'). exact Hst.
  Qed.

  Lemma rpass_run : forall fr vr sr done_f done_s fl,
    fs = done_f ++ fr -> length done_s = length done_f ->
    wf_list (map sf_ty fr) vr -> forallb representable vr = true -> forallb keys_distinct vr = true ->
    forallb no_empty_map vr = true ->
    Forall3 urel fr vr sr ->
    len (rpass_of enc fr vr fl) < lim ->
    exists new_s, Forall3 slot_ok fr vr new_s /\ forall bs cur',
      Run pfs (done_s ++ new_s) bs cur' ->
      Run pfs (done_s ++ sr) (rpass_of enc fr vr fl ++ bs) cur'.
  Proof.
    induction fr as [|f fr IH]; intros vr sr done_f done_s fl Hfs Hlen Hwf Hrep Hkd Hnm HU Hlim.
    - inversion HU; subst vr sr. exists []. split; [constructor|]. intros bs cur' Hst. exact Hst.
    - inversion HU as [|f0 v s fr0 vr' sr' Hu HU']; subst f0 fr0 vr sr.
      cbn [map] in Hwf. apply wf_list_cons_inv in Hwf. destruct Hwf as (v0 & vr0 & Evr & Hv & Hvr).
      inversion Evr; subst v0 vr0. clear Evr.
      cbn [forallb] in Hrep, Hkd, Hnm. apply andb_true_iff in Hrep. destruct Hrep as [Hr1 Hr2].
      apply andb_true_iff in Hkd. destruct Hkd as [Hk1 Hk2]. apply andb_true_iff in Hnm. destruct Hnm as [Hn1 Hn2].
      assert (Hfs' : fs = (done_f ++ [f]) ++ fr) by (rewrite <- app_assoc; exact Hfs).
      cbn [rpass_of] in *. unfold urel in Hu.
      destruct (sf_repeated f) eqn:Erep; cbn [negb] in *.
      + cbv zeta in *. subst s.
        set (p := enc (sf_codec f) (Some v) (make_flags f fl)) in *.
        rewrite len_app in Hlim.
        pose proof (PrimProofs.len_nonneg _ p).
        match type of Hlim with len p + len ?R < _ => set (rest := R) in *; pose proof (PrimProofs.len_nonneg _ rest) end.
        destruct (rfield done_f f fr done_s v (make_flags f fl) Hfs Hlen Erep Hv Hr1 Hk1 Hn1) as (s' & Hn & Hs1);
          [fold p; blia|]. fold p in Hs1.
        destruct (IH vr' sr' (done_f ++ [f]) (done_s ++ [s']) (match p with [] => fl | _ :: _ => without fl proto_wantzero end) Hfs') as (new_s & HF & Hs2);
          try assumption; [rewrite !app_length, Hlen; reflexivity | fold rest; blia |].
        exists (s' :: new_s). split; [constructor; assumption|]. intros bs cur' Hst.
        rewrite <- app_assoc. apply Hs1. specialize (Hs2 bs cur'). rewrite <- !app_assoc in Hs2. apply Hs2, Hst.
      + destruct (IH vr' sr' (done_f ++ [f]) (done_s ++ [s]) fl Hfs') as (new_s & HF & Hs2);
          try assumption; [rewrite !app_length, Hlen; reflexivity|].
        exists (s :: new_s). split; [constructor; assumption|]. intros bs cur' Hst.
        specialize (Hs2 bs cur'). rewrite <- !app_assoc in Hs2. apply Hs2, Hst.
  Qed.
End StructRun.

(* ==================== Part 7: structs; all codecs ==================== *)
Lemma F3_slots (fs : list sfield) vs m : Forall3 slot_ok fs vs m ->
  exists rs, oslots (map sf_ty fs) m = Some rs /\ map norm rs = map norm vs.
Proof.
  induction 1 as [|f v c fr vr cr (r & H1 & H2) HF (rs & I1 & I2)]; [exists []; split; reflexivity|].
  exists (r :: rs). split; [cbn [map oslots]; rewrite H1, I1; reflexivity | cbn [map]; rewrite H2, I2; reflexivity].
Qed.
Lemma fsok_in gfs g : fsok gfs = true -> In g gfs -> field_exported g = true /\ fok (field_ty g) = true.
Proof.
  induction gfs as [|[e tg ft] r IH]; [contradiction|]. cbn [fsok]. intros H Hin.
  apply andb_true_iff in H. destruct H as [H Hr]. apply andb_true_iff in H. destruct H as [He Hf].
  destruct Hin as [<-|Hin]; [split; assumption | apply IH; assumption].
Qed.

Lemma E_struct_run inl_ fs gfs : map sf_ty fs = map field_ty gfs -> distinct (map sf_number fs) = true ->
  (forall f, In f fs -> cwf (sf_codec f) (sf_ty f)) -> (forall f, In f fs -> fshape f = true) ->
  (forall f, In f fs -> Emot (sf_codec f) (sf_ty f)) ->
  forall vs fl, elem_ok (TStruct gfs) = true -> wf_val (TStruct gfs) (VStruct vs) = true ->
    representable (VStruct vs) = true -> keys_distinct (VStruct vs) = true -> no_empty_map (VStruct vs) = true ->
    frange fl -> len (enc (CStruct inl_ fs) (Some (VStruct vs)) fl) < lim ->
    exists m r, Run (map (pf_of (has fl proto_zigzag)) fs) (default_msg (map (pf_of (has fl proto_zigzag)) fs))
                    (enc (CStruct inl_ fs) (Some (VStruct vs)) fl) m /\
                of_pval (TStruct gfs) (PVMsg m) = Some r /\ norm r = norm (VStruct vs).
Proof.
  intros Hty Hd Hcw Hsh HE vs fl Hok Hwf Hrep Hkd Hnm Hfr Hlim.
  rewrite elem_ok_struct in Hok.
  assert (Hfok : forall f, In f fs -> fok (sf_ty f) = true).
  { intros f Hin. assert (Hi : In (sf_ty f) (map field_ty gfs)) by (rewrite <- Hty; apply in_map, Hin).
    apply in_map_iff in Hi. destruct Hi as (g & <- & Hg). apply (fsok_in gfs g Hok Hg). }
  apply wf_struct_list in Hwf. rewrite <- Hty in Hwf.
  cbn [representable keys_distinct no_empty_map] in Hrep, Hkd, Hnm.
  rewrite enc_struct_eq in *.
  set (zz := has fl proto_zigzag). set (fl0 := struct_flags0 inl_ fl) in *.
  destruct (upass_of enc fs vs fl0) as [fl1 bs1] eqn:EU.
  rewrite len_app in Hlim.
  pose proof (PrimProofs.len_nonneg _ bs1). pose proof (PrimProofs.len_nonneg _ (rpass_of enc fs vs fl1)).
  destruct (upass_run fs zz Hd Hcw Hsh HE Hfok fs vs [] [] fl0 eq_refl eq_refl Hwf Hrep Hkd Hnm) as (s1 & HF1 & Hs1);
    [apply frange_struct, Hfr | apply has_struct_tl, Hfr | apply has_struct_zz, Hfr | rewrite EU; cbn [snd]; blia |].
  rewrite EU in Hs1. cbn [snd app] in Hs1.
  destruct (rpass_run fs zz Hd Hcw Hsh HE Hfok fs vs s1 [] [] fl1 eq_refl eq_refl Hwf Hrep Hkd Hnm HF1) as (s2 & HF2 & Hs2);
    [blia|].
  cbn [app] in Hs2.
  pose proof (Hs1 _ _ (Hs2 [] s2 (Run_nil _ s2))) as Hrun. rewrite app_nil_r in Hrun.
  destruct (F3_slots fs vs s2 HF2) as (rs & Hrs & Hn).
  exists s2, (VStruct rs). split; [exact Hrun|]. split.
  - rewrite of_pval_struct by (intros g Hg; apply (fsok_in gfs g Hok Hg)). rewrite <- Hty, Hrs. reflexivity.
  - cbn [norm]. f_equal. exact Hn.
Qed.

Lemma E_struct inl_ fs gfs : map sf_ty fs = map field_ty gfs -> distinct (map sf_number fs) = true ->
  (forall f, In f fs -> cwf (sf_codec f) (sf_ty f)) -> (forall f, In f fs -> fshape f = true) ->
  (forall f, In f fs -> Emot (sf_codec f) (sf_ty f)) -> Eprop (CStruct inl_ fs) (TStruct gfs).
Proof.
  intros Hty Hd Hcw Hsh HE v fl Hok Hwf Hrep Hkd Hnm Hfr _ Hlim _.
  destruct v as [| | | | | |vs| | |]; try discriminate Hwf.
  destruct (E_struct_run inl_ fs gfs Hty Hd Hcw Hsh HE vs fl Hok Hwf Hrep Hkd Hnm Hfr Hlim) as (m & r & (recs & Hr & Hm) & Hof & Hn).
  exists (PVMsg m), r. split; [|split; assumption].
  cbn [wire base_ty is_struct]. unfold wv. rewrite pty_struct, dec_value_msg, Hr, Hm. reflexivity.
Qed.

Theorem E_all : forall c t, cwf c t -> Emot c t.
Proof.
  induction 1 as [c t Hs | t c He H IH | n wt emb et c He H IH Hwt Hemb Hn | n kf vf kt vt Hk Hv H1 IH1 H2 IH2 Hkf Hvf Hn
                 | inl_ fs gfs Hty Hd H IH Hsh].
  - pose proof (E_scalar c t Hs) as HD. destruct c; try discriminate Hs; exact HD.
  - cbn [Emot]. apply E_ptr. apply Emot_elem; assumption.
  - cbn [Emot]. apply Emot_elem; assumption.
  - cbn [Emot]. split; apply Emot_elem; try assumption. apply (scalar_key_elem kt Hk).
  - cbn [Emot]. apply E_struct; assumption.
Qed.

(* ==================== Part 8: the descriptor of TypeOf is the type the codec writes ==================== *)
(* where a zigzag flag is inherited (a zigzag tag on a field of struct or pointer-to-struct type), the int-kind fields
   below carry the zigzag tag themselves *)
Fixpoint zz_in (inh : bool) (t : gty) (tag : option ptag) {struct t} : bool :=
  match t with
  | TInt | TInt32 | TInt64 => implb inh (tag_zz tag)
  | TPtr t' => zz_in inh t' tag
  | TStruct gfs =>
      (fix go (gfs : list gfield) : bool :=
         match gfs with
         | [] => true
         | GField _ ftag ft :: r =>
             (match ft with
              | TSlice et => zz_in false et ftag
              | TMap kt vt => zz_in false vt None
              | _ => zz_in (inh || tag_zz ftag) ft ftag
              end) && go r
         end) gfs
  | _ => true
  end.
Definition zz_ok (t : gty) : bool := zz_in false t None.

Definition zz_field (inh : bool) (ftag : option ptag) (ft : gty) : bool :=
  match ft with
  | TSlice et => zz_in false et ftag
  | TMap kt vt => zz_in false vt None
  | _ => zz_in (inh || tag_zz ftag) ft ftag
  end.
Fixpoint zz_fs (inh : bool) (fs : list gfield) : bool :=
  match fs with [] => true | GField _ ftag ft :: r => zz_field inh ftag ft && zz_fs inh r end.
Lemma zz_in_struct inh fs tag : zz_in inh (TStruct fs) tag = zz_fs inh fs.
Proof. cbn [zz_in]. induction fs as [|[e ftag ft] r IH]; [reflexivity|]. cbn [zz_fs]. rewrite <- IH. reflexivity. Qed.
Fixpoint tags_fs (fs : list gfield) : bool :=
  match fs with [] => true | GField _ tag ft :: r => tag_sane tag ft && tags_sane ft && tags_fs r end.
Lemma tags_sane_struct fs : tags_sane (TStruct fs) = tags_fs fs.
Proof. reflexivity. Qed.

Definition pfield_spec (ftag : option ptag) (ft : gty) (number : Z) : pfield :=
  let num := match ftag with Some tg => tag_number tg | None => number end in
  match ft with
  | TSlice et => PField num LRep (ptype_of et ftag)
  | TMap kt vt => PField num (LMap (scalar_of kt None)) (ptype_of vt None)
  | _ => PField num LOpt (ptype_of ft ftag)
  end.
Fixpoint pfields (gfs : list gfield) (number : Z) : list pfield :=
  match gfs with
  | [] => []
  | GField false _ _ :: r => pfields r number
  | GField true ftag ft :: r => pfield_spec ftag ft number :: pfields r (number + 1)
  end.
Lemma ptype_of_struct gfs tag : ptype_of (TStruct gfs) tag = PMsg (pfields gfs 1).
Proof.
  reflexivity.
Qed.

Definition nofx (tag : option ptag) (bt : gty) : Prop :=
  match bt with TUint32 => tag_fx32 tag = false | TUint64 => tag_fx64 tag = false | _ => True end.
Definition Tq (t : gty) : Prop :=
  forall zz tag, elem_ok t = true -> tags_sane t = true -> numbers_ok (codec_of t) = true ->
    zz_in zz t tag = true -> (tag_zz tag = true -> zz = true) -> nofx tag (base_ty t) ->
    pty (codec_of t) zz = ptype_of t tag.
Definition Pt (t : gty) : Prop :=
  match t with TSlice et => Tq et | TMap kt vt => Tq vt | _ => Tq t end.
Lemma Pt_Tq t : Pt t -> Tq t.
Proof. destruct t; try (intros H; exact H); intros _ zz tag Hok; discriminate Hok. Qed.

Lemma w16_small x : 0 <= x < 2 ^ 16 -> w16 x = x.
Proof. intros H. unfold w16. apply Z.mod_small. exact H. Qed.

Definition fl0_of (tag : option ptag) : Z :=
  match tag with
  | None => 0
  | Some tg => (if tag_repeated tg then proto_repeated else 0) + (if tag_zigzag tg then proto_zigzag else 0)
  end.
Lemma fzz_fl0 tag : fzz (fl0_of tag) = tag_zz tag.
Proof. destruct tag as [tg|]; [|reflexivity]. unfold fl0_of, tag_zz. destruct (tag_repeated tg), (tag_zigzag tg); reflexivity. Qed.
Lemma fzz_fl0_emb tag : fzz (Z.lor (fl0_of tag) proto_embedded) = tag_zz tag.
Proof. destruct tag as [tg|]; [|reflexivity]. unfold fl0_of, tag_zz. destruct (tag_repeated tg), (tag_zigzag tg); reflexivity. Qed.

Lemma pf_of_codec_of zz num ts fl ft t' :
  pf_of zz (SField num ts fl ft (codec_of t')) = PField num LOpt (pty (codec_of t') (zz || fzz fl)).
Proof. unfold pf_of. cbn [sf_codec sf_number sf_flags]. destruct t'; reflexivity. Qed.
Lemma pty_pointers_to c zz : forall ft, pty (pointers_to ft c) zz = pty c zz.
Proof. induction ft; cbn [pointers_to pty]; try reflexivity. exact IHft. Qed.
Lemma ptype_of_base tag : forall ft, ptype_of ft tag = ptype_of (base_ty ft) tag.
Proof. induction ft; cbn [base_ty]; try reflexivity. cbn [ptype_of]. exact IHft. Qed.
Lemma pf_of_pointers_to zz num ts fl ft c : is_scalar c = true ->
  pf_of zz (SField num ts fl ft (pointers_to ft c)) = PField num LOpt (pty c (zz || fzz fl)).
Proof.
  intros Hc. unfold pf_of. cbn [sf_codec sf_number sf_flags]. rewrite <- (pty_pointers_to c (zz || fzz fl) ft).
  destruct ft; cbn [pointers_to]; try reflexivity; destruct c; try discriminate Hc; reflexivity.
Qed.

Lemma scalar_key_sc kt : scalar_key kt = true -> sc_of (codec_of kt) false = scalar_of kt None.
Proof. destruct kt; try discriminate; reflexivity. Qed.

Lemma tag_sane_num tg ft : tag_sane (Some tg) ft = true -> 1 <= tag_number tg < 2 ^ 16.
Proof. cbn [tag_sane]. intros H. apply andb_true_iff in H. destruct H as [H _]. lia. Qed.
Lemma tag_sane_slice tg et : tag_sane (Some tg) (TSlice et) = true ->
  tag_zigzag tg = false /\ (tag_wire tg =? proto_fixed32) = false /\ (tag_wire tg =? proto_fixed64) = false.
Proof.
  cbn [tag_sane]. intros H. apply andb_true_iff in H. destruct H as [_ H]. apply negb_true_iff in H.
  rewrite andb_true_r in H. apply orb_false_iff in H. destruct H as [H H3]. apply orb_false_iff in H. destruct H as [H1 H2].
  repeat split; assumption.
Qed.

Lemma pf_of_fcodec zz ftag ft number : fok ft = true -> tag_sane ftag ft = true -> tags_sane ft = true ->
  numbers_ok (sf_codec (fcodec ftag ft number)) = true -> zz_field zz ftag ft = true -> Pt ft ->
  0 <= number < 2 ^ 16 ->
  pf_of zz (fcodec ftag ft number) = pfield_spec ftag ft number.
Proof.
  intros Hok Htag Hts Hnum Hzz HP Hn.
  assert (Hnumeq : w16 (match ftag with Some tg => tag_number tg | None => number end) =
                   match ftag with Some tg => tag_number tg | None => number end).
  { destruct ftag as [tg|]; apply w16_small; [pose proof (tag_sane_num tg ft Htag); lia | exact Hn]. }
  destruct ft as [| | | | | | | | | | | | | |et|kt vt|] eqn:Eft.
  15: { (* slice *)
    cbn [Pt fok tags_sane zz_field] in *.
    assert (Hf : match ftag with Some tg => forced_of tg (TSlice et) = None | None => True end).
    { destruct ftag as [tg|]; [|exact I]. unfold forced_of. cbn [base_ty].
      destruct (tag_wire tg =? proto_fixed32); [reflexivity|]. destruct (tag_wire tg =? proto_fixed64); reflexivity. }
    assert (Hfc : fcodec ftag (TSlice et) number =
             SField (w16 (match ftag with Some tg => tag_number tg | None => number end))
               (w8 (proto_sizeOfTag (w16 (match ftag with Some tg => tag_number tg | None => number end)) (wire (codec_of et))))
               (Z.lor (if is_struct (base_ty et) then Z.lor (fl0_of ftag) proto_embedded else fl0_of ftag) proto_repeated)
               (TSlice et)
               (CSlice (w16 (match ftag with Some tg => tag_number tg | None => number end)) (wire (codec_of et)) (is_struct (base_ty et)) et (codec_of et))).
    { unfold fcodec. destruct ftag as [tg|]; cbv zeta; [rewrite Hf|]; reflexivity. }
    rewrite Hfc in *. unfold pf_of, pfield_spec. cbn [sf_codec sf_number numbers_ok] in *. rewrite Hnumeq.
    apply andb_true_iff in Hnum. destruct Hnum as [_ Hnum].
    f_equal. apply HP; try assumption.
    - intros Ht. destruct ftag as [tg|]; [|discriminate Ht]. destruct (tag_sane_slice tg et Htag) as (H1 & _). cbn [tag_zz] in Ht. congruence.
    - destruct ftag as [tg|]; [destruct (tag_sane_slice tg et Htag) as (_ & H2 & H3)|]; unfold nofx, tag_fx32, tag_fx64;
        destruct (base_ty et); try exact I; try assumption; reflexivity. }
  15: { (* map *)
    cbn [Pt fok tags_sane zz_field] in *.
    apply andb_true_iff in Hok. destruct Hok as [Hsk Hokv]. apply andb_true_iff in Hts. destruct Hts as [_ Htsv].
    assert (Hf : match ftag with Some tg => forced_of tg (TMap kt vt) = None | None => True end).
    { destruct ftag as [tg|]; [|exact I]. unfold forced_of. cbn [base_ty].
      destruct (tag_wire tg =? proto_fixed32); [reflexivity|]. destruct (tag_wire tg =? proto_fixed64); reflexivity. }
    assert (Hfc : exists ts fl, fcodec ftag (TMap kt vt) number =
             SField (w16 (match ftag with Some tg => tag_number tg | None => number end)) ts fl (TMap kt vt)
               (CMap (w16 (match ftag with Some tg => tag_number tg | None => number end))
                     (if is_struct (base_ty kt) then proto_embedded else 0) (if is_struct (base_ty vt) then proto_embedded else 0)
                     kt vt (codec_of kt) (codec_of vt))).
    { unfold fcodec. destruct ftag as [tg|]; cbv zeta; [rewrite Hf|]; do 2 eexists; reflexivity. }
    destruct Hfc as (ts & fl & Hfc). rewrite Hfc in *. unfold pf_of, pfield_spec. cbn [sf_codec sf_number numbers_ok] in *. rewrite Hnumeq.
    apply andb_true_iff in Hnum. destruct Hnum as [_ Hnumv].
    rewrite (scalar_key_sc kt Hsk). f_equal. apply HP; try assumption.
    - intros Ht. discriminate Ht.
    - unfold nofx, tag_fx32, tag_fx64. destruct (base_ty vt); try exact I; reflexivity. }
  all: rewrite <- Eft in *; assert (Hel : elem_ty ft = true) by (rewrite Eft; reflexivity);
       assert (Hokf : elem_ok ft = true) by (apply fok_elem; assumption);
       assert (HT : Tq ft) by (rewrite Eft in HP |- *; exact HP);
       assert (Hzf : zz_in (zz || tag_zz ftag) ft ftag = true) by (rewrite Eft in Hzz |- *; exact Hzz);
       assert (Hspec : pfield_spec ftag ft number = PField (match ftag with Some tg => tag_number tg | None => number end) LOpt (ptype_of ft ftag))
         by (rewrite Eft; reflexivity);
       clear Eft HP Hzz; rewrite Hspec; clear Hspec.
  all: assert (Hgen : (match ftag with Some tg => forced_of tg ft = None | None => True end) ->
         pf_of zz (fcodec ftag ft number) =
         PField (match ftag with Some tg => tag_number tg | None => number end) LOpt (ptype_of ft ftag));
    [ intros Hf;
      assert (Hfc : exists ts, fcodec ftag ft number =
               SField (w16 (match ftag with Some tg => tag_number tg | None => number end)) ts
                 (if is_struct (base_ty ft) then Z.lor (fl0_of ftag) proto_embedded else fl0_of ftag) ft (codec_of ft));
      [ unfold fcodec; destruct ftag as [tg|]; cbv zeta; [rewrite Hf|];
        (destruct ft; try discriminate Hel; unfold generic_of; cbn [base_ty is_struct fl0_of]; try (eexists; reflexivity);
         destruct (is_struct (base_ty _)); eexists; reflexivity)
      | destruct Hfc as (ts & Hfc); rewrite Hfc in *; cbn [sf_codec] in Hnum; rewrite pf_of_codec_of, Hnumeq; f_equal;
        replace (fzz (if is_struct (base_ty ft) then Z.lor (fl0_of ftag) proto_embedded else fl0_of ftag)) with (tag_zz ftag)
          by (destruct (is_struct (base_ty ft)); [rewrite fzz_fl0_emb | rewrite fzz_fl0]; reflexivity);
        apply HT; try assumption;
        [ intros Ht; rewrite Ht; apply orb_true_r
        | destruct ftag as [tg|]; [| unfold nofx; destruct (base_ty ft); exact I || reflexivity];
          unfold nofx, tag_fx32, tag_fx64; unfold forced_of in Hf;
          destruct (base_ty ft); try exact I;
          destruct (tag_wire tg =? proto_fixed32) eqn:E5; try discriminate Hf; try reflexivity;
          [ apply Z.eqb_eq in E5; rewrite E5; reflexivity | destruct (tag_wire tg =? proto_fixed64); [discriminate Hf | reflexivity] ] ] ]
    | ].
  all: destruct ftag as [tg|]; [|apply Hgen; exact I].
  all: destruct (forced_of tg ft) as [c|] eqn:Ef; [|apply Hgen; reflexivity].
  all: clear Hgen; unfold fcodec; cbv zeta; rewrite Ef; unfold forced_of in Ef;
       pose proof (ptype_of_base (Some tg) ft) as Hb; rewrite Hb;
       (destruct (tag_wire tg =? proto_fixed32) eqn:E5;
        [| destruct (tag_wire tg =? proto_fixed64) eqn:E1; [|discriminate Ef]]);
       destruct (base_ty ft) eqn:Eb; try discriminate Ef; inversion Ef; subst c;
       rewrite pf_of_pointers_to by reflexivity; rewrite Hnumeq; cbn [pty sc_of ptype_of scalar_of];
       unfold tag_fx32, tag_fx64; rewrite ?E5, ?E1; reflexivity.
Qed.

Lemma pfields_eq : forall gfs number zz, fsok gfs = true -> tags_fs gfs = true ->
  Forall (fun g => Pt (field_ty g)) gfs -> nums_fs (cfields gfs number) = true -> zz_fs zz gfs = true ->
  0 <= number -> number + len gfs <= 2 ^ 16 ->
  map (pf_of zz) (cfields gfs number) = pfields gfs number.
Proof.
  induction gfs as [|[e tg ft] r IH]; intros number zz Hok Hts HP Hnum Hzz Hn0 Hn; [reflexivity|].
  cbn [fsok tags_fs zz_fs] in Hok, Hts, Hzz. apply andb_true_iff in Hok. destruct Hok as [Hok Hr].
  apply andb_true_iff in Hok. destruct Hok as [He Hft]. subst e.
  apply andb_true_iff in Hts. destruct Hts as [Hts Htr]. apply andb_true_iff in Hts. destruct Hts as [Htag Htf].
  apply andb_true_iff in Hzz. destruct Hzz as [Hzf Hzr].
  inversion HP as [|x l HP1 HP2]; subst. cbn [field_ty] in HP1.
  rewrite len_cons in Hn. pose proof (PrimProofs.len_nonneg _ r) as Hlr.
  cbn [cfields pfields] in *. rewrite fcodec_cons_eq in *. cbn [map].
  assert (Hin0 : In (fcodec tg ft number) (fcodec tg ft number :: cfields r (number + 1))) by (left; reflexivity).
  destruct (nums_fs_in _ _ Hnum Hin0) as [_ Hno].
  assert (Hnum' : nums_fs (cfields r (number + 1)) = true).
  { destruct (fcodec tg ft number). cbn [nums_fs] in Hnum. apply andb_true_iff in Hnum. apply Hnum. }
  f_equal.
  - apply pf_of_fcodec; try assumption. clear - Hn Hn0 Hlr. lia.
  - apply IH; try assumption; clear - Hn Hn0 Hlr; lia.
Qed.

Lemma cfields_length : forall gfs number, fsok gfs = true -> length (cfields gfs number) = length gfs.
Proof.
  induction gfs as [|[e tg ft] r IH]; intros number H; [reflexivity|]. cbn [fsok] in H.
  apply andb_true_iff in H. destruct H as [H Hr]. apply andb_true_iff in H. destruct H as [He _]. subst e.
  cbn [cfields]. rewrite fcodec_cons_eq. cbn [length]. rewrite IH by exact Hr. reflexivity.
Qed.
Lemma distinct_NoDup l : distinct l = true -> NoDup l.
Proof.
  induction l as [|a l IH]; intros H; [constructor|]. cbn [distinct] in H. apply andb_true_iff in H. destruct H as [H1 H2].
  constructor; [|apply IH, H2]. intros Hin. apply negb_true_iff in H1.
  assert (E : existsb (Z.eqb a) l = true) by (apply existsb_exists; exists a; split; [exact Hin | apply Z.eqb_refl]).
  congruence.
Qed.
Lemma bounded_length l : NoDup l -> (forall x, In x l -> 1 <= x < 2 ^ 16) -> len l < 2 ^ 16.
Proof.
  intros Hnd Hr. assert (H : (length l <= length (map Z.of_nat (seq 1 (Z.to_nat 65535))))%nat).
  { apply NoDup_incl_length; [exact Hnd|]. intros x Hx. apply in_map_iff. specialize (Hr x Hx). exists (Z.to_nat x).
    split; [lia | apply in_seq; lia]. }
  rewrite map_length, seq_length in H. unfold len. lia.
Qed.

Lemma Tq_all : forall t, Pt t.
Proof.
  apply gty_ind2.
  - intros t Ht.
    destruct t; try contradiction; intros zz tag _ _ _ Hzz Htz Hfx;
      cbn [codec_of pty sc_of ptype_of scalar_of base_ty nofx zz_in] in *; try reflexivity.
    + destruct zz, (tag_zz tag); try reflexivity; try discriminate Hzz. specialize (Htz eq_refl). discriminate Htz.
    + destruct zz, (tag_zz tag); try reflexivity; try discriminate Hzz. specialize (Htz eq_refl). discriminate Htz.
    + destruct zz, (tag_zz tag); try reflexivity; try discriminate Hzz. specialize (Htz eq_refl). discriminate Htz.
    + rewrite Hfx. reflexivity.
    + rewrite Hfx. reflexivity.
  - intros t HP. apply Pt_Tq in HP. intros zz tag Hok Hts Hnum Hzz Htz Hfx.
    cbn [codec_of pty ptype_of]. apply HP; assumption.
  - intros t HP. apply Pt_Tq, HP.
  - intros k v _ HP. apply Pt_Tq, HP.
  - intros fs HF zz tag Hok Hts Hnum Hzz _ _.
    rewrite elem_ok_struct in Hok. rewrite tags_sane_struct in Hts. rewrite zz_in_struct in Hzz.
    rewrite codec_of_struct in *. rewrite pty_struct, ptype_of_struct. f_equal.
    rewrite numbers_ok_struct in Hnum. apply andb_true_iff in Hnum. destruct Hnum as [Hd Hnum].
    apply pfields_eq; try assumption; [lia|].
    pose proof (bounded_length (map sf_number (cfields fs 1)) (distinct_NoDup _ Hd)) as Hb.
    unfold len in *. rewrite map_length, cfields_length in Hb by exact Hok.
    assert (Hr : forall x, In x (map sf_number (cfields fs 1)) -> 1 <= x < 2 ^ 16).
    { intros x Hx. apply in_map_iff in Hx. destruct Hx as (f & <- & Hf). apply (nums_fs_in _ _ Hnum Hf). }
    specialize (Hb Hr). lia.
Qed.

(* ==================== Part 9: the theorem ==================== *)
(* (a) with the hypothesis it lacks: the package's bytes are standard *)
Definition marshal_standard_zz_statement : Prop :=
  forall t v bs, in_universe t v -> is_struct_ty t = true -> representable v = true -> keys_distinct v = true ->
    rep_tags_ok t = true -> tags_sane t = true -> zz_ok t = true -> no_empty_map v = true ->
    Size (TPtr t) (VPtr (Some v)) < lim ->
    Marshal (TPtr t) (VPtr (Some v)) = Ok (Some bs) ->
    exists m r, spec_decode std (fields_of t) bs = Some m /\ of_msg t m = Some r /\ norm r = norm v.

Theorem marshal_standard_zz : marshal_standard_zz_statement.
Proof.
  intros t v bs (Hty & Hnum & Hwf & _) Hst Hrep Hkd Hrt Hts Hzz Hnm Hsz HM.
  destruct (marshal_ptr_enc t v bs Hty Hrt Hnum Hwf Hsz HM) as [-> Hlim].
  pose proof (codec_of_cwf t Hty Hrt Hnum) as Hc. unfold wire_bytes in *.
  destruct t as [| | | | | | | | | | | | |gfs| | |]; try discriminate Hst.
  destruct v as [| | | | | |vs| | |]; try discriminate Hwf.
  pose proof (Tq_all (TStruct gfs) false None Hty Hts Hnum Hzz) as HT.
  specialize (HT (fun H => False_ind _ (Bool.diff_false_true H)) I).
  rewrite codec_of_struct in *. rewrite pty_struct, ptype_of_struct in HT.
  unfold of_msg. change (fields_of (TStruct gfs)) with (pfields gfs 1). injection HT as HT'. rewrite <- HT'.
  inversion Hc as [? ? Hsc | | | | inl fs gfs' Hty' Hd Hcw Hsh]; subst; [discriminate Hsc|].
  destruct (E_struct_run (inlined_ty (TStruct gfs)) _ _ Hty' Hd Hcw Hsh (fun f Hin => E_all _ _ (Hcw f Hin)) vs (ptr_flags top_flags) Hty Hwf Hrep Hkd Hnm)
    as (m & r & (recs & Hr & Hm) & Hof & Hn); [unfold frange; vm_compute; split; congruence | exact Hlim |].
  change (has (ptr_flags top_flags) proto_zigzag) with false in *.
  exists m, r. split; [|split; assumption]. unfold spec_decode. rewrite dec_value_msg, Hr, Hm. reflexivity.
Qed.

(* the witness of marshal_standard_refuted is exactly what [zz_ok] excludes *)
Lemma zz_ok_witness : zz_ok zz_ty = false.
Proof. reflexivity. Qed.
