(* Proofs of the C19 statements of Proto/RewriteSpec.v about the rewriter model of
   Proto/RewriteModel.v: refinement of the model by the abstract rewrite on field lists (with
   totality: no panic, no fuel exhaustion, under the seen-set condition), and the shape of the
   output of a regular message rewriter (valid message, carry-over of untouched fields, templated
   fields as emitted). Wire-level and seen-set lemmas are in RewriteWire.v and RewriteSet.v. *)
From Coq Require Import Lia ZifyBool ZifyNat.
From Verif Require Import Base.GoInt Proto.Ext Generated.ProtoGen Proto.PrimSpec Proto.PrimProofs.
From Verif Require Import Proto.RewriteModel Proto.RewriteSpec Proto.RewriteWire Proto.RewriteSet.
Open Scope Z_scope.


(* ---------- small facts ---------- *)
Lemma mem_cons : forall i x l, mem i (x :: l) = (i =? x) || mem i l.
Proof. reflexivity. Qed.

Lemma lookup_In : forall es i r, lookup es i = Some r -> In (i, r) es.
Proof.
  induction es as [|[j r'] es IH]; intros i r H; [discriminate|].
  cbn [lookup] in H. destruct (Z.eqb_spec j i) as [->|Hne].
  - injection H as ->. left; reflexivity.
  - right. apply IH, H.
Qed.

Lemma tlookup_In : forall n es i r, tlookup n es i = Some r -> In (i, r) es /\ 0 <= i < n.
Proof.
  intros n es i r H. unfold tlookup in H.
  destruct ((0 <=? i) && (i <? n)) eqn:Hb; [|discriminate].
  split; [apply lookup_In, H | lia].
Qed.

Lemma sorted_from_bounds : forall es lo n i r, sorted_from lo es n = true -> In (i, r) es -> lo <= i < n.
Proof.
  induction es as [|[j r'] es IH]; intros lo n i r Hs Hin; [destruct Hin|].
  cbn [sorted_from] in Hs. apply andb_prop in Hs as [Hs1 Hs2]. apply andb_prop in Hs1 as [Ha Hb].
  destruct Hin as [Heq|Hin].
  - injection Heq as -> ->. lia.
  - specialize (IH _ _ _ _ Hs2 Hin). lia.
Qed.

Lemma lookup_sorted_none : forall es lo n i, sorted_from lo es n = true -> i < lo -> lookup es i = None.
Proof.
  induction es as [|[j r'] es IH]; intros lo n i Hs Hlt; [reflexivity|].
  cbn [sorted_from] in Hs. apply andb_prop in Hs as [Hs1 Hs2]. apply andb_prop in Hs1 as [Ha Hb].
  cbn [lookup]. destruct (Z.eqb_spec j i); [lia|]. apply (IH (j + 1) n); [exact Hs2 | lia].
Qed.

Lemma lookup_sorted_In : forall es lo n i r, sorted_from lo es n = true -> In (i, r) es -> lookup es i = Some r.
Proof.
  induction es as [|[j r'] es IH]; intros lo n i r Hs Hin; [destruct Hin|].
  cbn [sorted_from] in Hs. apply andb_prop in Hs as [Hs1 Hs2]. apply andb_prop in Hs1 as [Ha Hb].
  cbn [lookup]. destruct Hin as [Heq|Hin].
  - injection Heq as -> ->. rewrite Z.eqb_refl. reflexivity.
  - pose proof (sorted_from_bounds _ _ _ _ _ Hs2 Hin) as Hb2.
    destruct (Z.eqb_spec j i); [lia|]. apply (IH _ _ _ _ Hs2 Hin).
Qed.

Lemma tlookup_sorted_In : forall es n i r, sorted_from 0 es n = true -> In (i, r) es -> tlookup n es i = Some r.
Proof.
  intros es n i r Hs Hin. unfold tlookup.
  pose proof (sorted_from_bounds _ _ _ _ _ Hs Hin) as Hb.
  replace ((0 <=? i) && (i <? n)) with true by lia.
  apply (lookup_sorted_In _ _ _ _ _ Hs Hin).
Qed.

(* depth of sub-rewriters *)
Lemma depth_multi : forall rs r, In r rs -> (depth r < depth (RwMulti rs))%nat.
Proof.
  intros rs r Hin. cbn [depth]. apply le_n_S.
  induction rs as [|a rs IH]; [destruct Hin|].
  cbn [fold_right]. destruct Hin as [->|Hin]; [lia|]. specialize (IH Hin). lia.
Qed.
Lemma depth_entries_aux : forall (es : list (Z * rewriter)) i r, In (i, r) es ->
  (depth r <= fold_right (fun e d => Nat.max (depth (snd e)) d) O es)%nat.
Proof.
  induction es as [|a es IH]; intros i r Hin; [destruct Hin|].
  cbn [fold_right]. destruct Hin as [->|Hin]; [cbn [snd]; lia|]. specialize (IH _ _ Hin). lia.
Qed.
Lemma depth_message : forall n es i r, In (i, r) es -> (depth r < depth (RwMessage n es))%nat.
Proof. intros. cbn [depth]. apply le_n_S. eapply depth_entries_aux; eauto. Qed.
Lemma depth_embedded : forall num n es i r, In (i, r) es -> (depth r < depth (RwEmbedded num n es))%nat.
Proof. intros. cbn [depth]. apply le_n_S. eapply depth_entries_aux; eauto. Qed.

(* ---------- similarity of outputs: equal below 2^64 bytes, empty together ---------- *)
Definition sim (o' o : bytes) : Prop := (len o < 2 ^ 64 \/ len o' < 2 ^ 64 -> o' = o) /\ (len o' = 0 <-> len o = 0).
Lemma sim_refl : forall o, sim o o.
Proof. intro o. split; [reflexivity | tauto]. Qed.
Lemma sim_app : forall a' a b' b, sim a' a -> sim b' b -> sim (a' ++ b') (a ++ b).
Proof.
  intros a' a b' b [Ha1 Ha2] [Hb1 Hb2]. split.
  - rewrite !len_app. intro H. pose proof (len_nonneg _ a). pose proof (len_nonneg _ b).
    pose proof (len_nonneg _ a'). pose proof (len_nonneg _ b').
    rewrite Ha1, Hb1 by lia. reflexivity.
  - rewrite !len_app. pose proof (len_nonneg _ a). pose proof (len_nonneg _ b).
    pose proof (len_nonneg _ a'). pose proof (len_nonneg _ b'). lia.
Qed.

Lemma wf_field_len : forall f, wf_field f = true -> len (fval f) < 2 ^ 62.
Proof.
  intros f H. unfold wf_field in H. apply andb_prop in H as [H1 H].
  apply andb_prop in H1 as [_ Hwf].
  destruct (fwt f =? 0) eqn:H0.
  { unfold is_varint in H. pose proof (decodeVarint_bounds (fval f) Hwf) as Hb.
    destruct (proto_decodeVarint (fval f)) as [[x n] e].
    apply andb_prop in H as [He Hn]. destruct e; [discriminate|].
    destruct Hb as [_ [_ Hb]]. specialize (Hb eq_refl). lia. }
  destruct (fwt f =? 1); [lia|]. destruct (fwt f =? 2); [lia|]. destruct (fwt f =? 5); [lia|discriminate].
Qed.

Lemma EncodeTag_tag_of : forall f t, 0 <= f < 2 ^ 61 -> 0 <= t < 8 -> proto_EncodeTag f t = tag_of f t.
Proof.
  intros f t Hf Ht. unfold proto_EncodeTag, or64, tag_of.
  rewrite shl64_mul by lia. rewrite w64_small by lia.
  rewrite Z.lor_comm. change 8 with (2 ^ 3). rewrite lor_add by lia. lia.
Qed.

Lemma s32_range : forall x, - 2 ^ 31 <= s32 x < 2 ^ 31.
Proof.
  intro x. unfold s32, w32. pose proof (Z.mod_pos_bound x (2 ^ 32) ltac:(lia)).
  destruct (x mod 2 ^ 32 <? 2 ^ 31) eqn:E; lia.
Qed.
Lemma s64_range : forall x, - 2 ^ 63 <= s64 x < 2 ^ 63.
Proof.
  intro x. unfold s64, w64. pose proof (Z.mod_pos_bound x (2 ^ 64) ltac:(lia)).
  destruct (x mod 2 ^ 64 <? 2 ^ 63) eqn:E; lia.
Qed.

Lemma bitor_value_u64 : forall k v, 0 <= bitor_value k v < 2 ^ 64.
Proof.
  intros k v.
  assert (Z32 : forall v, 0 <= proto_encodeZigZag32 (s32 v) < 2 ^ 64).
  { intro v0. pose proof (s32_range v0) as Hr. rewrite encodeZigZag32_zigzag by exact Hr.
    destruct (zigzag32_spec (s32 v0) Hr) as [_ [Hu _]]. unfold u32 in Hu. lia. }
  assert (Z64 : forall v, 0 <= proto_encodeZigZag64 (s64 v) < 2 ^ 64).
  { intro v0. pose proof (s64_range v0) as Hr. rewrite encodeZigZag64_zigzag by exact Hr.
    destruct (zigzag64_spec (s64 v0) Hr) as [_ [Hu _]]. exact Hu. }
  destruct k; cbn [bitor_value]; try apply w64_range; try apply Z32; try apply Z64.
  unfold w32. pose proof (Z.mod_pos_bound v (2 ^ 32) ltac:(lia)). lia.
Qed.

Lemma bitor_decode_total : forall k v,
  (exists x, bitor_decode k v = ROk x) \/ (exists e, bitor_decode k v = RErr e).
Proof.
  intros k v. unfold bitor_decode.
  destruct (len v =? 0); [left; eauto|].
  assert (Hfin : forall (p : Z * Z * option proto_error),
            (exists x, (let '(u, n, err) := p in
                        match err with Some e => RErr (err_of e) | None => if n <? len v then RErr ETrailing else ROk u end) = ROk x) \/
            (exists e, (let '(u, n, err) := p in
                        match err with Some e => RErr (err_of e) | None => if n <? len v then RErr ETrailing else ROk u end) = RErr e)).
  { intros [[u n] err]. destruct err; [right; eauto|]. destruct (n <? len v); eauto. }
  apply Hfin.
Qed.

Lemma wfb_le_bytes : forall n x, wfb (le_bytes n x) = true.
Proof.
  induction n as [|n IH]; intro x; [reflexivity|].
  cbn [le_bytes wfb forallb]. fold (wfb (le_bytes n (x / 256))). rewrite IH, andb_true_r.
  unfold is_byte. pose proof (Z.mod_pos_bound x 256 ltac:(lia)). lia.
Qed.

Lemma bitor_field_spec : bitor_field_statement.
Proof.
  intros k number x Hnum Hx.
  assert (HV : kind_wire k = proto_varint ->
               bitor_field k number x = ROk (enc_field (bitor_spec_field k number x)) /\
               wf_field (bitor_spec_field k number x) = true).
  { intro Hw. unfold bitor_field, bitor_spec_field. rewrite Hw.
    change (proto_varint =? proto_fixed32) with false. change (proto_varint =? proto_fixed64) with false. cbv iota.
    apply (AppendVarint_spec [] number x Hnum Hx). }
  assert (H32 : kind_wire k = proto_fixed32 ->
               bitor_field k number x = ROk (enc_field (bitor_spec_field k number x)) /\
               wf_field (bitor_spec_field k number x) = true).
  { intro Hw. unfold bitor_field, bitor_spec_field, AppendFixed32. rewrite Hw.
    change (proto_fixed32 =? proto_fixed32) with true. cbv iota.
    assert (Hput : put_le32 (repeat 0 4) x = le_bytes 4 x) by (unfold put_le32, splice; cbn [repeat firstn skipn le_bytes length Z.to_nat Nat.add app]; reflexivity).
    rewrite Hput.
    assert (Hwf : wf_field (mkField number proto_fixed32 (le_bytes 4 x)) = true).
    { unfold wf_field. cbn [fnum fwt fval]. rewrite wfb_le_bytes. change (proto_fixed32 =? 0) with false.
      change (proto_fixed32 =? 1) with false. change (proto_fixed32 =? 2) with false. change (proto_fixed32 =? 5) with true.
      cbv iota. change (len (le_bytes 4 x)) with 4. lia. }
    split; [|exact Hwf]. apply (Append_spec [] _ Hwf). }
  assert (H64 : kind_wire k = proto_fixed64 ->
               bitor_field k number x = ROk (enc_field (bitor_spec_field k number x)) /\
               wf_field (bitor_spec_field k number x) = true).
  { intro Hw. unfold bitor_field, bitor_spec_field, AppendFixed64. rewrite Hw.
    change (proto_fixed64 =? proto_fixed32) with false. change (proto_fixed64 =? proto_fixed64) with true. cbv iota.
    assert (Hput : put_le64 (repeat 0 8) x = le_bytes 8 x) by (unfold put_le64, splice; cbn [repeat firstn skipn le_bytes length Z.to_nat Nat.add app]; reflexivity).
    rewrite Hput.
    assert (Hwf : wf_field (mkField number proto_fixed64 (le_bytes 8 x)) = true).
    { unfold wf_field. cbn [fnum fwt fval]. rewrite wfb_le_bytes. change (proto_fixed64 =? 0) with false.
      change (proto_fixed64 =? 1) with true. cbv iota. change (len (le_bytes 8 x)) with 8. lia. }
    split; [|exact Hwf]. apply (Append_spec [] _ Hwf). }
  destruct k; first [apply HV; reflexivity | apply H32; reflexivity | apply H64; reflexivity].
Qed.

(* the contract between a rewriter function and an emit function on a set of rewriters *)
Definition rw_ok (rw : rwfun) (em : rewriter -> bytes -> option bytes) (r : rewriter) : Prop :=
  forall out v, wfb v = true -> len v < 2 ^ 62 ->
    match em r v with
    | Some o => exists o', rw r out v = ROk (out ++ o') /\ sim o' o
    | None => exists e, rw r out v = RErr e
    end.

(* ---------- the seen-set invariant ---------- *)
Definition seen_inv (K : Z) (s : fieldset) (seen : list Z) : Prop :=
  len s = K /\ forall j, 0 <= j < 64 * K -> fs_has s j = ROk (mem j seen).

Lemma zero_words_len : forall K, 0 <= K -> len (zero_words K) = K.
Proof.
  intros K HK. unfold zero_words, len.
  set (go := fix go (p : nat) : fieldset := match p with O => [] | S p' => 0 :: go p' end).
  assert (forall p, length (go p) = p) as Hl.
  { induction p as [|p IHp]; [reflexivity|]. cbn [go length]. fold go. rewrite IHp. reflexivity. }
  rewrite Hl. apply Z2Nat.id, HK.
Qed.

Lemma seen_inv_zero : forall K, 0 <= K -> seen_inv K (zero_words K) [].
Proof.
  intros K HK. destruct (fieldset_spec K HK) as [Hz _]. split.
  - apply zero_words_len, HK.
  - intros j Hj. cbn [mem existsb]. apply Hz, Hj.
Qed.

Lemma seen_inv_set : forall K s seen i, 0 <= K -> seen_inv K s seen -> 0 <= i < 64 * K ->
  exists s', fs_set s i = ROk s' /\ seen_inv K s' (i :: seen).
Proof.
  intros K s seen i HK [Hl Hh] Hi. destruct (fieldset_spec K HK) as [_ [Hs _]].
  destruct (Hs s i Hl Hi) as [s' [Hset [Hl' Hh']]]. exists s'. split; [exact Hset|]. split; [exact Hl'|].
  intros j Hj. rewrite (Hh' j Hj), (Hh j Hj). cbn [rrbind]. rewrite mem_cons. reflexivity.
Qed.

Section Loop.
  Variables (rw : rwfun) (em : rewriter -> bytes -> option bytes) (n : Z) (es : list (Z * rewriter)) (K : Z).
  Hypothesis Hrw : forall i r, In (i, r) es -> rw_ok rw em r.
  Hypothesis Hfit : forall i r, In (i, r) es -> i < 64 * K.
  Hypothesis HK : 0 <= K.

  Fixpoint seen_after (fs : list field) (seen : list Z) : list Z :=
    match fs with
    | [] => seen
    | f :: rest =>
        match tlookup n es (fnum f) with
        | Some _ => if mem (fnum f) seen then seen_after rest seen else seen_after rest (fnum f :: seen)
        | None => seen_after rest seen
        end
    end.

  Definition loop_post (k : nat) (inp : bytes) (s : fieldset) (seen : list Z) (out : bytes) : Prop :=
    match parse_fields k inp with
    | ROk fs =>
        match spec_body em n es fs seen with
        | Some o => exists s' o', msg_loop rw k n es s out inp = ROk (s', out ++ o') /\ sim o' o /\
                                  seen_inv K s' (seen_after fs seen)
        | None => exists e, msg_loop rw k n es s out inp = RErr e
        end
    | RErr _ => exists e, msg_loop rw k n es s out inp = RErr e
    | RPanic | RFuel => False
    end.

  Lemma msg_loop_refines : forall k inp s seen out,
    (length inp < k)%nat -> wfb inp = true -> len inp < 2 ^ 62 -> seen_inv K s seen -> loop_post k inp s seen out.
  Proof.
    induction k as [|k IH]; intros inp s seen out Hk Hwf Hsz Hinv; [lia|].
    unfold loop_post. cbn [parse_fields msg_loop].
    destruct (len inp =? 0) eqn:Hl0.
    { cbn [spec_body seen_after]. exists s, []. rewrite app_nil_r. split; [reflexivity|]. split; [apply sim_refl | exact Hinv]. }
    pose proof (Parse_total inp Hwf Hsz) as HP.
    destruct (Parse inp) as [[[[f t] v] m]|e| |]; [|cbn [rrbind]; eauto|destruct HP|destruct HP].
    destruct HP as [Hwff [Hwfm Hlen]]. cbn [rrbind].
    assert (Hk' : (length m < k)%nat) by lia.
    assert (Hszm : len m < 2 ^ 62) by (unfold len in *; lia).
    pose proof (wf_field_len _ Hwff) as Hszv. cbn [fval] in Hszv.
    assert (Hwfv : wfb v = true).
    { unfold wf_field in Hwff. cbn [fval] in Hwff. destruct (wfb v); [reflexivity|].
      rewrite !andb_false_r in Hwff. cbn in Hwff. discriminate. }
    destruct (tlookup n es f) as [r|] eqn:Ht.
    - destruct (tlookup_In _ _ _ _ Ht) as [Hin Hrange].
      assert (Hf : 0 <= f < 64 * K) by (pose proof (Hfit _ _ Hin); lia).
      destruct Hinv as [HlenS Hhas]. rewrite (Hhas f Hf). cbn [rrbind].
      destruct (mem f seen) eqn:Hm.
      + pose proof (IH m s seen out Hk' Hwfm Hszm (conj HlenS Hhas)) as H. unfold loop_post in H.
        destruct (parse_fields k m) as [fs|e| |]; cbn [rrbind]; try exact H.
        cbn [spec_body seen_after fnum fval]. rewrite Ht, Hm. exact H.
      + destruct (seen_inv_set K s seen f HK (conj HlenS Hhas) Hf) as [s1 [Hset Hinv1]].
        rewrite Hset. cbn [rrbind].
        pose proof (Hrw _ _ Hin out v Hwfv Hszv) as Hr.
        destruct (em r v) as [a|] eqn:Hem.
        * destruct Hr as [a' [Hr Hsim]]. rewrite Hr. cbn [rrbind].
          pose proof (IH m s1 (f :: seen) (out ++ a') Hk' Hwfm Hszm Hinv1) as H. unfold loop_post in H.
          destruct (parse_fields k m) as [fs|e| |]; cbn [rrbind]; try exact H.
          cbn [spec_body seen_after fnum fval]. rewrite Ht, Hm, Hem. cbn [obind].
          destruct (spec_body em n es fs (f :: seen)) as [b|]; cbn [obind]; [|exact H].
          destruct H as [s2 [b' [H1 [H2 H3]]]]. exists s2, (a' ++ b').
          rewrite app_assoc. split; [exact H1|]. split; [apply sim_app; assumption | exact H3].
        * destruct Hr as [e Hr]. rewrite Hr. cbn [rrbind].
          pose proof (IH m s1 (f :: seen) out Hk' Hwfm Hszm Hinv1) as H. unfold loop_post in H.
          destruct (parse_fields k m) as [fs|e'| |]; cbn [rrbind]; try (exfalso; exact H); [|eauto].
          cbn [spec_body fnum fval]. rewrite Ht, Hm, Hem. cbn [obind]. eauto.
    - pose proof (Append_spec out (mkField f t v) Hwff) as HA. cbn [fnum fwt fval] in HA. rewrite HA. cbn [rrbind].
      pose proof (IH m s seen (out ++ enc_field (mkField f t v)) Hk' Hwfm Hszm Hinv) as H. unfold loop_post in H.
      destruct (parse_fields k m) as [fs|e| |]; cbn [rrbind]; try exact H.
      cbn [spec_body seen_after fnum fval]. rewrite Ht.
      destruct (spec_body em n es fs seen) as [b|]; cbn [obind]; [|exact H].
      destruct H as [s2 [b' [H1 [H2 H3]]]]. exists s2, (enc_field (mkField f t v) ++ b').
      rewrite app_assoc. split; [exact H1|]. split; [apply sim_app; [apply sim_refl | exact H2] | exact H3].
  Qed.

  (* the numbers in the seen-set after the first loop: those of the input fields that are templated *)
  Lemma seen_after_mem : forall fs seen i r, tlookup n es i = Some r ->
    mem i (seen_after fs seen) = mem i seen || mem i (map fnum fs).
  Proof.
    induction fs as [|f fs IH]; intros seen i r Hi; cbn [seen_after map].
    - cbn. rewrite orb_false_r. reflexivity.
    - rewrite (mem_cons i (fnum f)).
      destruct (tlookup n es (fnum f)) as [rf|] eqn:Ht.
      + destruct (mem (fnum f) seen) eqn:Hm.
        * rewrite (IH _ _ _ Hi). destruct (Z.eqb_spec i (fnum f)) as [->|]; [rewrite Hm; reflexivity|reflexivity].
        * rewrite (IH _ _ _ Hi). rewrite mem_cons. destruct (i =? fnum f), (mem i seen); reflexivity.
      + rewrite (IH _ _ _ Hi). destruct (Z.eqb_spec i (fnum f)) as [->|]; [congruence|reflexivity].
  Qed.

  Lemma msg_tail_refines : forall es' s seen present out,
    (forall i r, In (i, r) es' -> In (i, r) es /\ 0 <= i /\ mem i seen = mem i present) ->
    seen_inv K s seen ->
    match spec_tail em es' present with
    | Some o => exists o', msg_tail rw es' s out = ROk (out ++ o') /\ sim o' o
    | None => exists e, msg_tail rw es' s out = RErr e
    end.
  Proof.
    induction es' as [|[i r] es' IH]; intros s seen present out Hes Hinv.
    - cbn [spec_tail msg_tail]. exists []. rewrite app_nil_r. split; [reflexivity | apply sim_refl].
    - cbn [spec_tail msg_tail].
      destruct (Hes i r (or_introl eq_refl)) as [Hin [Hi0 Hmem]].
      assert (Hi : 0 <= i < 64 * K) by (pose proof (Hfit _ _ Hin); lia).
      destruct Hinv as [HlenS Hhas]. rewrite (Hhas i Hi). cbn [rrbind]. rewrite Hmem.
      assert (Hes' : forall i r, In (i, r) es' -> In (i, r) es /\ 0 <= i /\ mem i seen = mem i present).
      { intros i0 r0 H0. apply Hes. right. exact H0. }
      destruct (mem i present).
      + apply (IH s seen present out Hes' (conj HlenS Hhas)).
      + pose proof (Hrw _ _ Hin out [] eq_refl ltac:(cbn; lia)) as Hr.
        destruct (em r []) as [a|].
        * destruct Hr as [a' [Hr Hsim]]. rewrite Hr. cbn [rrbind obind].
          pose proof (IH s seen present (out ++ a') Hes' (conj HlenS Hhas)) as H.
          destruct (spec_tail em es' present) as [b|]; cbn [obind]; [|exact H].
          destruct H as [b' [H1 H2]]. exists (a' ++ b'). rewrite app_assoc. split; [exact H1 | apply sim_app; assumption].
        * destruct Hr as [e Hr]. rewrite Hr. cbn [rrbind obind]. eauto.
  Qed.
End Loop.

(* ---------- MessageRewriter.Rewrite against spec_msg ---------- *)
Lemma msg_rewrite_refines : forall rw em n es out inp,
  wf_entries n es ->
  (forall i r, In (i, r) es -> rw_ok rw em r) ->
  (forall i r, In (i, r) es -> i < seen_bits n) ->
  wfb inp = true -> len inp < 2 ^ 62 ->
  match fields_of inp with
  | ROk fs =>
      match spec_msg em n es fs with
      | Some o => exists o', msg_rewrite rw n es out inp = ROk (out ++ o') /\ sim o' o
      | None => exists e, msg_rewrite rw n es out inp = RErr e
      end
  | RErr _ => exists e, msg_rewrite rw n es out inp = RErr e
  | RPanic | RFuel => False
  end.
Proof.
  intros rw em n es out inp [Hsorted Hn] Hrw Hfit Hwf Hsz.
  set (K := if n >=? 256 then makeFieldset_words (n + 1) else 4).
  assert (HK : 0 <= K).
  { unfold K. destruct (n >=? 256); [apply makeFieldset_words_nonneg; lia | lia]. }
  assert (Hbits : seen_bits n = 64 * K) by reflexivity.
  assert (Halloc : (if n >=? fs_len (zero_words 4) then makeFieldset (n + 1) else ROk (zero_words 4)) = ROk (zero_words K)).
  { change (fs_len (zero_words 4)) with 256. unfold K. destruct (n >=? 256) eqn:E; [|reflexivity].
    unfold makeFieldset. pose proof (makeFieldset_words_nonneg (n + 1) ltac:(lia)).
    destruct (makeFieldset_words (n + 1) <? 0) eqn:E2; [lia | reflexivity]. }
  unfold msg_rewrite. rewrite Halloc. cbn [rrbind].
  assert (Hfit' : forall i r, In (i, r) es -> i < 64 * K).
  { intros i r Hin. rewrite <- Hbits. eapply Hfit; eauto. }
  pose proof (msg_loop_refines rw em n es K Hrw Hfit' HK (S (length inp)) inp (zero_words K) [] out
                ltac:(lia) Hwf Hsz (seen_inv_zero K HK)) as HL.
  unfold loop_post in HL. unfold fields_of.
  destruct (parse_fields (S (length inp)) inp) as [fs|e| |]; try exact HL.
  - unfold spec_msg.
    destruct (spec_body em n es fs []) as [a|]; cbn [obind].
    + destruct HL as [s' [a' [HL1 [HL2 HL3]]]]. rewrite HL1. cbn [rrbind].
      pose proof (msg_tail_refines rw em es K Hrw Hfit' es s' (seen_after n es fs []) (map fnum fs) (out ++ a')) as HT.
      assert (Hes : forall i r, In (i, r) es -> In (i, r) es /\ 0 <= i /\ mem i (seen_after n es fs []) = mem i (map fnum fs)).
      { intros i r Hin. split; [exact Hin|]. pose proof (sorted_from_bounds _ _ _ _ _ Hsorted Hin). split; [lia|].
        rewrite (seen_after_mem n es fs [] i r (tlookup_sorted_In _ _ _ _ Hsorted Hin)). reflexivity. }
      specialize (HT Hes HL3).
      destruct (spec_tail em es (map fnum fs)) as [b|]; cbn [obind].
      * destruct HT as [b' [HT1 HT2]]. exists (a' ++ b'). rewrite app_assoc. split; [exact HT1 | apply sim_app; assumption].
      * exact HT.
    + destruct HL as [e HL]. rewrite HL. cbn [rrbind]. eauto.
  - destruct HL as [e' HL]. rewrite HL. cbn [rrbind]. eauto.
Qed.

(* ---------- all rewriters ---------- *)
Lemma len_zero_nil : forall (l : bytes), len l = 0 -> l = [].
Proof. intros [|x l] H; [reflexivity|]. unfold len in H. cbn [length] in H. lia. Qed.

Lemma rewrite_refines_fuel : forall fuel r, (depth r <= fuel)%nat -> wf_rw r -> fits r ->
  rw_ok (rewrite fuel) (emit fuel) r.
Proof.
  induction fuel as [|fuel IH]; intros r Hd Hwf Hfit.
  { destruct r; cbn [depth] in Hd; lia. }
  unfold rw_ok. intros out v Hwfv Hszv.
  destruct r as [m|rs|n es|number n es|g k mask number].
  - cbn [emit rewrite]. exists m. split; [reflexivity | apply sim_refl].
  - cbn [emit rewrite].
    assert (Hall : Forall (fun r' => rw_ok (rewrite fuel) (emit fuel) r') rs).
    { apply Forall_forall. intros r' Hin. apply IH.
      - pose proof (depth_multi rs r' Hin). lia.
      - inversion Hwf as [|? HF| | |]; subst. eapply Forall_forall in HF; eauto.
      - inversion Hfit as [|? HF| | |]; subst. eapply Forall_forall in HF; eauto. }
    clear Hd Hwf Hfit. revert out. induction rs as [|r' rs IHrs]; intro out.
    + exists []. rewrite app_nil_r. split; [reflexivity | apply sim_refl].
    + inversion Hall as [|? ? Hr' Hrest]; subst. specialize (IHrs Hrest).
      pose proof (Hr' out v Hwfv Hszv) as H1.
      destruct (emit fuel r' v) as [a|]; cbn [obind].
      * destruct H1 as [a' [H1 H2]]. rewrite H1. cbn [rrbind].
        specialize (IHrs (out ++ a')).
        match goal with |- context [obind ?X _] => destruct X as [b|] end; cbn [obind].
        -- destruct IHrs as [b' [H3 H4]]. exists (a' ++ b'). rewrite app_assoc. split; [exact H3 | apply sim_app; assumption].
        -- exact IHrs.
      * destruct H1 as [e H1]. rewrite H1. cbn [rrbind]. eauto.
  - cbn [emit rewrite].
    inversion Hwf as [| |? ? Hent HF| |]; subst. inversion Hfit as [| |? ? HG| |]; subst.
    pose proof (msg_rewrite_refines (rewrite fuel) (emit fuel) n es out v Hent) as H.
    assert (H1 : forall i r, In (i, r) es -> rw_ok (rewrite fuel) (emit fuel) r).
    { intros i r Hin. apply IH.
      - pose proof (depth_message n es i r Hin). lia.
      - eapply Forall_forall in HF; eauto. exact HF.
      - eapply Forall_forall in HG; eauto. apply HG. }
    assert (H2 : forall i r, In (i, r) es -> i < seen_bits n).
    { intros i r Hin. eapply Forall_forall in HG; eauto. apply HG. }
    specialize (H H1 H2 Hwfv Hszv).
    destruct (fields_of v) as [fs|e| |]; try exact H; try destruct H.
  - cbn [emit rewrite].
    inversion Hwf as [| | |? ? ? Hnum Hent HF|]; subst. inversion Hfit as [| | |? ? ? HG|]; subst.
    pose proof (msg_rewrite_refines (rewrite fuel) (emit fuel) n es out v Hent) as H.
    assert (H1 : forall i r, In (i, r) es -> rw_ok (rewrite fuel) (emit fuel) r).
    { intros i r Hin. apply IH.
      - pose proof (depth_embedded number n es i r Hin). lia.
      - eapply Forall_forall in HF; eauto. exact HF.
      - eapply Forall_forall in HG; eauto. apply HG. }
    assert (H2 : forall i r, In (i, r) es -> i < seen_bits n).
    { intros i r Hin. eapply Forall_forall in HG; eauto. apply HG. }
    specialize (H H1 H2 Hwfv Hszv).
    destruct (fields_of v) as [fs|e| |]; try destruct H.
    + destruct (spec_msg (emit fuel) n es fs) as [inner|]; cbn [obind].
      * destruct H as [inner' [H3 [H4 H5]]]. rewrite H3. cbn [rrbind].
        rewrite len_app.
        destruct (len inner =? 0) eqn:E0.
        -- assert (len inner' = 0) by lia. replace (len out + len inner' =? len out) with true by lia.
           rewrite (len_zero_nil inner') by assumption. exists []. split; [reflexivity | apply sim_refl].
        -- assert (Hpos : 0 < len inner') by (pose proof (len_nonneg _ inner'); lia).
           replace (len out + len inner' =? len out) with false by lia.
           rewrite (embed_splice_w number out inner' ltac:(lia) Hpos).
           eexists. split; [reflexivity|].
           rewrite (EncodeTag_tag_of number proto_varlen Hnum ltac:(unfold proto_varlen; lia)).
           unfold enc_field. cbn [fnum fwt fval]. change (2 =? 2) with true. cbv iota.
           change proto_varlen with 2.
           assert (Hu : u64 (tag_of number 2)) by (unfold u64, tag_of; lia).
           pose proof (varint_length _ Hu) as [Hvl _].
           split.
           ++ rewrite !len_app. intro Hlt. pose proof (len_nonneg _ (varint (len inner))).
              pose proof (len_nonneg _ (varint (w64 (len inner')))). pose proof (len_nonneg _ inner).
              assert (Hii : inner' = inner) by (apply H4; lia). subst inner'.
              rewrite w64_small by lia. reflexivity.
           ++ rewrite !len_app. pose proof (len_nonneg _ (varint (w64 (len inner')))).
              pose proof (len_nonneg _ (varint (len inner))). pose proof (len_nonneg _ inner). lia.
      * destruct H as [e H]. rewrite H. cbn [rrbind]. eauto.
    + rewrite H. cbn [rrbind]. eauto.
  - cbn [emit rewrite].
    inversion Hwf as [| | | |? ? ? ? Hnum]; subst.
    destruct (bitor_decode_total k v) as [[x Hx]|[e He]].
    + rewrite Hx. cbn [rrbind].
      destruct (bitor_field_spec k number (bitor_value k (Z.lor (bitor_in g k x) mask)) Hnum (bitor_value_u64 _ _)) as [HA _].
      rewrite HA. cbn [rrbind app]. eexists. split; [reflexivity | apply sim_refl].
    + rewrite He. cbn [rrbind]. eauto.
Qed.

(* every entry has a bit in the seen-set *)
Lemma fits_fuel : forall fuel r, (depth r <= fuel)%nat -> wf_rw r -> fits r.
Proof.
  induction fuel as [|fuel IH]; intros r Hd Hwf.
  { destruct r; cbn [depth] in Hd; lia. }
  assert (Hent : forall n es, wf_entries n es -> Forall (fun e => wf_rw (snd e)) es ->
            (forall i r', In (i, r') es -> (depth r' <= fuel)%nat) ->
            Forall (fun e => fst e < seen_bits n /\ fits (snd e)) es).
  { intros n es [Hsorted Hn] HF Hdep. apply Forall_forall. intros [i r'] Hin. cbn [fst snd]. split.
    - pose proof (sorted_from_bounds _ _ _ _ _ Hsorted Hin). pose proof (seen_bits_spec n ltac:(lia)). lia.
    - apply IH; [eapply Hdep; eauto|]. rewrite Forall_forall in HF. apply (HF (i, r') Hin). }
  destruct Hwf as [m Hm|rs HF|n es Hent' HF|number n es Hnum Hent' HF|g k mask number Hnum].
  - constructor.
  - constructor. apply Forall_forall. intros r' Hin. apply IH.
    + pose proof (depth_multi rs r' Hin). lia.
    + rewrite Forall_forall in HF. apply HF, Hin.
  - constructor. apply Hent; try assumption.
    intros i r' Hin. pose proof (depth_message n es i r' Hin). lia.
  - constructor. apply Hent; try assumption.
    intros i r' Hin. pose proof (depth_embedded number n es i r' Hin). lia.
  - constructor.
Qed.

Theorem fits_all : fits_all_statement.
Proof. intros r Hwf. apply (fits_fuel (depth r) r (le_n _) Hwf). Qed.

Theorem rewrite_refines : rewrite_refines_statement.
Proof.
  intros r out inp Hwf Hwfb Hsz. unfold spec_rewrite, Rewrite.
  pose proof (rewrite_refines_fuel (depth r) r (le_n _) Hwf (fits_all r Hwf) out inp Hwfb Hsz) as H.
  destruct (emit (depth r) r inp) as [o|].
  - destruct H as [o' [H1 [H2 _]]]. exists o'. split; assumption.
  - exact H.
Qed.

Theorem rewrite_no_panic : rewrite_no_panic_statement.
Proof.
  intros r out inp Hwf Hwfb Hsz.
  pose proof (rewrite_refines r out inp Hwf Hwfb Hsz) as H.
  destruct (spec_rewrite r inp).
  - destruct H as [o' [H _]]. rewrite H. split; discriminate.
  - destruct H as [e H]. rewrite H. split; discriminate.
Qed.


Definition sel (i : Z) (l : list field) : list field := filter (fun f => fnum f =? i) l.
Definition numbered (i : Z) (l : list field) : Prop := Forall (fun f => fnum f = i) l.
Definition chunk_ok (i : Z) (c : bytes) : Prop :=
  wfb c = true /\ exists cfs, fields_of c = ROk cfs /\ wf_fields cfs = true /\ numbered i cfs.

Lemma wfb_app : forall a b, wfb (a ++ b) = wfb a && wfb b.
Proof. intros. unfold wfb. apply forallb_app. Qed.
Lemma wf_fields_app : forall a b, wf_fields (a ++ b) = wf_fields a && wf_fields b.
Proof. intros. unfold wf_fields. apply forallb_app. Qed.
Lemma sel_app : forall i a b, sel i (a ++ b) = sel i a ++ sel i b.
Proof. intros. unfold sel. apply filter_app. Qed.
Lemma numbered_sel_eq : forall i l, numbered i l -> sel i l = l.
Proof.
  intros i l H. induction H as [|f l Hf Hl IH]; [reflexivity|].
  unfold sel in *. cbn [filter]. rewrite Hf, Z.eqb_refl, IH. reflexivity.
Qed.
Lemma numbered_sel_ne : forall i j l, numbered i l -> j <> i -> sel j l = [].
Proof.
  intros i j l H Hne. induction H as [|f l Hf Hl IH]; [reflexivity|].
  unfold sel in *. cbn [filter]. rewrite Hf. destruct (Z.eqb_spec i j); [congruence | exact IH].
Qed.
Lemma fields_of_nil : fields_of [] = ROk [].
Proof. reflexivity. Qed.
Lemma chunk_ok_nil : forall i, chunk_ok i [].
Proof. intro i. split; [reflexivity|]. exists []. repeat split. constructor. Qed.
Lemma chunk_ok_app : forall i a b, len (a ++ b) < 2 ^ 64 -> chunk_ok i a -> chunk_ok i b -> chunk_ok i (a ++ b).
Proof.
  intros i a b Hlen [Ha [afs [Ha1 [Ha2 Ha3]]]] [Hb [bfs [Hb1 [Hb2 Hb3]]]]. split.
  - rewrite wfb_app, Ha, Hb. reflexivity.
  - exists (afs ++ bfs). split; [apply fields_of_app; assumption|]. split.
    + rewrite wf_fields_app, Ha2, Hb2. reflexivity.
    + apply Forall_app. split; assumption.
Qed.
Lemma chunk_ok_field : forall f, wf_field f = true -> len (enc_field f) < 2 ^ 62 -> chunk_ok (fnum f) (enc_field f).
Proof.
  intros f Hwf Hlen. split; [apply wfb_enc_field, Hwf|]. exists [f].
  pose proof (fields_of_enc [f]) as H. cbn [enc_fields flat_map wf_fields forallb] in H.
  rewrite app_nil_r, Hwf in H. split; [apply H; [reflexivity | exact Hlen]|].
  split; [cbn; rewrite Hwf; reflexivity|]. constructor; [reflexivity | constructor].
Qed.

Lemma lookup_slot_ok : forall es i r, entries_ok es -> lookup es i = Some r -> slot_ok i r.
Proof.
  induction es as [|[j r'] es IH]; intros i r Hok H; [discriminate|].
  inversion Hok as [|? ? ? Hs Hrest]; subst. cbn [lookup] in H.
  destruct (Z.eqb_spec j i) as [->|]; [injection H as ->; exact Hs | eapply IH; eauto].
Qed.

Section Out.
  Variables (em : rewriter -> bytes -> option bytes) (n : Z) (es : list (Z * rewriter)).
  Hypothesis Hem : forall i r v c, In (i, r) es -> wfb v = true -> len v < 2 ^ 62 ->
    em r v = Some c -> len c < 2 ^ 62 -> chunk_ok i c.

  Definition body_c (i : Z) (r : rewriter) (seen : list Z) (fs ofs : list field) : Prop :=
    (mem i seen = true -> sel i ofs = []) /\
    (mem i seen = false -> mem i (map fnum fs) = false -> sel i ofs = []) /\
    (mem i seen = false -> mem i (map fnum fs) = true ->
       exists c cfs, em r (first_value i fs) = Some c /\ fields_of c = ROk cfs /\ sel i ofs = cfs).

  Lemma body_out : forall fs seen o, wf_fields fs = true -> spec_body em n es fs seen = Some o -> len o < 2 ^ 62 ->
    wfb o = true /\ exists ofs, fields_of o = ROk ofs /\ wf_fields ofs = true /\
      filter (untouched n es) ofs = filter (untouched n es) fs /\
      forall i r, tlookup n es i = Some r -> body_c i r seen fs ofs.
  Proof.
    induction fs as [|f fs IH]; intros seen o Hwf Hs Hlen.
    { cbn [spec_body] in Hs. injection Hs as <-. split; [reflexivity|]. exists []. repeat split; try reflexivity.
      cbn [map mem existsb]. discriminate. }
    cbn [wf_fields forallb] in Hwf. apply andb_prop in Hwf as [Hwff Hwfs]. fold (wf_fields fs) in Hwfs.
    cbn [spec_body] in Hs.
    destruct (tlookup n es (fnum f)) as [rf|] eqn:Ht.
    - assert (Hu : untouched n es f = false) by (unfold untouched; rewrite Ht; reflexivity).
      destruct (mem (fnum f) seen) eqn:Hm.
      + destruct (IH seen o Hwfs Hs Hlen) as [Hwo [ofs [H1 [H2 [H3 H4]]]]].
        split; [exact Hwo|]. exists ofs. split; [exact H1|]. split; [exact H2|]. split.
        * cbn [filter]. rewrite Hu. exact H3.
        * intros i r Hi. destruct (H4 i r Hi) as [C1 [C2 C3]]. unfold body_c. split; [exact C1|].
          cbn [map first_value]. rewrite mem_cons.
          destruct (Z.eqb_spec i (fnum f)) as [->|Hne].
          { split; intros Hms; rewrite Hm in Hms; discriminate. }
          replace (fnum f =? i) with false by lia. cbn [orb]. split; assumption.
      + destruct (em rf (fval f)) as [a|] eqn:Hema; cbn [obind] in Hs; [|discriminate].
        destruct (spec_body em n es fs (fnum f :: seen)) as [b|] eqn:Hb; cbn [obind] in Hs; [|discriminate].
        injection Hs as <-. rewrite len_app in Hlen.
        pose proof (len_nonneg _ a). pose proof (len_nonneg _ b).
        destruct (tlookup_In _ _ _ _ Ht) as [Hin _].
        assert (Hwfv : wfb (fval f) = true).
        { unfold wf_field in Hwff. destruct (wfb (fval f)); [reflexivity|]. rewrite !andb_false_r in Hwff. discriminate. }
        destruct (Hem _ _ _ _ Hin Hwfv (wf_field_len _ Hwff) Hema ltac:(lia)) as [Hwa [afs [A1 [A2 A3]]]].
        destruct (IH (fnum f :: seen) b Hwfs Hb ltac:(lia)) as [Hwb [bfs [B1 [B2 [B3 B4]]]]].
        split; [rewrite wfb_app, Hwa, Hwb; reflexivity|]. exists (afs ++ bfs).
        split; [apply fields_of_app; try assumption; rewrite len_app; lia|].
        split; [rewrite wf_fields_app, A2, B2; reflexivity|]. split.
        * rewrite filter_app. cbn [filter]. rewrite Hu. rewrite <- B3.
          replace (filter (untouched n es) afs) with (@nil field); [reflexivity|].
          symmetry. clear - A3 Ht. induction A3 as [|g l Hg Hl IHl]; [reflexivity|].
          cbn [filter]. unfold untouched at 1. rewrite Hg, Ht. exact IHl.
        * intros i r Hi. destruct (B4 i r Hi) as [C1 [C2 C3]]. unfold body_c. rewrite sel_app.
          cbn [map first_value]. rewrite mem_cons. rewrite mem_cons in C1, C2, C3.
          destruct (Z.eqb_spec i (fnum f)) as [->|Hne].
          { rewrite Z.eqb_refl. cbn [orb]. split; [intro Hms; congruence|]. split; [discriminate|].
            intros _ _. rewrite Ht in Hi. injection Hi as <-. exists a, afs. split; [exact Hema|]. split; [exact A1|].
            rewrite (numbered_sel_eq _ _ A3), (C1 eq_refl), app_nil_r. reflexivity. }
          replace (fnum f =? i) with false by lia. cbn [orb] in *.
          rewrite (numbered_sel_ne _ i _ A3 Hne). cbn [app]. split; [exact C1|]. split; assumption.
    - assert (Hu : untouched n es f = true) by (unfold untouched; rewrite Ht; reflexivity).
      destruct (spec_body em n es fs seen) as [b|] eqn:Hb; cbn [obind] in Hs; [|discriminate].
      injection Hs as <-. rewrite len_app in Hlen.
      pose proof (len_nonneg _ (enc_field f)). pose proof (len_nonneg _ b).
      destruct (chunk_ok_field f Hwff ltac:(lia)) as [Hwa [afs [A1 [A2 A3]]]].
      assert (afs = [f]) as ->.
      { pose proof (fields_of_enc [f]) as HE. cbn [enc_fields flat_map wf_fields forallb] in HE.
        rewrite app_nil_r, Hwff in HE. rewrite (HE eq_refl ltac:(lia)) in A1. injection A1 as <-. reflexivity. }
      destruct (IH seen b Hwfs Hb ltac:(lia)) as [Hwb [bfs [B1 [B2 [B3 B4]]]]].
      split; [rewrite wfb_app, Hwa, Hwb; reflexivity|]. exists ([f] ++ bfs).
      split; [apply fields_of_app; try assumption; rewrite len_app; lia|].
      split; [rewrite wf_fields_app, A2, B2; reflexivity|]. split.
      * cbn [app filter]. rewrite Hu, B3. reflexivity.
      * intros i r Hi. destruct (B4 i r Hi) as [C1 [C2 C3]].
        assert (Hne : i <> fnum f) by (intro; subst; congruence).
        unfold body_c. cbn [app map first_value]. rewrite mem_cons. unfold sel. cbn [filter]. fold (sel i bfs).
        replace (fnum f =? i) with false by lia. replace (i =? fnum f) with false by lia. cbn [orb].
        split; [exact C1|]. split; assumption.
  Qed.

  Lemma tail_out : forall es' lo present o,
    (forall i r, In (i, r) es' -> In (i, r) es) ->
    sorted_from lo es' n = true -> spec_tail em es' present = Some o -> len o < 2 ^ 62 ->
    wfb o = true /\ exists ofs, fields_of o = ROk ofs /\ wf_fields ofs = true /\
      (forall f, In f ofs -> exists r, In (fnum f, r) es') /\
      forall i,
        (mem i present = true -> sel i ofs = []) /\
        (lookup es' i = None -> sel i ofs = []) /\
        (mem i present = false -> forall r, lookup es' i = Some r ->
           exists c cfs, em r [] = Some c /\ fields_of c = ROk cfs /\ sel i ofs = cfs).
  Proof.
    induction es' as [|[j rj] es' IH]; intros lo present o Hsub Hsorted Hs Hlen.
    { cbn [spec_tail] in Hs. injection Hs as <-. split; [reflexivity|]. exists []. repeat split; try reflexivity.
      - intros f [].
      - discriminate. }
    cbn [sorted_from] in Hsorted. apply andb_prop in Hsorted as [Hs1 Hs2]. apply andb_prop in Hs1 as [Hlo Hjn].
    assert (Hsub' : forall i r, In (i, r) es' -> In (i, r) es) by (intros; apply Hsub; right; assumption).
    cbn [spec_tail] in Hs.
    destruct (mem j present) eqn:Hm.
    - destruct (IH (j + 1) present o Hsub' Hs2 Hs Hlen) as [Hwo [ofs [H1 [H2 [H3 H4]]]]].
      split; [exact Hwo|]. exists ofs. split; [exact H1|]. split; [exact H2|]. split.
      + intros f Hf. destruct (H3 f Hf) as [r Hr]. exists r. right. exact Hr.
      + intro i. destruct (H4 i) as [C1 [C2 C3]]. split; [exact C1|]. cbn [lookup].
        destruct (Z.eqb_spec j i) as [->|Hne].
        * split; [discriminate|]. intro Hmi. congruence.
        * split; assumption.
    - destruct (em rj []) as [a|] eqn:Hema; cbn [obind] in Hs; [|discriminate].
      destruct (spec_tail em es' present) as [b|] eqn:Hb; cbn [obind] in Hs; [|discriminate].
      injection Hs as <-. rewrite len_app in Hlen.
      pose proof (len_nonneg _ a). pose proof (len_nonneg _ b).
      destruct (Hem j rj [] a (Hsub _ _ (or_introl eq_refl)) eq_refl ltac:(cbn; lia) Hema ltac:(lia)) as [Hwa [afs [A1 [A2 A3]]]].
      destruct (IH (j + 1) present b Hsub' Hs2 Hb ltac:(lia)) as [Hwb [bfs [B1 [B2 [B3 B4]]]]].
      split; [rewrite wfb_app, Hwa, Hwb; reflexivity|]. exists (afs ++ bfs).
      split; [apply fields_of_app; try assumption; rewrite len_app; lia|].
      split; [rewrite wf_fields_app, A2, B2; reflexivity|]. split.
      + intros f Hf. apply in_app_or in Hf as [Hf|Hf].
        * exists rj. left. unfold numbered in A3. rewrite Forall_forall in A3. rewrite (A3 f Hf). reflexivity.
        * destruct (B3 f Hf) as [r Hr]. exists r. right. exact Hr.
      + intro i. destruct (B4 i) as [C1 [C2 C3]]. rewrite sel_app. cbn [lookup].
        destruct (Z.eqb_spec j i) as [->|Hne].
        * split; [intro; congruence|]. split; [discriminate|]. intros _ r Hr. injection Hr as <-.
          exists a, afs. split; [exact Hema|]. split; [exact A1|].
          rewrite (numbered_sel_eq _ _ A3).
          rewrite (proj1 (proj2 (B4 i)) (lookup_sorted_none es' (i + 1) n i Hs2 ltac:(lia))), app_nil_r. reflexivity.
        * rewrite (numbered_sel_ne _ i _ A3 ltac:(lia)). cbn [app]. split; [exact C1|]. split; assumption.
  Qed.

  Lemma first_value_absent : forall i fs, mem i (map fnum fs) = false -> first_value i fs = [].
  Proof.
    induction fs as [|f fs IH]; intro H; [reflexivity|].
    cbn [map] in H. rewrite mem_cons in H. cbn [first_value].
    destruct (Z.eqb_spec i (fnum f)) as [->|Hne]; [discriminate|].
    replace (fnum f =? i) with false by lia. apply IH. exact H.
  Qed.

  Lemma msg_out : forall fs o, sorted_from 0 es n = true -> wf_fields fs = true ->
    spec_msg em n es fs = Some o -> len o < 2 ^ 62 ->
    wfb o = true /\ exists ofs, fields_of o = ROk ofs /\ wf_fields ofs = true /\
      filter (untouched n es) ofs = filter (untouched n es) fs /\
      forall i r, In (i, r) es ->
        exists c cfs, em r (first_value i fs) = Some c /\ fields_of c = ROk cfs /\ sel i ofs = cfs.
  Proof.
    intros fs o Hsorted Hwf Hs Hlen. unfold spec_msg in Hs.
    destruct (spec_body em n es fs []) as [a|] eqn:Ha; cbn [obind] in Hs; [|discriminate].
    destruct (spec_tail em es (map fnum fs)) as [b|] eqn:Hb; cbn [obind] in Hs; [|discriminate].
    injection Hs as <-. rewrite len_app in Hlen. pose proof (len_nonneg _ a). pose proof (len_nonneg _ b).
    destruct (body_out fs [] a Hwf Ha ltac:(lia)) as [Hwa [afs [A1 [A2 [A3 A4]]]]].
    destruct (tail_out es 0 (map fnum fs) b (fun i r H => H) Hsorted Hb ltac:(lia)) as [Hwb [bfs [B1 [B2 [B3 B4]]]]].
    split; [rewrite wfb_app, Hwa, Hwb; reflexivity|]. exists (afs ++ bfs).
    split; [apply fields_of_app; try assumption; rewrite len_app; lia|].
    split; [rewrite wf_fields_app, A2, B2; reflexivity|]. split.
    - rewrite filter_app, A3.
      replace (filter (untouched n es) bfs) with (@nil field); [apply app_nil_r|].
      symmetry. clear - B3 Hsorted. induction bfs as [|g l IHl]; [reflexivity|].
      cbn [filter]. destruct (B3 g (or_introl eq_refl)) as [r Hr].
      unfold untouched at 1. rewrite (tlookup_sorted_In _ _ _ _ Hsorted Hr).
      apply IHl. intros f Hf. apply B3. right. exact Hf.
    - intros i r Hin. pose proof (tlookup_sorted_In _ _ _ _ Hsorted Hin) as Ht.
      pose proof (lookup_sorted_In _ _ _ _ _ Hsorted Hin) as Hl.
      destruct (A4 i r Ht) as [_ [C2 C3]]. destruct (B4 i) as [D1 [_ D3]]. rewrite sel_app.
      destruct (mem i (map fnum fs)) eqn:Hm.
      + destruct (C3 eq_refl eq_refl) as [c [cfs [E1 [E2 E3]]]]. exists c, cfs.
        split; [exact E1|]. split; [exact E2|]. rewrite E3, (D1 eq_refl), app_nil_r. reflexivity.
      + destruct (D3 eq_refl r Hl) as [c [cfs [E1 [E2 E3]]]]. exists c, cfs.
        rewrite (first_value_absent _ _ Hm). split; [exact E1|]. split; [exact E2|].
        rewrite (C2 eq_refl eq_refl), E3. reflexivity.
  Qed.
End Out.


Lemma entries_ok_In : forall es i r, entries_ok es -> In (i, r) es -> slot_ok i r.
Proof.
  induction es as [|[j r'] es IH]; intros i r Hok Hin; [destruct Hin|].
  inversion Hok as [|? ? ? Hs Hrest]; subst.
  destruct Hin as [Heq|Hin]; [injection Heq as -> ->; exact Hs | eapply IH; eauto].
Qed.

(* every regular slot emits a well-formed chunk of fields of its own number *)
Lemma emit_chunk_ok : forall fuel i r v c, wf_rw r -> slot_ok i r -> wfb v = true -> len v < 2 ^ 62 ->
  emit fuel r v = Some c -> len c < 2 ^ 62 -> chunk_ok i c.
Proof.
  induction fuel as [|fuel IH]; intros i r v c Hwf Hslot Hwfv Hszv He Hlen; [discriminate|].
  destruct Hslot as [i m fs Hwm Hfm Hnum | i rs Hall | i n es Hi Hok | i g k mask Hi].
  - cbn [emit] in He. injection He as <-. split; [exact Hwm|]. exists fs. split; [exact Hfm|]. split; [|exact Hnum].
    pose proof (fields_of_total m Hwm Hlen) as H. rewrite Hfm in H. exact H.
  - cbn [emit] in He. inversion Hwf as [|? HF| | |]; subst.
    clear Hwf. revert c He Hlen. induction rs as [|r' rs IHrs]; intros c He Hlen.
    + injection He as <-. apply chunk_ok_nil.
    + inversion Hall as [|? ? Hr' Hrest]; subst. inversion HF as [|? ? Hw' Hwrest]; subst.
      destruct (emit fuel r' v) as [a|] eqn:Ha; cbn [obind] in He; [|discriminate].
      match type of He with obind ?X _ = _ => destruct X as [b|] eqn:Hb end; cbn [obind] in He; [|discriminate].
      injection He as <-. rewrite len_app in Hlen. pose proof (len_nonneg _ a). pose proof (len_nonneg _ b).
      apply chunk_ok_app; [rewrite len_app; lia | |].
      * eapply IH; eauto; lia.
      * apply (IHrs Hrest Hwrest b eq_refl). lia.
  - cbn [emit] in He. inversion Hwf as [| | |? ? ? Hnum [Hsorted Hn] HF|]; subst.
    pose proof (fields_of_total v Hwfv Hszv) as Hft.
    destruct (fields_of v) as [fs|e| |]; try discriminate.
    destruct (spec_msg (emit fuel) n es fs) as [inner|] eqn:Hin; cbn [obind] in He; [|discriminate].
    injection He as <-.
    destruct (len inner =? 0) eqn:E0; [apply chunk_ok_nil|].
    unfold enc_field in Hlen. cbn [fnum fwt fval] in Hlen. rewrite !len_app in Hlen.
    pose proof (len_nonneg _ (varint (tag_of i 2))). pose proof (len_nonneg _ (if 2 =? 2 then varint (len inner) else [])).
    assert (Hli : len inner < 2 ^ 62) by lia.
    assert (Hem : forall i0 r0 v0 c0, In (i0, r0) es -> wfb v0 = true -> len v0 < 2 ^ 62 ->
              emit fuel r0 v0 = Some c0 -> len c0 < 2 ^ 62 -> chunk_ok i0 c0).
    { intros i0 r0 v0 c0 Hin0 Hw0 Hs0 He0 Hl0. apply (IH i0 r0 v0 c0); try assumption.
      - rewrite Forall_forall in HF. apply (HF (i0, r0) Hin0).
      - apply (entries_ok_In es i0 r0 Hok Hin0). }
    destruct (msg_out (emit fuel) n es Hem fs inner Hsorted Hft Hin Hli) as [Hwi _].
    assert (Hwff : wf_field (mkField i 2 inner) = true).
    { unfold wf_field. cbn [fnum fwt fval]. rewrite Hwi. change (2 =? 0) with false. change (2 =? 1) with false.
      change (2 =? 2) with true. cbv iota. lia. }
    apply (chunk_ok_field (mkField i 2 inner) Hwff).
    unfold enc_field. cbn [fnum fwt fval]. rewrite !len_app. lia.
  - cbn [emit] in He.
    destruct (bitor_decode k v) as [x|e| |]; try discriminate. injection He as <-.
    destruct (bitor_field_spec k i (bitor_value k (Z.lor (bitor_in g k x) mask)) Hi (bitor_value_u64 _ _)) as [_ Hwff].
    assert (Hnum : fnum (bitor_spec_field k i (bitor_value k (Z.lor (bitor_in g k x) mask))) = i) by reflexivity.
    rewrite <- Hnum at 1. apply (chunk_ok_field _ Hwff). exact Hlen.
Qed.

(* ---------- the fuel of emit ---------- *)
Lemma spec_body_ext : forall em1 em2 n es, (forall i r v, In (i, r) es -> em1 r v = em2 r v) ->
  forall fs seen, spec_body em1 n es fs seen = spec_body em2 n es fs seen.
Proof.
  intros em1 em2 n es Hext. induction fs as [|f fs IH]; intro seen; [reflexivity|].
  cbn [spec_body]. destruct (tlookup n es (fnum f)) as [r|] eqn:Ht.
  - destruct (tlookup_In _ _ _ _ Ht) as [Hin _]. rewrite (Hext _ _ (fval f) Hin), !IH. reflexivity.
  - rewrite IH. reflexivity.
Qed.
Lemma spec_tail_ext : forall em1 em2 es, (forall i r v, In (i, r) es -> em1 r v = em2 r v) ->
  forall present, spec_tail em1 es present = spec_tail em2 es present.
Proof.
  intros em1 em2 es. induction es as [|[i r] es IH]; intros Hext present; [reflexivity|].
  cbn [spec_tail]. rewrite (Hext i r [] (or_introl eq_refl)).
  rewrite (IH (fun i r v H => Hext i r v (or_intror H))). reflexivity.
Qed.
Lemma spec_msg_ext : forall em1 em2 n es fs, (forall i r v, In (i, r) es -> em1 r v = em2 r v) ->
  spec_msg em1 n es fs = spec_msg em2 n es fs.
Proof.
  intros. unfold spec_msg. rewrite (spec_body_ext em1 em2 n es H), (spec_tail_ext em1 em2 es H). reflexivity.
Qed.

Lemma emit_fuel_irrelevant : forall f1 f2 r v, (depth r <= f1)%nat -> (depth r <= f2)%nat ->
  emit f1 r v = emit f2 r v.
Proof.
  induction f1 as [|f1 IH]; intros f2 r v H1 H2.
  { destruct r; cbn [depth] in H1; lia. }
  destruct f2 as [|f2]. { destruct r; cbn [depth] in H2; lia. }
  destruct r as [m|rs|n es|number n es|g k mask number]; cbn [emit].
  - reflexivity.
  - assert (Hall : forall r', In r' rs -> emit f1 r' v = emit f2 r' v).
    { intros r' Hin. pose proof (depth_multi rs r' Hin). apply IH; lia. }
    clear H1 H2. induction rs as [|r' rs IHrs]; [reflexivity|].
    rewrite (Hall r' (or_introl eq_refl)). rewrite IHrs; [reflexivity|]. intros; apply Hall; right; assumption.
  - destruct (fields_of v); try reflexivity. apply spec_msg_ext.
    intros i r v0 Hin. pose proof (depth_message n es i r Hin). apply IH; lia.
  - destruct (fields_of v); try reflexivity.
    rewrite (spec_msg_ext (emit f1) (emit f2) n es a); [reflexivity|].
    intros i r v0 Hin. pose proof (depth_embedded number n es i r Hin). apply IH; lia.
  - reflexivity.
Qed.

(* ---------- the output of a regular message rewriter ---------- *)
Theorem rewrite_output : rewrite_output_statement.
Proof.
  intros n es inp fs o Hwf Hok Hwfb Hsz Hf Hs Hlen.
  inversion Hwf as [| |? ? [Hsorted Hn] HF| |]; subst.
  unfold spec_rewrite in Hs.
  remember (depth (RwMessage n es)) as d eqn:Hd. destruct d as [|fuel]; [discriminate|].
  cbn [emit] in Hs. rewrite Hf in Hs.
  pose proof (fields_of_total inp Hwfb Hsz) as Hft. rewrite Hf in Hft.
  assert (Hem : forall i0 r0 v0 c0, In (i0, r0) es -> wfb v0 = true -> len v0 < 2 ^ 62 ->
            emit fuel r0 v0 = Some c0 -> len c0 < 2 ^ 62 -> chunk_ok i0 c0).
  { intros i0 r0 v0 c0 Hin0 Hw0 Hs0 He0 Hl0. apply (emit_chunk_ok fuel i0 r0 v0 c0); try assumption.
    - rewrite Forall_forall in HF. apply (HF (i0, r0) Hin0).
    - apply (entries_ok_In es i0 r0 Hok Hin0). }
  destruct (msg_out (emit fuel) n es Hem fs o Hsorted Hft Hs Hlen) as [_ [ofs [H1 [H2 [H3 H4]]]]].
  exists ofs. split; [exact H1|]. split; [exact H2|]. split; [exact H3|].
  intros i r Hin. destruct (H4 i r Hin) as [c [cfs [E1 [E2 E3]]]]. exists c, cfs.
  split; [|split; assumption].
  rewrite <- E1. apply emit_fuel_irrelevant; [lia|].
  pose proof (depth_message n es i r Hin). lia.
Qed.

Theorem rewrite_message : rewrite_message_statement.
Proof.
  intros n es out inp fs res Hwf Hok Hwfb Hsz Hf Hres Hlen.
  pose proof (rewrite_refines (RwMessage n es) out inp Hwf Hwfb Hsz) as HR.
  destruct (spec_rewrite (RwMessage n es) inp) as [o|] eqn:Hs.
  - destruct HR as [o' [HR1 HR2]]. rewrite HR1 in Hres. injection Hres as <-.
    rewrite len_app in Hlen. pose proof (len_nonneg _ out). pose proof (len_nonneg _ o').
    assert (o' = o) as -> by (apply HR2; right; lia).
    destruct (rewrite_output n es inp fs o Hwf Hok Hwfb Hsz Hf Hs ltac:(lia)) as [ofs [H1 [H2 [H3 H4]]]].
    exists o, ofs. split; [reflexivity|]. split; [exact H1|]. split; [exact H2|]. split; [exact H3|].
    intros i r Hin. destruct (H4 i r Hin) as [c [cfs [E1 [E2 E3]]]]. exists c, cfs.
    split; [exact E1|]. split; assumption.
  - destruct HR as [e HR]. rewrite HR in Hres. discriminate.
Qed.

Theorem rewrite_canonical : rewrite_canonical_statement.
Proof. intros n es fs o ofs _ H. rewrite H. reflexivity. Qed.

Theorem emit_kinds : emit_kinds_statement.
Proof.
  intros fuel v. split; [reflexivity|]. split.
  - intros number n es. cbn [emit]. destruct (fields_of v); try reflexivity.
  - intros g k mask number u Hu. cbn [emit]. rewrite Hu. reflexivity.
Qed.
