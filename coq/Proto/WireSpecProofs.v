(* C12 proofs (WireSpecProofs): see Proto/WireSpec.v for the definitions and statements. *)
From Coq Require Import ZArith List Bool Lia Znumtheory.
From Verif Require Import Base.GoInt Proto.Ext Generated.ProtoGen Proto.Model Proto.PrimSpec Proto.PrimProofs Proto.Spec Proto.WireSpec.
Import ListNotations.
Open Scope Z_scope.

(* ================================================================== *)
(* Part 1: the record layer                                            *)
(* ================================================================== *)

Lemma leb_length : forall n v, length (leb n v) = S n.
Proof. induction n; intros; cbn [leb length]; [reflexivity | now rewrite IHn]. Qed.

Lemma pow128_succ : forall k : nat, 128 ^ (Z.of_nat (S k) + 1) = 128 * 128 ^ (Z.of_nat k + 1).
Proof.
  intros. replace (Z.of_nat (S k) + 1) with (Z.succ (Z.of_nat k + 1)) by lia.
  rewrite Z.pow_succ_r by lia. reflexivity.
Qed.

Lemma pow128_succ' : forall k : nat, 128 ^ Z.of_nat (S k) = 128 * 128 ^ Z.of_nat k.
Proof.
  intros. replace (Z.of_nat (S k)) with (Z.succ (Z.of_nat k)) by lia.
  rewrite Z.pow_succ_r by lia. reflexivity.
Qed.

Lemma get_varint_k_leb : forall k fuel v rest,
  (k < fuel)%nat -> 0 <= v < 128 ^ (Z.of_nat k + 1) ->
  (fuel = S k -> v / 128 ^ Z.of_nat k <= 1) ->
  get_varint_k fuel (leb k v ++ rest) = Some (v, Z.of_nat k + 1, rest).
Proof.
  induction k; intros fuel v rest Hf Hv Hlast.
  - destruct fuel as [|f]; [lia|]. cbn [leb app get_varint_k].
    change (128 ^ (Z.of_nat 0 + 1)) with 128 in Hv.
    replace (v <? 128) with true by (symmetry; apply Z.ltb_lt; lia).
    destruct f as [|f].
    + cbn [Nat.eqb andb]. specialize (Hlast eq_refl). change (128 ^ Z.of_nat 0) with 1 in Hlast.
      rewrite Z.div_1_r in Hlast.
      replace (1 <? v) with false by (symmetry; apply Z.ltb_ge; lia). reflexivity.
    + reflexivity.
  - destruct fuel as [|f]; [lia|]. cbn [leb app get_varint_k].
    assert (M : 0 <= v mod 128 < 128) by (apply Z.mod_pos_bound; lia).
    replace (v mod 128 + 128 <? 128) with false by (symmetry; apply Z.ltb_ge; lia).
    rewrite pow128_succ in Hv.
    rewrite (IHk f (v / 128) rest).
    + f_equal. f_equal. f_equal.
      * pose proof (Z.div_mod v 128). lia.
      * lia.
    + lia.
    + split; [apply Z.div_pos; lia | apply Z.div_lt_upper_bound; lia].
    + intros E. rewrite Z.div_div by (try lia; apply Z.pow_pos_nonneg; lia).
      rewrite <- pow128_succ'. apply Hlast. lia.
Qed.

Lemma get_varint_leb : forall k v rest, leb_ok k v ->
  get_varint (leb k v ++ rest) = Some (v, Z.of_nat k + 1, rest).
Proof.
  intros k v rest (Hk & Hv & H64). unfold get_varint. apply get_varint_k_leb; try lia.
  intros E. assert (k = 9%nat) by lia. subst k.
  change (128 ^ Z.of_nat 9) with 9223372036854775808.
  change (2 ^ 64) with 18446744073709551616 in H64.
  assert (v / 9223372036854775808 < 2) by (apply Z.div_lt_upper_bound; lia). lia.
Qed.

Lemma le_bytes_length : forall n v, length (le_bytes n v) = n.
Proof. induction n; intros; cbn [le_bytes length]; [reflexivity | now rewrite IHn]. Qed.

Lemma le_val_le_bytes : forall n v, 0 <= v < 256 ^ Z.of_nat n -> le_val (le_bytes n v) = v.
Proof.
  induction n; intros v Hv.
  - change (256 ^ Z.of_nat 0) with 1 in Hv. cbn. lia.
  - cbn [le_bytes le_val].
    replace (Z.of_nat (S n)) with (Z.succ (Z.of_nat n)) in Hv by lia.
    rewrite Z.pow_succ_r in Hv by lia.
    rewrite IHn.
    + pose proof (Z.div_mod v 256). lia.
    + split; [apply Z.div_pos; lia | apply Z.div_lt_upper_bound; lia].
Qed.

Lemma firstn_len_app : forall A (a b : list A), firstn (length a) (a ++ b) = a.
Proof. intros. rewrite firstn_app, Nat.sub_diag, firstn_all. cbn. apply app_nil_r. Qed.

Lemma skipn_len_app : forall A (a b : list A), skipn (length a) (a ++ b) = b.
Proof. intros. rewrite skipn_app, Nat.sub_diag, skipn_all. reflexivity. Qed.
Lemma firstn_n_app : forall A (a b : list A) n, length a = n -> firstn n (a ++ b) = a.
Proof. intros; subst; apply firstn_len_app. Qed.
Lemma skipn_n_app : forall A (a b : list A) n, length a = n -> skipn n (a ++ b) = b.
Proof. intros; subst; apply skipn_len_app. Qed.

(* the record a tree stands for *)
Definition wv_of (t : rtree) : wval :=
  match t with
  | RLeaf _ _ (LVarint z k) => WVarint z (Z.of_nat k + 1)
  | RLeaf _ _ (LFix64 z) => WFix64 z
  | RLeaf _ _ (LFix32 z) => WFix32 z
  | RLeaf _ _ (LLen s _) => WLen s
  | RNode _ _ _ sub => WLen (sers sub)
  end.
Definition rec_of (t : rtree) : Z * wval := (rt_num t, wv_of t).
Definition num_ok (t : rtree) : Prop := 1 <= rt_num t <= max_field_number.

Lemma ser_node : forall num kt kl sub,
  ser (RNode num kt kl sub) = leb kt (num * 8 + 2) ++ leb kl (len (sers sub)) ++ sers sub.
Proof. reflexivity. Qed.

Fixpoint pad_all (ts : list rtree) : Prop := match ts with [] => True | x :: r => pad_ok x /\ pad_all r end.
Lemma pad_ok_node : forall num kt kl sub,
  pad_ok (RNode num kt kl sub) = (leb_ok kt (num * 8 + 2) /\ leb_ok kl (len (sers sub)) /\ pad_all sub).
Proof. reflexivity. Qed.
Lemma pad_all_Forall : forall ts, pad_all ts <-> Forall pad_ok ts.
Proof.
  induction ts; cbn [pad_all]; split; intros H.
  - constructor.
  - exact I.
  - destruct H. constructor; [assumption | now apply IHts].
  - inversion H; subst. split; [assumption | now apply IHts].
Qed.

Lemma tag_split : forall num wt, 0 <= wt < 8 -> (num * 8 + wt) / 8 = num /\ (num * 8 + wt) mod 8 = wt.
Proof.
  intros. split.
  - rewrite Z.add_comm, Z.div_add by lia. rewrite Z.div_small by lia. lia.
  - rewrite Z.add_comm, Z.mod_add by lia. apply Z.mod_small. lia.
Qed.

Lemma num_check : forall num, 1 <= num <= max_field_number ->
  (num <? 1) || (max_field_number <? num) = false.
Proof.
  intros. apply orb_false_iff. split; apply Z.ltb_ge; lia.
Qed.

Lemma get_record_ser : forall tr rest, pad_ok tr -> num_ok tr ->
  get_record (ser tr ++ rest) = Some (rt_num tr, wv_of tr, rest).
Proof.
  intros tr rest Hp Hn. unfold num_ok in Hn.
  destruct tr as [num kt l | num kt kl sub].
  - cbn [rt_num] in Hn. cbn [pad_ok] in Hp. destruct Hp as [Ht Hl].
    cbn [ser rt_num wv_of]. rewrite <- app_assoc. unfold get_record.
    rewrite (get_varint_leb _ _ _ Ht).
    assert (W : 0 <= leaf_wt l < 8) by (destruct l; cbn; lia).
    destruct (tag_split num (leaf_wt l) W) as [E1 E2]. cbv zeta. rewrite E1, E2.
    rewrite (num_check _ Hn).
    destruct l as [z k | z | z | s k]; cbn [leaf_wt Z.eqb Pos.eqb].
    + rewrite (get_varint_leb _ _ _ Hl). reflexivity.
    + assert (L : length (le_bytes 8 z) = 8%nat) by apply le_bytes_length.
      replace (len (le_bytes 8 z ++ rest) <? 8) with false.
      2:{ symmetry. apply Z.ltb_ge. rewrite len_app. unfold len at 1. rewrite L.
          pose proof (len_nonneg _ rest). lia. }
      rewrite (firstn_n_app _ _ _ _ L), (skipn_n_app _ _ _ _ L).
      rewrite le_val_le_bytes; [reflexivity|]. change (256 ^ Z.of_nat 8) with (2 ^ 64). exact Hl.
    + assert (L : length (le_bytes 4 z) = 4%nat) by apply le_bytes_length.
      replace (len (le_bytes 4 z ++ rest) <? 4) with false.
      2:{ symmetry. apply Z.ltb_ge. rewrite len_app. unfold len at 1. rewrite L.
          pose proof (len_nonneg _ rest). lia. }
      rewrite (firstn_n_app _ _ _ _ L), (skipn_n_app _ _ _ _ L).
      rewrite le_val_le_bytes; [reflexivity|]. change (256 ^ Z.of_nat 4) with (2 ^ 32). exact Hl.
    + destruct Hl as [Hl _]. rewrite <- app_assoc. rewrite (get_varint_leb _ _ _ Hl).
      replace (len (s ++ rest) <? len s) with false.
      2:{ symmetry. apply Z.ltb_ge. rewrite len_app. pose proof (len_nonneg _ rest). lia. }
      unfold len. rewrite Nat2Z.id, firstn_len_app, skipn_len_app. reflexivity.
  - cbn [rt_num] in Hn. rewrite pad_ok_node in Hp. destruct Hp as (Ht & Hl & _).
    rewrite ser_node. cbn [rt_num wv_of]. rewrite <- !app_assoc. unfold get_record.
    rewrite (get_varint_leb _ _ _ Ht).
    destruct (tag_split num 2 ltac:(lia)) as [E1 E2]. cbv zeta. rewrite E1, E2.
    rewrite (num_check _ Hn). cbn [Z.eqb Pos.eqb].
    rewrite (get_varint_leb _ _ _ Hl).
    replace (len (sers sub ++ rest) <? len (sers sub)) with false.
    2:{ symmetry. apply Z.ltb_ge. rewrite len_app. pose proof (len_nonneg _ rest). lia. }
    unfold len. rewrite Nat2Z.id, firstn_len_app, skipn_len_app. reflexivity.
Qed.

Lemma ser_nonempty : forall tr, (1 <= length (ser tr))%nat.
Proof.
  destruct tr; [cbn [ser] | rewrite ser_node]; rewrite app_length, leb_length; lia.
Qed.

Lemma sers_length : forall ts, (length ts <= length (sers ts))%nat.
Proof.
  induction ts; cbn [sers length]; [lia|]. rewrite app_length. pose proof (ser_nonempty a). lia.
Qed.

Lemma parse_records_S : forall f b, b <> [] ->
  parse_records (S f) b =
  match get_record b with
  | None => None
  | Some (num, w, r) => match parse_records f r with Some l => Some ((num, w) :: l) | None => None end
  end.
Proof. intros f b H. destruct b; [congruence | reflexivity]. Qed.

Lemma parse_records_sers : forall ts fuel, Forall pad_ok ts -> Forall num_ok ts -> (length ts <= fuel)%nat ->
  parse_records fuel (sers ts) = Some (map rec_of ts).
Proof.
  induction ts as [|t ts IH]; intros fuel Hp Hn Hf.
  - destruct fuel; reflexivity.
  - inversion Hp; subst. inversion Hn; subst. cbn [sers map].
    destruct fuel as [|f]; [cbn in Hf; lia|].
    pose proof (ser_nonempty t) as L.
    rewrite parse_records_S.
    2:{ intro E. apply (f_equal (@length _)) in E. rewrite app_length in E. cbn in E. lia. }
    rewrite get_record_ser by assumption.
    rewrite IH; [reflexivity | assumption | assumption | cbn in Hf; lia].
Qed.

Lemma records_sers : forall ts, Forall pad_ok ts -> Forall num_ok ts ->
  records (sers ts) = Some (map rec_of ts).
Proof. intros. unfold records. apply parse_records_sers; try assumption. apply sers_length. Qed.

(* ================================================================== *)
(* Part 2: the decoder in named pieces                                 *)
(* ================================================================== *)
Lemma dec_value_msg : forall d fs p old,
  dec_value d (PMsg fs) (WLen p) old =
  match records p with
  | None => Bad
  | Some recs =>
      match merge_records d fs recs (match old with Some (PVMsg c) => c | _ => default_msg fs end) with
      | Some c' => Upd (PVMsg c') | None => Bad end
  end.
Proof.
  intros. cbn [dec_value]. destruct (records p) as [recs|]; [|reflexivity].
  generalize (match old with Some (PVMsg c) => c | _ => default_msg fs end). intros cur.
  match goal with |- match ?G recs cur with _ => _ end = _ => assert (E : forall recs cur, G recs cur = merge_records d fs recs cur) end.
  { clear. induction recs as [|[num w] rr IH]; intros cur; [reflexivity|].
    cbn [merge_records].
    assert (U : forall fs cur, upd_slot d fs cur num w = 
       (fix upd (fs : list pfield) (cur : list fval) {struct fs} : res3 (list fval) :=
                            match fs, cur with
                            | PField n lab ft :: fr, c :: cr =>
                                if n =? num then
                                  match dec_field d lab ft (dec_value d ft) w c with
                                  | Upd c' => Upd (c' :: cr)
                                  | Unk => Unk
                                  | Bad => Bad
                                  end
                                else
                                  match upd fr cr with
                                  | Upd cr' => Upd (c :: cr')
                                  | Unk => Unk
                                  | Bad => Bad
                                  end
                            | _, _ => Unk
                            end) fs cur).
    { clear. induction fs as [|[n lab ft] fr IH]; intros cur; [reflexivity|].
      destruct cur as [|c cr]; [reflexivity|]. cbn [upd_slot]. rewrite IH. reflexivity. }
    destruct (upd_slot d fs cur num w) eqn:EU; rewrite U in EU; simpl; rewrite EU; try apply IH; reflexivity. }
  rewrite E. reflexivity.
Qed.


Section LF.
Variable bp : bool.
Fixpoint lfields (fs : list pfield) (m : list fval) (occs : list (list rtree)) {struct fs} : Prop :=
  match fs, m, occs with
  | [], [], [] => True
  | PField n lab ft :: fr, c :: mr, oc :: ocr => legal_field bp n lab ft (legal_msg bp ft) c oc /\ lfields fr mr ocr
  | _, _, _ => False
  end.
End LF.
Lemma legal_msg_eq : forall bp fs m trees,
  legal_msg bp (PMsg fs) (PVMsg m) trees =
  exists occs unk, Forall (unknown_rec fs) unk /\ Interleave (unk :: occs) trees /\ lfields bp fs m occs.
Proof. reflexivity. Qed.

Definition slot_wf (lab : plabel) (ft : ptype) (c : fval) : bool :=
  match lab, c with
  | LOpt, FAbsent => true
  | LOpt, FOne v => msg_wf ft v
  | LRep, FRep vs => forallb (msg_wf ft) vs
  | LMap k, FMapv es => forallb (fun kv => scalar_wf k (fst kv) && msg_wf ft (snd kv)) es && distinct_keys es
  | _, _ => false
  end.
Fixpoint wf_fields (fs : list pfield) (m : list fval) {struct fs} : bool :=
  match fs, m with
  | [], [] => true
  | PField n lab ft :: fr, c :: mr => slot_wf lab ft c && wf_fields fr mr
  | _, _ => false
  end.
Lemma msg_wf_eq : forall fs m, msg_wf (PMsg fs) (PVMsg m) = wf_fields fs m.
Proof. reflexivity. Qed.

Fixpoint desc_fields (fs : list pfield) : bool :=
  match fs with
  | [] => true
  | PField n lab ft :: fr =>
      (1 <=? n) && (n <=? max_field_number) && desc_wf ft &&
      (match lab with LMap k => key_ok k | _ => true end) && desc_fields fr
  end.
Lemma desc_wf_eq : forall fs, desc_wf (PMsg fs) = distinct (map pf_num fs) && desc_fields fs.
Proof. reflexivity. Qed.

Section PInd.
  Variable P : ptype -> Prop.
  Hypothesis Hs : forall s, P (PSc s).
  Hypothesis Hm : forall fs, Forall (fun f => P (pf_ty f)) fs -> P (PMsg fs).
  Fixpoint ptype_ind' (t : ptype) : P t :=
    match t with
    | PSc s => Hs s
    | PMsg fs =>
        Hm fs ((fix go (fs : list pfield) : Forall (fun f => P (pf_ty f)) fs :=
                  match fs with
                  | [] => Forall_nil _
                  | f :: r => Forall_cons f (match f as f0 return P (pf_ty f0) with PField _ _ t' => ptype_ind' t' end) (go r)
                  end) fs)
    end.
End PInd.

(* ================================================================== *)
(* Part 3: scalars                                                     *)
(* ================================================================== *)
Definition dok (d : dialect) (bp : bool) : Prop := d = std \/ d = pkgd \/ (d = pkgd_old /\ bp = false).

Lemma s64_w64 : forall z, s64 (w64 z) = s64 z.
Proof. intros. unfold s64, w64. rewrite Z.mod_mod by (intro E; discriminate E). reflexivity. Qed.
Lemma w32_w64 : forall z, w32 (w64 z) = w32 z.
Proof.
  intros. unfold w32, w64. symmetry. apply Zmod_div_mod; try reflexivity.
  exists (2 ^ 32). reflexivity.
Qed.
Lemma s32_w64 : forall z, s32 (w64 z) = s32 z.
Proof. intros. unfold s32. rewrite w32_w64. reflexivity. Qed.
Lemma s32_w32 : forall z, s32 (w32 z) = s32 z.
Proof. intros. unfold s32, w32. rewrite Z.mod_mod by (intro E; discriminate E). reflexivity. Qed.

Lemma zigzag_range32 : forall z, - 2 ^ 31 <= z < 2 ^ 31 -> 0 <= zigzag z < 2 ^ 32.
Proof.
  intros z H. unfold zigzag. change (2 ^ 31) with 2147483648 in H. change (2 ^ 32) with 4294967296.
  destruct (Z.leb_spec 0 z); lia.
Qed.

Ltac boolp :=
  repeat match goal with
  | H : _ && _ = true |- _ => apply andb_true_iff in H; destruct H
  | H : (_ <=? _) = true |- _ => apply Z.leb_le in H
  | H : (_ <? _) = true |- _ => apply Z.ltb_lt in H
  end.

Lemma dec_scalar_leaf : forall d bp s v k n kt, dok d bp -> scalar_wf s v = true -> kok bp s k ->
  dec_scalar d s (wv_of (RLeaf n kt (leaf_of s v k))) = Upd v.
Proof.
  intros d bp s v k n kt Hd Hwf Hk.
  assert (S32 : strict_32 d && false = false) by apply andb_false_r.
  destruct s; destruct v as [z|b|bs|sl]; try discriminate Hwf;
    cbn [scalar_wf] in Hwf; unfold in_i32 in Hwf; boolp;
    cbn [leaf_of wv_of dec_scalar].
  - (* int32 *)
    rewrite s64_w64, s32_w64, s64_small, s32_small by (change (2 ^ 63) with (2 ^ 31 * 2 ^ 32); lia).
    unfold in_i32. replace (- 2 ^ 31 <=? z) with true by (symmetry; apply Z.leb_le; lia).
    replace (z <? 2 ^ 31) with true by (symmetry; apply Z.ltb_lt; lia).
    cbn [andb negb]. rewrite S32. reflexivity.
  - rewrite s64_w64, s64_small by lia. reflexivity.
  - replace (z <? 2 ^ 32) with true by (symmetry; apply Z.ltb_lt; lia).
    cbn [negb]. rewrite S32, w32_small by lia. reflexivity.
  - reflexivity.
  - pose proof (zigzag_range32 z ltac:(lia)).
    replace (zigzag z <? 2 ^ 32) with true by (symmetry; apply Z.ltb_lt; lia).
    cbn [negb]. rewrite S32, w32_small, unzigzag_zigzag by lia. reflexivity.
  - rewrite unzigzag_zigzag. reflexivity.
  - (* bool *)
    assert (E : strict_bool d && negb (Z.of_nat k + 1 =? 1) = false).
    { destruct Hd as [-> | [-> | [-> ->]]]; [reflexivity|reflexivity|].
      destruct Hk as [Hk | [Hk | Hk]]; [discriminate | congruence | subst k; reflexivity]. }
    rewrite E. destruct b; reflexivity.
  - reflexivity.
  - reflexivity.
  - rewrite s32_w32, s32_small by lia. reflexivity.
  - rewrite s64_w64, s64_small by lia. reflexivity.
  - reflexivity.
  - reflexivity.
  - reflexivity.
  - reflexivity.
Qed.

(* ================================================================== *)
(* Part 4: interleavings                                               *)
(* ================================================================== *)

Lemma Interleave_Forall : forall A (P : A -> Prop) ls out, Interleave ls out ->
  (Forall P out <-> Forall (Forall P) ls).
Proof.
  intros A P ls out H. induction H as [ls H | pre x l post out H IH].
  - split; intros _; [|constructor].
    induction H; constructor; [subst; constructor | assumption].
  - split; intros F.
    + inversion F; subst. apply IH in H3. apply Forall_app in H3. destruct H3 as [F1 F2].
      inversion F2; subst. apply Forall_app. split; [assumption|]. constructor; [|assumption].
      constructor; assumption.
    + apply Forall_app in F. destruct F as [F1 F2]. inversion F2; subst. inversion H2; subst.
      constructor; [assumption|]. apply IH. apply Forall_app. split; [assumption|]. constructor; assumption.
Qed.

Fixpoint run_field (d : dialect) (lab : plabel) (ft : ptype) (oc : list rtree) (c : fval) : option fval :=
  match oc with
  | [] => Some c
  | tr :: r =>
      match dec_field d lab ft (dec_value d ft) (wv_of tr) c with
      | Upd c' => run_field d lab ft r c'
      | _ => None
      end
  end.

Fixpoint runs (d : dialect) (fs : list pfield) (occs : list (list rtree)) (cur fin : list fval) {struct fs} : Prop :=
  match fs, occs, cur, fin with
  | [], [], [], [] => True
  | PField n lab ft :: fr, oc :: ocr, c :: cr, x :: xr =>
      run_field d lab ft oc c = Some x /\ Forall (fun t => rt_num t = n) oc /\ runs d fr ocr cr xr
  | _, _, _, _ => False
  end.

Lemma upd_slot_unknown : forall d fs cur num w,
  existsb (Z.eqb num) (map pf_num fs) = false -> upd_slot d fs cur num w = Unk.
Proof.
  induction fs as [|[n lab ft] fr IH]; intros cur num w H; [reflexivity|].
  destruct cur as [|c cr]; [reflexivity|]. cbn [map pf_num existsb] in H.
  apply orb_false_iff in H. destruct H as [H1 H2]. cbn [upd_slot].
  rewrite Z.eqb_sym, H1. rewrite IH by assumption. reflexivity.
Qed.

Lemma existsb_eqb_In : forall x l, existsb (Z.eqb x) l = false -> ~ In x l.
Proof.
  intros x l H I. assert (existsb (Z.eqb x) l = true); [|congruence].
  apply existsb_exists. exists x. split; [assumption | apply Z.eqb_refl].
Qed.

Lemma upd_slot_runs : forall d pre x l post fs cur fin,
  distinct (map pf_num fs) = true -> runs d fs (pre ++ (x :: l) :: post) cur fin ->
  exists cur', upd_slot d fs cur (rt_num x) (wv_of x) = Upd cur' /\ runs d fs (pre ++ l :: post) cur' fin /\
               In (rt_num x) (map pf_num fs).
Proof.
  induction pre as [|p pre IH]; intros x l post fs cur fin Hd Hr.
  - destruct fs as [|[n lab ft] fr]; [destruct cur, fin; contradiction|].
    destruct cur as [|c cr]; [contradiction|]. destruct fin as [|y yr]; [contradiction|].
    cbn [app runs] in Hr. destruct Hr as (R1 & R2 & R3). inversion R2; subst.
    cbn [run_field] in R1.
    destruct (dec_field d lab ft (dec_value d ft) (wv_of x) c) as [c'| |] eqn:E; try discriminate R1.
    exists (c' :: cr). cbn [upd_slot]. rewrite Z.eqb_refl, E. split; [reflexivity|]. split.
    + cbn [app runs]. auto.
    + left. reflexivity.
  - destruct fs as [|[n lab ft] fr]; [destruct cur, fin; contradiction|].
    destruct cur as [|c cr]; [contradiction|]. destruct fin as [|y yr]; [contradiction|].
    cbn [app runs] in Hr. destruct Hr as (R1 & R2 & R3).
    cbn [map pf_num distinct] in Hd. apply andb_true_iff in Hd. destruct Hd as [D1 D2].
    destruct (IH x l post fr cr yr D2 R3) as (cr' & U & R' & I).
    exists (c :: cr'). cbn [upd_slot].
    replace (n =? rt_num x) with false.
    2:{ symmetry. apply Z.eqb_neq. intros ->. apply negb_true_iff in D1.
        apply existsb_eqb_In in D1. contradiction. }
    rewrite U. split; [reflexivity|]. split.
    + cbn [app runs]. auto.
    + right. assumption.
Qed.

Lemma runs_nil : forall d fs occs cur fin, Forall (fun l => l = []) occs -> runs d fs occs cur fin -> cur = fin.
Proof.
  induction fs as [|[n lab ft] fr IH]; intros occs cur fin F R.
  - destruct occs, cur, fin; try contradiction. reflexivity.
  - destruct occs as [|oc ocr]; [contradiction|]. destruct cur as [|c cr]; [contradiction|].
    destruct fin as [|y yr]; [contradiction|]. cbn [runs] in R. destruct R as (R1 & _ & R3).
    inversion F; subst. cbn in R1. inversion R1; subst. f_equal. eapply IH; eassumption.
Qed.

Lemma merge_interleave : forall d fs, distinct (map pf_num fs) = true ->
  forall ls trees, Interleave ls trees ->
  forall unk occs cur fin, ls = unk :: occs ->
    Forall (fun t => existsb (Z.eqb (rt_num t)) (map pf_num fs) = false) unk ->
    runs d fs occs cur fin ->
    merge_records d fs (map rec_of trees) cur = Some fin.
Proof.
  intros d fs Hd ls trees H. induction H as [ls H | pre x l post out H IH]; intros unk occs cur fin E U R.
  - subst ls. inversion H; subst. cbn. f_equal. eapply runs_nil; eassumption.
  - destruct pre as [|p pre]; cbn [app] in E; injection E as E1 E2.
    + subst unk occs. inversion U; subst. cbn [map rec_of merge_records].
      rewrite upd_slot_unknown by assumption. apply (IH l post); [reflexivity | assumption | assumption].
    + subst p occs. destruct (upd_slot_runs d pre x l post fs cur fin Hd R) as (cur' & U1 & R' & _).
      cbn [map rec_of merge_records]. rewrite U1.
      apply (IH unk (pre ++ l :: post)); [reflexivity | assumption | assumption].
Qed.

Lemma merge_records_app : forall d fs a b cur,
  merge_records d fs (a ++ b) cur =
  match merge_records d fs a cur with Some c => merge_records d fs b c | None => None end.
Proof.
  induction a as [|[num w] a IH]; intros b cur; [reflexivity|].
  cbn [app merge_records]. destruct (upd_slot d fs cur num w); try apply IH. reflexivity.
Qed.

(* a singular value: the fold of dec_value over its occurrences *)
Fixpoint run_single (d : dialect) (ft : ptype) (oc : list rtree) (old : option pval) : option (option pval) :=
  match oc with
  | [] => Some old
  | tr :: r =>
      match dec_value d ft (wv_of tr) old with
      | Upd v => run_single d ft r (Some v)
      | _ => None
      end
  end.

Lemma entry_interleave : forall d k ft ls sub, Interleave ls sub ->
  forall ock ocv ok ov ok' ov', ls = [ock; ocv] ->
    Forall (fun t => rt_num t = 1) ock -> Forall (fun t => rt_num t = 2) ocv ->
    run_single d (PSc k) ock ok = Some ok' -> run_single d ft ocv ov = Some ov' ->
    entry_fold d k (dec_value d ft) (map rec_of sub) ok ov = Some (ok', ov').
Proof.
  intros d k ft ls sub H. induction H as [ls H | pre x l post out H IH]; intros ock ocv ok ov ok' ov' E F1 F2 R1 R2.
  - subst ls. inversion H; subst. inversion H3; subst. cbn in R1, R2. inversion R1; inversion R2; subst. reflexivity.
  - destruct pre as [|p pre]; cbn [app] in E.
    + injection E as E1 E2. subst ock post. inversion F1; subst.
      cbn [map rec_of entry_fold]. rewrite H2. cbn [Z.eqb Pos.eqb].
      cbn [run_single dec_value] in R1.
      destruct (dec_scalar d k (wv_of x)) as [v| |]; try discriminate R1.
      apply (IH l ocv); auto.
    + injection E as E1 E2. subst p. destruct pre as [|q pre]; cbn [app] in E2.
      * injection E2 as E2 E3. subst ocv post. inversion F2; subst.
        cbn [map rec_of entry_fold]. rewrite H2. cbn [Z.eqb Pos.eqb].
        cbn [run_single] in R2.
        destruct (dec_value d ft (wv_of x) ov) as [v| |]; try discriminate R2.
        apply (IH ock l); auto.
      * injection E2 as E2 E3. destruct pre; discriminate E3.
Qed.

(* ================================================================== *)
(* Part 5: one field                                                   *)
(* ================================================================== *)

Lemma legal_single_nums : forall bp n ft lm fv oc,
  legal_single bp n ft lm fv oc -> Forall (fun t => rt_num t = n) oc.
Proof.
  intros bp n ft lm fv oc H. destruct fv as [|v|vs|es]; cbn [legal_single] in H; try contradiction.
  - subst. constructor.
  - destruct ft as [s|fs].
    + destruct H as (gs & kt & k & -> & _ & F). apply Forall_app. split.
      * eapply Forall_impl; [|exact F]. intros g (gv & gkt & gk & _ & _ & ->). reflexivity.
      * constructor; [reflexivity | constructor].
    + destruct H as (parts & _ & -> & _). apply Forall_forall. intros t I.
      apply in_map_iff in I. destruct I as (p & <- & _). reflexivity.
Qed.

Lemma legal_field_nums : forall bp n lab ft lm fv oc,
  legal_field bp n lab ft lm fv oc -> Forall (fun t => rt_num t = n) oc.
Proof.
  intros bp n lab ft lm fv oc H. destruct lab as [| |k]; cbn [legal_field] in H.
  - eapply legal_single_nums; eassumption.
  - destruct fv; try contradiction. induction H; constructor; [|assumption].
    unfold legal_elem in H. destruct ft.
    + destruct H as (kt & k & -> & _). reflexivity.
    + destruct H as (kt & kl & sub & -> & _). reflexivity.
  - destruct fv; try contradiction. induction H; constructor; [|assumption].
    destruct H as (kt & kl & sub & ock & ocv & -> & _). reflexivity.
Qed.

Lemma pval_eqb_sym : forall a b, pval_eqb a b = pval_eqb b a.
Proof.
  assert (B : forall a b, bytes_eqb a b = bytes_eqb b a).
  { induction a; destruct b; cbn; try reflexivity. rewrite Z.eqb_sym, IHa. reflexivity. }
  destruct a, b; cbn; try reflexivity;
    first [apply Z.eqb_sym | apply B | repeat match goal with b : bool |- _ => destruct b end; reflexivity].
Qed.

Lemma map_set_fresh : forall es k v,
  existsb (fun kv => pval_eqb (fst kv) k) es = false -> map_set es k v = es ++ [(k, v)].
Proof.
  induction es as [|[k' v'] es IH]; intros k v H; [reflexivity|].
  cbn [existsb fst] in H. apply orb_false_iff in H. destruct H as [H1 H2].
  cbn [map_set app]. rewrite H1, IH by assumption. reflexivity.
Qed.

Lemma distinct_keys_fresh : forall es0 k v es,
  distinct_keys (es0 ++ (k, v) :: es) = true -> existsb (fun kv => pval_eqb (fst kv) k) es0 = false.
Proof.
  induction es0 as [|[k0 v0] es0 IH]; intros k v es H; [reflexivity|].
  cbn [app distinct_keys] in H. apply andb_true_iff in H. destruct H as [H1 H2].
  cbn [existsb fst]. rewrite (IH _ _ _ H2), orb_false_r.
  apply negb_true_iff in H1. rewrite existsb_app in H1. apply orb_false_iff in H1. destruct H1 as [_ H1].
  cbn [existsb fst] in H1. apply orb_false_iff in H1. destruct H1 as [H1 _].
  rewrite pval_eqb_sym. exact H1.
Qed.

Lemma sers_nonempty : forall sub, sub <> [] -> (len (sers sub) =? 0) = false.
Proof.
  intros sub H. apply Z.eqb_neq. pose proof (sers_length sub). destruct sub; [congruence|].
  cbn [length] in H0. unfold len. lia.
Qed.

Lemma dec_value_none : forall d fs w,
  dec_value d (PMsg fs) w None = dec_value d (PMsg fs) w (Some (PVMsg (default_msg fs))).
Proof. intros. destruct w; reflexivity. Qed.

Section Fields.
Variables (d : dialect) (bp : bool).
Hypothesis Hd : dok d bp.

Definition Q_single (ft : ptype) : Prop :=
  desc_wf ft = true -> forall n v oc, msg_wf ft v = true ->
    legal_single bp n ft (legal_msg bp ft) (FOne v) oc -> Forall pad_ok oc ->
    run_single d ft oc None = Some (Some v).

Definition P_msg (fs : list pfield) : Prop :=
  desc_wf (PMsg fs) = true -> forall m trees, wf_fields fs m = true ->
    legal_msg bp (PMsg fs) (PVMsg m) trees -> Forall pad_ok trees ->
    merge_records d fs (map rec_of trees) (default_msg fs) = Some m /\ Forall num_ok trees.

Lemma single_scalar : forall s lm n v oc, scalar_wf s v = true ->
  legal_single bp n (PSc s) lm (FOne v) oc -> forall old, run_single d (PSc s) oc old = Some (Some v).
Proof.
  intros s lm n v oc Hwf H. cbn [legal_single] in H. destruct H as (gs & kt & k & -> & Hk & F).
  induction F as [|g gs Hg F IH]; intros old.
  - cbn [app run_single dec_value]. rewrite (dec_scalar_leaf d bp) by assumption. reflexivity.
  - destruct Hg as (gv & gkt & gk & Gwf & Gk & ->). cbn [app run_single dec_value].
    rewrite (dec_scalar_leaf d bp) by assumption. apply IH.
Qed.

Lemma Q_scalar : forall s, Q_single (PSc s).
Proof. intros s _ n v oc Hwf H _. eapply single_scalar; eassumption. Qed.

Lemma run_single_parts : forall fs n parts cur m,
  Forall (fun p => Forall pad_ok (snd p) /\ Forall num_ok (snd p)) parts ->
  merge_records d fs (map rec_of (concat (map snd parts))) cur = Some m ->
  run_single d (PMsg fs) (map (fun p => RNode n (fst (fst p)) (snd (fst p)) (snd p)) parts) (Some (PVMsg cur)) =
  Some (Some (PVMsg m)).
Proof.
  induction parts as [|[[kt kl] sub] parts IH]; intros cur m F M.
  - cbn in M. inversion M; subst. reflexivity.
  - inversion F; subst. destruct H1 as [Hp Hn]. cbn [snd] in Hp, Hn.
    cbn [map concat snd fst] in *. rewrite map_app, merge_records_app in M.
    destruct (merge_records d fs (map rec_of sub) cur) as [c1|] eqn:E; [|discriminate M].
    cbn [run_single wv_of]. rewrite dec_value_msg, records_sers, E by assumption.
    apply IH; assumption.
Qed.

Lemma Q_of_P : forall fs, P_msg fs -> Q_single (PMsg fs).
Proof.
  intros fs HP Hdesc n v oc Hwf H Hp.
  destruct v as [z|b|s|m]; try discriminate Hwf. rewrite msg_wf_eq in Hwf.
  cbn [legal_single] in H. destruct H as (parts & Hne & -> & Hl).
  assert (F : Forall (fun p => Forall pad_ok (snd p)) parts).
  { apply Forall_forall. intros p I. rewrite Forall_forall in Hp.
    specialize (Hp (RNode n (fst (fst p)) (snd (fst p)) (snd p))).
    rewrite pad_ok_node in Hp. apply pad_all_Forall. apply Hp. apply in_map_iff. exists p. auto. }
  assert (Fc : Forall pad_ok (concat (map snd parts))).
  { apply Forall_concat. apply Forall_map. exact F. }
  destruct (HP Hdesc m _ Hwf Hl Fc) as [M N].
  assert (F2 : Forall (fun p => Forall pad_ok (snd p) /\ Forall num_ok (snd p)) parts).
  { apply Forall_forall. intros p I. split; [rewrite Forall_forall in F; auto|].
    apply Forall_forall. intros t It. rewrite Forall_forall in N. apply N.
    apply in_concat. exists (snd p). split; [apply in_map; assumption | assumption]. }
  destruct parts as [|p parts]; [congruence|].
  cbn [map run_single]. rewrite dec_value_none.
  exact (run_single_parts fs n (p :: parts) _ m F2 M).
Qed.

Lemma run_single_some : forall ft oc a, run_single d ft oc (Some a) <> Some None.
Proof.
  induction oc as [|tr r IH]; intros a; cbn [run_single]; [discriminate|].
  destruct (dec_value d ft (wv_of tr) (Some a)); try discriminate. apply IH.
Qed.

Lemma run_field_opt : forall ft oc c,
  run_field d LOpt ft oc c =
  match run_single d ft oc (match c with FOne v => Some v | _ => None end) with
  | Some (Some v) => Some (FOne v)
  | Some None => Some c
  | None => None
  end.
Proof.
  induction oc as [|tr r IH]; intros c.
  - cbn. destruct c; reflexivity.
  - cbn [run_field run_single dec_field].
    destruct (dec_value d ft (wv_of tr) match c with FOne v => Some v | _ => None end); try reflexivity.
    rewrite IH. pose proof (run_single_some ft r a) as N.
    destruct (run_single d ft r (Some a)) as [[v|]|]; try reflexivity. congruence.
Qed.

Lemma legal_elem_single : forall n ft lm v tr,
  legal_elem bp n ft lm v tr -> legal_single bp n ft lm (FOne v) [tr].
Proof.
  intros n ft lm v tr H. unfold legal_elem in H. cbn [legal_single]. destruct ft as [s|fs].
  - destruct H as (kt & k & -> & Hk). exists [], kt, k. split; [reflexivity|]. split; [assumption | constructor].
  - destruct H as (kt & kl & sub & -> & H). exists [(kt, kl, sub)]. split; [discriminate|].
    split; [reflexivity|]. cbn. rewrite app_nil_r. exact H.
Qed.

Lemma legal_elem_nopack : forall n ft lm v tr,
  legal_elem bp n ft lm v tr -> msg_wf ft v = true ->
  packable ft = None \/ forall p, wv_of tr <> WLen p.
Proof.
  intros n ft lm v tr H Hwf. unfold legal_elem in H. destruct ft as [s|fs]; [|left; reflexivity].
  destruct H as (kt & k & -> & _). cbn [msg_wf] in Hwf.
  destruct s; try (left; reflexivity); right; intros p;
    destruct v; try discriminate Hwf; cbn; discriminate.
Qed.

Lemma dec_field_rep_nopack : forall ft dv w c,
  (packable ft = None \/ forall p, w <> WLen p) ->
  dec_field d LRep ft dv w c =
  match dv w None with
  | Upd v => Upd (FRep ((match c with FRep vs => vs | _ => [] end) ++ [v]))
  | Unk => Unk
  | Bad => Bad
  end.
Proof.
  intros ft dv w c H. unfold dec_field. destruct (packable ft) as [s|]; [|reflexivity].
  destruct w; try reflexivity. destruct H as [H|H]; [discriminate | exfalso; eapply H; reflexivity].
Qed.

Lemma single_one : forall ft tr v, run_single d ft [tr] None = Some (Some v) -> dec_value d ft (wv_of tr) None = Upd v.
Proof.
  intros ft tr v H. cbn [run_single] in H. destruct (dec_value d ft (wv_of tr) None); inversion H. reflexivity.
Qed.

Lemma rep_run : forall n ft, Q_single ft -> desc_wf ft = true ->
  forall vs oc, Forall2 (legal_elem bp n ft (legal_msg bp ft)) vs oc ->
  forallb (msg_wf ft) vs = true -> Forall pad_ok oc ->
  forall vs0, run_field d LRep ft oc (FRep vs0) = Some (FRep (vs0 ++ vs)).
Proof.
  intros n ft HQ Hdesc vs oc F. induction F as [|v tr vs oc H F IH]; intros Hwf Hp vs0.
  - cbn. rewrite app_nil_r. reflexivity.
  - cbn [forallb] in Hwf. apply andb_true_iff in Hwf. destruct Hwf as [W1 W2].
    apply Forall_cons_iff in Hp. destruct Hp as [Hp1 Hp2].
    cbn [run_field]. rewrite dec_field_rep_nopack by (eapply legal_elem_nopack; eassumption).
    rewrite (single_one ft tr v).
    2:{ apply (HQ Hdesc n); [assumption | apply legal_elem_single; assumption | constructor; [assumption | constructor]]. }
    rewrite IH by assumption. rewrite <- app_assoc. reflexivity.
Qed.

Lemma map_run : forall n k ft, Q_single ft -> desc_wf ft = true ->
  forall es oc,
  Forall2 (fun kv tr => exists kt kl sub ock ocv, tr = RNode n kt kl sub /\
             legal_single bp 1 (PSc k) (fun _ _ => False) (FOne (fst kv)) ock /\
             legal_single bp 2 ft (legal_msg bp ft) (FOne (snd kv)) ocv /\
             Interleave [ock; ocv] sub) es oc ->
  forallb (fun kv => scalar_wf k (fst kv) && msg_wf ft (snd kv)) es = true -> Forall pad_ok oc ->
  forall es0, distinct_keys (es0 ++ es) = true ->
  run_field d (LMap k) ft oc (FMapv es0) = Some (FMapv (es0 ++ es)).
Proof.
  intros n k ft HQ Hdesc es oc F. induction F as [|[key val] tr es oc H F IH]; intros Hwf Hp es0 Hdk.
  - cbn. rewrite app_nil_r. reflexivity.
  - cbn [forallb fst snd] in Hwf. apply andb_true_iff in Hwf. destruct Hwf as [W1 W2].
    apply andb_true_iff in W1. destruct W1 as [Wk Wv].
    apply Forall_cons_iff in Hp. destruct Hp as [Hp1 Hp2].
    destruct H as (kt & kl & sub & ock & ocv & -> & Lk & Lv & Hi). cbn [fst snd] in Lk, Lv.
    rewrite pad_ok_node in Hp1. destruct Hp1 as (_ & _ & Hsub). apply pad_all_Forall in Hsub.
    pose proof (proj1 (Interleave_Forall _ pad_ok _ _ Hi) Hsub) as Fp.
    apply Forall_cons_iff in Fp. destruct Fp as [Fpk Fp].
    apply Forall_cons_iff in Fp. destruct Fp as [Fpv _].
    pose proof (legal_single_nums _ _ _ _ _ _ Lk) as Nk.
    pose proof (legal_single_nums _ _ _ _ _ _ Lv) as Nv.
    assert (Nsub : Forall num_ok sub).
    { apply (proj2 (Interleave_Forall _ num_ok _ _ Hi)). constructor; [|constructor; [|constructor]].
      - eapply Forall_impl; [|exact Nk]. intros t E. unfold num_ok. rewrite E. unfold max_field_number. cbn. lia.
      - eapply Forall_impl; [|exact Nv]. intros t E. unfold num_ok. rewrite E. unfold max_field_number. cbn. lia. }
    pose proof (single_scalar k _ 1 key ock Wk Lk None) as Rk.
    pose proof (HQ Hdesc 2 val ocv Wv Lv Fpv) as Rv.
    pose proof (entry_interleave d k ft _ _ Hi ock ocv None None _ _ eq_refl Nk Nv Rk Rv) as EF.
    assert (Hne : sub <> []).
    { intros ->. inversion Hi; subst.
      match goal with H : Forall _ [ock; ocv] |- _ => inversion H; subst end.
      cbn in Rk. discriminate Rk. }
    cbn [run_field wv_of dec_field].
    rewrite (sers_nonempty _ Hne), andb_false_r, records_sers, EF by assumption.
    rewrite map_set_fresh by (eapply distinct_keys_fresh; eassumption).
    rewrite IH; try assumption.
    + rewrite <- app_assoc. reflexivity.
    + rewrite <- app_assoc. exact Hdk.
Qed.

Lemma field_run : forall n lab ft c oc, Q_single ft -> desc_wf ft = true ->
  slot_wf lab ft c = true -> legal_field bp n lab ft (legal_msg bp ft) c oc -> Forall pad_ok oc ->
  run_field d lab ft oc (default_fval lab) = Some c.
Proof.
  intros n lab ft c oc HQ Hdesc Hwf Hl Hp. destruct lab as [| |k]; cbn [legal_field] in Hl.
  - destruct c as [|v|vs|es]; try discriminate Hwf.
    + cbn in Hl. subst oc. reflexivity.
    + cbn [slot_wf] in Hwf. rewrite run_field_opt. cbn [default_fval].
      rewrite (HQ Hdesc n v oc Hwf Hl Hp). reflexivity.
  - destruct c as [|v|vs|es]; try discriminate Hwf. cbn [slot_wf] in Hwf.
    cbn [default_fval]. rewrite (rep_run n ft HQ Hdesc vs oc Hl Hwf Hp []). reflexivity.
  - destruct c as [|v|vs|es]; try discriminate Hwf. cbn [slot_wf] in Hwf.
    apply andb_true_iff in Hwf. destruct Hwf as [W1 W2].
    cbn [default_fval]. rewrite (map_run n k ft HQ Hdesc es oc Hl W1 Hp [] W2). reflexivity.
Qed.

Lemma fields_runs : forall fs, Forall (fun f => Q_single (pf_ty f)) fs -> desc_fields fs = true ->
  forall m occs, wf_fields fs m = true -> lfields bp fs m occs -> Forall (Forall pad_ok) occs ->
  runs d fs occs (default_msg fs) m /\ Forall (Forall num_ok) occs.
Proof.
  induction fs as [|[n lab ft] fr IH]; intros HQ Hdesc m occs Hwf Hl Hp.
  - destruct m; [|discriminate Hwf]. destruct occs; [|contradiction]. split; [exact I | constructor].
  - destruct m as [|c mr]; [discriminate Hwf|]. destruct occs as [|oc ocr]; [contradiction|].
    cbn [lfields] in Hl. destruct Hl as [L1 L2]. cbn [wf_fields] in Hwf.
    apply andb_true_iff in Hwf. destruct Hwf as [W1 W2].
    cbn [desc_fields] in Hdesc.
    apply andb_true_iff in Hdesc; destruct Hdesc as [Hdesc D5].
    apply andb_true_iff in Hdesc; destruct Hdesc as [Hdesc D4].
    apply andb_true_iff in Hdesc; destruct Hdesc as [Hdesc D3].
    apply andb_true_iff in Hdesc; destruct Hdesc as [D1 D2].
    apply Forall_cons_iff in HQ. destruct HQ as [HQ1 HQ2].
    apply Forall_cons_iff in Hp. destruct Hp as [Hp1 Hp2]. cbn [pf_ty] in HQ1.
    destruct (IH HQ2 D5 mr ocr W2 L2 Hp2) as [R N].
    pose proof (legal_field_nums _ _ _ _ _ _ _ L1) as Nn.
    split.
    + cbn [default_msg map pf_lab runs]. split; [|split; assumption].
      eapply field_run; eassumption.
    + constructor; [|assumption]. eapply Forall_impl; [|exact Nn].
      intros t E. unfold num_ok. rewrite E. apply Z.leb_le in D1. apply Z.leb_le in D2. lia.
Qed.

Lemma P_of_Q : forall fs, Forall (fun f => Q_single (pf_ty f)) fs -> P_msg fs.
Proof.
  intros fs HQ Hdesc m trees Hwf Hl Hp.
  rewrite legal_msg_eq in Hl. destruct Hl as (occs & unk & Hu & Hi & Hf).
  rewrite desc_wf_eq in Hdesc. apply andb_true_iff in Hdesc. destruct Hdesc as [D1 D2].
  pose proof (proj1 (Interleave_Forall _ pad_ok _ _ Hi) Hp) as Fp.
  apply Forall_cons_iff in Fp. destruct Fp as [_ Fp].
  destruct (fields_runs fs HQ D2 m occs Hwf Hf Fp) as [R N].
  assert (U : Forall (fun t => existsb (Z.eqb (rt_num t)) (map pf_num fs) = false /\ num_ok t) unk).
  { eapply Forall_impl; [|exact Hu]. intros t Ht. destruct t; cbn in Ht; [|contradiction]. exact Ht. }
  split.
  - eapply merge_interleave; [exact D1 | exact Hi | reflexivity | | exact R].
    eapply Forall_impl; [|exact U]. intros t [A _]. exact A.
  - apply (proj2 (Interleave_Forall _ num_ok _ _ Hi)). constructor; [|assumption].
    eapply Forall_impl; [|exact U]. intros t [_ A]. exact A.
Qed.

Theorem Q_all : forall t, Q_single t.
Proof.
  apply ptype_ind'.
  - apply Q_scalar.
  - intros fs H. apply Q_of_P. apply P_of_Q. exact H.
Qed.

Theorem P_all : forall fs, P_msg fs.
Proof. intros fs. apply P_of_Q. apply Forall_forall. intros f _. apply Q_all. Qed.

End Fields.

Lemma spec_reencode : spec_reencode_statement.
Proof.
  intros d bp fs m w Hdesc Hwf (trees & Hl & Hp & ->) _ Hd.
  rewrite msg_wf_eq in Hwf.
  destruct (P_all d bp Hd fs Hdesc m trees Hwf Hl Hp) as [M N].
  unfold spec_decode. rewrite dec_value_msg, records_sers, M by assumption. reflexivity.
Qed.

(* ================================================================== *)
(* Part 6: the canonical encoding is a legal encoding                  *)
(* ================================================================== *)

Definition enc_one (n : Z) (ft : ptype) (v : pval) : bytes :=
  match ft with
  | PSc s => tagv n (wt_of s) ++ enc_scalar s v
  | PMsg _ => let p := enc_msg ft v in tagv n 2 ++ varint (len p) ++ p
  end.
Definition enc_entry (n : Z) (k : pscalar) (ft : ptype) (kv : pval * pval) : bytes :=
  let p := tagv 1 (wt_of k) ++ enc_scalar k (fst kv) ++ enc_one 2 ft (snd kv) in
  tagv n 2 ++ varint (len p) ++ p.
Definition enc_slot (n : Z) (lab : plabel) (ft : ptype) (c : fval) : bytes :=
  match lab, c with
  | LOpt, FOne v => enc_one n ft v
  | LRep, FRep vs => flat_map (enc_one n ft) vs
  | LMap k, FMapv es => flat_map (enc_entry n k ft) es
  | _, _ => []
  end.
Fixpoint enc_fields (fs : list pfield) (m : list fval) {struct fs} : bytes :=
  match fs, m with
  | PField n lab ft :: fr, c :: mr => enc_slot n lab ft c ++ enc_fields fr mr
  | _, _ => []
  end.
Lemma enc_msg_eq : forall fs m, enc_msg (PMsg fs) (PVMsg m) = enc_fields fs m.
Proof. reflexivity. Qed.

Lemma varint_fuel_leb : forall f v, 0 <= v < 128 ^ Z.of_nat (S f) ->
  exists k, (k <= f)%nat /\ v < 128 ^ (Z.of_nat k + 1) /\ varint_fuel (S f) v = leb k v.
Proof.
  induction f; intros v Hv.
  - exists 0%nat. change (128 ^ Z.of_nat 1) with 128 in Hv. change (128 ^ (Z.of_nat 0 + 1)) with 128.
    split; [lia|]. split; [lia|]. cbn [varint_fuel leb].
    replace (v <? 128) with true by (symmetry; apply Z.ltb_lt; lia). reflexivity.
  - destruct (Z.ltb_spec v 128) as [L|L].
    + exists 0%nat. change (128 ^ (Z.of_nat 0 + 1)) with 128.
      split; [lia|]. split; [lia|]. cbn [varint_fuel leb].
      replace (v <? 128) with true by (symmetry; apply Z.ltb_lt; lia). reflexivity.
    + rewrite pow128_succ' in Hv.
      destruct (IHf (v / 128)) as (k & Hk & Hlt & E_canon).
      { split; [apply Z.div_pos; lia | apply Z.div_lt_upper_bound; lia]. }
      exists (S k). split; [lia|]. split.
      * rewrite pow128_succ. pose proof (Z.div_mod v 128). pose proof (Z.mod_pos_bound v 128). lia.
      * change (varint_fuel (S (S f)) v) with (if v <? 128 then [v] else (v mod 128 + 128) :: varint_fuel (S f) (v / 128)).
        replace (v <? 128) with false by (symmetry; apply Z.ltb_ge; lia).
        rewrite E_canon. reflexivity.
Qed.

Lemma varint_leb : forall v, 0 <= v < 2 ^ 64 -> exists k, leb_ok k v /\ varint v = leb k v.
Proof.
  intros v Hv. destruct (varint_fuel_leb 9 v) as (k & Hk & Hlt & E_canon).
  { change (128 ^ Z.of_nat 10) with (2 ^ 64 * 64). lia. }
  exists k. split; [|exact E_canon]. unfold leb_ok. split; [lia|]. split; lia.
Qed.

Lemma tagv_leb : forall n wt, 1 <= n <= max_field_number -> 0 <= wt < 8 ->
  exists kt, leb_ok kt (n * 8 + wt) /\ tagv n wt = leb kt (n * 8 + wt).
Proof.
  intros n wt Hn Hwt. unfold tagv. apply varint_leb. unfold max_field_number in Hn.
  change (2 ^ 29) with 536870912 in Hn. change (2 ^ 64) with 18446744073709551616. lia.
Qed.

Lemma w64_bound : forall z, 0 <= w64 z < 2 ^ 64.
Proof. intros. apply w64_range. Qed.

Lemma zigzag_range64 : forall z, - 2 ^ 63 <= z < 2 ^ 63 -> 0 <= zigzag z < 2 ^ 64.
Proof.
  intros z H. unfold zigzag. change (2 ^ 63) with 9223372036854775808 in H.
  change (2 ^ 64) with 18446744073709551616. destruct (Z.leb_spec 0 z); lia.
Qed.

Lemma canon_scalar : forall s v n, scalar_wf s v = true -> 1 <= n <= max_field_number ->
  exists kt k, kok false s k /\ pad_ok (RLeaf n kt (leaf_of s v k)) /\
               enc_one n (PSc s) v = ser (RLeaf n kt (leaf_of s v k)).
Proof.
  intros s v n Hwf Hn.
  assert (Hwt : 0 <= wt_of s < 8) by (destruct s; cbn; lia).
  destruct (tagv_leb n (wt_of s) Hn Hwt) as (kt & Hkt & Et).
  unfold enc_one. rewrite Et. clear Et Hwt.
  destruct s; destruct v as [z|b|bs|sl]; try discriminate Hwf;
    cbn [scalar_wf] in Hwf; unfold in_i32 in Hwf; boolp;
    cbn [leaf_of enc_scalar wt_of] in *.
  (* varint-carried integers *)
  1-6: match goal with |- context [varint ?x] =>
         let Hx := fresh in
         assert (Hx : 0 <= x < 2 ^ 64) by
           first [apply w64_bound | apply zigzag_range64; change (2 ^ 63) with (2 ^ 31 * 2 ^ 32); lia
                 | change (2 ^ 64) with (2 ^ 32 * 2 ^ 32); lia];
         destruct (varint_leb x Hx) as (k & Hk & Ek); rewrite Ek;
         exists kt, k; split; [right; left; discriminate | split; [cbn [pad_ok leaf_wt]; auto | reflexivity]]
       end.
  - (* bool *)
    exists kt, 0%nat. split; [right; right; reflexivity|]. split; [|reflexivity].
    cbn [pad_ok leaf_wt]. split; [assumption|]. unfold leb_ok. change (128 ^ (Z.of_nat 0 + 1)) with 128.
    change (2 ^ 64) with 18446744073709551616. destruct b; lia.
  - exists kt, 0%nat. split; [right; left; discriminate|]. split; [cbn [pad_ok leaf_wt]; split; [assumption | change (2 ^ 32) with 4294967296 in *; lia] | reflexivity].
  - exists kt, 0%nat. split; [right; left; discriminate|]. split; [cbn [pad_ok leaf_wt]; split; [assumption | lia] | reflexivity].
  - exists kt, 0%nat. split; [right; left; discriminate|]. split; [cbn [pad_ok leaf_wt]; split; [assumption | unfold w32; apply Z.mod_pos_bound; reflexivity] | reflexivity].
  - exists kt, 0%nat. split; [right; left; discriminate|]. split; [cbn [pad_ok leaf_wt]; split; [assumption | apply w64_bound] | reflexivity].
  - exists kt, 0%nat. split; [right; left; discriminate|]. split; [cbn [pad_ok leaf_wt]; split; [assumption | lia] | reflexivity].
  - exists kt, 0%nat. split; [right; left; discriminate|]. split; [cbn [pad_ok leaf_wt]; split; [assumption | lia] | reflexivity].
  - assert (Hx : 0 <= len bs < 2 ^ 64) by (pose proof (len_nonneg _ bs); change (2 ^ 64) with (2 ^ 31 * 2 ^ 33); lia).
    destruct (varint_leb _ Hx) as (k & Hk & Ek). rewrite Ek.
    exists kt, k. split; [right; left; discriminate|]. split; [cbn [pad_ok leaf_wt]; auto | reflexivity].
  - assert (Hx : 0 <= len bs < 2 ^ 64) by (pose proof (len_nonneg _ bs); change (2 ^ 64) with (2 ^ 31 * 2 ^ 33); lia).
    destruct (varint_leb _ Hx) as (k & Hk & Ek). rewrite Ek.
    exists kt, k. split; [right; left; discriminate|]. split; [cbn [pad_ok leaf_wt]; auto | reflexivity].
Qed.

Lemma len_app_lt : forall (a b : bytes) B, len (a ++ b) < B -> len a < B /\ len b < B.
Proof. intros a b B H. rewrite len_app in H. pose proof (len_nonneg _ a). pose proof (len_nonneg _ b). lia. Qed.

Lemma sers_app : forall a b, sers (a ++ b) = sers a ++ sers b.
Proof. induction a; intros; cbn [app sers]; [reflexivity | rewrite IHa, app_assoc; reflexivity]. Qed.

Lemma Interleave_concat : forall A (occs pre : list (list A)), Forall (fun l => l = []) pre ->
  Interleave (pre ++ occs) (concat occs).
Proof.
  induction occs as [|oc occs IH]; intros pre Hpre.
  - rewrite app_nil_r. apply il_nil. assumption.
  - induction oc as [|x l IHl].
    + cbn [concat app]. replace (pre ++ [] :: occs) with ((pre ++ [[]]) ++ occs) by (rewrite <- app_assoc; reflexivity).
      apply IH. apply Forall_app. split; [assumption | constructor; [reflexivity | constructor]].
    + cbn [concat app]. apply il_cons. exact IHl.
Qed.

Definition E_canon (ft : ptype) : Prop :=
  desc_wf ft = true -> forall n v, 1 <= n <= max_field_number -> msg_wf ft v = true ->
    len (enc_one n ft v) < 2 ^ 64 ->
    exists tr, legal_elem false n ft (legal_msg false ft) v tr /\ pad_ok tr /\ enc_one n ft v = ser tr.

Definition M_canon (fs : list pfield) : Prop :=
  desc_wf (PMsg fs) = true -> forall m, wf_fields fs m = true -> len (enc_fields fs m) < 2 ^ 64 ->
    exists trees, legal_msg false (PMsg fs) (PVMsg m) trees /\ Forall pad_ok trees /\ enc_fields fs m = sers trees.

Lemma E_scalar : forall s, E_canon (PSc s).
Proof.
  intros s _ n v Hn Hwf _. destruct (canon_scalar s v n Hwf Hn) as (kt & k & Hk & Hp & Es).
  exists (RLeaf n kt (leaf_of s v k)). split; [|split; assumption].
  exists kt, k. split; [reflexivity | assumption].
Qed.

Lemma E_of_M : forall fs, M_canon fs -> E_canon (PMsg fs).
Proof.
  intros fs HM Hdesc n v Hn Hwf Hlen.
  destruct v as [z|b|s|m]; try discriminate Hwf. rewrite msg_wf_eq in Hwf.
  unfold enc_one in *. rewrite enc_msg_eq in *. cbv zeta in *.
  apply len_app_lt in Hlen. destruct Hlen as [_ Hlen]. apply len_app_lt in Hlen. destruct Hlen as [_ Hlen].
  destruct (HM Hdesc m Hwf Hlen) as (trees & Hl & Hp & Es).
  destruct (tagv_leb n 2 Hn ltac:(lia)) as (kt & Hkt & Et).
  assert (Hx : 0 <= len (sers trees) < 2 ^ 64) by (rewrite <- Es; pose proof (len_nonneg _ (enc_fields fs m)); lia).
  destruct (varint_leb _ Hx) as (kl & Hkl & El).
  exists (RNode n kt kl trees). split; [|split].
  - exists kt, kl, trees. split; [reflexivity | assumption].
  - rewrite pad_ok_node. split; [assumption|]. split; [assumption|]. apply pad_all_Forall. assumption.
  - rewrite ser_node, Et, Es, El. reflexivity.
Qed.

Lemma il2 : forall (a b : rtree), Interleave [[a]; [b]] [a; b].
Proof.
  intros. apply (il_cons [] a [] [[b]]). apply (il_cons [[]] b [] []). apply il_nil.
  constructor; [reflexivity | constructor; [reflexivity | constructor]].
Qed.

Lemma slot_canon : forall n lab ft c, E_canon ft -> desc_wf ft = true -> 1 <= n <= max_field_number ->
  slot_wf lab ft c = true -> len (enc_slot n lab ft c) < 2 ^ 64 ->
  exists oc, legal_field false n lab ft (legal_msg false ft) c oc /\ Forall pad_ok oc /\
             enc_slot n lab ft c = sers oc.
Proof.
  intros n lab ft c HE Hdesc Hn Hwf Hlen. destruct lab as [| |k].
  - destruct c as [|v|vs|es]; try discriminate Hwf.
    + exists []. cbn. auto.
    + cbn [slot_wf enc_slot] in *. destruct (HE Hdesc n v Hn Hwf Hlen) as (tr & Hl & Hp & Es).
      exists [tr]. split; [|split].
      * cbn [legal_field]. apply legal_elem_single. assumption.
      * constructor; [assumption | constructor].
      * cbn [sers]. rewrite app_nil_r. assumption.
  - destruct c as [|v|vs|es]; try discriminate Hwf. cbn [slot_wf enc_slot legal_field] in *.
    induction vs as [|v vs IH].
    + exists []. cbn. auto.
    + cbn [forallb] in Hwf. apply andb_true_iff in Hwf. destruct Hwf as [W1 W2].
      cbn [flat_map] in Hlen. apply len_app_lt in Hlen. destruct Hlen as [L1 L2].
      destruct (IH W2 L2) as (oc & Hl & Hp & Es).
      destruct (HE Hdesc n v Hn W1 L1) as (tr & Hl1 & Hp1 & Es1).
      exists (tr :: oc). split; [|split].
      * constructor; assumption.
      * constructor; assumption.
      * cbn [flat_map sers]. rewrite Es, Es1. reflexivity.
  - destruct c as [|v|vs|es]; try discriminate Hwf. cbn [slot_wf enc_slot legal_field] in *.
    apply andb_true_iff in Hwf. destruct Hwf as [Hwf _].
    induction es as [|[key val] es IH].
    + exists []. cbn. auto.
    + cbn [forallb fst snd] in Hwf. apply andb_true_iff in Hwf. destruct Hwf as [W1 W2].
      apply andb_true_iff in W1. destruct W1 as [Wk Wv].
      cbn [flat_map] in Hlen. apply len_app_lt in Hlen. destruct Hlen as [L1 L2].
      destruct (IH W2 L2) as (oc & Hl & Hp & Es).
      unfold enc_entry in L1 |- *. cbv zeta in L1. cbn [fst snd] in L1.
      apply len_app_lt in L1. destruct L1 as [_ L1]. apply len_app_lt in L1. destruct L1 as [_ L1].
      assert (N1 : 1 <= 1 <= max_field_number) by (unfold max_field_number; cbn; lia).
      assert (N2 : 1 <= 2 <= max_field_number) by (unfold max_field_number; cbn; lia).
      destruct (canon_scalar k key 1 Wk N1) as (kt1 & k1 & Hk1 & Hp1 & Es1).
      assert (L2v : len (enc_one 2 ft val) < 2 ^ 64).
      { apply len_app_lt in L1. destruct L1 as [_ L1]. apply len_app_lt in L1. apply L1. }
      destruct (HE Hdesc 2 val N2 Wv L2v) as (trv & Hlv & Hpv & Esv).
      set (trk := RLeaf 1 kt1 (leaf_of k key k1)) in *.
      assert (Ep : tagv 1 (wt_of k) ++ enc_scalar k key ++ enc_one 2 ft val = sers [trk; trv]).
      { cbn [sers]. rewrite app_nil_r, <- Es1, <- Esv. unfold enc_one at 2. rewrite <- app_assoc. reflexivity. }
      destruct (tagv_leb n 2 Hn ltac:(lia)) as (kt & Hkt & Et).
      assert (Hx : 0 <= len (sers [trk; trv]) < 2 ^ 64).
      { rewrite <- Ep. match goal with |- 0 <= len ?x < _ => pose proof (len_nonneg _ x) end.
        lia. }
      destruct (varint_leb _ Hx) as (kl & Hkl & El).
      exists (RNode n kt kl [trk; trv] :: oc). split; [|split].
      * constructor; [|assumption]. exists kt, kl, [trk; trv], [trk], [trv].
        split; [reflexivity|]. cbn [fst snd]. split; [|split].
        -- apply legal_elem_single. exists kt1, k1. split; [reflexivity | assumption].
        -- apply legal_elem_single. assumption.
        -- apply il2.
      * constructor; [|assumption]. rewrite pad_ok_node. split; [assumption|]. split; [assumption|].
        cbn [pad_all]. auto.
      * cbn [flat_map sers]. rewrite <- Es. f_equal. cbv zeta. cbn [fst snd].
        rewrite Ep, ser_node, Et, El. reflexivity.
Qed.

Lemma fields_canon : forall fs, Forall (fun f => E_canon (pf_ty f)) fs -> desc_fields fs = true ->
  forall m, wf_fields fs m = true -> len (enc_fields fs m) < 2 ^ 64 ->
  exists occs, lfields false fs m occs /\ Forall (Forall pad_ok) occs /\ enc_fields fs m = sers (concat occs).
Proof.
  induction fs as [|[n lab ft] fr IH]; intros HE Hdesc m Hwf Hlen.
  - destruct m; [|discriminate Hwf]. exists []. cbn. auto.
  - destruct m as [|c mr]; [discriminate Hwf|]. cbn [wf_fields] in Hwf.
    apply andb_true_iff in Hwf. destruct Hwf as [W1 W2].
    cbn [desc_fields] in Hdesc.
    apply andb_true_iff in Hdesc; destruct Hdesc as [Hdesc D5].
    apply andb_true_iff in Hdesc; destruct Hdesc as [Hdesc D4].
    apply andb_true_iff in Hdesc; destruct Hdesc as [Hdesc D3].
    apply andb_true_iff in Hdesc; destruct Hdesc as [D1 D2].
    apply Z.leb_le in D1. apply Z.leb_le in D2.
    apply Forall_cons_iff in HE. destruct HE as [HE1 HE2]. cbn [pf_ty] in HE1.
    cbn [enc_fields] in Hlen |- *. apply len_app_lt in Hlen. destruct Hlen as [L1 L2].
    destruct (IH HE2 D5 mr W2 L2) as (occs & Hl & Hp & Es).
    destruct (slot_canon n lab ft c HE1 D3 (conj D1 D2) W1 L1) as (oc & Hl1 & Hp1 & Es1).
    exists (oc :: occs). split; [|split].
    + cbn [lfields]. auto.
    + constructor; assumption.
    + cbn [concat]. rewrite sers_app, Es, Es1. reflexivity.
Qed.

Lemma M_of_E : forall fs, Forall (fun f => E_canon (pf_ty f)) fs -> M_canon fs.
Proof.
  intros fs HE Hdesc m Hwf Hlen. rewrite desc_wf_eq in Hdesc. apply andb_true_iff in Hdesc.
  destruct Hdesc as [D1 D2].
  destruct (fields_canon fs HE D2 m Hwf Hlen) as (occs & Hl & Hp & Es).
  exists (concat occs). split; [|split].
  - rewrite legal_msg_eq. exists occs, []. split; [constructor|]. split; [|assumption].
    apply (Interleave_concat _ occs [[]]). constructor; [reflexivity | constructor].
  - apply Forall_concat. assumption.
  - assumption.
Qed.

Theorem E_all : forall t, E_canon t.
Proof.
  apply ptype_ind'.
  - apply E_scalar.
  - intros fs H. apply E_of_M. apply M_of_E. exact H.
Qed.

Theorem M_all : forall fs, M_canon fs.
Proof. intros fs. apply M_of_E. apply Forall_forall. intros f _. apply E_all. Qed.

(* the canonical encoding is a legal encoding, with no padded bool *)
Lemma spec_encode_reencodes : forall fs m, desc_wf (PMsg fs) = true -> msg_wf (PMsg fs) (PVMsg m) = true ->
  len (spec_encode fs m) < 2 ^ 64 -> reencodes false fs m (spec_encode fs m).
Proof.
  intros fs m Hdesc Hwf Hlen. unfold spec_encode in *. rewrite enc_msg_eq in *. rewrite msg_wf_eq in Hwf.
  destruct (M_all fs Hdesc m Hwf Hlen) as (trees & Hl & Hp & Es).
  exists trees. auto.
Qed.

Lemma spec_roundtrip_dialects : forall d fs m, d = std \/ d = pkgd ->
  desc_wf (PMsg fs) = true -> msg_wf (PMsg fs) (PVMsg m) = true -> len (spec_encode fs m) < 2 ^ 31 ->
  spec_decode d fs (spec_encode fs m) = Some m.
Proof.
  intros d fs m Hd Hdesc Hwf Hlen.
  apply (spec_reencode d false fs m); try assumption.
  - apply spec_encode_reencodes; try assumption. change (2 ^ 64) with (2 ^ 31 * 2 ^ 33). lia.
  - destruct Hd; [left | right; left]; auto.
Qed.

Lemma spec_roundtrip : spec_roundtrip_statement.
Proof. intros fs m Hdesc Hwf Hlen. apply spec_roundtrip_dialects; auto. Qed.
