(* C07, second half: unknown fields are skipped (statements in Proto/UnknownSpec.v).
   Direct proofs on the struct decode loop of Proto/Model.v ([sloop] of Proto/DecProofs.v), not through the
   wire-format specification of C12, so that byte arrays, RawMessage fields and maps with pointer values are covered.
   Layout: U1 lists and primitives, U2 one iteration of the loop on a complete field depends on the field alone,
   U3 the loop on P ++ S from len P is the loop on S from 0 (shift), U4 consumed counts of the field decoders,
   U5 the top-level theorems, U6 nested insertion, U7 refuted forms, U8 Scan. *)
From Verif Require Import Base.GoInt Proto.Ext Generated.ProtoGen Proto.Model Proto.PrimSpec Proto.PrimProofs Proto.Spec
  Proto.DecProofs Proto.UnknownSpec.
From Verif Require Proto.RewriteModel Proto.RewriteSpec Proto.RewriteWire Proto.ScanModel.
From Coq Require Import Lia ZifyBool ZifyNat.
Open Scope Z_scope.

(* ================= U1: lists, slices, primitives ================= *)
Lemma len_app2 {A} (a b : list A) : len (a ++ b) = len a + len b.
Proof. unfold len. rewrite app_length. lia. Qed.
Lemma wfb_app2 (a b : bytes) : wfb (a ++ b) = true <-> wfb a = true /\ wfb b = true.
Proof. unfold wfb. rewrite forallb_app. apply andb_true_iff. Qed.
Lemma slice_from_app (a b : bytes) o : o = len a -> slice_from (a ++ b) o = b.
Proof. intros ->. unfold slice_from. apply RewriteWire.skipn_len_app. Qed.
Lemma slice_app_mid (a s r : bytes) lo hi : lo = len a -> hi = len a + len s -> slice (a ++ s ++ r) lo hi = s.
Proof. intros -> ->. apply slice_mid. Qed.
Lemma slice_from_0 (b : bytes) : slice_from b 0 = b.
Proof. reflexivity. Qed.
Lemma slice_from_shift (p s : bytes) i : 0 <= i -> slice_from (p ++ s) (len p + i) = slice_from s i.
Proof.
  intros Hi. unfold slice_from, len. replace (Z.to_nat (Z.of_nat (length p) + i)) with (length p + Z.to_nat i)%nat by lia.
  rewrite skipn_app. rewrite (skipn_all2 p) by lia. replace (length p + Z.to_nat i - length p)%nat with (Z.to_nat i) by lia.
  reflexivity.
Qed.
Lemma slice_shift (p s : bytes) lo hi : 0 <= lo <= hi -> slice (p ++ s) (len p + lo) (len p + hi) = slice s lo hi.
Proof.
  intros H. unfold slice. replace (len p + hi - (len p + lo)) with (hi - lo) by lia.
  change (skipn (Z.to_nat (len p + lo)) (p ++ s)) with (slice_from (p ++ s) (len p + lo)).
  rewrite slice_from_shift by lia. reflexivity.
Qed.

Lemma varint_of_app s x r : varint_of s x -> proto_decodeVarint (s ++ r) = (x, len s, None).
Proof. intros H. apply RewriteWire.decodeVarint_app. exact H. Qed.
Lemma varint_of_bounds s x : wfb s = true -> varint_of s x -> 1 <= len s /\ 0 <= x < 2 ^ 64.
Proof. intros Hw H. apply dv_bounds in H; [|exact Hw]. destruct H as (_ & Hx & Hn). specialize (Hn eq_refl). lia. Qed.

Section Prims.
Local Transparent proto_decodeTag proto_decodeLE32 proto_decodeLE64.
Lemma tag_of_varint tg num wt r : varint_of tg (num * 8 + wt) -> 0 <= num -> 0 <= wt < 8 ->
  proto_decodeTag (tg ++ r) = (num, wt, len tg, None).
Proof.
  intros H Hn Hw. unfold proto_decodeTag. rewrite (varint_of_app _ _ r H).
  rewrite shr64_div by lia. unfold and64. rewrite land7. change (2 ^ 3) with 8.
  assert (E1 : (num * 8 + wt) / 8 = num).
  { rewrite Z.add_comm. rewrite Z.div_add by lia. rewrite Z.div_small by lia. lia. }
  assert (E2 : (num * 8 + wt) mod 8 = wt).
  { rewrite Z.add_comm. rewrite Z_mod_plus_full. apply Z.mod_small. lia. }
  rewrite E1, E2. reflexivity.
Qed.
Lemma le32_app p r : len p = 4 -> exists x, proto_decodeLE32 (p ++ r) = (x, 4, None).
Proof.
  intros H. unfold proto_decodeLE32. pose proof (len_nonneg r). rewrite len_app2.
  destruct (len p + len r <? 4) eqn:G; [lia|]. eexists; reflexivity.
Qed.
Lemma le64_app p r : len p = 8 -> exists x, proto_decodeLE64 (p ++ r) = (x, 8, None).
Proof.
  intros H. unfold proto_decodeLE64. pose proof (len_nonneg r). rewrite len_app2.
  destruct (len p + len r <? 8) eqn:G; [lia|]. eexists; reflexivity.
Qed.
Lemma le32_len b x n : proto_decodeLE32 b = (x, n, None) -> n = 4.
Proof. unfold proto_decodeLE32. destruct (len b <? 4); intros H; inversion H; reflexivity. Qed.
Lemma le64_len b x n : proto_decodeLE64 b = (x, n, None) -> n = 8.
Proof. unfold proto_decodeLE64. destruct (len b <? 8); intros H; inversion H; reflexivity. Qed.
End Prims.

Lemma payload_wt wt p : payload_of wt p -> wt = 0 \/ wt = 1 \/ wt = 2 \/ wt = 5.
Proof. destruct 1; cbv; auto. Qed.
Lemma payload_len wt p : wfb p = true -> payload_of wt p -> 1 <= len p.
Proof.
  intros Hw H. destruct H as [p x H | p H | p H | lp s H]; try lia.
  - apply varint_of_bounds in H; [lia | exact Hw].
  - apply wfb_app2 in Hw. apply varint_of_bounds in H; [|tauto]. rewrite len_app2. pose proof (len_nonneg s). lia.
Qed.

(* a parsed field: number, wire type, tag bytes, payload bytes *)
Record pfld : Type := PF { pf_num : Z; pf_wt : Z; pf_tg : bytes; pf_p : bytes }.
Definition pf_bytes (x : pfld) : bytes := pf_tg x ++ pf_p x.
Definition pf_ok (x : pfld) : Prop :=
  0 <= pf_num x /\ varint_of (pf_tg x) (pf_num x * 8 + pf_wt x) /\ payload_of (pf_wt x) (pf_p x).
Fixpoint pfs_bytes (l : list pfld) : bytes := match l with [] => [] | x :: r => pf_bytes x ++ pfs_bytes r end.

Lemma is_field_pf num wt u : is_field num wt u <-> exists x, pf_ok x /\ pf_num x = num /\ pf_wt x = wt /\ pf_bytes x = u.
Proof.
  split.
  - intros (tg & p & -> & Hn & Ht & Hp). exists (PF num wt tg p). unfold pf_ok, pf_bytes; cbn. auto.
  - intros ([n w tg p] & (Hn & Ht & Hp) & <- & <- & <-). exists tg, p. cbn in *. auto.
Qed.
Lemma fields_seq_pf b : fields_seq b <-> exists l, Forall pf_ok l /\ b = pfs_bytes l.
Proof.
  split.
  - induction 1 as [|num wt u r Hu Hr (l & Hl & ->)]; [exists []; split; [constructor | reflexivity]|].
    apply is_field_pf in Hu. destruct Hu as (x & Hx & _ & _ & <-).
    exists (x :: l). split; [constructor; assumption | reflexivity].
  - intros (l & Hl & ->). induction Hl as [|x l Hx Hl IH]; [constructor|].
    cbn [pfs_bytes]. apply FS_cons with (num := pf_num x) (wt := pf_wt x); [|exact IH].
    apply is_field_pf. exists x. auto.
Qed.
Lemma pf_len x : pf_ok x -> wfb (pf_bytes x) = true -> 1 <= len (pf_tg x) /\ 1 <= len (pf_p x).
Proof.
  intros (Hn & Ht & Hp) Hw. apply wfb_app2 in Hw. destruct Hw as [Hw1 Hw2].
  apply varint_of_bounds in Ht; [|exact Hw1]. apply payload_len in Hp; [|exact Hw2]. lia.
Qed.

(* ================= U2: one iteration on a complete field ================= *)
Inductive fout : Type := FCont (vs : list val) | FErr (e : proto_error) (vs : list val) | FPanic | FFuel.

Section Field.
  Variable dec : codec -> bytes -> val -> Z -> dres.
  Variable fields : list sfield.
  Variables flags maxn : Z.
  Variable L : nat.

  Definition lookup (fn : Z) : option (nat * sfield) :=
    if (0 <=? fn) && (fn <? maxn + 1) && (fn <? 2 ^ 63) then nth_field fields [] fn else None.

  (* the bytes handed to the decoder of a known field with payload p *)
  Definition window (wt : Z) (f : sfield) (p : bytes) : bytes :=
    if (wt =? proto_varlen) && sf_embedded f then
      let '(_, m, _) := proto_decodeVarint p in slice_from p m
    else p.

  (* what one iteration of the loop does to the accumulated field values on the field x: a function of x alone *)
  Definition fstep (x : pfld) (vs : list val) : fout :=
    match lookup (pf_num x) with
    | None => FCont vs
    | Some (i, f) =>
        if negb (pf_wt x =? wire (sf_codec f)) then FErr proto_ErrWireTypeUnknown vs else
        match dec (sf_codec f) (window (pf_wt x) f (pf_p x)) (nth i vs (zero_val (sf_ty f))) (make_flags f flags) with
        | Ok (_, None, newf) => FCont (set_nth vs i newf)
        | Ok (_, Some e, newf) => FErr e (set_nth vs i newf)
        | Panic => FPanic
        | OutOfFuel => FFuel
        end
    end.
  Fixpoint run (l : list pfld) (vs : list val) : fout :=
    match l with
    | [] => FCont vs
    | x :: r => match fstep x vs with FCont vs' => run r vs' | o => o end
    end.

  (* a field decoder that reports no error has consumed its window *)
  Definition consumes_all : Prop := forall num i f, lookup num = Some (i, f) -> forall data old fl n v,
    wfb data = true -> (length data <= L)%nat ->
    dec (sf_codec f) data old fl = Ok (n, None, v) ->
    (sf_embedded f = true /\ wire (sf_codec f) = proto_varlen) \/ payload_of (wire (sf_codec f)) data ->
    n = len data.

  Lemma skip_of_payload b wt p r : wfb p = true -> payload_of wt p -> len p <= len b -> len b < lim ->
    skip_of b wt (p ++ r) = (len p, None).
  Proof.
    intros Hw Hp Hl Hlim. unfold lim in Hlim. unfold skip_of.
    destruct Hp as [p x H | p H | p H | lp s H].
    - change (proto_varint =? proto_varint) with true. cbv iota. rewrite (varint_of_app _ _ r H). reflexivity.
    - change (proto_fixed64 =? proto_varint) with false. change (proto_fixed64 =? proto_varlen) with false.
      change (proto_fixed64 =? proto_fixed32) with false. change (proto_fixed64 =? proto_fixed64) with true. cbv iota.
      destruct (le64_app p r H) as (x & ->). rewrite H. reflexivity.
    - change (proto_fixed32 =? proto_varint) with false. change (proto_fixed32 =? proto_varlen) with false.
      change (proto_fixed32 =? proto_fixed32) with true. cbv iota.
      destruct (le32_app p r H) as (x & ->). rewrite H. reflexivity.
    - change (proto_varlen =? proto_varint) with false. change (proto_varlen =? proto_varlen) with true. cbv iota.
      rewrite <- app_assoc. rewrite (varint_of_app _ _ (s ++ r) H).
      apply wfb_app2 in Hw. destruct Hw as [Hw1 Hw2]. apply varint_of_bounds in H; [|exact Hw1].
      rewrite len_app2 in *. pose proof (len_nonneg s).
      rewrite w64_id by lia. destruct (len s >? len b - len lp) eqn:G; [lia|].
      rewrite s64_id by lia. reflexivity.
  Qed.

  Lemma window_payload (q r : bytes) wt p f : wfb p = true -> payload_of wt p -> len (q ++ p ++ r) < lim ->
    exists lo hi off',
      win_of (q ++ p ++ r) wt (len q) (p ++ r) f = Ok (Some (lo, hi), off', None) /\
      0 <= lo <= hi /\ hi <= len (q ++ p ++ r) /\
      slice (q ++ p ++ r) lo hi = window wt f p /\
      off' + len (window wt f p) = len q + len p /\
      ((sf_embedded f = true /\ wt = proto_varlen) \/ payload_of wt (window wt f p)).
  Proof.
    intros Hw Hp Hlim. unfold lim in Hlim. rewrite !len_app2 in *.
    pose proof (len_nonneg q) as Nq. pose proof (len_nonneg r) as Nr. pose proof (len_nonneg p) as Np.
    unfold win_of, window.
    destruct Hp as [p x H | p H | p H | lp s H].
    - change (proto_varint =? proto_varint) with true. change (proto_varint =? proto_varlen) with false. cbv iota. cbn [andb].
      rewrite (varint_of_app _ _ r H). exists (len q), (len q + len p), (len q).
      split; [reflexivity|]. split; [lia|]. split; [rewrite ?len_app2; lia|].
      split; [apply slice_app_mid; reflexivity|]. split; [lia|]. right. econstructor; exact H.
    - change (proto_fixed64 =? proto_varint) with false. change (proto_fixed64 =? proto_varlen) with false.
      change (proto_fixed64 =? proto_fixed32) with false. change (proto_fixed64 =? proto_fixed64) with true. cbv iota. cbn [andb].
      rewrite !len_app2. destruct (len q + 8 >? len q + (len p + len r)) eqn:G; [lia|].
      exists (len q), (len q + 8), (len q).
      split; [reflexivity|]. split; [lia|]. split; [lia|].
      split; [apply slice_app_mid; lia|]. split; [lia|]. right. constructor; exact H.
    - change (proto_fixed32 =? proto_varint) with false. change (proto_fixed32 =? proto_varlen) with false.
      change (proto_fixed32 =? proto_fixed32) with true. cbv iota. cbn [andb].
      rewrite !len_app2. destruct (len q + 4 >? len q + (len p + len r)) eqn:G; [lia|].
      exists (len q), (len q + 4), (len q).
      split; [reflexivity|]. split; [lia|]. split; [lia|].
      split; [apply slice_app_mid; lia|]. split; [lia|]. right. constructor; exact H.
    - change (proto_varlen =? proto_varint) with false. change (proto_varlen =? proto_varlen) with true. cbv iota. cbn [andb].
      rewrite <- (app_assoc lp s r). rewrite (varint_of_app _ _ (s ++ r) H). rewrite (varint_of_app _ _ s H).
      apply wfb_app2 in Hw. destruct Hw as [Hw1 Hw2]. pose proof (varint_of_bounds _ _ Hw1 H) as Hb.
      rewrite !len_app2 in *. pose proof (len_nonneg s).
      rewrite w64_id by lia. destruct (len s >? len q + (len lp + (len s + len r)) - (len q + len lp)) eqn:G; [lia|].
      rewrite s64_id by lia.
      destruct (sf_embedded f) eqn:Ee.
      + exists (len q + len lp), (len q + len lp + len s), (len q + len lp).
        split; [reflexivity|]. split; [lia|]. split; [lia|].
        split.
        { rewrite slice_from_app by reflexivity.
          replace (q ++ lp ++ s ++ r) with ((q ++ lp) ++ s ++ r) by (rewrite <- app_assoc; reflexivity).
          apply slice_app_mid; rewrite len_app2; lia. }
        split; [rewrite slice_from_app by reflexivity; lia|]. left. split; reflexivity.
      + exists (len q), (len q + len lp + len s), (len q).
        split; [reflexivity|]. split; [lia|]. split; [lia|].
        split; [rewrite (app_assoc lp s r); apply slice_app_mid; rewrite ?len_app2; lia|].
        split; [rewrite len_app2; lia|]. right. constructor; exact H.
  Qed.

  Lemma nth_field_irrel vs vs' n : nth_field fields vs n = nth_field fields vs' n.
  Proof. reflexivity. Qed.

  Lemma sbody_field (P R : bytes) x rec vs : consumes_all -> pf_ok x ->
    let b := P ++ pf_bytes x ++ R in
    wfb b = true -> len b < lim -> (length b <= L)%nat ->
    match fstep x vs with
    | FCont vs' => sbody dec fields b flags maxn rec (len P) vs = rec (len P + len (pf_bytes x)) vs'
    | FErr e vs' => exists n, sbody dec fields b flags maxn rec (len P) vs = Ok (n, Some e, VStruct vs')
    | FPanic => sbody dec fields b flags maxn rec (len P) vs = Panic
    | FFuel => sbody dec fields b flags maxn rec (len P) vs = OutOfFuel
    end.
  Proof.
    intros Hcons Hx b Hwf Hlim HL. destruct x as [num wt tg p]. unfold pf_bytes in *. cbn [pf_tg pf_p pf_num pf_wt] in *.
    destruct Hx as (Hnum & Htg & Hp). cbn [pf_tg pf_p pf_num pf_wt] in *.
    assert (Hw := Hwf). unfold b in Hw. apply wfb_app2 in Hw. destruct Hw as [HwP Hw].
    apply wfb_app2 in Hw. destruct Hw as [HwF HwR]. apply wfb_app2 in HwF. destruct HwF as [HwT Hwp].
    pose proof (varint_of_bounds _ _ HwT Htg) as [Hlt _]. pose proof (payload_len _ _ Hwp Hp) as Hlp.
    pose proof (payload_wt _ _ Hp) as Hwt.
    assert (Hlb : len b = len P + len tg + len p + len R) by (unfold b; rewrite !len_app2; lia).
    pose proof (len_nonneg P) as NP. pose proof (len_nonneg R) as NR.
    unfold fstep. cbn [pf_tg pf_p pf_num pf_wt].
    unfold sbody. replace (negb (len P <? len b)) with false by lia.
    rewrite cfrom_ok by lia. cbn [rbind].
    assert (Esf : slice_from b (len P) = tg ++ p ++ R).
    { unfold b. rewrite slice_from_app by reflexivity. rewrite <- app_assoc. reflexivity. }
    rewrite Esf.
    rewrite (tag_of_varint tg num wt (p ++ R) Htg Hnum ltac:(lia)).
    rewrite (nth_field_irrel vs []). fold (lookup num).
    assert (Eb : b = (P ++ tg) ++ p ++ R) by (unfold b; rewrite <- !app_assoc; reflexivity).
    assert (Eo : len P + len tg = len (P ++ tg)) by (rewrite len_app2; reflexivity).
    destruct (lookup num) as [[i f]|] eqn:Elk.
    - (* known *)
      unfold sknown.
      destruct (negb (wt =? wire (sf_codec f))) eqn:Ewt; [unfold dret, err_mismatch; eexists; reflexivity|].
      assert (Hwt' : wt = wire (sf_codec f)) by lia.
      rewrite cfrom_ok by lia. cbn [rbind].
      rewrite Eb, Eo. rewrite slice_from_app by reflexivity.
      destruct (window_payload (P ++ tg) R wt p f Hwp Hp) as (lo & hi & off' & Ew & Hlo & Hhi & Esl & Eoff & Hshape);
        [rewrite <- Eb; exact Hlim|].
      rewrite Ew. cbn [rbind]. rewrite cslice_ok by lia. cbn [rbind]. rewrite Esl.
      destruct (dec (sf_codec f) (window wt f p) (nth i vs (zero_val (sf_ty f))) (make_flags f flags))
        as [[[n e] newf]| |] eqn:Ed; cbn [rbind]; [|reflexivity|reflexivity].
      destruct e as [e|]; [unfold dret; eexists; reflexivity|].
      assert (Hn : n = len (window wt f p)).
      { eapply (Hcons num i f Elk); [| |exact Ed|].
        - rewrite <- Esl. apply wfb_slice. rewrite <- Eb. exact Hwf.
        - rewrite <- Esl. etransitivity; [apply length_slice_le|]. rewrite <- Eb. exact HL.
        - rewrite <- Hwt'. destruct Hshape as [[E1 E2]|E]; [left; split; assumption | right; exact E]. }
      f_equal. rewrite len_app2 in *. lia.
    - (* unknown *)
      unfold sunknown. rewrite cfrom_ok by lia. cbn [rbind].
      rewrite Eb, Eo. rewrite slice_from_app by reflexivity.
      rewrite skip_of_payload; [|exact Hwp|exact Hp|rewrite <- Eb; lia|rewrite <- Eb; exact Hlim].
      rewrite <- Eb, <- Eo. rewrite s64_id by (unfold lim in Hlim; lia).
      replace (len P + len tg + len p <=? len b) with true by lia.
      f_equal. rewrite len_app2. lia.
  Qed.
End Field.

Ltac okeq :=
  match goal with
  | |- Ok (?r1, ?o1, ?e) = Ok (?r2, ?o2, ?e) =>
      let H1 := fresh in let H2 := fresh in
      assert (H1 : r1 = r2); [try reflexivity; (f_equal; f_equal; lia) |
        assert (H2 : o1 = o2) by lia; exact (f_equal2 (fun r o => Ok (r, o, e)) H1 H2)]
  end.

(* ================= U3: the loop on P ++ S from len P is the loop on S from 0 ================= *)
(* r is r0 with consumed counts moved by d: same error or none, same value *)
Definition sim (d : Z) (r r0 : dres) : Prop :=
  match r0 with
  | Ok (n0, None, v) => r = Ok (n0 + d, None, v)
  | Ok (_, Some e, v) => exists n, r = Ok (n, Some e, v)
  | Panic => r = Panic
  | OutOfFuel => r = OutOfFuel
  end.

Section Shift.
  Variable dec : codec -> bytes -> val -> Z -> dres.
  Variable fields : list sfield.
  Variables flags maxn : Z.
  Variables P T : bytes.
  Let b := P ++ T.
  Let d := len P.
  Hypothesis Hwf : wfb b = true.
  Hypothesis Hlim : len b < lim.
  Hypothesis Hdec : forall f, In f fields -> forall data oldf fl,
    wfb data = true -> (length data <= length T)%nat ->
    exists n e v, dec (sf_codec f) data oldf fl = Ok (n, e, v) /\ 0 <= n <= len data.

  Let HwS : wfb T = true. Proof. apply wfb_app2 in Hwf. tauto. Qed.
  Let Hlb : len b = d + len T. Proof. unfold b, d. apply len_app2. Qed.
  Let Hd : 0 <= d. Proof. apply len_nonneg. Qed.
  Let HlS : len T < lim. Proof. pose proof Hlb. pose proof Hd. lia. Qed.

  (* the end of the unknown-field branch, as a function of the pair computed by skip_of *)
  Definition fin (bb : bytes) (rec : Z -> list val -> dres) (offset : Z) (vs : list val) (se : Z * option proto_error) : dres :=
    let '(skip, err) := se in
    let '(offset, err) := if (s64 (offset + skip)) <=? len bb then (s64 (offset + skip), err) else (len bb, Some proto_ErrUnexpectedEOF) in
    match err with Some _ => dret offset err (VStruct vs) | None => rec offset vs end.
  Lemma sunknown_fin bb rec wt offset vs :
    sunknown bb rec wt offset vs = rlet w <- cfrom bb offset in fin bb rec offset vs (skip_of bb wt w).
  Proof. reflexivity. Qed.

  Lemma skip_rel wt w : wfb w = true -> len w <= len T ->
    skip_of b wt w = skip_of T wt w \/
    exists s size, skip_of b wt w = (s + size, None) /\ skip_of T wt w = (s, Some proto_ErrUnexpectedEOF) /\
                   size > len T - s /\ 0 <= s /\ 0 <= size.
  Proof.
    intros Hw Hl. pose proof (len_nonneg w) as Nw. pose proof Hlb as Hlb'. pose proof Hd as Hd'. pose proof Hlim as Hlim'.
    unfold lim in Hlim'. unfold skip_of.
    destruct (wt =? proto_varint); [left; reflexivity|].
    destruct (wt =? proto_varlen); [|left; reflexivity].
    destruct (proto_decodeVarint w) as [[size s] e] eqn:E. apply dv_bounds in E; [|exact Hw].
    destruct e; [left; reflexivity|].
    rewrite !w64_id by lia.
    destruct (size >? len b - s) eqn:G1; destruct (size >? len T - s) eqn:G2; try (left; reflexivity); [lia|].
    right. exists s, size. rewrite s64_id by lia. repeat split; lia.
  Qed.

  Lemma fin_shift rec rec0 i0 vs se : 0 <= i0 <= len T -> 0 <= fst se <= 2 * len T ->
    (forall j vs', i0 <= j <= len T -> sim d (rec (d + j) vs') (rec0 j vs')) ->
    sim d (fin b rec (d + i0) vs se) (fin T rec0 i0 vs se).
  Proof.
    intros Hi Hs Hrec. destruct se as [skip err]. cbn [fst] in Hs. pose proof Hlb as Hlb'. pose proof Hd as Hd'.
    pose proof Hlim as Hlim'. unfold lim in Hlim'.
    unfold fin. rewrite !s64_id by lia.
    destruct (i0 + skip <=? len T) eqn:G.
    - replace (d + i0 + skip <=? len b) with true by lia.
      destruct err as [e|]; [unfold dret, sim; eexists; reflexivity|].
      replace (d + i0 + skip) with (d + (i0 + skip)) by lia. apply Hrec. lia.
    - replace (d + i0 + skip <=? len b) with false by lia. unfold dret, sim. eexists; reflexivity.
  Qed.

  Lemma sunknown_shift rec rec0 wt i0 vs : 0 <= i0 <= len T ->
    (forall j vs', i0 <= j <= len T -> sim d (rec (d + j) vs') (rec0 j vs')) ->
    sim d (sunknown b rec wt (d + i0) vs) (sunknown T rec0 wt i0 vs).
  Proof.
    intros Hi Hrec. pose proof Hlb as Hlb'. pose proof Hd as Hd'. pose proof Hlim as Hlim'. unfold lim in Hlim'.
    rewrite !sunknown_fin. rewrite !cfrom_ok by lia. cbn [rbind].
    unfold b, d. rewrite slice_from_shift by lia. fold b d.
    set (w := slice_from T i0).
    assert (Hw : wfb w = true) by (apply wfb_slice_from; exact HwS).
    assert (Hlw : len w = len T - i0) by (apply len_slice_from; lia).
    destruct (skip_rel wt w Hw ltac:(lia)) as [E | (s & size & E1 & E2 & Hsz & Hs & Hsize)].
    - rewrite E. apply fin_shift; [lia | | exact Hrec].
      destruct (skip_of T wt w) as [sk er] eqn:Esk. cbn [fst].
      apply (skip_of_ok T HwS HlS wt w sk er Hw ltac:(lia) Esk).
    - rewrite E1, E2. unfold fin.
      assert (Hb : s + size <= 2 * len b).
      { destruct (skip_of_ok b Hwf Hlim wt w (s + size) None Hw ltac:(lia) E1). lia. }
      rewrite !s64_id by lia.
      replace (d + i0 + (s + size) <=? len b) with false by lia.
      destruct (i0 + s <=? len T); unfold dret, sim; eexists; reflexivity.
  Qed.

  Lemma win_shift wt i0 w f range off err :
    win_of T wt i0 w f = Ok (range, off, err) ->
    win_of b wt (d + i0) w f =
      Ok (match range with Some (lo, hi) => Some (d + lo, d + hi) | None => None end, d + off, err).
  Proof.
    pose proof Hlb as Hlb'. unfold win_of.
    destruct (wt =? proto_varint).
    { destruct (proto_decodeVarint w) as [[x n] e]. destruct e; intros E; inversion E; subst; okeq. }
    destruct (wt =? proto_varlen).
    { destruct (proto_decodeVarint w) as [[x n] e]. destruct e; [intros E; inversion E; subst; okeq|].
      replace (len b - (d + i0 + n)) with (len T - (i0 + n)) by lia.
      destruct (x >? w64 (len T - (i0 + n))); [intros E; inversion E; subst; okeq|].
      destruct (sf_embedded f); intros E; inversion E; subst; okeq. }
    destruct (wt =? proto_fixed32).
    { replace (d + i0 + 4 >? len b) with (i0 + 4 >? len T) by lia.
      destruct (i0 + 4 >? len T); intros E; inversion E; subst; okeq. }
    destruct (wt =? proto_fixed64).
    { replace (d + i0 + 8 >? len b) with (i0 + 8 >? len T) by lia.
      destruct (i0 + 8 >? len T); intros E; inversion E; subst; okeq. }
    intros E; inversion E; subst; okeq.
  Qed.

  Lemma sknown_shift rec rec0 wt i0 vs i f : 0 <= i0 <= len T -> In f fields ->
    (forall j vs', i0 <= j <= len T -> sim d (rec (d + j) vs') (rec0 j vs')) ->
    sim d (sknown dec b flags rec wt (d + i0) vs i f) (sknown dec T flags rec0 wt i0 vs i f).
  Proof.
    intros Hi Hin Hrec. pose proof Hlb as Hlb'. pose proof Hd as Hd'.
    unfold sknown.
    destruct (negb (wt =? wire (sf_codec f))); [unfold dret, sim; eexists; reflexivity|].
    rewrite !cfrom_ok by lia. cbn [rbind].
    unfold b, d. rewrite slice_from_shift by lia. fold b d.
    destruct (win_of_ok T HwS HlS wt i0 f Hi) as (range & off' & err & E & Hoff & Hr).
    rewrite (win_shift _ _ _ _ _ _ _ E), E. cbn [rbind].
    destruct range as [[lo hi]|]; [|unfold dret, sim; destruct err; [eexists; reflexivity | f_equal; f_equal; f_equal; lia]].
    rewrite !cslice_ok by lia. cbn [rbind].
    unfold b, d. rewrite slice_shift by lia. fold b d.
    destruct (Hdec f Hin (slice T lo hi) (nth i vs (zero_val (sf_ty f))) (make_flags f flags))
      as (n & e & v & E2 & Hn); [apply wfb_slice; exact HwS | apply length_slice_le|].
    rewrite len_slice in Hn by lia.
    rewrite E2. cbn [rbind].
    destruct e; [unfold dret, sim; eexists; reflexivity|].
    replace (d + off' + n) with (d + (off' + n)) by lia. apply Hrec. lia.
  Qed.

  Lemma sbody_shift rec rec0 i0 vs : 0 <= i0 ->
    (forall j vs', i0 < j <= len T -> sim d (rec (d + j) vs') (rec0 j vs')) ->
    sim d (sbody dec fields b flags maxn rec (d + i0) vs) (sbody dec fields T flags maxn rec0 i0 vs).
  Proof.
    intros Hi Hrec. pose proof Hlb as Hlb'. pose proof Hd as Hd'.
    unfold sbody.
    replace (d + i0 <? len b) with (i0 <? len T) by lia.
    destruct (negb (i0 <? len T)) eqn:G; [unfold dret, sim; f_equal; f_equal; f_equal; lia|].
    rewrite !cfrom_ok by lia. cbn [rbind].
    unfold b, d. rewrite slice_from_shift by lia. fold b d.
    destruct (proto_decodeTag (slice_from T i0)) as [[[fn wt] n] err] eqn:E.
    apply dt_bounds in E; [|apply wfb_slice_from; exact HwS].
    rewrite len_slice_from in E by lia.
    destruct err; [unfold dret, sim; eexists; reflexivity|].
    destruct E as [E1 E2]. specialize (E2 eq_refl).
    rewrite (nth_field_irrel fields vs []).
    match goal with |- context [match ?x with Some _ => _ | None => _ end] => destruct x as [[i f]|] eqn:F end.
    - replace (d + i0 + n) with (d + (i0 + n)) by lia.
      apply sknown_shift; [lia | | intros j vs' Hj; apply Hrec; lia].
      destruct ((0 <=? fn) && (fn <? maxn + 1) && (fn <? 2 ^ 63)); [|discriminate].
      apply nth_field_In in F; exact F.
    - replace (d + i0 + n) with (d + (i0 + n)) by lia.
      apply sunknown_shift; [lia | intros j vs' Hj; apply Hrec; lia].
  Qed.

  Lemma sloop_shift : forall k k0 i0 vs, 0 <= i0 ->
    (Z.to_nat (len T - i0) + 1 <= k)%nat -> (Z.to_nat (len T - i0) + 1 <= k0)%nat ->
    sim d (sloop dec fields b flags maxn k (d + i0) vs) (sloop dec fields T flags maxn k0 i0 vs).
  Proof.
    induction k as [|k IH]; intros k0 i0 vs Hi Hk Hk0; [lia|]. destruct k0 as [|k0]; [lia|].
    change (sloop dec fields b flags maxn (S k) (d + i0) vs)
      with (sbody dec fields b flags maxn (sloop dec fields b flags maxn k) (d + i0) vs).
    change (sloop dec fields T flags maxn (S k0) i0 vs)
      with (sbody dec fields T flags maxn (sloop dec fields T flags maxn k0) i0 vs).
    apply sbody_shift; [exact Hi|]. intros j vs' Hj. apply IH; lia.
  Qed.
End Shift.

(* ================= U4: a field decoder that reports no error has consumed its window ================= *)
(* the struct loop returns without error only from its exit test *)
Lemma win_none b wt o w f off err : win_of b wt o w f = Ok (None, off, err) -> err <> None.
Proof.
  unfold win_of.
  destruct (wt =? proto_varint).
  { destruct (proto_decodeVarint w) as [[x n] e]. destruct e; intros E; inversion E; discriminate. }
  destruct (wt =? proto_varlen).
  { destruct (proto_decodeVarint w) as [[x n] e]. destruct e; [intros E; inversion E; discriminate|].
    destruct (x >? w64 (len b - (o + n))); [intros E; inversion E; discriminate|].
    destruct (sf_embedded f); intros E; inversion E. }
  destruct (wt =? proto_fixed32).
  { destruct (o + 4 >? len b); intros E; inversion E; discriminate. }
  destruct (wt =? proto_fixed64).
  { destruct (o + 8 >? len b); intros E; inversion E; discriminate. }
  intros E; inversion E; discriminate.
Qed.

Section Exit.
  Variable dec : codec -> bytes -> val -> Z -> dres.
  Variable fields : list sfield.
  Variable b : bytes.
  Variables flags maxn : Z.
  Lemma sbody_exit rec o vs n v :
    (forall o' vs', rec o' vs' = Ok (n, None, v) -> len b <= n) ->
    sbody dec fields b flags maxn rec o vs = Ok (n, None, v) -> len b <= n.
  Proof.
    intros Hrec. unfold sbody.
    destruct (negb (o <? len b)) eqn:G; [unfold dret; intros E; inversion E; subst; lia|].
    destruct (cfrom b o) as [w| |]; cbn [rbind]; try discriminate.
    destruct (proto_decodeTag w) as [[[fn wt] n1] err]. destruct err; [discriminate|].
    match goal with |- context [match ?x with Some _ => _ | None => _ end] => destruct x as [[i f]|] end.
    - unfold sknown. destruct (negb (wt =? wire (sf_codec f))); [discriminate|].
      destruct (cfrom b (o + n1)) as [w2| |]; cbn [rbind]; try discriminate.
      destruct (win_of b wt (o + n1) w2 f) as [[[range off] err]| |] eqn:W; cbn [rbind]; try discriminate.
      destruct range as [[lo hi]|].
      + destruct (cslice b lo hi) as [data| |]; cbn [rbind]; try discriminate.
        destruct (dec (sf_codec f) data (nth i vs (zero_val (sf_ty f))) (make_flags f flags)) as [[[n2 e2] nf]| |];
          cbn [rbind]; try discriminate.
        destruct e2; [discriminate|]. apply Hrec.
      + apply win_none in W. destruct err; [discriminate | congruence].
    - unfold sunknown. destruct (cfrom b (o + n1)) as [w2| |]; cbn [rbind]; try discriminate.
      destruct (skip_of b wt w2) as [sk er].
      destruct (s64 (o + n1 + sk) <=? len b); [|discriminate].
      destruct er; [discriminate|]. apply Hrec.
  Qed.
  Lemma sloop_exit : forall k o vs n v, sloop dec fields b flags maxn k o vs = Ok (n, None, v) -> len b <= n.
  Proof.
    induction k as [|k IH]; intros o vs n v; [discriminate|].
    change (sloop dec fields b flags maxn (S k) o vs)
      with (sbody dec fields b flags maxn (sloop dec fields b flags maxn k) o vs).
    apply sbody_exit. intros o' vs'. apply IH.
  Qed.
End Exit.

Lemma payload_varint_inv p : payload_of proto_varint p -> exists x, varint_of p x.
Proof. inversion 1; subst; try discriminate. eexists; eassumption. Qed.
Lemma payload_fixed64_inv p : payload_of proto_fixed64 p -> len p = 8.
Proof. inversion 1; subst; try discriminate. assumption. Qed.
Lemma payload_fixed32_inv p : payload_of proto_fixed32 p -> len p = 4.
Proof. inversion 1; subst; try discriminate. assumption. Qed.
Lemma payload_varlen_inv p : payload_of proto_varlen p -> exists lp s, p = lp ++ s /\ varint_of lp (len s).
Proof. inversion 1; subst; try discriminate. do 2 eexists; split; [reflexivity | assumption]. Qed.

Section VarlenAll.
Local Transparent proto_decodeVarlen.
Lemma varlen_all lp s : wfb (lp ++ s) = true -> len (lp ++ s) < lim -> varint_of lp (len s) ->
  exists v, proto_decodeVarlen (lp ++ s) = (v, len (lp ++ s), None).
Proof.
  intros Hw Hl H. unfold lim in Hl. apply wfb_app2 in Hw. destruct Hw as [Hw1 Hw2].
  pose proof (varint_of_bounds _ _ Hw1 H) as Hb. rewrite len_app2 in *. pose proof (len_nonneg s) as Ns.
  unfold proto_decodeVarlen. rewrite (varint_of_app _ _ s H). cbn [isnil negb].
  unfold subi64, addi64. rewrite len_app2.
  replace (len lp + len s - len lp) with (len s) by lia.
  rewrite (s64_id (len s)) by lia. rewrite w64_id by lia.
  destruct (len s >? len s) eqn:G; [lia|]. rewrite s64_id by lia. eexists; reflexivity.
Qed.
End VarlenAll.

(* [consumes d L c emb]: with enough fuel for inputs up to L bytes, the decoder of codec c, when it reports no
   error, has consumed all of its input -- for an input that is the window the struct loop cuts for wire (c) *)
Definition consumes (d L : nat) (c : codec) (emb : bool) : Prop :=
  forall fuel data old fl n v, (L + d + 1 <= fuel)%nat -> wfb data = true -> (length data <= L)%nat -> len data < lim ->
    decode fuel c data old fl = Ok (n, None, v) ->
    (emb = true /\ wire c = proto_varlen) \/ payload_of (wire c) data ->
    n = len data.

Lemma consumes_mono d d' L c e : consumes d L c e -> (d <= d')%nat -> consumes d' L c e.
Proof. intros H Hd fuel data old fl n v Hf. apply H. lia. Qed.

Lemma consumes_scalar d L c : is_scalar c = true -> consumes d L c false.
Proof.
  intros Hs fuel data old fl n v Hf Hw HL Hlim E Hsh.
  destruct Hsh as [[Hx _]|Hsh]; [discriminate|].
  destruct fuel as [|fuel]; [lia|].
  destruct c; try discriminate Hs; cbn [decode wire] in *;
    try (apply payload_varint_inv in Hsh; destruct Hsh as (x & Hx); unfold varint_of in Hx; rewrite Hx in E;
         repeat match type of E with context [if ?c then _ else _] => destruct c end;
         unfold dret, err_overflow in E; inversion E; subst; reflexivity);
    try (apply payload_fixed32_inv in Hsh; destruct (proto_decodeLE32 data) as [[x m] e] eqn:El;
         unfold dret in E; inversion E; subst; apply le32_len in El; lia);
    try (apply payload_fixed64_inv in Hsh; destruct (proto_decodeLE64 data) as [[x m] e] eqn:El;
         unfold dret in E; inversion E; subst; apply le64_len in El; lia);
    try (apply payload_varlen_inv in Hsh; destruct Hsh as (lp & s & -> & Hv);
         destruct (varlen_all lp s Hw Hlim Hv) as (x & Ex);
         try rewrite Ex in E;
         repeat match type of E with context [if ?c then _ else _] => destruct c end;
         try rewrite Ex in E; unfold dret, err_mismatch in E; inversion E; subst; reflexivity).
Qed.

Lemma consumes_ptr d L t c e : consumes d L c e -> consumes (S d) L (CPtr t c) e.
Proof.
  intros H fuel data old fl n v Hf Hw HL Hlim E Hsh. destruct fuel as [|fuel]; [lia|].
  rewrite decode_ptr_eq in E.
  destruct (decode fuel c data (match old with VPtr (Some x) => x | _ => zero_val t end) fl) as [[[n1 e1] v1]| |] eqn:E1;
    cbn [rbind] in E; try discriminate.
  unfold dret in E. inversion E; subst. eapply H; [| | | |exact E1|exact Hsh]; try assumption. lia.
Qed.

Lemma consumes_pointers_to d L c : is_scalar c = true -> forall ft,
  consumes (d + depth_ty ft) L (pointers_to ft c) false.
Proof.
  intros Hc. induction ft; cbn [pointers_to]; try (apply consumes_scalar; exact Hc).
  cbn [depth_ty]. replace (d + S (depth_ty ft))%nat with (S (d + depth_ty ft)) by lia. apply consumes_ptr, IHft.
Qed.

Lemma consumes_struct d L inl fs e : dok (CStruct inl fs) d -> consumes d L (CStruct inl fs) e.
Proof.
  intros Hd fuel data old fl n v Hf Hw HL Hlim E _.
  destruct (decode_ok _ _ Hd fuel data old fl Hw Hlim ltac:(lia)) as (n1 & e1 & v1 & E1 & Hn).
  rewrite E in E1. inversion E1; subst.
  destruct fuel as [|fuel]; [lia|]. rewrite decode_struct_eq in E. apply sloop_exit in E. lia.
Qed.

Lemma consumes_slice d L num emb et c e : consumes d L c e -> consumes (S d) L (CSlice num (wire c) emb et c) e.
Proof.
  intros H fuel data old fl n v Hf Hw HL Hlim E Hsh. destruct fuel as [|fuel]; [lia|].
  rewrite decode_slice_eq in E.
  destruct (decode fuel c data (zero_val et) proto_noflags) as [[[n1 e1] v1]| |] eqn:E1; cbn [rbind] in E; try discriminate.
  destruct e1; unfold dret in E; inversion E; subst.
  eapply H; [| | | |exact E1|exact Hsh]; try assumption. lia.
Qed.

Lemma consumes_map d L num kf vf kt vt kc vc e :
  dok (codec_of (TStruct [GField true None kt; GField true None vt])) d ->
  consumes (S d) L (CMap num kf vf kt vt kc vc) e.
Proof.
  intros Hd fuel data old fl n v Hf Hw HL Hlim E _. destruct fuel as [|fuel]; [lia|].
  rewrite decode_map_eq in E. cbv zeta in E.
  destruct (len data =? 0) eqn:G; [unfold dret in E; inversion E; subst; lia|].
  rewrite codec_of_struct in E, Hd.
  match type of E with context [decode fuel ?c data ?o ?f] =>
    destruct (decode fuel c data o f) as [[[n1 e1] v1]| |] eqn:E1 end; cbn [rbind] in E; try discriminate.
  assert (n1 = n /\ e1 = None) as [-> ->].
  { destruct e1; [unfold dret in E; inversion E|].
    destruct v1 as [| | | | | |[|k [|v' [|]]]| | |]; unfold dret in E; inversion E; subst; auto. }
  eapply (consumes_struct d L _ _ true Hd); [| | | |exact E1|left; split; reflexivity]; try assumption. lia.
Qed.

Lemma wire_codec_of_struct_base t : elem_ok t = true -> is_struct (base_ty t) = true -> wire (codec_of t) = proto_varlen.
Proof. induction t; cbn [base_ty is_struct codec_of wire elem_ok]; try discriminate; auto. Qed.

Lemma consumes_codec_of L : forall t, elem_ok t = true -> consumes (depth_ty t) L (codec_of t) (is_struct (base_ty t)).
Proof.
  induction t; intros Hok; try (apply consumes_scalar; reflexivity); try discriminate Hok.
  - cbn [codec_of depth_ty base_ty]. apply consumes_ptr, IHt, Hok.
  - apply consumes_struct. apply (proj1 (codec_of_dok (TStruct fs))), Hok.
Qed.

Lemma fl0_embedded (r z : bool) :
  let fl0 := (if r then proto_repeated else 0) + (if z then proto_zigzag else 0) in
  (Z.land fl0 proto_embedded =? 0) = true /\ (Z.land (Z.lor fl0 proto_embedded) proto_embedded =? 0) = false /\
  (Z.land (Z.lor (Z.lor fl0 proto_embedded) proto_repeated) proto_embedded =? 0) = false /\
  (Z.land (Z.lor fl0 proto_repeated) proto_embedded =? 0) = true /\
  (Z.land (Z.lor fl0 (Z.lor proto_embedded proto_repeated)) proto_embedded =? 0) = false.
Proof. destruct r, z; vm_compute; auto. Qed.

Lemma fok_key kt : scalar_key kt = true -> fok kt = true.
Proof. destruct kt; try discriminate; reflexivity. Qed.
Lemma fok_elem t : elem_ok t = true -> fok t = true.
Proof. destruct t; try discriminate; intros H; exact H. Qed.

Lemma generic_consumes L fl0 num ft : fok ft = true ->
  (Z.land fl0 proto_embedded =? 0) = true -> (Z.land (Z.lor fl0 proto_embedded) proto_embedded =? 0) = false ->
  (Z.land (Z.lor (Z.lor fl0 proto_embedded) proto_repeated) proto_embedded =? 0) = false ->
  (Z.land (Z.lor fl0 proto_repeated) proto_embedded =? 0) = true ->
  (Z.land (Z.lor fl0 (Z.lor proto_embedded proto_repeated)) proto_embedded =? 0) = false ->
  consumes (depth_ty ft) L (snd (generic_of fl0 num ft)) (negb (Z.land (fst (generic_of fl0 num ft)) proto_embedded =? 0)).
Proof.
  intros Hok F1 F2 F3 F4 F5.
  assert (Hgen : forall t, elem_ok t = true ->
    consumes (depth_ty t) L (codec_of t)
      (negb (Z.land (if is_struct (base_ty t) then Z.lor fl0 proto_embedded else fl0) proto_embedded =? 0))).
  { intros t Ht. pose proof (consumes_codec_of L t Ht) as H.
    destruct (is_struct (base_ty t)); [rewrite F2 | rewrite F1]; exact H. }
  destruct ft; try (unfold generic_of; cbn [fok] in Hok;
    match goal with |- context [is_struct (base_ty ?t)] => specialize (Hgen t Hok) end;
    destruct (is_struct (base_ty _)); cbn [fst snd]; exact Hgen).
  - (* slice *)
    cbn [fok] in Hok. cbn [generic_of]. cbv zeta. cbn [fst snd depth_ty].
    pose proof (consumes_codec_of L ft Hok) as H.
    destruct (is_struct (base_ty ft)); [rewrite F3 | rewrite F4]; apply consumes_slice; exact H.
  - (* map *)
    cbn [fok] in Hok. apply andb_true_iff in Hok. destruct Hok as [Hk Hv].
    cbn [generic_of]. cbv zeta. cbn [fst snd depth_ty]. rewrite F5. cbn [negb].
    apply consumes_map.
    assert (Hst : elem_ok (TStruct [GField true None ft1; GField true None ft2]) = true).
    { rewrite elem_ok_struct. cbn [fsok]. rewrite (fok_key ft1 Hk), (fok_elem ft2 Hv). reflexivity. }
    pose proof (proj1 (codec_of_dok _) Hst) as Hd. rewrite depth_ty_struct in Hd. cbn [fsdepth] in Hd.
    eapply dok_mono; [exact Hd | lia].
Qed.

Lemma forced_consumes L tg ft c : forced_of tg ft = Some c -> consumes (depth_ty ft) L c false.
Proof.
  unfold forced_of. intros H.
  destruct (tag_wire tg =? proto_fixed32); [|destruct (tag_wire tg =? proto_fixed64); [|discriminate]];
    destruct (base_ty ft) eqn:E; try discriminate; inversion H; subst;
    apply (consumes_pointers_to 0 L); reflexivity.
Qed.

Lemma fcodec_consumes L tag ft number : fok ft = true ->
  consumes (depth_ty ft) L (sf_codec (fcodec tag ft number)) (sf_embedded (fcodec tag ft number)).
Proof.
  intros Hok. unfold fcodec. destruct tag as [tg|]; cbv zeta.
  - pose proof (fl0_embedded (tag_repeated tg) (tag_zigzag tg)) as (F1 & F2 & F3 & F4 & F5).
    destruct (forced_of tg ft) eqn:E.
    + unfold sf_embedded. cbn [sf_codec sf_flags]. rewrite F1. cbn [negb]. eapply forced_consumes; exact E.
    + pose proof (generic_consumes L _ (w16 (tag_number tg)) ft Hok F1 F2 F3 F4 F5) as H.
      destruct (generic_of _ (w16 (tag_number tg)) ft) as [fl c]. exact H.
  - pose proof (generic_consumes L 0 (w16 number) ft Hok eq_refl eq_refl eq_refl eq_refl eq_refl) as H.
    destruct (generic_of 0 (w16 number) ft) as [fl c]. exact H.
Qed.

Lemma cfields_consumes L : forall fs number, fsok fs = true ->
  forall f, In f (cfields fs number) -> consumes (fsdepth fs) L (sf_codec f) (sf_embedded f).
Proof.
  induction fs as [|[e tg ft] r IH]; intros number Hok f Hin; [contradiction|].
  cbn [fsok] in Hok. apply andb_true_iff in Hok. destruct Hok as [Hok Hr].
  apply andb_true_iff in Hok. destruct Hok as [He Hft]. subst e.
  cbn [cfields fsdepth] in *. rewrite fcodec_cons_eq in Hin. destruct Hin as [Hin|Hin].
  - subst f. eapply consumes_mono; [apply fcodec_consumes; exact Hft | lia].
  - eapply consumes_mono; [eapply IH; eassumption | lia].
Qed.

Lemma lookup_In fields maxn num i f : lookup fields maxn num = Some (i, f) -> In f fields.
Proof.
  unfold lookup. destruct ((0 <=? num) && (num <? maxn + 1) && (num <? 2 ^ 63)); [|discriminate].
  apply nth_field_In.
Qed.

Lemma consumes_all_decode gfs f0 maxn L : fsok gfs = true -> (L + fsdepth gfs + 1 <= f0)%nat -> Z.of_nat L < lim ->
  consumes_all (decode f0) (cfields gfs 1) maxn L.
Proof.
  intros Hok Hf HL num i f Hlk data old fl n v Hw Hld E Hsh.
  apply lookup_In in Hlk.
  eapply (cfields_consumes L gfs 1 Hok f Hlk f0); try eassumption. unfold len. lia.
Qed.

(* ================= U5: insertion at top level ================= *)
(* r' is r up to the consumed count: the same error or none, the same value; without error the count moves by d *)
Definition rel (d : Z) (r r' : dres) : Prop :=
  match r with
  | Ok (n, e, v) => exists n', r' = Ok (n', e, v) /\ (e = None -> n' = n + d)
  | Panic => r' = Panic
  | OutOfFuel => r' = OutOfFuel
  end.

Section Top.
  Variable dec : codec -> bytes -> val -> Z -> dres.
  Variable fields : list sfield.
  Variables flags maxn : Z.
  Variable L : nat.
  Hypothesis Hdec : forall f, In f fields -> forall data oldf fl,
    wfb data = true -> (length data <= L)%nat ->
    exists n e v, dec (sf_codec f) data oldf fl = Ok (n, e, v) /\ 0 <= n <= len data.
  Hypothesis Hcons : consumes_all dec fields maxn L.

  Notation loop := (sloop dec fields).
  Notation fstep' := (fstep dec fields flags maxn).
  Notation run' := (run dec fields flags maxn).

  Lemma run_loop : forall l, Forall pf_ok l -> forall P R k vs,
    let b := P ++ pfs_bytes l ++ R in
    wfb b = true -> len b < lim -> (length b <= L)%nat -> (length (pfs_bytes l ++ R) + 1 <= k)%nat ->
    match run' l vs with
    | FCont vs' => exists j, (length R + 1 <= j)%nat /\
        loop b flags maxn k (len P) vs = loop b flags maxn j (len P + len (pfs_bytes l)) vs'
    | FErr e vs' => exists n, loop b flags maxn k (len P) vs = Ok (n, Some e, VStruct vs')
    | FPanic => loop b flags maxn k (len P) vs = Panic
    | FFuel => loop b flags maxn k (len P) vs = OutOfFuel
    end.
  Proof.
    induction l as [|x l IH]; intros Hl P R k vs b Hwf Hlim HL Hk.
    - cbn [run pfs_bytes]. exists k. split; [exact Hk|]. unfold len at 2. cbn [length Z.of_nat]. rewrite Z.add_0_r. reflexivity.
    - inversion Hl as [|x' l' Hx Hl']; subst. cbn [pfs_bytes] in *.
      assert (Eb : b = P ++ pf_bytes x ++ (pfs_bytes l ++ R)) by (unfold b; rewrite <- app_assoc; reflexivity).
      assert (Hwx : wfb (pf_bytes x) = true).
      { rewrite Eb in Hwf. apply wfb_app2 in Hwf. destruct Hwf as [_ Hwf]. apply wfb_app2 in Hwf. tauto. }
      pose proof (pf_len x Hx Hwx) as [Hlt Hlp].
      assert (Hlx : len (pf_bytes x) = len (pf_tg x) + len (pf_p x)) by (unfold pf_bytes; apply len_app2).
      destruct k as [|k]; [lia|].
      change (loop b flags maxn (S k) (len P) vs)
        with (sbody dec fields b flags maxn (loop b flags maxn k) (len P) vs).
      pose proof (sbody_field dec fields flags maxn L P (pfs_bytes l ++ R) x (loop b flags maxn k) vs Hcons Hx) as Hs.
      cbv zeta in Hs. rewrite <- Eb in Hs. specialize (Hs Hwf Hlim HL).
      cbn [run]. destruct (fstep' x vs) as [vs1|e vs1| |] eqn:Ef; try exact Hs.
      rewrite Hs.
      assert (Eb2 : b = (P ++ pf_bytes x) ++ pfs_bytes l ++ R) by (rewrite Eb, <- app_assoc; reflexivity).
      specialize (IH Hl' (P ++ pf_bytes x) R k vs1). cbv zeta in IH. rewrite <- Eb2 in IH.
      specialize (IH Hwf Hlim HL).
      assert (Hk' : (length (pfs_bytes l ++ R) + 1 <= k)%nat).
      { rewrite <- app_assoc in Hk. rewrite app_length in Hk. unfold len in *. lia. }
      specialize (IH Hk'). rewrite (len_app2 P (pf_bytes x)) in IH.
      destruct (run' l vs1) as [vs2|e vs2| |]; try exact IH.
      destruct IH as (j & Hj & IH). exists j. split; [exact Hj|]. rewrite IH. f_equal. rewrite len_app2. lia.
  Qed.

  Lemma sim_rel d d' r r' r0 : sim d r r0 -> sim d' r' r0 -> rel (d' - d) r r'.
  Proof.
    unfold sim, rel. destruct r0 as [[[n0 e0] v0]| |].
    - destruct e0 as [e0|].
      + intros (n & ->) (n' & ->). exists n'. split; [reflexivity | discriminate].
      + intros -> ->. eexists. split; [reflexivity|]. intros _. lia.
    - intros -> ->. reflexivity.
    - intros -> ->. reflexivity.
  Qed.

  Lemma Hdec_le (T : bytes) : (length T <= L)%nat -> forall f, In f fields -> forall data oldf fl,
    wfb data = true -> (length data <= length T)%nat ->
    exists n e v, dec (sf_codec f) data oldf fl = Ok (n, e, v) /\ 0 <= n <= len data.
  Proof. intros HT f Hin data oldf fl Hw Hl. apply Hdec; [exact Hin | exact Hw | lia]. Qed.

  (* the two loops after a common run of fields, when the next fields X (in b) and X' (in b') act alike *)
  Lemma loop_splice (Q : dres -> dres -> Prop) :
    (forall n n' e v, Q (Ok (n, Some e, v)) (Ok (n', Some e, v))) -> Q Panic Panic -> Q OutOfFuel OutOfFuel ->
    forall l, Forall pf_ok l -> forall X X' R k k' vs,
    let b := pfs_bytes l ++ X ++ R in
    let b' := pfs_bytes l ++ X' ++ R in
    wfb b = true -> wfb b' = true -> len b < lim -> len b' < lim -> (length b <= L)%nat -> (length b' <= L)%nat ->
    (length b + 1 <= k)%nat -> (length b' + 1 <= k')%nat ->
    (forall vs' j j', (length (X ++ R) + 1 <= j)%nat -> (length (X' ++ R) + 1 <= j')%nat ->
       Q (loop b flags maxn j (len (pfs_bytes l)) vs') (loop b' flags maxn j' (len (pfs_bytes l)) vs')) ->
    Q (loop b flags maxn k 0 vs) (loop b' flags maxn k' 0 vs).
  Proof.
    intros QE QP QF l Hl X X' R k k' vs b b' Hwf Hwf' Hlim Hlim' HL HL' Hk Hk' Hnext.
    pose proof (run_loop l Hl [] (X ++ R) k vs) as H1. pose proof (run_loop l Hl [] (X' ++ R) k' vs) as H2.
    cbv zeta in H1, H2. cbn [app] in H1, H2. fold b in H1. fold b' in H2.
    specialize (H1 Hwf Hlim HL Hk). specialize (H2 Hwf' Hlim' HL' Hk').
    change (len (@nil Z)) with 0 in H1, H2. cbn [Z.add] in H1, H2.
    destruct (run' l vs) as [vs1|e vs1| |].
    - destruct H1 as (j & Hj & ->). destruct H2 as (j' & Hj' & ->). apply Hnext; assumption.
    - destruct H1 as (n & ->). destruct H2 as (n' & ->). apply QE.
    - rewrite H1, H2. exact QP.
    - rewrite H1, H2. exact QF.
  Qed.

  (* after the splice point the two loops read the same suffix R *)
  Lemma loop_suffix (Q Q' R : bytes) j j' vs :
    wfb (Q ++ R) = true -> wfb (Q' ++ R) = true -> len (Q ++ R) < lim -> len (Q' ++ R) < lim -> (length R <= L)%nat ->
    (length R + 1 <= j)%nat -> (length R + 1 <= j')%nat ->
    rel (len Q' - len Q) (loop (Q ++ R) flags maxn j (len Q) vs) (loop (Q' ++ R) flags maxn j' (len Q') vs).
  Proof.
    intros Hwf Hwf' Hlim Hlim' HL Hj Hj'.
    pose proof (sloop_shift dec fields flags maxn Q R Hwf Hlim (Hdec_le R HL) j (length R + 1) 0 vs ltac:(lia)) as H1.
    pose proof (sloop_shift dec fields flags maxn Q' R Hwf' Hlim' (Hdec_le R HL) j' (length R + 1) 0 vs ltac:(lia)) as H2.
    rewrite Z.add_0_r in H1, H2. unfold len in H1, H2.
    eapply sim_rel; [apply H1; lia | apply H2; lia].
  Qed.

  Theorem insert_loop l u R k k' vs : Forall pf_ok l -> pf_ok u -> lookup fields maxn (pf_num u) = None ->
    let b := pfs_bytes l ++ R in
    let b' := pfs_bytes l ++ pf_bytes u ++ R in
    wfb b' = true -> len b' < lim -> (length b' <= L)%nat -> (length b + 1 <= k)%nat -> (length b' + 1 <= k')%nat ->
    rel (len (pf_bytes u)) (loop b flags maxn k 0 vs) (loop b' flags maxn k' 0 vs).
  Proof.
    intros Hl Hu Hlk b b' Hwf' Hlim' HL' Hk Hk'.
    assert (Hlen : len b' = len b + len (pf_bytes u)) by (unfold b, b'; rewrite !len_app2; lia).
    pose proof (len_nonneg (pf_bytes u)) as Nu.
    assert (Hwf : wfb b = true).
    { unfold b, b' in *. apply wfb_app2 in Hwf'. destruct Hwf' as [H1 H2]. apply wfb_app2 in H2. apply wfb_app2. tauto. }
    assert (HLb : (length b <= L)%nat) by (unfold len in Hlen; lia).
    replace (len (pf_bytes u)) with (len (pf_bytes u) - len (@nil Z)) by (change (len (@nil Z)) with 0; lia).
    apply (loop_splice (rel (len (pf_bytes u) - len (@nil Z)))
             ltac:(intros n0 n0' e0 v0; exists n0'; split; [reflexivity | discriminate]) eq_refl eq_refl
             l Hl [] (pf_bytes u) R k k' vs); try assumption; try lia; [cbn [app]; fold b; lia|].
    intros vs' j j' Hj Hj'. cbn [app] in *.
    (* one iteration on u *)
    destruct j' as [|j']; [lia|].
    change (loop (pfs_bytes l ++ pf_bytes u ++ R) flags maxn (S j') (len (pfs_bytes l)) vs')
      with (sbody dec fields (pfs_bytes l ++ pf_bytes u ++ R) flags maxn (loop (pfs_bytes l ++ pf_bytes u ++ R) flags maxn j') (len (pfs_bytes l)) vs').
    pose proof (sbody_field dec fields flags maxn L (pfs_bytes l) R u (loop (pfs_bytes l ++ pf_bytes u ++ R) flags maxn j') vs' Hcons Hu
                  Hwf' Hlim' HL') as Hs.
    unfold fstep in Hs. rewrite Hlk in Hs. rewrite Hs.
    assert (Hwu : wfb (pf_bytes u) = true).
    { unfold b' in Hwf'. apply wfb_app2 in Hwf'. destruct Hwf' as [_ H2]. apply wfb_app2 in H2. tauto. }
    pose proof (pf_len u Hu Hwu) as [Hlt Hlp].
    assert (Hlu : len (pf_bytes u) = len (pf_tg u) + len (pf_p u)) by (unfold pf_bytes; apply len_app2).
    rewrite <- (len_app2 (pfs_bytes l) (pf_bytes u)).
    replace (len (pf_bytes u) - len (@nil Z)) with (len (pfs_bytes l ++ pf_bytes u) - len (pfs_bytes l))
      by (rewrite len_app2; change (len (@nil Z)) with 0; lia).
    replace (pfs_bytes l ++ pf_bytes u ++ R) with ((pfs_bytes l ++ pf_bytes u) ++ R) by (rewrite <- app_assoc; reflexivity).
    apply loop_suffix.
    - exact Hwf.
    - rewrite <- app_assoc. exact Hwf'.
    - unfold b in *. lia.
    - rewrite <- app_assoc. exact Hlim'.
    - unfold b in HLb. rewrite app_length in HLb. lia.
    - exact Hj.
    - rewrite app_length in Hj'. unfold len in *. lia.
  Qed.
End Top.

Lemma nf_go_none number : forall fs i acc, ~ In number (map sf_number fs) ->
  (fix go (fs : list sfield) (i : nat) (acc : option (nat * sfield)) : option (nat * sfield) :=
     match fs with
     | [] => acc
     | f :: r => go r (S i) (if sf_number f =? number then Some (i, f) else acc)
     end) fs i acc = acc.
Proof.
  induction fs as [|a r IH]; intros i acc Hn; [reflexivity|].
  cbn [map In] in Hn. rewrite IH by tauto.
  destruct (sf_number a =? number) eqn:E; [exfalso; apply Hn; left; lia | reflexivity].
Qed.
Lemma lookup_none fields maxn num : ~ In num (map sf_number fields) -> lookup fields maxn num = None.
Proof.
  intros H. unfold lookup. destruct ((0 <=? num) && (num <? maxn + 1) && (num <? 2 ^ 63)); [|reflexivity].
  unfold nth_field. apply nf_go_none, H.
Qed.

Lemma declared_struct gfs : declared (TStruct gfs) = map sf_number (cfields gfs 1).
Proof. reflexivity. Qed.
Lemma compiled_struct gfs : compiled (TStruct gfs) = cfields gfs 1.
Proof. reflexivity. Qed.

Lemma fields_dok gfs : fsok gfs = true -> forall f, In f (cfields gfs 1) -> dok (sf_codec f) (fsdepth gfs).
Proof.
  intros Hok. apply cfields_dok; [exact Hok|]. apply Forall_forall. intros g _. apply codec_of_dok.
Qed.
Lemma fields_dec gfs f0 (L : nat) : fsok gfs = true -> (L + fsdepth gfs + 1 <= f0)%nat -> Z.of_nat L < lim ->
  forall f, In f (cfields gfs 1) -> forall data oldf fl, wfb data = true -> (length data <= L)%nat ->
    exists n e v, decode f0 (sf_codec f) data oldf fl = Ok (n, e, v) /\ 0 <= n <= len data.
Proof.
  intros Hok Hf HL f Hin data oldf fl Hw Hl.
  apply (decode_ok _ _ (fields_dok gfs Hok f Hin)); [exact Hw | unfold len; lia | lia].
Qed.

Theorem unknown_insert_decode : unknown_insert_decode_statement.
Proof.
  intros gfs b1 b2 u num wt old flags fuel t Hok Hwf Hlim Hb1 Hu Hnum Hfuel.
  apply fields_seq_pf in Hb1. destruct Hb1 as (l & Hl & ->).
  apply is_field_pf in Hu. destruct Hu as (x & Hx & <- & _ & <-).
  unfold t in *. rewrite declared_struct in Hnum. rewrite depth_ty_struct in Hfuel.
  assert (Hfs : fsok gfs = true) by exact Hok.
  rewrite codec_of_struct. destruct fuel as [|f0]; [lia|]. rewrite !decode_struct_eq.
  set (fields := cfields gfs 1) in *. set (fl := without flags proto_toplevel). set (maxn := max_number fields).
  set (vs := match old with VStruct vs => vs | _ => [] end).
  set (b := pfs_bytes l ++ b2) in *. set (b' := pfs_bytes l ++ pf_bytes x ++ b2) in *.
  set (L := length b').
  assert (HLlim : Z.of_nat L < lim) by exact Hlim.
  assert (Hf0 : (L + fsdepth gfs + 1 <= f0)%nat) by (unfold L; lia).
  pose proof (fields_dec gfs f0 L Hfs Hf0 HLlim) as Hdec.
  pose proof (consumes_all_decode gfs f0 maxn L Hfs Hf0 HLlim) as Hcons.
  assert (Hlen : len b' = len b + len (pf_bytes x)) by (unfold b, b'; rewrite !len_app2; lia).
  pose proof (len_nonneg (pf_bytes x)) as Nx.
  assert (Hwfb : wfb b = true).
  { unfold b, b' in *. apply wfb_app2 in Hwf. destruct Hwf as [H1 H2]. apply wfb_app2 in H2. apply wfb_app2. tauto. }
  assert (HLb : (length b <= L)%nat) by (unfold L, len in *; lia).
  assert (K1 : (length b + 1 <= f0)%nat) by lia.
  assert (K2 : (length b' + 1 <= f0)%nat) by (unfold L in Hf0; lia).
  assert (K3 : (length b' <= L)%nat) by (unfold L; lia).
  pose proof (insert_loop (decode f0) fields fl maxn L Hdec Hcons l x b2 f0 f0 vs Hl Hx (lookup_none _ _ _ Hnum)
                Hwf Hlim K3 K1 K2) as Hrel.
  fold b b' in Hrel.
  destruct (sloop_ok (decode f0) fields b fl maxn Hwfb ltac:(lia)
              (fun f Hin data oldf fl' Hw Hl' => Hdec f Hin data oldf fl' Hw ltac:(lia)) f0 0 vs
              ltac:(pose proof (len_nonneg b); lia) ltac:(unfold len; lia)) as (n & e & v & E & Hn).
  rewrite E in Hrel. destruct Hrel as (n' & E' & Hn').
  exists n, n', e, v. split; [exact E|]. split; [exact E'|].
  intros He. subst e. apply sloop_exit in E. specialize (Hn' eq_refl). lia.
Qed.

Lemma decode_struct_empty f inl fields old flags :
  decode (S (S f)) (CStruct inl fields) [] old flags =
  Ok (0, None, VStruct (match old with VStruct vs => vs | _ => [] end)).
Proof. reflexivity. Qed.

Theorem unknown_insert : unknown_insert_statement.
Proof.
  intros gfs b1 b2 u num wt old fuel t Hok Hwf Hlim Hb1 Hu Hnum Hfuel Hne.
  destruct (unknown_insert_decode gfs b1 b2 u num wt old proto_toplevel fuel Hok Hwf Hlim Hb1 Hu Hnum ltac:(unfold t in Hfuel; lia))
    as (n & n' & e & v & E & E' & Hn).
  fold t in E, E'.
  assert (Hu' : 1 <= len u).
  { apply is_field_pf in Hu. destruct Hu as (x & Hx & _ & _ & <-).
    apply wfb_app2 in Hwf. destruct Hwf as [_ Hwf]. apply wfb_app2 in Hwf. destruct Hwf as [Hwf _].
    pose proof (pf_len x Hx Hwf). unfold pf_bytes. rewrite len_app2. lia. }
  assert (Hne' : len (b1 ++ u ++ b2) =? 0 = false).
  { rewrite !len_app2. pose proof (len_nonneg b1). pose proof (len_nonneg b2). lia. }
  unfold Unmarshal. rewrite Hne'. rewrite E'. cbn [rbind].
  destruct (len (b1 ++ b2) =? 0) eqn:G.
  - (* the empty message: only with a zero target *)
    assert (b1 ++ b2 = []) as Eb by (destruct (b1 ++ b2); [reflexivity | unfold len in G; cbn [length] in G; lia]).
    destruct Hne as [Hne | ->]; [contradiction|].
    rewrite Eb in E. unfold t in E. rewrite codec_of_struct in E.
    destruct fuel as [|[|f]]; [lia | lia |]. rewrite decode_struct_empty in E. inversion E; subst.
    specialize (Hn eq_refl). destruct Hn as [_ ->]. rewrite Z.ltb_irrefl.
    eexists. split; reflexivity.
  - rewrite E. cbn [rbind]. destruct e as [e|]; [eexists; split; reflexivity|].
    specialize (Hn eq_refl). destruct Hn as [-> ->]. rewrite !Z.ltb_irrefl. eexists. split; reflexivity.
Qed.

(* ---------- the refuted form: any prior value of the target ---------- *)
Definition rf_t : list gfield := [GField true None TInt64].
Lemma rf_field : is_field 9 0 [72; 1].
Proof.
  exists [72], [1]. split; [reflexivity|]. split; [lia|]. split; [vm_compute; reflexivity|].
  apply P_varint with (x := 1). vm_compute. reflexivity.
Qed.
Theorem unknown_insert_any_target_refuted : ~ unknown_insert_any_target_statement.
Proof.
  intros H.
  specialize (H rf_t [] [] [72; 1] 9 0 (VStruct [VInt 3]) 10%nat eq_refl eq_refl eq_refl FS_nil rf_field).
  destruct H as (r & H1 & H2).
  - vm_compute. intros [H|[]]. discriminate.
  - vm_compute. lia.
  - vm_compute in H1, H2. congruence.
Qed.

(* ================= U6: insertion inside embedded messages ================= *)
Definition deq (lb lb' : Z) (r r' : dres) : Prop :=
  exists n n' e v v', r = Ok (n, e, v) /\ r' = Ok (n', e, v') /\ (e = None -> v = v' /\ n = lb /\ n' = lb').
(* decoding p and p' with codec c agree, for every prior value and flags, with fuel for d levels of nesting *)
Definition Wd (d : nat) (c : codec) (p p' : bytes) : Prop :=
  forall fuel old fl, (length p + d + 1 <= fuel)%nat -> (length p' + d + 1 <= fuel)%nat ->
    deq (len p) (len p') (decode fuel c p old fl) (decode fuel c p' old fl).

Lemma Wd_mono d d' c p p' : Wd d c p p' -> (d <= d')%nat -> Wd d' c p p'.
Proof. intros H Hd fuel old fl Hf Hf'. apply H; lia. Qed.

Lemma Wd_ptr d t c p p' : Wd d c p p' -> Wd (S d) (CPtr t c) p p'.
Proof.
  intros H fuel old fl Hf Hf'. destruct fuel as [|fuel]; [lia|]. rewrite !decode_ptr_eq.
  destruct (H fuel (match old with VPtr (Some x) => x | _ => zero_val t end) fl) as (n & n' & e & v & v' & E & E' & Hn); [lia|lia|].
  rewrite E, E'. cbn [rbind]. unfold dret.
  exists n, n', e, (VPtr (Some v)), (VPtr (Some v')). split; [reflexivity|]. split; [reflexivity|].
  intros He. destruct (Hn He) as (-> & H1 & H2). auto.
Qed.

Lemma Wd_slice d num wt emb et c p p' : Wd d c p p' -> Wd (S d) (CSlice num wt emb et c) p p'.
Proof.
  intros H fuel old fl Hf Hf'. destruct fuel as [|fuel]; [lia|]. rewrite !decode_slice_eq.
  destruct (H fuel (zero_val et) proto_noflags) as (n & n' & e & v & v' & E & E' & Hn); [lia|lia|].
  rewrite E, E'. cbn [rbind]. unfold dret. destruct e as [e0|].
  - exists n, n', (Some e0), old, old. split; [reflexivity|]. split; [reflexivity|]. discriminate.
  - destruct (Hn eq_refl) as (-> & H1 & H2). do 5 eexists. split; [reflexivity|]. split; [reflexivity|]. auto.
Qed.

Lemma Wd_map d num kf vf kt vt kc vc p p' : p <> [] -> p' <> [] ->
  Wd d (codec_of (TStruct [GField true None kt; GField true None vt])) p p' ->
  Wd (S d) (CMap num kf vf kt vt kc vc) p p'.
Proof.
  intros Hp Hp' H fuel old fl Hf Hf'. destruct fuel as [|fuel]; [lia|]. rewrite !decode_map_eq. cbv zeta.
  assert (G : len p =? 0 = false) by (destruct p; [congruence | unfold len; cbn [length]; lia]).
  assert (G' : len p' =? 0 = false) by (destruct p'; [congruence | unfold len; cbn [length]; lia]).
  rewrite G, G'.
  match goal with |- context [decode fuel ?c p ?o ?f] =>
    destruct (H fuel o f) as (n & n' & e & v & v' & E & E' & Hn); [lia|lia|] end.
  rewrite E, E'. cbn [rbind]. unfold dret. destruct e as [e0|].
  - do 5 eexists. split; [reflexivity|]. split; [reflexivity|]. discriminate.
  - destruct (Hn eq_refl) as (-> & H1 & H2).
    destruct v' as [| | | | | |[|k [|v [|]]]| | |]; do 5 eexists; (split; [reflexivity|]); (split; [reflexivity|]); auto.
Qed.

Lemma Wd_codec_of p p' : forall t sub, struct_of t = Some sub ->
  Wd (depth_ty sub) (codec_of sub) p p' -> Wd (depth_ty t) (codec_of t) p p'.
Proof.
  induction t; intros sub Hs H; unfold struct_of in Hs; cbn [base_ty] in Hs; try discriminate.
  - cbn [codec_of depth_ty]. apply Wd_ptr. apply (IHt sub); [exact Hs | exact H].
  - inversion Hs; subst. exact H.
Qed.

Lemma struct_of_is_struct t sub : struct_of t = Some sub -> is_struct (base_ty t) = true.
Proof. unfold struct_of. destruct (base_ty t); try discriminate. reflexivity. Qed.
Lemma struct_of_elem_ok : forall t sub, struct_of t = Some sub -> elem_ok t = true -> elem_ok sub = true.
Proof.
  induction t; intros sub Hs Hok; unfold struct_of in Hs; cbn [base_ty] in Hs; try discriminate.
  - apply (IHt sub); [exact Hs | exact Hok].
  - inversion Hs; subst. exact Hok.
Qed.
Lemma struct_of_numbers : forall t sub, struct_of t = Some sub -> numbers_ok (codec_of t) = numbers_ok (codec_of sub).
Proof.
  induction t; intros sub Hs; unfold struct_of in Hs; cbn [base_ty] in Hs; try discriminate.
  - cbn [codec_of numbers_ok]. apply IHt. exact Hs.
  - inversion Hs; subst. reflexivity.
Qed.
Lemma struct_of_depth : forall t sub, struct_of t = Some sub -> (depth_ty sub <= depth_ty t)%nat.
Proof.
  induction t; intros sub Hs; unfold struct_of in Hs; cbn [base_ty] in Hs; try discriminate.
  - cbn [depth_ty]. specialize (IHt sub Hs). lia.
  - inversion Hs; subst. lia.
Qed.

Lemma sub_forced_none tg ft sub : sub_message ft = Some sub -> forced_of tg ft = None.
Proof.
  intros H.
  assert (Hb : match base_ty ft with TUint32 | TFloat32 | TUint64 | TFloat64 => False | _ => True end).
  { destruct ft; cbn [sub_message] in H; unfold struct_of in H; cbn [base_ty] in *; try discriminate; try exact I;
      destruct (base_ty ft); try discriminate; exact I. }
  unfold forced_of. destruct (tag_wire tg =? proto_fixed32); [|destruct (tag_wire tg =? proto_fixed64); [|reflexivity]];
    destruct (base_ty ft); try reflexivity; contradiction.
Qed.

Lemma entry_elem_ok kt vt : scalar_key kt = true -> elem_ok vt = true -> elem_ok (entry_ty kt vt) = true.
Proof. intros Hk Hv. unfold entry_ty. rewrite elem_ok_struct. cbn [fsok]. rewrite (fok_key kt Hk), (fok_elem vt Hv). reflexivity. Qed.

Lemma sub_elem_ok ft sub : fok ft = true -> sub_message ft = Some sub -> elem_ok sub = true.
Proof.
  intros Hok Hs. destruct ft; cbn [sub_message fok] in *;
    try (eapply struct_of_elem_ok; [exact Hs | exact Hok]).
  apply andb_true_iff in Hok. destruct Hok as [Hk Hv]. inversion Hs; subst. apply entry_elem_ok; assumption.
Qed.

Lemma sub_depth ft sub : sub_message ft = Some sub -> (depth_ty sub <= depth_ty ft)%nat.
Proof.
  intros Hs. destruct ft; cbn [sub_message] in *; try (apply struct_of_depth; exact Hs).
  - apply struct_of_depth in Hs. cbn [depth_ty]. lia.
  - inversion Hs; subst. unfold entry_ty. rewrite depth_ty_struct. cbn [fsdepth depth_ty]. lia.
Qed.

Lemma generic_Wd fl0 num ft sub p p' : sub_message ft = Some sub ->
  (is_map ft = true -> p <> [] /\ p' <> []) ->
  Wd (depth_ty sub) (codec_of sub) p p' -> Wd (depth_ty ft) (snd (generic_of fl0 num ft)) p p'.
Proof.
  intros Hs Hm H.
  destruct ft; cbn [sub_message] in Hs; try (unfold struct_of in Hs; cbn [base_ty] in Hs; discriminate).
  - unfold generic_of. destruct (is_struct (base_ty (TPtr ft))); cbn [snd]; apply (Wd_codec_of p p' _ sub Hs H).
  - unfold generic_of. destruct (is_struct (base_ty (TStruct fs))); cbn [snd]; apply (Wd_codec_of p p' _ sub Hs H).
  - cbn [generic_of]. cbv zeta. cbn [snd depth_ty]. apply Wd_slice. apply (Wd_codec_of p p' _ sub Hs H).
  - inversion Hs; subst. cbn [generic_of]. cbv zeta. cbn [snd depth_ty].
    destruct (Hm eq_refl) as [Hp Hp'].
    apply Wd_map; [exact Hp | exact Hp'|]. eapply Wd_mono; [exact H|].
    unfold entry_ty. rewrite depth_ty_struct. cbn [fsdepth]. lia.
Qed.

Lemma field_Wd tag ft k sub p p' : sub_message ft = Some sub ->
  (is_map ft = true -> p <> [] /\ p' <> []) ->
  Wd (depth_ty sub) (codec_of sub) p p' -> Wd (depth_ty ft) (sf_codec (fcodec tag ft k)) p p'.
Proof.
  intros Hs Hm H. unfold fcodec. destruct tag as [tg|]; cbv zeta.
  - rewrite (sub_forced_none tg ft sub Hs).
    pose proof (generic_Wd ((if tag_repeated tg then proto_repeated else 0) + (if tag_zigzag tg then proto_zigzag else 0))
                  (w16 (tag_number tg)) ft sub p p' Hs Hm H) as G.
    destruct (generic_of _ (w16 (tag_number tg)) ft) as [fl c]. exact G.
  - pose proof (generic_Wd 0 (w16 k) ft sub p p' Hs Hm H) as G.
    destruct (generic_of 0 (w16 k) ft) as [fl c]. exact G.
Qed.

Lemma generic_emb fl0 num ft sub : fok ft = true -> sub_message ft = Some sub ->
  (Z.land (Z.lor fl0 proto_embedded) proto_embedded =? 0) = false ->
  (Z.land (Z.lor (Z.lor fl0 proto_embedded) proto_repeated) proto_embedded =? 0) = false ->
  (Z.land (Z.lor fl0 (Z.lor proto_embedded proto_repeated)) proto_embedded =? 0) = false ->
  negb (Z.land (fst (generic_of fl0 num ft)) proto_embedded =? 0) = true /\ wire (snd (generic_of fl0 num ft)) = proto_varlen.
Proof.
  intros Hok Hs F2 F3 F5.
  destruct ft; cbn [sub_message fok] in *; try (unfold struct_of in Hs; cbn [base_ty] in Hs; discriminate).
  - unfold generic_of. rewrite (struct_of_is_struct _ _ Hs). cbn [fst snd]. rewrite F2.
    split; [reflexivity | apply wire_codec_of_struct_base; [exact Hok | apply (struct_of_is_struct _ _ Hs)]].
  - unfold generic_of. rewrite (struct_of_is_struct _ _ Hs). cbn [fst snd]. rewrite F2.
    split; [reflexivity | reflexivity].
  - cbn [generic_of]. cbv zeta. rewrite (struct_of_is_struct _ _ Hs). cbn [fst snd wire]. rewrite F3.
    split; [reflexivity | apply wire_codec_of_struct_base; [exact Hok | apply (struct_of_is_struct _ _ Hs)]].
  - cbn [generic_of]. cbv zeta. cbn [fst snd wire]. rewrite F5. split; reflexivity.
Qed.

Lemma field_emb tag ft k sub : fok ft = true -> sub_message ft = Some sub ->
  sf_embedded (fcodec tag ft k) = true /\ wire (sf_codec (fcodec tag ft k)) = proto_varlen.
Proof.
  intros Hok Hs. unfold fcodec. destruct tag as [tg|]; cbv zeta.
  - rewrite (sub_forced_none tg ft sub Hs).
    pose proof (fl0_embedded (tag_repeated tg) (tag_zigzag tg)) as (F1 & F2 & F3 & F4 & F5).
    pose proof (generic_emb _ (w16 (tag_number tg)) ft sub Hok Hs F2 F3 F5) as G.
    destruct (generic_of _ (w16 (tag_number tg)) ft) as [fl c]. exact G.
  - pose proof (generic_emb 0 (w16 k) ft sub Hok Hs eq_refl eq_refl eq_refl) as G.
    destruct (generic_of 0 (w16 k) ft) as [fl c]. exact G.
Qed.

Lemma sf_ty_fcodec tag ft k : sf_ty (fcodec tag ft k) = ft.
Proof.
  unfold fcodec. destruct tag as [tg|]; cbv zeta.
  - destruct (forced_of tg ft); [reflexivity|]. destruct (generic_of _ _ ft); reflexivity.
  - destruct (generic_of _ _ ft); reflexivity.
Qed.

Lemma cfields_In_inv : forall fs k f, fsok fs = true -> In f (cfields fs k) ->
  exists tag ft k', f = fcodec tag ft k' /\ fok ft = true /\ (depth_ty ft <= fsdepth fs)%nat.
Proof.
  induction fs as [|[e tg ft] r IH]; intros k f Hok Hin; [contradiction|].
  cbn [fsok] in Hok. apply andb_true_iff in Hok. destruct Hok as [Hok Hr].
  apply andb_true_iff in Hok. destruct Hok as [He Hft]. subst e.
  cbn [cfields fsdepth] in *. rewrite fcodec_cons_eq in Hin. destruct Hin as [Hin|Hin].
  - exists tg, ft, k. split; [symmetry; exact Hin|]. split; [exact Hft | lia].
  - destruct (IH _ _ Hr Hin) as (tag & ft' & k' & E & H1 & H2). exists tag, ft', k'. split; [exact E|]. split; [exact H1 | lia].
Qed.

(* numbers *)
Lemma numbers_struct_inv inl fs : numbers_ok (CStruct inl fs) = true ->
  distinct (map sf_number fs) = true /\
  forall f, In f fs -> 1 <= sf_number f < 2 ^ 16 /\ numbers_ok (sf_codec f) = true.
Proof.
  cbn [numbers_ok]. intros H. apply andb_true_iff in H. destruct H as [Hd H]. split; [exact Hd|]. clear Hd.
  induction fs as [|[n ts fl t c] r IH]; intros f Hin; [contradiction|].
  apply andb_true_iff in H. destruct H as [H Hr]. apply andb_true_iff in H. destruct H as [H Hc].
  apply andb_true_iff in H. destruct H as [H1 H2].
  destruct Hin as [<-|Hin]; [cbn [sf_number sf_codec]; split; [lia | exact Hc] | apply IH; assumption].
Qed.

Lemma distinct_cons x r : distinct (x :: r) = true -> ~ In x r /\ distinct r = true.
Proof.
  cbn [distinct]. intros H. apply andb_true_iff in H. destruct H as [H1 H2]. split; [|exact H2].
  intros Hin. apply negb_true_iff in H1.
  assert (existsb (Z.eqb x) r = true) by (apply existsb_exists; exists x; split; [exact Hin | apply Z.eqb_refl]).
  congruence.
Qed.

Lemma nf_go_distinct : forall fs i acc f, In f fs -> distinct (map sf_number fs) = true ->
  exists j,
  (fix go (fs : list sfield) (i : nat) (acc : option (nat * sfield)) : option (nat * sfield) :=
     match fs with
     | [] => acc
     | f' :: r => go r (S i) (if sf_number f' =? sf_number f then Some (i, f') else acc)
     end) fs i acc = Some (j, f).
Proof.
  induction fs as [|a r IH]; intros i acc f Hin Hd; [contradiction|].
  cbn [map] in Hd. apply distinct_cons in Hd. destruct Hd as [Hn Hd].
  destruct Hin as [->|Hin].
  - rewrite Z.eqb_refl. exists i. apply nf_go_none. exact Hn.
  - apply IH; assumption.
Qed.

Lemma max_number_ge : forall fs m, m <= fold_left (fun m f => Z.max m (sf_number f)) fs m /\
  forall f, In f fs -> sf_number f <= fold_left (fun m f => Z.max m (sf_number f)) fs m.
Proof.
  induction fs as [|a r IH]; intros m; cbn [fold_left]; [split; [lia | contradiction]|].
  destruct (IH (Z.max m (sf_number a))) as [H1 H2]. split; [lia|].
  intros f [<-|Hin]; [lia | apply H2; exact Hin].
Qed.

Lemma lookup_distinct fields f : distinct (map sf_number fields) = true -> In f fields -> 1 <= sf_number f < 2 ^ 16 ->
  exists i, lookup fields (max_number fields) (sf_number f) = Some (i, f).
Proof.
  intros Hd Hin Hn. unfold lookup.
  pose proof (proj2 (max_number_ge fields 0) f Hin) as Hm. fold (max_number fields) in Hm.
  replace ((0 <=? sf_number f) && (sf_number f <? max_number fields + 1) && (sf_number f <? 2 ^ 63)) with true by lia.
  unfold nth_field. apply nf_go_distinct; assumption.
Qed.

Lemma fcodec_none_eq ft k : fcodec None ft k =
  SField (w16 k) (w8 (proto_sizeOfTag (w16 k) (wire (snd (generic_of 0 (w16 k) ft))))) (fst (generic_of 0 (w16 k) ft)) ft
         (snd (generic_of 0 (w16 k) ft)).
Proof. unfold fcodec. cbv zeta. destruct (generic_of 0 (w16 k) ft); reflexivity. Qed.

Lemma entry_numbers kt vt : scalar_key kt = true -> elem_ok vt = true ->
  numbers_ok (codec_of kt) = true -> numbers_ok (codec_of vt) = true -> numbers_ok (codec_of (entry_ty kt vt)) = true.
Proof.
  intros Hk Hv Nk Nv. unfold entry_ty. rewrite codec_of_struct. cbn [cfields]. rewrite !fcodec_cons_eq, !fcodec_none_eq.
  rewrite (generic_same 0 (w16 1) kt) by (destruct kt; try discriminate Hk; exact I).
  rewrite (generic_same 0 (w16 (1 + 1)) vt) by (destruct vt; try discriminate Hv; exact I).
  cbn [numbers_ok map sf_number]. rewrite Nk, Nv. reflexivity.
Qed.

Lemma sub_numbers tag ft k sub : fok ft = true -> sub_message ft = Some sub ->
  numbers_ok (sf_codec (fcodec tag ft k)) = true -> numbers_ok (codec_of sub) = true.
Proof.
  intros Hok Hs.
  assert (G : forall fl0 num, numbers_ok (snd (generic_of fl0 num ft)) = true -> numbers_ok (codec_of sub) = true).
  { intros fl0 num. destruct ft; cbn [sub_message fok] in *; try (unfold struct_of in Hs; cbn [base_ty] in Hs; discriminate).
    - unfold generic_of. destruct (is_struct _); cbn [snd]; rewrite (struct_of_numbers _ _ Hs); auto.
    - unfold generic_of. destruct (is_struct _); cbn [snd]; rewrite (struct_of_numbers _ _ Hs); auto.
    - cbn [generic_of]. cbv zeta. cbn [snd numbers_ok]. intros H. apply andb_true_iff in H. destruct H as [_ H].
      rewrite <- (struct_of_numbers _ _ Hs). exact H.
    - inversion Hs; subst. cbn [generic_of]. cbv zeta. cbn [snd numbers_ok]. intros H.
      apply andb_true_iff in H. destruct H as [H Nv]. apply andb_true_iff in H. destruct H as [_ Nk].
      apply andb_true_iff in Hok. destruct Hok as [Hk Hv]. apply entry_numbers; assumption. }
  unfold fcodec. destruct tag as [tg|]; cbv zeta.
  - rewrite (sub_forced_none tg ft sub Hs).
    match goal with |- context [generic_of ?a ?b ft] => specialize (G a b); destruct (generic_of a b ft) end. exact G.
  - match goal with |- context [generic_of ?a ?b ft] => specialize (G a b); destruct (generic_of a b ft) end. exact G.
Qed.

Definition relw (d : Z) (r r' : dres) : Prop :=
  match r with
  | Ok (n, None, v) => r' = Ok (n + d, None, v)
  | Ok (n, Some e, v) => exists n' v', r' = Ok (n', Some e, v')
  | Panic => r' = Panic
  | OutOfFuel => r' = OutOfFuel
  end.
Lemma rel_relw d r r' : rel d r r' -> relw d r r'.
Proof.
  unfold rel, relw. destruct r as [[[n e] v]| |]; auto. intros (n' & -> & Hn).
  destruct e; [eauto | rewrite (Hn eq_refl); reflexivity].
Qed.

Lemma varint_of_nonempty s x : varint_of s x -> s <> [].
Proof. intros H ->. vm_compute in H. discriminate. Qed.

Lemma inside_loop gfs f0 L l tg lp lp' p p' R f i vs fl :
  let fields := cfields gfs 1 in
  let maxn := max_number fields in
  let b := pfs_bytes l ++ (tg ++ lp ++ p) ++ R in
  let b' := pfs_bytes l ++ (tg ++ lp' ++ p') ++ R in
  fsok gfs = true -> Forall pf_ok l ->
  lookup fields maxn (sf_number f) = Some (i, f) -> sf_embedded f = true -> wire (sf_codec f) = proto_varlen ->
  0 <= sf_number f ->
  varint_of tg (sf_number f * 8 + proto_varlen) -> varint_of lp (len p) -> varint_of lp' (len p') ->
  (forall old fl', deq (len p) (len p') (decode f0 (sf_codec f) p old fl') (decode f0 (sf_codec f) p' old fl')) ->
  wfb b = true -> wfb b' = true -> len b < lim -> len b' < lim -> (length b <= L)%nat -> (length b' <= L)%nat ->
  (L + fsdepth gfs + 1 <= f0)%nat -> Z.of_nat L < lim ->
  relw (len b' - len b) (sloop (decode f0) fields b fl maxn f0 0 vs) (sloop (decode f0) fields b' fl maxn f0 0 vs).
Proof.
  intros fields maxn b b' Hfs Hl Hlk Hemb Hwire Hnum Htg Hlp Hlp' Hdeq Hwf Hwf' Hlim Hlim' HL HL' Hf0 HLlim.
  pose proof (fields_dec gfs f0 L Hfs Hf0 HLlim) as Hdec.
  pose proof (consumes_all_decode gfs f0 maxn L Hfs Hf0 HLlim) as Hcons.
  fold fields in Hdec, Hcons.
  set (X := tg ++ lp ++ p) in *. set (X' := tg ++ lp' ++ p') in *.
  apply (loop_splice (decode f0) fields fl maxn L Hcons (relw (len b' - len b))
           ltac:(intros n0 n0' e0 v0; unfold relw; eauto) eq_refl eq_refl l Hl X X' R f0 f0 vs);
    try assumption; try lia; [fold b; lia | fold b'; lia |].
  intros vs' j j' Hj Hj'.
  destruct j as [|j]; [lia|]. destruct j' as [|j']; [lia|].
  change (sloop (decode f0) fields (pfs_bytes l ++ X ++ R) fl maxn (S j) (len (pfs_bytes l)) vs')
    with (sbody (decode f0) fields b fl maxn (sloop (decode f0) fields b fl maxn j) (len (pfs_bytes l)) vs').
  change (sloop (decode f0) fields (pfs_bytes l ++ X' ++ R) fl maxn (S j') (len (pfs_bytes l)) vs')
    with (sbody (decode f0) fields b' fl maxn (sloop (decode f0) fields b' fl maxn j') (len (pfs_bytes l)) vs').
  set (x := PF (sf_number f) proto_varlen tg (lp ++ p)). set (x' := PF (sf_number f) proto_varlen tg (lp' ++ p')).
  assert (Hx : pf_ok x) by (unfold pf_ok; cbn [pf_num pf_wt pf_tg pf_p x]; split; [lia|]; split; [exact Htg | constructor; exact Hlp]).
  assert (Hx' : pf_ok x') by (unfold pf_ok; cbn [pf_num pf_wt pf_tg pf_p x']; split; [lia|]; split; [exact Htg | constructor; exact Hlp']).
  pose proof (sbody_field (decode f0) fields fl maxn L (pfs_bytes l) R x (sloop (decode f0) fields b fl maxn j) vs' Hcons Hx Hwf Hlim HL) as Hs.
  pose proof (sbody_field (decode f0) fields fl maxn L (pfs_bytes l) R x' (sloop (decode f0) fields b' fl maxn j') vs' Hcons Hx' Hwf' Hlim' HL') as Hs'.
  change (pfs_bytes l ++ pf_bytes x ++ R) with b in Hs. change (pfs_bytes l ++ pf_bytes x' ++ R) with b' in Hs'.
  change (pf_bytes x) with X in Hs. change (pf_bytes x') with X' in Hs'.
  assert (Ef : forall q lq, varint_of lq (len q) ->
    fstep (decode f0) fields fl maxn (PF (sf_number f) proto_varlen tg (lq ++ q)) vs' =
    match decode f0 (sf_codec f) q (nth i vs' (zero_val (sf_ty f))) (make_flags f fl) with
    | Ok (_, None, newf) => FCont (set_nth vs' i newf)
    | Ok (_, Some e, newf) => FErr e (set_nth vs' i newf)
    | Panic => FPanic
    | OutOfFuel => FFuel
    end).
  { intros q lq Hq. unfold fstep. cbn [pf_num pf_wt pf_p]. rewrite Hlk, Hwire.
    change (negb (proto_varlen =? proto_varlen)) with false. cbv iota.
    unfold window. rewrite Hemb. change ((proto_varlen =? proto_varlen) && true) with true. cbv iota.
    rewrite (varint_of_app lq (len q) q Hq). rewrite slice_from_app by reflexivity. reflexivity. }
  unfold x in Hs. unfold x' in Hs'. rewrite (Ef p lp Hlp) in Hs. rewrite (Ef p' lp' Hlp') in Hs'.
  destruct (Hdeq (nth i vs' (zero_val (sf_ty f))) (make_flags f fl)) as (n & n' & e & v & v' & E & E' & Hn).
  rewrite E in Hs. rewrite E' in Hs'.
  destruct e as [e|].
  - destruct Hs as (m & ->). destruct Hs' as (m' & ->). unfold relw. eauto.
  - destruct (Hn eq_refl) as (-> & _ & _). rewrite Hs, Hs'.
    rewrite <- !len_app2.
    assert (Eb : b = (pfs_bytes l ++ X) ++ R) by (unfold b; rewrite <- app_assoc; reflexivity).
    assert (Eb' : b' = (pfs_bytes l ++ X') ++ R) by (unfold b'; rewrite <- app_assoc; reflexivity).
    apply rel_relw.
    replace (len b' - len b) with (len (pfs_bytes l ++ X') - len (pfs_bytes l ++ X))
      by (rewrite Eb, Eb', !len_app2; lia).
    rewrite Eb, Eb'.
    assert (HR : (length R <= L)%nat) by (rewrite Eb in HL; rewrite app_length in HL; lia).
    apply (loop_suffix (decode f0) fields fl maxn L Hdec (pfs_bytes l ++ X) (pfs_bytes l ++ X') R j j' (set_nth vs' i v'));
      try (rewrite <- ?Eb, <- ?Eb'; assumption).
    + assert (1 <= length tg)%nat by (pose proof (varint_of_nonempty _ _ Htg); destruct tg; [congruence | cbn [length]; lia]).
      unfold X in Hj. rewrite !app_length in Hj. lia.
    + assert (1 <= length tg)%nat by (pose proof (varint_of_nonempty _ _ Htg); destruct tg; [congruence | cbn [length]; lia]).
      unfold X' in Hj'. rewrite !app_length in Hj'. lia.
Qed.

Lemma widened_nonempty t b b' : widened t b b' -> b' <> [].
Proof.
  destruct 1 as [gfs b1 b2 u num wt Hb1 Hu Hnum | gfs b1 b2 tg lp lp' p p' f sub Hb1 Hin Hsub Htg Hlp Hlp' Hmap Hw].
  - destruct Hu as (tg & q & -> & _ & Ht & _). apply varint_of_nonempty in Ht.
    intros E. apply app_eq_nil in E. destruct E as [_ E]. apply app_eq_nil in E. destruct E as [E _].
    apply app_eq_nil in E. tauto.
  - apply varint_of_nonempty in Htg. intros E. apply app_eq_nil in E. destruct E as [_ E]. apply app_eq_nil in E. tauto.
Qed.

Theorem nested_Wd : forall t b b', widened t b b' ->
  type_ok t = true -> numbers_ok (codec_of t) = true ->
  wfb b = true -> wfb b' = true -> len b < lim -> len b' < lim ->
  Wd (depth_ty t) (codec_of t) b b'.
Proof.
  induction 1 as [gfs b1 b2 u num wt Hb1 Hu Hnum | gfs b1 b2 tg lp lp' p p' f sub Hb1 Hin Hsub Htg Hlp Hlp' Hmap Hw IH];
    intros Hok Hnok Hwf Hwf' Hlim Hlim'.
  - intros fuel old fl Hf Hf'.
    destruct (unknown_insert_decode gfs b1 b2 u num wt old fl fuel Hok Hwf' Hlim' Hb1 Hu Hnum Hf') as (n & n' & e & v & E & E' & Hn).
    exists n, n', e, v, v. split; [exact E|]. split; [exact E'|]. intros He. destruct (Hn He). auto.
  - assert (Hfs : fsok gfs = true) by exact Hok.
    rewrite compiled_struct in Hin.
    destruct (cfields_In_inv gfs 1 f Hfs Hin) as (tag & ft & k' & Ef & Hfok & Hdep).
    rewrite codec_of_struct in Hnok. destruct (numbers_struct_inv _ _ Hnok) as [Hd Hall].
    destruct (Hall f Hin) as [Hrange Hnc].
    destruct (lookup_distinct (cfields gfs 1) f Hd Hin Hrange) as (i & Hlk).
    assert (Hty : sf_ty f = ft) by (rewrite Ef; apply sf_ty_fcodec). rewrite Hty in Hsub, Hmap.
    destruct (field_emb tag ft k' sub Hfok Hsub) as [Hemb Hwire]. rewrite <- Ef in Hemb, Hwire.
    (* the pieces *)
    assert (Hwp : wfb p = true /\ wfb p' = true).
    { apply wfb_app2 in Hwf. destruct Hwf as [_ Hwf]. apply wfb_app2 in Hwf. destruct Hwf as [_ Hwf].
      apply wfb_app2 in Hwf. destruct Hwf as [_ Hwf]. apply wfb_app2 in Hwf.
      apply wfb_app2 in Hwf'. destruct Hwf' as [_ Hwf']. apply wfb_app2 in Hwf'. destruct Hwf' as [_ Hwf'].
      apply wfb_app2 in Hwf'. destruct Hwf' as [_ Hwf']. apply wfb_app2 in Hwf'.
      split; [exact (proj1 Hwf) | exact (proj1 Hwf')]. }
    assert (Hlen : (length p <= length (b1 ++ tg ++ lp ++ p ++ b2))%nat /\ (length p' <= length (b1 ++ tg ++ lp' ++ p' ++ b2))%nat)
      by (clear; rewrite !app_length; lia).
    assert (Hsubw : Wd (depth_ty sub) (codec_of sub) p p').
    { apply IH.
      - apply (sub_elem_ok ft sub Hfok Hsub).
      - apply (sub_numbers tag ft k' sub Hfok Hsub). rewrite <- Ef. exact Hnc.
      - exact (proj1 Hwp).
      - exact (proj2 Hwp).
      - destruct Hlen as [Hlen _]. clear - Hlen Hlim. unfold len in *. lia.
      - destruct Hlen as [_ Hlen]. clear - Hlen Hlim'. unfold len in *. lia. }
    assert (Hfw : Wd (depth_ty ft) (sf_codec f) p p').
    { rewrite Ef. apply (field_Wd tag ft k' sub p p' Hsub); [|exact Hsubw].
      intros Hm. split; [apply Hmap; exact Hm | apply (widened_nonempty _ _ _ Hw)]. }
    clear IH Hw Hsubw Hmap Hsub Hnok Hd Hall Hnc Hok Hin Hfok Hty Hwp.
    intros fuel old fl Hf Hf'. rewrite depth_ty_struct in Hf, Hf'.
    rewrite codec_of_struct. destruct fuel as [|f0]; [clear - Hf; lia|]. rewrite !decode_struct_eq.
    apply fields_seq_pf in Hb1. destruct Hb1 as (l & Hl & ->).
    set (fields := cfields gfs 1) in *. set (flg := without fl proto_toplevel). set (maxn := max_number fields) in *.
    set (vs := match old with VStruct vs => vs | _ => [] end).
    assert (Eb : pfs_bytes l ++ tg ++ lp ++ p ++ b2 = pfs_bytes l ++ (tg ++ lp ++ p) ++ b2) by (rewrite <- !app_assoc; reflexivity).
    assert (Eb' : pfs_bytes l ++ tg ++ lp' ++ p' ++ b2 = pfs_bytes l ++ (tg ++ lp' ++ p') ++ b2) by (rewrite <- !app_assoc; reflexivity).
    rewrite Eb in *. rewrite Eb' in *.
    set (b := pfs_bytes l ++ (tg ++ lp ++ p) ++ b2) in *. set (b' := pfs_bytes l ++ (tg ++ lp' ++ p') ++ b2) in *.
    set (L := Nat.max (length b) (length b')).
    assert (HLb : (length b <= L)%nat) by (unfold L; clear; lia).
    assert (HLb' : (length b' <= L)%nat) by (unfold L; clear; lia).
    assert (HLlim : Z.of_nat L < lim) by (clear - Hlim Hlim'; unfold L, len in *; lia).
    assert (Hf0 : (L + fsdepth gfs + 1 <= f0)%nat) by (clear - Hf Hf'; unfold L; lia).
    assert (Hdeq : forall old' fl', deq (len p) (len p') (decode f0 (sf_codec f) p old' fl') (decode f0 (sf_codec f) p' old' fl')).
    { intros old' fl'. apply Hfw; clear - Hlen HLb HLb' Hf0 Hdep; lia. }
    assert (Hn0 : 0 <= sf_number f) by (clear - Hrange; lia).
    pose proof (inside_loop gfs f0 L l tg lp lp' p p' b2 f i vs flg Hfs Hl Hlk Hemb Hwire Hn0 Htg Hlp Hlp' Hdeq
                  Hwf Hwf' Hlim Hlim' HLb HLb' Hf0 HLlim) as Hrel.
    fold fields maxn b b' in Hrel.
    pose proof (fields_dec gfs f0 L Hfs Hf0 HLlim) as Hdec. fold fields in Hdec.
    assert (Hz : 0 <= 0 <= len b /\ 0 <= 0 <= len b') by (clear; unfold len; lia).
    assert (Hk : (Z.to_nat (len b - 0) + 1 <= f0)%nat /\ (Z.to_nat (len b' - 0) + 1 <= f0)%nat)
      by (clear - HLb HLb' Hf0; unfold len; lia).
    destruct (sloop_ok (decode f0) fields b flg maxn Hwf Hlim
                (fun f1 Hin1 data oldf fl' Hw Hl' => Hdec f1 Hin1 data oldf fl' Hw (Nat.le_trans _ _ _ Hl' HLb)) f0 0 vs
                (proj1 Hz) (proj1 Hk)) as (n & e & v & E & Hn).
    destruct (sloop_ok (decode f0) fields b' flg maxn Hwf' Hlim'
                (fun f1 Hin1 data oldf fl' Hw Hl' => Hdec f1 Hin1 data oldf fl' Hw (Nat.le_trans _ _ _ Hl' HLb')) f0 0 vs
                (proj2 Hz) (proj2 Hk)) as (n' & e' & v' & E' & Hn').
    rewrite E, E' in Hrel. unfold relw in Hrel.
    destruct e as [e|].
    + destruct Hrel as (n2 & v2 & Hrel). inversion Hrel; subst.
      exists n, n2, (Some e), v, v2. split; [exact E|]. split; [exact E'|]. discriminate.
    + inversion Hrel; subst.
      exists n, (n + (len b' - len b)), None, v, v. split; [exact E|]. split; [exact E'|].
      intros _. apply sloop_exit in E. split; [reflexivity|]. clear - E Hn. lia.
Qed.

Theorem unknown_nested_decode : unknown_nested_decode_statement.
Proof.
  intros t b b' old flags fuel Hok Hnok Hw Hwf Hwf' Hlim Hlim' Hf Hf'.
  apply (nested_Wd t b b' Hw Hok Hnok Hwf Hwf' Hlim Hlim' fuel old flags Hf Hf').
Qed.

Lemma len_zero_nil (b : bytes) : len b =? 0 = true -> b = [].
Proof. destruct b; [reflexivity | unfold len; cbn [length]; lia]. Qed.
Lemma len_nonzero (b : bytes) : b <> [] -> len b =? 0 = false.
Proof. destruct b; [congruence | unfold len; cbn [length]; lia]. Qed.

Theorem unknown_nested : unknown_nested_statement.
Proof.
  intros t b b' old fuel Hok Hnok Hw Hwf Hwf' Hlim Hlim' Hf Hf' Hne.
  destruct (unknown_nested_decode t b b' old proto_toplevel fuel Hok Hnok Hw Hwf Hwf' Hlim Hlim' ltac:(clear - Hf; lia) ltac:(clear - Hf'; lia))
    as (n & n' & e & v & v' & E & E' & Hn).
  assert (Ht : exists gfs, t = TStruct gfs) by (destruct Hw; eexists; reflexivity).
  destruct Ht as (gfs & ->).
  unfold Unmarshal. rewrite (len_nonzero b' (widened_nonempty _ _ _ Hw)). rewrite E'. cbn [rbind].
  destruct (len b =? 0) eqn:G.
  - apply len_zero_nil in G. subst b. destruct Hne as [Hne | ->]; [contradiction|].
    rewrite codec_of_struct in E. destruct fuel as [|[|f]]; [clear - Hf; lia | clear - Hf; lia |].
    rewrite decode_struct_empty in E. inversion E; subst.
    destruct (Hn eq_refl) as (<- & _ & ->). rewrite Z.ltb_irrefl. eexists. split; reflexivity.
  - rewrite E. cbn [rbind]. destruct e as [e|]; [eexists; split; reflexivity|].
    destruct (Hn eq_refl) as (-> & -> & ->). rewrite !Z.ltb_irrefl. eexists. split; reflexivity.
Qed.

(* ================= U7: the refuted nested form (empty map entry) ================= *)
Definition rn_t : gty := TStruct [GField true None (TMap TString TInt64)].
Definition rn_f : sfield := match compiled rn_t with f :: _ => f | [] => SField 0 0 0 TBool CBool end.
Lemma rn_widened : widened_any rn_t [10; 0] [10; 2; 72; 1].
Proof.
  apply (WA_inside [GField true None (TMap TString TInt64)] [] [] [10] [0] [2] [] [72; 1] rn_f (entry_ty TString TInt64)).
  - constructor.
  - vm_compute. left. reflexivity.
  - reflexivity.
  - vm_compute. reflexivity.
  - vm_compute. reflexivity.
  - vm_compute. reflexivity.
  - apply (WA_here [GField true None TString; GField true None TInt64] [] [] [72; 1] 9 0); [constructor | exact rf_field |].
    vm_compute. intros [H|[H|[]]]; discriminate.
Qed.
Theorem unknown_nested_any_refuted : ~ unknown_nested_any_statement.
Proof.
  intros H.
  destruct (H rn_t [10; 0] [10; 2; 72; 1] 12%nat eq_refl eq_refl rn_widened eq_refl eq_refl eq_refl eq_refl) as (r & H1 & H2).
  - vm_compute. lia.
  - vm_compute. lia.
  - vm_compute in H1, H2. congruence.
Qed.

(* ================= U8: the field scanner and field boundaries ================= *)
(* what proto.Parse (model: Proto/RewriteModel.v) splits off is one complete field in the sense of UnknownSpec *)
Lemma firstn_skipn_len (b : bytes) n : 0 <= n <= len b ->
  b = firstn (Z.to_nat n) b ++ skipn (Z.to_nat n) b /\ len (firstn (Z.to_nat n) b) = n /\ len (skipn (Z.to_nat n) b) = len b - n.
Proof.
  intros H. split; [symmetry; apply firstn_skipn|]. unfold len in *. rewrite firstn_length, skipn_length. lia.
Qed.

Lemma skipn_skipn2 {A} : forall (y x : nat) (l : list A), skipn x (skipn y l) = skipn (y + x) l.
Proof.
  induction y as [|y IH]; intros x l; [reflexivity|].
  destruct l; [destruct x; reflexivity | cbn [skipn Nat.add]; apply IH].
Qed.

Lemma parse_is_field b f t v m : wfb b = true -> len b < 2 ^ 62 ->
  RewriteModel.Parse b = RewriteModel.ROk (f, t, v, m) -> exists u, b = u ++ m /\ is_field f t u /\ wfb m = true.
Proof.
  intros Hwf Hlen. rewrite RewriteWire.Parse_unfold.
  destruct (proto_decodeVarint b) as [[tag n] err] eqn:E.
  destruct err as [e|]; [discriminate|].
  pose proof (dv_bounds b tag n None Hwf E) as (Hn & Htag & Hn1). specialize (Hn1 eq_refl).
  rewrite RewriteWire.rfrom_ok by lia. cbn [RewriteModel.rrbind].
  destruct (firstn_skipn_len b n ltac:(lia)) as (Eb & Ltg & Lm0).
  set (tg := firstn (Z.to_nat n) b) in *. set (m0 := skipn (Z.to_nat n) b) in *.
  assert (Htg : varint_of tg tag).
  { unfold varint_of. rewrite Ltg. apply RewriteWire.decodeVarint_firstn; assumption. }
  assert (Hw0 : wfb m0 = true) by (apply wfb_skipn; exact Hwf).
  pose proof (len_nonneg m0) as N0.
  unfold RewriteWire.pbody, RewriteModel.DecodeTag.
  rewrite shr64_div by lia. unfold and64. rewrite land7. change (2 ^ 3) with 8.
  assert (Etag : tag = tag / 8 * 8 + tag mod 8) by (pose proof (Z.div_mod tag 8); lia).
  assert (Hf : 0 <= tag / 8) by (apply Z.div_pos; lia).
  assert (Hfield : forall p r, m0 = p ++ r -> payload_of (tag mod 8) p -> v = v -> 
            exists u, b = u ++ r /\ is_field (tag / 8) (tag mod 8) u).
  { intros p r Em Hp _. exists (tg ++ p). split; [rewrite Eb, Em, <- app_assoc; reflexivity|].
    exists tg, p. split; [reflexivity|]. split; [exact Hf|]. split; [rewrite <- Etag; exact Htg | exact Hp]. }
  destruct (tag mod 8 =? proto_varint) eqn:T0.
  { destruct (proto_decodeVarint m0) as [[x n2] e2] eqn:E2. destruct e2; [discriminate|].
    pose proof (dv_bounds m0 x n2 None Hw0 E2) as (Hn2 & _ & Hn2'). specialize (Hn2' eq_refl).
    destruct (len m0 <? n2) eqn:G; [discriminate|].
    rewrite RewriteWire.rslice_ok by lia. cbn [RewriteModel.rrbind]. rewrite RewriteWire.rfrom_ok by lia. cbn [RewriteModel.rrbind].
    intros H. inversion H; subst f t v m. clear H.
    destruct (firstn_skipn_len m0 n2 ltac:(lia)) as (Em & Lp & Lr).
    destruct (Hfield _ _ Em) as (u & Hu1 & Hu2); [|reflexivity|].
    - replace (tag mod 8) with proto_varint by lia. apply P_varint with (x := x). unfold varint_of. rewrite Lp.
      apply RewriteWire.decodeVarint_firstn; assumption.
    - exists u. split; [exact Hu1|]. split; [exact Hu2 | pose proof Hwf as Hw'; rewrite Hu1 in Hw'; apply wfb_app2 in Hw'; exact (proj2 Hw')]. }
  destruct (tag mod 8 =? proto_varlen) eqn:T2.
  { destruct (proto_decodeVarint m0) as [[x n2] e2] eqn:E2. destruct e2; [discriminate|].
    pose proof (dv_bounds m0 x n2 None Hw0 E2) as (Hn2 & Hx & Hn2'). specialize (Hn2' eq_refl).
    rewrite w64_id by lia.
    destruct (len m0 - n2 <? x) eqn:G; [discriminate|].
    rewrite s64_id by lia.
    rewrite RewriteWire.rslice_ok by lia. cbn [RewriteModel.rrbind]. rewrite RewriteWire.rfrom_ok by lia. cbn [RewriteModel.rrbind].
    intros H. inversion H; subst f t v m. clear H.
    destruct (firstn_skipn_len m0 n2 ltac:(lia)) as (Em & Lp & Lr).
    set (m1 := skipn (Z.to_nat n2) m0) in *.
    destruct (firstn_skipn_len m1 x ltac:(lia)) as (Em1 & Ls & Lr1).
    replace (n2 + x - n2) with x by lia.
    assert (Er : skipn (Z.to_nat (n2 + x)) m0 = skipn (Z.to_nat x) m1).
    { unfold m1. rewrite skipn_skipn2. f_equal. lia. }
    rewrite Er.
    destruct (Hfield (firstn (Z.to_nat n2) m0 ++ firstn (Z.to_nat x) m1) (skipn (Z.to_nat x) m1)) as (u & Hu1 & Hu2);
      [rewrite <- app_assoc, <- Em1; exact Em | | reflexivity |].
    - replace (tag mod 8) with proto_varlen by lia. apply P_varlen. unfold varint_of. rewrite Ls, Lp.
      apply RewriteWire.decodeVarint_firstn; assumption.
    - exists u. split; [exact Hu1|]. split; [exact Hu2 | pose proof Hwf as Hw'; rewrite Hu1 in Hw'; apply wfb_app2 in Hw'; exact (proj2 Hw')]. }
  destruct (tag mod 8 =? proto_fixed32) eqn:T5.
  { destruct (len m0 <? 4) eqn:G; [discriminate|].
    rewrite RewriteWire.rslice_ok by lia. cbn [RewriteModel.rrbind]. rewrite RewriteWire.rfrom_ok by lia. cbn [RewriteModel.rrbind].
    intros H. inversion H; subst f t v m. clear H.
    destruct (firstn_skipn_len m0 4 ltac:(lia)) as (Em & Lp & Lr).
    destruct (Hfield _ _ Em) as (u & Hu1 & Hu2); [|reflexivity|].
    - replace (tag mod 8) with proto_fixed32 by lia. apply P_fixed32. exact Lp.
    - exists u. split; [exact Hu1|]. split; [exact Hu2 | pose proof Hwf as Hw'; rewrite Hu1 in Hw'; apply wfb_app2 in Hw'; exact (proj2 Hw')]. }
  destruct (tag mod 8 =? proto_fixed64) eqn:T1; [|discriminate].
  destruct (len m0 <? 8) eqn:G; [discriminate|].
  rewrite RewriteWire.rslice_ok by lia. cbn [RewriteModel.rrbind]. rewrite RewriteWire.rfrom_ok by lia. cbn [RewriteModel.rrbind].
  intros H. inversion H; subst f t v m. clear H.
  destruct (firstn_skipn_len m0 8 ltac:(lia)) as (Em & Lp & Lr).
  destruct (Hfield _ _ Em) as (u & Hu1 & Hu2); [|reflexivity|].
  - replace (tag mod 8) with proto_fixed64 by lia. apply P_fixed64. exact Lp.
  - exists u. split; [exact Hu1|]. split; [exact Hu2 | pose proof Hwf as Hw'; rewrite Hu1 in Hw'; apply wfb_app2 in Hw'; exact (proj2 Hw')].
Qed.

(* every byte string proto.Scan (model: Proto/ScanModel.v) walks to its end without error is a sequence of
   complete fields: any point Scan stops at between two callbacks is a field boundary for the theorems above *)
Lemma scan_fields : forall fuel b l, wfb b = true -> len b < 2 ^ 62 ->
  ScanModel.scan fuel b = RewriteModel.ROk l -> fields_seq b.
Proof.
  induction fuel as [|k IH]; intros b l Hwf Hlen H.
  - destruct b; [constructor | discriminate].
  - destruct b as [|c b']; [constructor|]. set (b := c :: b') in *.
    change (ScanModel.scan (S k) b) with
      (match RewriteModel.Parse b with
       | RewriteModel.ROk (fn, t, v, m) =>
           match ScanModel.scan k m with
           | RewriteModel.ROk l => RewriteModel.ROk ((fn, t, v) :: l)
           | RewriteModel.RErr e => RewriteModel.RErr e
           | RewriteModel.RPanic => RewriteModel.RPanic
           | RewriteModel.RFuel => RewriteModel.RFuel
           end
       | RewriteModel.RErr e => RewriteModel.RErr e
       | RewriteModel.RPanic => RewriteModel.RPanic
       | RewriteModel.RFuel => RewriteModel.RFuel
       end) in H.
    destruct (RewriteModel.Parse b) as [[[[fn t] v] m]|e| |] eqn:EP; try discriminate.
    destruct (parse_is_field b fn t v m Hwf Hlen EP) as (u & Eb & Hu & Hwm).
    destruct (ScanModel.scan k m) as [l'|e| |] eqn:ES; try discriminate.
    rewrite Eb. apply FS_cons with (num := fn) (wt := t); [exact Hu|].
    apply (IH m l' Hwm); [|exact ES].
    rewrite Eb in Hlen. rewrite len_app2 in Hlen. pose proof (len_nonneg u). lia.
Qed.

Theorem scan_boundary : scan_boundary_statement.
Proof. intros b l Hwf Hlen H. apply (scan_fields (length b) b l Hwf Hlen H). Qed.

(* ================= U9: the route through the wire-format specification of C12 ================= *)
(* Corollary of WireProofs.unmarshal_reencoded_zz. In Proto/WireSpec.v a legal encoding of a message may carry, at
   the top level and inside every embedded message (nested structs, elements of repeated message fields, message
   values of maps -- but NOT directly inside a map entry), any number of records with undeclared numbers in
   1 .. max_field_number, of every wire type. Two legal encodings of one message therefore decode to the same value
   up to the nil-versus-empty distinction. Covered: struct types that are type_ok, tags_sane, plain (no byte arrays,
   no RawMessage, no pointer map values) and zz_struct_ok, into a zero target, when decoding succeeds. The direct
   theorems above need none of these restrictions and also preserve errors. *)
From Verif Require Proto.WireSpec Proto.WireProofs.
Definition c12_legal_encodings_agree_statement : Prop :=
  forall bp t m w w', type_ok t = true -> WireSpec.is_struct_ty t = true -> numbers_ok (codec_of t) = true ->
    WireSpec.tags_sane t = true -> WireSpec.plain t = true -> WireProofs.zz_struct_ok t = true ->
    WireSpec.desc_wf (WireSpec.PMsg (WireSpec.fields_of t)) = true ->
    WireSpec.msg_wf (WireSpec.PMsg (WireSpec.fields_of t)) (WireSpec.PVMsg m) = true ->
    WireSpec.reencodes bp (WireSpec.fields_of t) m w -> WireSpec.reencodes bp (WireSpec.fields_of t) m w' ->
    len w < lim -> len w' < lim ->
    exists fuel fuel' r r', Unmarshal fuel t w (zero_val t) = Ok (Some r) /\
                            Unmarshal fuel' t w' (zero_val t) = Ok (Some r') /\ norm r = norm r'.
Corollary c12_legal_encodings_agree : c12_legal_encodings_agree_statement.
Proof.
  intros bp t m w w' Hty Hst Hnum Htag Hpl Hzz Hdw Hmw Hre Hre' Hlen Hlen'.
  destruct (WireProofs.unmarshal_reencoded_zz bp t m w Hty Hst Hnum Htag Hpl Hzz Hdw Hmw Hre Hlen) as (fuel & r & v0 & E & Ev & En).
  destruct (WireProofs.unmarshal_reencoded_zz bp t m w' Hty Hst Hnum Htag Hpl Hzz Hdw Hmw Hre' Hlen') as (fuel' & r' & v0' & E' & Ev' & En').
  exists fuel, fuel', r, r'. split; [exact E|]. split; [exact E'|]. congruence.
Qed.

(* and conversely: Scan walks every sequence of complete fields to its end *)
Lemma parse_of_field x r : pf_ok x -> wfb (pf_bytes x ++ r) = true -> len (pf_bytes x ++ r) < 2 ^ 62 ->
  exists v, RewriteModel.Parse (pf_bytes x ++ r) = RewriteModel.ROk (pf_num x, pf_wt x, v, r).
Proof.
  destruct x as [num wt tg p]. unfold pf_ok, pf_bytes. cbn [pf_num pf_wt pf_tg pf_p].
  intros (Hnum & Htg & Hp) Hwf Hlen.
  assert (Hw := Hwf). rewrite <- app_assoc in Hw. apply wfb_app2 in Hw. destruct Hw as [HwT Hw].
  apply wfb_app2 in Hw. destruct Hw as [Hwp HwR].
  pose proof (varint_of_bounds _ _ HwT Htg) as [Hlt Htv]. pose proof (payload_wt _ _ Hp) as Hwt.
  rewrite !len_app2 in Hlen. pose proof (len_nonneg r) as Nr. pose proof (len_nonneg p) as Np.
  rewrite RewriteWire.Parse_unfold. rewrite <- app_assoc. rewrite (varint_of_app _ _ (p ++ r) Htg).
  rewrite RewriteWire.rfrom_ok by (rewrite !len_app2; lia). cbn [RewriteModel.rrbind].
  rewrite RewriteWire.skipn_len_app.
  unfold RewriteWire.pbody, RewriteModel.DecodeTag.
  rewrite shr64_div by lia. unfold and64. rewrite land7. change (2 ^ 3) with 8.
  assert (E1 : (num * 8 + wt) / 8 = num).
  { rewrite Z.add_comm. rewrite Z.div_add by lia. rewrite Z.div_small by lia. lia. }
  assert (E2 : (num * 8 + wt) mod 8 = wt).
  { rewrite Z.add_comm. rewrite Z_mod_plus_full. apply Z.mod_small. lia. }
  rewrite E1, E2.
  destruct Hp as [p x H | p H | p H | lp s H].
  - change (proto_varint =? proto_varint) with true. cbv iota.
    rewrite (varint_of_app _ _ r H). rewrite len_app2.
    destruct (len p + len r <? len p) eqn:G; [lia|].
    rewrite RewriteWire.rslice_ok by (rewrite ?len_app2; lia). cbn [RewriteModel.rrbind].
    rewrite RewriteWire.rfrom_ok by (rewrite ?len_app2; lia). cbn [RewriteModel.rrbind].
    rewrite RewriteWire.skipn_len_app. eexists; reflexivity.
  - change (proto_fixed64 =? proto_varint) with false. change (proto_fixed64 =? proto_varlen) with false.
    change (proto_fixed64 =? proto_fixed32) with false. change (proto_fixed64 =? proto_fixed64) with true. cbv iota.
    rewrite len_app2. destruct (len p + len r <? 8) eqn:G; [lia|].
    rewrite RewriteWire.rslice_ok by (rewrite ?len_app2; lia). cbn [RewriteModel.rrbind].
    rewrite RewriteWire.rfrom_ok by (rewrite ?len_app2; lia). cbn [RewriteModel.rrbind].
    rewrite <- H. rewrite RewriteWire.skipn_len_app. eexists; reflexivity.
  - change (proto_fixed32 =? proto_varint) with false. change (proto_fixed32 =? proto_varlen) with false.
    change (proto_fixed32 =? proto_fixed32) with true. cbv iota.
    rewrite len_app2. destruct (len p + len r <? 4) eqn:G; [lia|].
    rewrite RewriteWire.rslice_ok by (rewrite ?len_app2; lia). cbn [RewriteModel.rrbind].
    rewrite RewriteWire.rfrom_ok by (rewrite ?len_app2; lia). cbn [RewriteModel.rrbind].
    rewrite <- H. rewrite RewriteWire.skipn_len_app. eexists; reflexivity.
  - change (proto_varlen =? proto_varint) with false. change (proto_varlen =? proto_varlen) with true. cbv iota.
    apply wfb_app2 in Hwp. destruct Hwp as [Hwl Hws]. pose proof (varint_of_bounds _ _ Hwl H) as [Hll _].
    rewrite len_app2 in Hlen, Np. pose proof (len_nonneg s) as Ns.
    rewrite <- (app_assoc lp s r). rewrite (varint_of_app _ _ (s ++ r) H).
    assert (Ew : w64 (len (lp ++ s ++ r) - len lp) = len s + len r) by (rewrite !len_app2; rewrite w64_id; lia).
    rewrite Ew. replace (len s + len r <? len s) with false by lia. rewrite s64_id by lia.
    rewrite RewriteWire.rslice_ok by (rewrite ?len_app2; lia). cbn [RewriteModel.rrbind].
    rewrite RewriteWire.rfrom_ok by (rewrite ?len_app2; lia). cbn [RewriteModel.rrbind].
    rewrite (app_assoc lp s r). rewrite <- (len_app2 lp s). rewrite RewriteWire.skipn_len_app. eexists; reflexivity.
Qed.

Lemma scan_of_fields : forall l, Forall pf_ok l -> forall k, wfb (pfs_bytes l) = true -> len (pfs_bytes l) < 2 ^ 62 ->
  (length (pfs_bytes l) <= k)%nat -> exists out, ScanModel.scan k (pfs_bytes l) = RewriteModel.ROk out.
Proof.
  induction l as [|x l IH]; intros Hl k Hwf Hlen Hk.
  - cbn [pfs_bytes]. destruct k; eexists; reflexivity.
  - inversion Hl as [|x' l' Hx Hl']; subst. cbn [pfs_bytes] in *.
    assert (Hwx : wfb (pf_bytes x) = true) by (apply wfb_app2 in Hwf; tauto).
    pose proof (pf_len x Hx Hwx) as [Hlt Hlp].
    assert (Hlx : len (pf_bytes x) = len (pf_tg x) + len (pf_p x)) by (unfold pf_bytes; apply len_app2).
    destruct (parse_of_field x (pfs_bytes l) Hx Hwf Hlen) as (v & EP).
    rewrite app_length in Hk. destruct k as [|k]; [unfold len in *; lia|].
    destruct (IH Hl' k) as (out & ES).
    + apply wfb_app2 in Hwf. tauto.
    + rewrite len_app2 in Hlen. lia.
    + unfold len in *. lia.
    + destruct (pf_bytes x ++ pfs_bytes l) as [|c b'] eqn:Eb.
      { apply (f_equal (@length Z)) in Eb. rewrite app_length in Eb. cbn [length] in Eb. unfold len in *. lia. }
      change (ScanModel.scan (S k) (c :: b')) with
        (match RewriteModel.Parse (c :: b') with
         | RewriteModel.ROk (fn, t, v, m) =>
             match ScanModel.scan k m with
             | RewriteModel.ROk l => RewriteModel.ROk ((fn, t, v) :: l)
             | RewriteModel.RErr e => RewriteModel.RErr e
             | RewriteModel.RPanic => RewriteModel.RPanic
             | RewriteModel.RFuel => RewriteModel.RFuel
             end
         | RewriteModel.RErr e => RewriteModel.RErr e
         | RewriteModel.RPanic => RewriteModel.RPanic
         | RewriteModel.RFuel => RewriteModel.RFuel
         end).
      rewrite EP, ES. eexists; reflexivity.
Qed.

Theorem scan_accepts_fields : scan_accepts_fields_statement.
Proof.
  intros b Hwf Hlen Hb. apply fields_seq_pf in Hb. destruct Hb as (l & Hl & ->).
  apply scan_of_fields; [exact Hl | exact Hwf | exact Hlen | lia].
Qed.

(* ================= U10: any number of insertions; non-vacuity ================= *)
Lemma unmarshal_ok t b old fuel : type_ok t = true -> wfb b = true -> len b < lim ->
  (length b + depth_ty t + 1 <= fuel)%nat -> exists r, Unmarshal fuel t b old = Ok r.
Proof.
  intros Hok Hwf Hlim Hf. unfold Unmarshal. destruct (len b =? 0); [eexists; reflexivity|].
  destruct (decode_total_strong t b old proto_toplevel fuel Hok Hwf Hlim Hf) as (n & e & v & E & Hn).
  rewrite E. cbn [rbind]. destruct e; [eexists; reflexivity|]. destruct (n <? len b); eexists; reflexivity.
Qed.

Lemma widened_many_nil fuel t b b' : widened_many fuel t b b' -> b' = [] -> b = [].
Proof.
  induction 1 as [b | b b' b'' H IH Hw Hb]; intros E; [exact E|].
  exfalso. apply (widened_nonempty _ _ _ Hw). exact E.
Qed.

Theorem unknown_nested_many : unknown_nested_many_statement.
Proof.
  intros t b b' old fuel Hok Hnok (Hwf & Hlim & Hf) Hm Hne.
  induction Hm as [b | b b' b'' Hm IH Hw (Hwf'' & Hlim'' & Hf'')].
  - destruct (unmarshal_ok t b old fuel Hok Hwf Hlim ltac:(clear - Hf; lia)) as (r & E). exists r. split; exact E.
  - destruct (IH Hwf Hlim Hf Hne) as (r & E & E').
    assert (Hb' : okb fuel t b').
    { clear - Hm Hwf Hlim Hf. induction Hm as [b | b b' b'' Hm IH Hw Hb]; [repeat split; assumption | exact Hb]. }
    destruct Hb' as (Hwf' & Hlim' & Hf').
    assert (Hne' : b' <> [] \/ old = zero_val t).
    { destruct b' as [|c b0]; [|left; discriminate]. right.
      pose proof (widened_many_nil _ _ _ _ Hm eq_refl) as ->. destruct Hne as [Hne|Hne]; [contradiction | exact Hne]. }
    destruct (unknown_nested t b' b'' old fuel Hok Hnok Hw Hwf' Hwf'' Hlim' Hlim'' Hf' Hf'' Hne') as (r' & E1 & E2).
    exists r. split; [exact E|]. rewrite E' in E1. inversion E1; subst. exact E2.
Qed.

Theorem canonical_fields : canonical_fields_statement.
Proof.
  assert (V : forall x, 0 <= x < 2 ^ 64 -> varint_of (varint x) x).
  { intros x Hx. unfold varint_of. pose proof (decodeVarint_encode x [] Hx) as H. rewrite app_nil_r in H. exact H. }
  split; [exact V|]. split; [|split].
  - intros num wt p Hn Hp. exists (varint (num * 8 + wt)), p. split; [reflexivity|]. split; [lia|].
    split; [|exact Hp]. apply V. pose proof (payload_wt _ _ Hp). lia.
  - intros x Hx. apply P_varint with (x := x). apply V, Hx.
  - intros s Hs. apply P_varlen. apply V. pose proof (len_nonneg s). lia.
Qed.
