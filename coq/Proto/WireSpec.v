(* C12: an independent transcription of the protobuf encoding specification
   (developers.google.com/protocol-buffers/docs/encoding), the mapping from the package's Go types to
   protobuf message types as TypeOf documents it, and the relation "w is a legal encoding of message m".

   - protobuf types, abstract messages (one slot per declared field, explicit presence)
   - [get_varint], [get_record], [records]: the record layer (LEB128 up to ten bytes, tag = number * 8 + wire type,
     length-delimited payloads, little-endian fixed widths)
   - [spec_decode]: the standard merge semantics: last scalar wins, repeated fields append (packed accepted),
     occurrences of an embedded message merge, map entries are {1: key, 2: value} messages and a later entry
     replaces an earlier one with the same key, unknown fields and fields with an unexpected wire type are skipped,
     32-bit integer types are read from the 64-bit varint by truncation
   - a [dialect] switches on the strictness deviations of the package's decoder ([pkgd]); [std] is the specification
   - [spec_encode]: the canonical encoding (declaration order, minimal varints, nothing packed)
   - [legal_msg]: every legal encoding of a message as a set of record trees: occurrences of different fields
     interleaved in any order, any varint written on any legal number of bytes, arbitrary earlier occurrences of a
     singular scalar field, an embedded message split into several occurrences, unknown fields anywhere
   - [desc_of], [of_msg]: Go struct type -> message descriptor, decoded message -> Go value
   Definitions only. *)
From Coq Require Import ZArith List Bool.
From Verif Require Import Base.GoInt Proto.Ext Generated.ProtoGen Proto.Model Proto.PrimSpec Proto.Spec.
Import ListNotations.
Open Scope Z_scope.

(* ================= protobuf types and abstract messages ================= *)
Inductive pscalar : Type :=
| PInt32 | PInt64 | PUint32 | PUint64 | PSint32 | PSint64 | PBool
| PFixed32 | PFixed64 | PSfixed32 | PSfixed64 | PFloat | PDouble | PString | PBytes.

Inductive plabel : Type := LOpt | LRep | LMap (k : pscalar).

Inductive ptype : Type :=
| PSc (s : pscalar)
| PMsg (fs : list pfield)
with pfield : Type := PField (num : Z) (lab : plabel) (t : ptype).   (* for LMap k, t is the type of the values *)

Definition pf_num (f : pfield) : Z := match f with PField n _ _ => n end.
Definition pf_lab (f : pfield) : plabel := match f with PField _ l _ => l end.
Definition pf_ty (f : pfield) : ptype := match f with PField _ _ t => t end.

(* values: integers as mathematical integers (float and double as their IEEE bits), strings and bytes as byte lists,
   a message as one slot per declared field *)
Inductive pval : Type :=
| PVInt (z : Z)
| PVBool (b : bool)
| PVBytes (s : bytes)
| PVMsg (slots : list fval)
with fval : Type :=
| FAbsent                                (* singular field not present *)
| FOne (v : pval)                        (* singular field present *)
| FRep (vs : list pval)                  (* repeated field *)
| FMapv (es : list (pval * pval)).       (* map field, in order of first insertion *)

Definition default_scalar (s : pscalar) : pval :=
  match s with
  | PBool => PVBool false
  | PString | PBytes => PVBytes []
  | _ => PVInt 0
  end.
Definition default_fval (l : plabel) : fval :=
  match l with LOpt => FAbsent | LRep => FRep [] | LMap _ => FMapv [] end.
Definition default_msg (fs : list pfield) : list fval := map (fun f => default_fval (pf_lab f)) fs.
Definition default_pval (t : ptype) : pval :=
  match t with PSc s => default_scalar s | PMsg fs => PVMsg (default_msg fs) end.

(* wire types *)
Definition wt_of (s : pscalar) : Z :=
  match s with
  | PInt32 | PInt64 | PUint32 | PUint64 | PSint32 | PSint64 | PBool => 0
  | PFixed64 | PSfixed64 | PDouble => 1
  | PString | PBytes => 2
  | PFixed32 | PSfixed32 | PFloat => 5
  end.

(* ================= the record layer ================= *)
(* one record payload; a varint remembers on how many bytes it was written (the specification does not care) *)
Inductive wval : Type :=
| WVarint (z : Z) (nbytes : Z)
| WFix64 (z : Z)
| WLen (s : bytes)
| WFix32 (z : Z).

(* base-128 varint, least significant group first, at most ten bytes, the tenth at most 1 *)
Fixpoint get_varint_k (k : nat) (b : bytes) : option (Z * Z * bytes) :=
  match k, b with
  | S k', c :: r =>
      if c <? 128 then
        (if Nat.eqb k' 0 && (1 <? c) then None else Some (c, 1, r))
      else
        match get_varint_k k' r with
        | Some (v, n, r') => Some (c - 128 + 128 * v, n + 1, r')
        | None => None
        end
  | _, _ => None
  end.
Definition get_varint (b : bytes) : option (Z * Z * bytes) := get_varint_k 10 b.

(* little-endian value of a byte string *)
Fixpoint le_val (s : bytes) : Z := match s with [] => 0 | c :: r => c + 256 * le_val r end.

Definition max_field_number : Z := 2 ^ 29 - 1.

(* one record: tag, then the payload its wire type announces. Groups (wire types 3 and 4, deprecated) and the
   reserved wire types 6 and 7 are not transcribed: such input is rejected *)
Definition get_record (b : bytes) : option (Z * wval * bytes) :=
  match get_varint b with
  | None => None
  | Some (tg, _, r) =>
      let num := tg / 8 in
      if (num <? 1) || (max_field_number <? num) then None else
      let wt := tg mod 8 in
      if wt =? 0 then
        match get_varint r with Some (z, n, r') => Some (num, WVarint z n, r') | None => None end
      else if wt =? 1 then
        if len r <? 8 then None else Some (num, WFix64 (le_val (firstn 8 r)), skipn 8 r)
      else if wt =? 2 then
        match get_varint r with
        | Some (l, _, r') =>
            if len r' <? l then None else Some (num, WLen (firstn (Z.to_nat l) r'), skipn (Z.to_nat l) r')
        | None => None
        end
      else if wt =? 5 then
        if len r <? 4 then None else Some (num, WFix32 (le_val (firstn 4 r)), skipn 4 r)
      else None
  end.

Fixpoint parse_records (fuel : nat) (b : bytes) : option (list (Z * wval)) :=
  match b with
  | [] => Some []
  | _ =>
      match fuel with
      | O => None
      | S f =>
          match get_record b with
          | None => None
          | Some (num, w, r) =>
              match parse_records f r with
              | Some l => Some ((num, w) :: l)
              | None => None
              end
          end
      end
  end.
(* every record takes at least two bytes: the length of the input is enough fuel *)
Definition records (b : bytes) : option (list (Z * wval)) := parse_records (length b) b.

(* ================= dialects ================= *)
(* [std] is the specification. The package's decoder differs from it in three ways, each switched on in [pkgd]
   (a fourth one, strict_bool, described the package before its decodeBool was repaired -- it read one byte of the
   varint only -- and is kept switched off):
   strict_bool      a bool written on more than one byte is not understood
   strict_32        a varint outside the range of a 32-bit field is an error (the specification truncates)
   strict_wire      a declared field met with another wire type is an error (the specification skips it as unknown;
                    this includes packed repeated scalars)
   drop_empty_entry a map entry record with an empty payload is ignored (the specification reads the entry
                    default key -> default value) *)
Record dialect : Type := { strict_bool : bool; strict_32 : bool; strict_wire : bool; drop_empty_entry : bool }.
Definition std : dialect := {| strict_bool := false; strict_32 := false; strict_wire := false; drop_empty_entry := false |}.
Definition pkgd : dialect := {| strict_bool := false; strict_32 := true; strict_wire := true; drop_empty_entry := true |}.
(* the package before the repair of decodeBool *)
Definition pkgd_old : dialect := {| strict_bool := true; strict_32 := true; strict_wire := true; drop_empty_entry := true |}.

Inductive res3 (A : Type) : Type := Upd (a : A) | Unk | Bad.
Arguments Upd {A} a.
Arguments Unk {A}.
Arguments Bad {A}.

Definition in_i32 (z : Z) : bool := (- 2 ^ 31 <=? z) && (z <? 2 ^ 31).
Definition mismatch {A} (d : dialect) : res3 A := if strict_wire d then Bad else Unk.

(* a scalar from one record: "as if cast to that type" *)
Definition dec_scalar (d : dialect) (s : pscalar) (w : wval) : res3 pval :=
  match s, w with
  | PBool, WVarint z n => if strict_bool d && negb (n =? 1) then Bad else Upd (PVBool (negb (z =? 0)))
  | PInt64, WVarint z _ => Upd (PVInt (s64 z))
  | PUint64, WVarint z _ => Upd (PVInt z)
  | PSint64, WVarint z _ => Upd (PVInt (unzigzag z))
  | PInt32, WVarint z _ => if strict_32 d && negb (in_i32 (s64 z)) then Bad else Upd (PVInt (s32 z))
  | PUint32, WVarint z _ => if strict_32 d && negb (z <? 2 ^ 32) then Bad else Upd (PVInt (w32 z))
  | PSint32, WVarint z _ => if strict_32 d && negb (z <? 2 ^ 32) then Bad else Upd (PVInt (unzigzag (w32 z)))
  | (PFixed64 | PDouble), WFix64 z => Upd (PVInt z)
  | PSfixed64, WFix64 z => Upd (PVInt (s64 z))
  | (PFixed32 | PFloat), WFix32 z => Upd (PVInt z)
  | PSfixed32, WFix32 z => Upd (PVInt (s32 z))
  | (PString | PBytes), WLen s => Upd (PVBytes s)
  | _, _ => mismatch d
  end.

(* packed repeated scalars: the payload is the concatenation of the element payloads *)
Definition packable (t : ptype) : option pscalar :=
  match t with
  | PSc (PString | PBytes) => None
  | PSc s => Some s
  | PMsg _ => None
  end.
Fixpoint unpack (fuel : nat) (d : dialect) (s : pscalar) (b : bytes) : option (list pval) :=
  match b with
  | [] => Some []
  | _ =>
      match fuel with
      | O => None
      | S f =>
          let one : option (wval * bytes) :=
            if wt_of s =? 0 then match get_varint b with Some (z, n, r) => Some (WVarint z n, r) | None => None end
            else if wt_of s =? 1 then (if len b <? 8 then None else Some (WFix64 (le_val (firstn 8 b)), skipn 8 b))
            else (if len b <? 4 then None else Some (WFix32 (le_val (firstn 4 b)), skipn 4 b)) in
          match one with
          | None => None
          | Some (w, r) =>
              match dec_scalar d s w, unpack f d s r with
              | Upd v, Some l => Some (v :: l)
              | _, _ => None
              end
          end
      end
  end.

Definition pval_eqb (a b : pval) : bool :=
  match a, b with
  | PVInt x, PVInt y => x =? y
  | PVBool x, PVBool y => Bool.eqb x y
  | PVBytes x, PVBytes y => bytes_eqb x y
  | _, _ => false
  end.
(* a later entry replaces the value of an equal key, otherwise the entry is added at the end *)
Fixpoint map_set (es : list (pval * pval)) (k v : pval) : list (pval * pval) :=
  match es with
  | [] => [(k, v)]
  | (k', v') :: r => if pval_eqb k' k then (k', v) :: r else (k', v') :: map_set r k v
  end.

(* one record of a map entry message {1: key, 2: value}; the state is the key and value seen so far *)
Fixpoint entry_fold (d : dialect) (k : pscalar) (dv : wval -> option pval -> res3 pval)
    (recs : list (Z * wval)) (ok ov : option pval) : option (option pval * option pval) :=
  match recs with
  | [] => Some (ok, ov)
  | (num, w) :: rr =>
      if num =? 1 then
        match dec_scalar d k w with
        | Upd v => entry_fold d k dv rr (Some v) ov
        | Unk => entry_fold d k dv rr ok ov
        | Bad => None
        end
      else if num =? 2 then
        match dv w ov with
        | Upd v => entry_fold d k dv rr ok (Some v)
        | Unk => entry_fold d k dv rr ok ov
        | Bad => None
        end
      else entry_fold d k dv rr ok ov
  end.

(* one record applied to the slot of the field it names; [dv] decodes a value of the field's type *)
Definition dec_field (d : dialect) (lab : plabel) (ft : ptype) (dv : wval -> option pval -> res3 pval)
    (w : wval) (c : fval) : res3 fval :=
  match lab with
  | LOpt =>
      match dv w (match c with FOne v => Some v | _ => None end) with
      | Upd v => Upd (FOne v)
      | Unk => Unk
      | Bad => Bad
      end
  | LRep =>
      let vs := match c with FRep vs => vs | _ => [] end in
      match packable ft, w with
      | Some s, WLen payload =>
          if strict_wire d then Bad else
          match unpack (length payload) d s payload with
          | Some l => Upd (FRep (vs ++ l))
          | None => Bad
          end
      | _, _ =>
          match dv w None with
          | Upd v => Upd (FRep (vs ++ [v]))
          | Unk => Unk
          | Bad => Bad
          end
      end
  | LMap k =>
      let es := match c with FMapv es => es | _ => [] end in
      match w with
      | WLen payload =>
          if drop_empty_entry d && (len payload =? 0) then Upd (FMapv es) else
          match records payload with
          | None => Bad
          | Some recs =>
              match entry_fold d k dv recs None None with
              | Some (ok, ov) =>
                  let key := match ok with Some x => x | None => default_scalar k end in
                  let val := match ov with Some x => x | None => default_pval ft end in
                  Upd (FMapv (map_set es key val))
              | None => Bad
              end
          end
      | _ => mismatch d
      end
  end.

(* a value of type t from one record, merged into the previous value of the same slot when t is a message *)
Fixpoint dec_value (d : dialect) (t : ptype) (w : wval) (old : option pval) {struct t} : res3 pval :=
  match t with
  | PSc s => dec_scalar d s w
  | PMsg fs =>
      match w with
      | WLen payload =>
          match records payload with
          | None => Bad
          | Some recs =>
              let cur := match old with Some (PVMsg c) => c | _ => default_msg fs end in
              match
                (fix go (recs : list (Z * wval)) (cur : list fval) {struct recs} : option (list fval) :=
                   match recs with
                   | [] => Some cur
                   | (num, w') :: rr =>
                       match
                         (fix upd (fs : list pfield) (cur : list fval) {struct fs} : res3 (list fval) :=
                            match fs, cur with
                            | PField n lab ft :: fr, c :: cr =>
                                if n =? num then
                                  match dec_field d lab ft (dec_value d ft) w' c with
                                  | Upd c' => Upd (c' :: cr)
                                  | Unk => Unk
                                  | Bad => Bad
                                  end
                                else
                                  match upd fr cr with
                                  | Upd cr' => Upd (c :: cr')
                                  | Unk => Unk
                                  | Bad => Bad
                                  end
                            | _, _ => Unk
                            end) fs cur
                       with
                       | Upd cur' => go rr cur'
                       | Unk => go rr cur           (* unknown field, or unexpected wire type: skipped *)
                       | Bad => None
                       end
                   end) recs cur
              with
              | Some c' => Upd (PVMsg c')
              | None => Bad
              end
          end
      | _ => mismatch d
      end
  end.

(* the decoder of the specification: a message of descriptor fs from a byte string *)
Definition spec_decode (d : dialect) (fs : list pfield) (b : bytes) : option (list fval) :=
  match dec_value d (PMsg fs) (WLen b) None with
  | Upd (PVMsg m) => Some m
  | _ => None
  end.

(* the same thing said with named pieces (used by the statements): one record applied to a message *)
Fixpoint upd_slot (d : dialect) (fs : list pfield) (cur : list fval) (num : Z) (w : wval) {struct fs} : res3 (list fval) :=
  match fs, cur with
  | PField n lab ft :: fr, c :: cr =>
      if n =? num then
        match dec_field d lab ft (dec_value d ft) w c with
        | Upd c' => Upd (c' :: cr)
        | Unk => Unk
        | Bad => Bad
        end
      else
        match upd_slot d fr cr num w with
        | Upd cr' => Upd (c :: cr')
        | Unk => Unk
        | Bad => Bad
        end
  | _, _ => Unk
  end.
Fixpoint merge_records (d : dialect) (fs : list pfield) (recs : list (Z * wval)) (cur : list fval) : option (list fval) :=
  match recs with
  | [] => Some cur
  | (num, w) :: rr =>
      match upd_slot d fs cur num w with
      | Upd cur' => merge_records d fs rr cur'
      | Unk => merge_records d fs rr cur
      | Bad => None
      end
  end.

(* ================= the canonical encoder ================= *)
(* exactly n+1 bytes: the legal ways of writing v are [leb n v] for every n with v < 128^(n+1), n < 10 *)
Fixpoint leb (n : nat) (v : Z) : bytes :=
  match n with
  | O => [v]
  | S n' => (v mod 128 + 128) :: leb n' (v / 128)
  end.
Definition leb_ok (n : nat) (v : Z) : Prop := (n < 10)%nat /\ 0 <= v < 128 ^ (Z.of_nat n + 1) /\ v < 2 ^ 64.
Definition leb_okb (n : nat) (v : Z) : bool :=
  (Nat.ltb n 10) && (0 <=? v) && (v <? 128 ^ (Z.of_nat n + 1)) && (v <? 2 ^ 64).

(* payload of a scalar (with its length prefix for strings and bytes) *)
Definition enc_scalar (s : pscalar) (v : pval) : bytes :=
  match s, v with
  | PBool, PVBool b => [if b then 1 else 0]
  | (PInt32 | PInt64), PVInt z => varint (w64 z)            (* negative values are sign-extended to 64 bits *)
  | (PUint32 | PUint64), PVInt z => varint z
  | (PSint32 | PSint64), PVInt z => varint (zigzag z)
  | (PFixed64 | PDouble), PVInt z => le_bytes 8 z
  | PSfixed64, PVInt z => le_bytes 8 (w64 z)
  | (PFixed32 | PFloat), PVInt z => le_bytes 4 z
  | PSfixed32, PVInt z => le_bytes 4 (w32 z)
  | (PString | PBytes), PVBytes s => varint (len s) ++ s
  | _, _ => []
  end.
(* value ranges *)
Definition scalar_wf (s : pscalar) (v : pval) : bool :=
  match s, v with
  | PBool, PVBool _ => true
  | (PInt32 | PSint32 | PSfixed32), PVInt z => in_i32 z
  | (PInt64 | PSint64 | PSfixed64), PVInt z => (- 2 ^ 63 <=? z) && (z <? 2 ^ 63)
  | (PUint32 | PFixed32 | PFloat), PVInt z => (0 <=? z) && (z <? 2 ^ 32)
  | (PUint64 | PFixed64 | PDouble), PVInt z => (0 <=? z) && (z <? 2 ^ 64)
  | (PString | PBytes), PVBytes s => wfb s && (len s <? 2 ^ 31)
  | _, _ => false
  end.

Definition tagv (num wt : Z) : bytes := varint (num * 8 + wt).

(* the bytes of a message (without length prefix): fields in declaration order *)
Fixpoint enc_msg (t : ptype) (v : pval) {struct t} : bytes :=
  match t, v with
  | PMsg fs, PVMsg m =>
      (fix go (fs : list pfield) (m : list fval) {struct fs} : bytes :=
         match fs, m with
         | PField n lab ft :: fr, c :: mr =>
             let one (v : pval) : bytes :=
               match ft with
               | PSc s => tagv n (wt_of s) ++ enc_scalar s v
               | PMsg _ => let p := enc_msg ft v in tagv n 2 ++ varint (len p) ++ p
               end in
             (match lab, c with
              | LOpt, FOne v => one v
              | LRep, FRep vs => flat_map one vs
              | LMap k, FMapv es =>
                  flat_map (fun kv =>
                              let p := tagv 1 (wt_of k) ++ enc_scalar k (fst kv) ++
                                       (match ft with
                                        | PSc s => tagv 2 (wt_of s) ++ enc_scalar s (snd kv)
                                        | PMsg _ => let q := enc_msg ft (snd kv) in tagv 2 2 ++ varint (len q) ++ q
                                        end) in
                              tagv n 2 ++ varint (len p) ++ p) es
              | _, _ => []
              end) ++ go fr mr
         | _, _ => []
         end) fs m
  | _, _ => []
  end.
Definition spec_encode (fs : list pfield) (m : list fval) : bytes := enc_msg (PMsg fs) (PVMsg m).

(* well-formed messages of a descriptor *)
Fixpoint distinct_keys (es : list (pval * pval)) : bool :=
  match es with
  | [] => true
  | (k, _) :: r => negb (existsb (fun kv => pval_eqb (fst kv) k) r) && distinct_keys r
  end.
Fixpoint msg_wf (t : ptype) (v : pval) {struct t} : bool :=
  match t, v with
  | PSc s, _ => scalar_wf s v
  | PMsg fs, PVMsg m =>
      (fix go (fs : list pfield) (m : list fval) {struct fs} : bool :=
         match fs, m with
         | [], [] => true
         | PField n lab ft :: fr, c :: mr =>
             (match lab, c with
              | LOpt, FAbsent => true
              | LOpt, FOne v => msg_wf ft v
              | LRep, FRep vs => forallb (msg_wf ft) vs
              | LMap k, FMapv es => forallb (fun kv => scalar_wf k (fst kv) && msg_wf ft (snd kv)) es && distinct_keys es
              | _, _ => false
              end) && go fr mr
         | _, _ => false
         end) fs m
  | _, _ => false
  end.
(* well-formed descriptors: valid, pairwise different field numbers; map keys are integral or string types *)
Definition key_ok (k : pscalar) : bool :=
  match k with PFloat | PDouble | PBytes => false | _ => true end.
Fixpoint desc_wf (t : ptype) : bool :=
  match t with
  | PSc _ => true
  | PMsg fs =>
      distinct (map pf_num fs) &&
      (fix go (fs : list pfield) : bool :=
         match fs with
         | [] => true
         | PField n lab ft :: fr =>
             (1 <=? n) && (n <=? max_field_number) && desc_wf ft &&
             (match lab with LMap k => key_ok k | _ => true end) && go fr
         end) fs
  end.

(* ================= all legal encodings of a message ================= *)
(* record trees with the padding of every varint made explicit (number of bytes minus one) *)
Inductive leaf : Type :=
| LVarint (z : Z) (k : nat)
| LFix64 (z : Z)
| LFix32 (z : Z)
| LLen (s : bytes) (k : nat).
Inductive rtree : Type :=
| RLeaf (num : Z) (kt : nat) (l : leaf)
| RNode (num : Z) (kt kl : nat) (sub : list rtree).    (* a length-delimited record holding records *)

Definition rt_num (t : rtree) : Z := match t with RLeaf n _ _ => n | RNode n _ _ _ => n end.
Definition leaf_wt (l : leaf) : Z := match l with LVarint _ _ => 0 | LFix64 _ => 1 | LLen _ _ => 2 | LFix32 _ => 5 end.

Fixpoint ser (t : rtree) : bytes :=
  match t with
  | RLeaf num kt l =>
      leb kt (num * 8 + leaf_wt l) ++
      match l with
      | LVarint z k => leb k z
      | LFix64 z => le_bytes 8 z
      | LFix32 z => le_bytes 4 z
      | LLen s k => leb k (len s) ++ s
      end
  | RNode num kt kl sub =>
      let p := (fix sers (ts : list rtree) : bytes := match ts with [] => [] | x :: r => ser x ++ sers r end) sub in
      leb kt (num * 8 + 2) ++ leb kl (len p) ++ p
  end.
Fixpoint sers (ts : list rtree) : bytes := match ts with [] => [] | x :: r => ser x ++ sers r end.

(* every varint of the tree is written on a legal number of bytes *)
Fixpoint pad_ok (t : rtree) : Prop :=
  match t with
  | RLeaf num kt l =>
      leb_ok kt (num * 8 + leaf_wt l) /\
      match l with
      | LVarint z k => leb_ok k z
      | LFix64 z => 0 <= z < 2 ^ 64
      | LFix32 z => 0 <= z < 2 ^ 32
      | LLen s k => leb_ok k (len s) /\ wfb s = true
      end
  | RNode num kt kl sub =>
      leb_ok kt (num * 8 + 2) /\
      leb_ok kl (len ((fix sers (ts : list rtree) : bytes := match ts with [] => [] | x :: r => ser x ++ sers r end) sub)) /\
      (fix all (ts : list rtree) : Prop := match ts with [] => True | x :: r => pad_ok x /\ all r end) sub
  end.

(* the leaf that carries scalar value v of type s, with any padding *)
Definition leaf_of (s : pscalar) (v : pval) (k : nat) : leaf :=
  match s, v with
  | PBool, PVBool b => LVarint (if b then 1 else 0) k
  | (PInt32 | PInt64), PVInt z => LVarint (w64 z) k
  | (PUint32 | PUint64), PVInt z => LVarint z k
  | (PSint32 | PSint64), PVInt z => LVarint (zigzag z) k
  | (PFixed64 | PDouble), PVInt z => LFix64 z
  | PSfixed64, PVInt z => LFix64 (w64 z)
  | (PFixed32 | PFloat), PVInt z => LFix32 z
  | PSfixed32, PVInt z => LFix32 (w32 z)
  | (PString | PBytes), PVBytes b => LLen b k
  | _, _ => LLen [] k
  end.

(* l is an interleaving of the lists ls: every list keeps its own order *)
Inductive Interleave {A : Type} : list (list A) -> list A -> Prop :=
| il_nil : forall ls, Forall (fun l => l = []) ls -> Interleave ls []
| il_cons : forall pre x l post out,
    Interleave (pre ++ l :: post) out -> Interleave (pre ++ (x :: l) :: post) (x :: out).

(* the occurrences of a singular field of type ft whose slot holds fv; [lm] says what the legal record lists of a
   message value of type ft are *)
(* [bp = false] forbids writing a bool on more than one byte (the one freedom the package's decoder does not honour) *)
Definition kok (bp : bool) (s : pscalar) (k : nat) : Prop := bp = true \/ s <> PBool \/ k = O.
Definition legal_single (bp : bool) (n : Z) (ft : ptype) (lm : pval -> list rtree -> Prop) (fv : fval) (oc : list rtree) : Prop :=
  match fv with
  | FAbsent => oc = []
  | FOne v =>
      match ft with
      | PSc s =>
          (* any number of earlier occurrences with arbitrary values of the type, then the value *)
          exists gs kt k, oc = gs ++ [RLeaf n kt (leaf_of s v k)] /\ kok bp s k /\
            Forall (fun g => exists gv gkt gk, scalar_wf s gv = true /\ kok bp s gk /\ g = RLeaf n gkt (leaf_of s gv gk)) gs
      | PMsg _ =>
          (* one or more occurrences whose contents, put one after the other, are a legal record list of the message *)
          exists parts : list (nat * nat * list rtree), parts <> [] /\
            oc = map (fun p => RNode n (fst (fst p)) (snd (fst p)) (snd p)) parts /\
            lm v (concat (map snd parts))
      end
  | _ => False
  end.
Definition legal_elem (bp : bool) (n : Z) (ft : ptype) (lm : pval -> list rtree -> Prop) (v : pval) (tr : rtree) : Prop :=
  match ft with
  | PSc s => exists kt k, tr = RLeaf n kt (leaf_of s v k) /\ kok bp s k
  | PMsg _ => exists kt kl sub, tr = RNode n kt kl sub /\ lm v sub
  end.
Definition legal_field (bp : bool) (n : Z) (lab : plabel) (ft : ptype) (lm : pval -> list rtree -> Prop) (fv : fval) (oc : list rtree) : Prop :=
  match lab, fv with
  | LOpt, _ => legal_single bp n ft lm fv oc
  | LRep, FRep vs => Forall2 (legal_elem bp n ft lm) vs oc
  | LMap k, FMapv es =>
      (* one record per entry; inside, key and value are singular fields 1 and 2, both written *)
      Forall2 (fun kv tr => exists kt kl sub ock ocv, tr = RNode n kt kl sub /\
                 legal_single bp 1 (PSc k) (fun _ _ => False) (FOne (fst kv)) ock /\
                 legal_single bp 2 ft lm (FOne (snd kv)) ocv /\
                 Interleave [ock; ocv] sub) es oc
  | _, _ => False
  end.
(* a record the descriptor does not know *)
Definition unknown_rec (fs : list pfield) (tr : rtree) : Prop :=
  match tr with
  | RLeaf num _ _ => existsb (Z.eqb num) (map pf_num fs) = false /\ 1 <= num <= max_field_number
  | RNode _ _ _ _ => False
  end.

Fixpoint legal_msg (bp : bool) (t : ptype) (v : pval) (trees : list rtree) {struct t} : Prop :=
  match t, v with
  | PMsg fs, PVMsg m =>
      exists (occs : list (list rtree)) (unk : list rtree),
        Forall (unknown_rec fs) unk /\ Interleave (unk :: occs) trees /\
        (fix lf (fs : list pfield) (m : list fval) (occs : list (list rtree)) {struct fs} : Prop :=
           match fs, m, occs with
           | [], [], [] => True
           | PField n lab ft :: fr, c :: mr, oc :: ocr => legal_field bp n lab ft (legal_msg bp ft) c oc /\ lf fr mr ocr
           | _, _, _ => False
           end) fs m occs
  | _, _ => False
  end.

(* w is a legal encoding of message m of descriptor fs *)
Definition reencodes (bp : bool) (fs : list pfield) (m : list fval) (w : bytes) : Prop :=
  exists trees, legal_msg bp (PMsg fs) (PVMsg m) trees /\ Forall pad_ok trees /\ w = sers trees.


(* ================= Go types -> protobuf types (the table of TypeOf, with the struct-tag variants) ================= *)
Definition tag_zz (tag : option ptag) : bool := match tag with Some tg => tag_zigzag tg | None => false end.
Definition tag_fx32 (tag : option ptag) : bool := match tag with Some tg => tag_wire tg =? proto_fixed32 | None => false end.
Definition tag_fx64 (tag : option ptag) : bool := match tag with Some tg => tag_wire tg =? proto_fixed64 | None => false end.
Definition scalar_of (bt : gty) (tag : option ptag) : pscalar :=
  match bt with
  | TBool => PBool
  | TInt | TInt64 => if tag_zz tag then PSint64 else PInt64
  | TInt32 => if tag_zz tag then PSint32 else PInt32
  | TUint => PUint64
  | TUint64 => if tag_fx64 tag then PFixed64 else PUint64
  | TUint32 => if tag_fx32 tag then PFixed32 else PUint32
  | TFloat32 => PFloat
  | TFloat64 => PDouble
  | TString => PString
  | _ => PBytes                      (* []byte, [N]byte, RawMessage *)
  end.

(* pointers are dereferenced; a struct is a message whose fields are numbered by their tag or by declaration order
   (exported fields only); a slice is a repeated field of its element type; a map is a map *)
Fixpoint ptype_of (t : gty) (tag : option ptag) {struct t} : ptype :=
  match t with
  | TPtr t' => ptype_of t' tag
  | TStruct gfs =>
      PMsg ((fix go (gfs : list gfield) (number : Z) {struct gfs} : list pfield :=
               match gfs with
               | [] => []
               | GField false _ _ :: r => go r number
               | GField true ftag ft :: r =>
                   let num := match ftag with Some tg => tag_number tg | None => number end in
                   (match ft with
                    | TSlice et => PField num LRep (ptype_of et ftag)
                    | TMap kt vt => PField num (LMap (scalar_of kt None)) (ptype_of vt None)
                    | _ => PField num LOpt (ptype_of ft ftag)
                    end) :: go r (number + 1)
               end) gfs 1)
  | _ => PSc (scalar_of t tag)
  end.
Definition fields_of (t : gty) : list pfield := match ptype_of t None with PMsg fs => fs | PSc _ => [] end.

(* the Go value a decoded message denotes *)
Fixpoint omap {A B} (f : A -> option B) (l : list A) : option (list B) :=
  match l with
  | [] => Some []
  | x :: r => match f x, omap f r with Some y, Some ys => Some (y :: ys) | _, _ => None end
  end.
Fixpoint of_pval (t : gty) (pv : pval) {struct t} : option val :=
  match t, pv with
  | TBool, PVBool b => Some (VBool b)
  | (TInt | TInt32 | TInt64 | TUint | TUint32 | TUint64 | TFloat32 | TFloat64), PVInt z => Some (VInt z)
  | TString, PVBytes s => Some (VStr s)
  | TBytes, PVBytes s => Some (VBytes true s)
  | TRawMessage, PVBytes s => Some (VRaw true s)
  | TByteArray n, PVBytes s => if len s =? Z.of_nat n then Some (VArr s) else None
  | TPtr t', _ => match of_pval t' pv with Some x => Some (VPtr (Some x)) | None => None end
  | TStruct gfs, PVMsg m =>
      match
        (fix go (gfs : list gfield) (m : list fval) {struct gfs} : option (list val) :=
           match gfs with
           | [] => Some []
           | GField false _ ft :: r =>
               match go r m with Some vs => Some (zero_val ft :: vs) | None => None end
           | GField true _ ft :: r =>
               match m with
               | [] => None
               | c :: mr =>
                   let ov : option val :=
                     match ft, c with
                     | TSlice et, FRep vs =>
                         match omap (of_pval et) vs with Some l => Some (VSlice l) | None => None end
                     | TMap kt vt, FMapv es =>
                         match omap (fun kv => match of_pval kt (fst kv), of_pval vt (snd kv) with
                                               | Some k, Some x => Some (k, x)
                                               | _, _ => None
                                               end) es with
                         | Some l => Some (VMap true l)
                         | None => None
                         end
                     | (TSlice _ | TMap _ _), _ => None
                     | _, FAbsent => Some (zero_val ft)        (* nil for a pointer, the zero value otherwise *)
                     | _, FOne x => of_pval ft x
                     | _, _ => None
                     end in
                   match ov, go r mr with
                   | Some v, Some vs => Some (v :: vs)
                   | _, _ => None
                   end
               end
           end) gfs m
      with
      | Some vs => Some (VStruct vs)
      | None => None
      end
  | _, _ => None
  end.
Definition of_msg (t : gty) (m : list fval) : option val := of_pval t (PVMsg m).

(* ================= the universe of the C12 theorems ================= *)
(* struct tags the theorems cover: numbers below 2^16 (the package keeps 16 bits); no zigzag / fixed32 / fixed64
   variant on a repeated field (the package's slice codec ignores the variant: refuted without this) *)
Definition tag_sane (tag : option ptag) (ft : gty) : bool :=
  match tag with
  | None => true
  | Some tg => (1 <=? tag_number tg) && (tag_number tg <? 2 ^ 16) &&
               negb ((tag_zigzag tg || (tag_wire tg =? proto_fixed32) || (tag_wire tg =? proto_fixed64)) &&
                     match ft with TSlice _ => true | _ => false end)
  end.
Fixpoint tags_sane (t : gty) : bool :=
  match t with
  | TPtr t' => tags_sane t'
  | TSlice t' => tags_sane t'
  | TMap k v => tags_sane k && tags_sane v
  | TStruct fs => (fix go (fs : list gfield) : bool :=
                     match fs with
                     | [] => true
                     | GField _ tag ft :: r => tag_sane tag ft && tags_sane ft && go r
                     end) fs
  | _ => true
  end.
(* types of the decoder theorems: no byte arrays (a fixed length has no .proto equivalent), no RawMessage, no
   pointers as map values (an entry without value yields a nil pointer) *)
Fixpoint plain (t : gty) : bool :=
  match t with
  | TByteArray _ | TRawMessage => false
  | TPtr t' => plain t'
  | TSlice t' => plain t'
  | TMap k v => plain k && plain v && match v with TPtr _ => false | _ => true end
  | TStruct fs => (fix go (fs : list gfield) : bool :=
                     match fs with [] => true | GField _ _ ft :: r => plain ft && go r end) fs
  | _ => true
  end.
(* the package writes a map without entries as one record with an empty payload: values with such a map inside an
   encoded struct are set aside *)
Fixpoint no_empty_map (v : val) : bool :=
  match v with
  | VMap _ [] => false
  | VMap _ es => forallb (fun kv => no_empty_map (snd kv)) es
  | VPtr (Some x) => no_empty_map x
  | VStruct vs => forallb no_empty_map vs
  | VSlice es => forallb no_empty_map es
  | _ => true
  end.
Definition is_struct_ty (t : gty) : bool := match t with TStruct _ => true | _ => false end.

(* ================= statements ================= *)
(* S1: the transcribed decoder reads the canonical encoding back *)
Definition spec_roundtrip_statement : Prop :=
  forall fs m, desc_wf (PMsg fs) = true -> msg_wf (PMsg fs) (PVMsg m) = true -> len (spec_encode fs m) < 2 ^ 31 ->
    spec_decode std fs (spec_encode fs m) = Some m.
(* S2: it reads EVERY legal encoding of m as m; so does the package dialect (and the dialect of the package before
   the repair of decodeBool as long as no bool is padded) *)
Definition spec_reencode_statement : Prop :=
  forall d bp fs m w, desc_wf (PMsg fs) = true -> msg_wf (PMsg fs) (PVMsg m) = true ->
    reencodes bp fs m w -> len w < 2 ^ 31 ->
    (d = std \/ d = pkgd \/ (d = pkgd_old /\ bp = false)) ->
    spec_decode d fs w = Some m.

(* (a) the package's bytes are standard: the transcribed decoder reads Marshal(&v) as a message denoting v *)
Definition marshal_standard_statement : Prop :=
  forall t v bs, in_universe t v -> is_struct_ty t = true -> representable v = true -> keys_distinct v = true ->
    rep_tags_ok t = true -> tags_sane t = true -> no_empty_map v = true ->
    Size (TPtr t) (VPtr (Some v)) < lim ->
    Marshal (TPtr t) (VPtr (Some v)) = Ok (Some bs) ->
    exists m r, spec_decode std (fields_of t) bs = Some m /\ of_msg t m = Some r /\ norm r = norm v.

(* (b1) the package's decoder IS the transcribed decoder in the package dialect, on every input the latter accepts *)
Definition unmarshal_refines_statement : Prop :=
  forall t b m, type_ok t = true -> is_struct_ty t = true -> numbers_ok (codec_of t) = true ->
    tags_sane t = true -> plain t = true -> wfb b = true -> len b < lim ->
    spec_decode pkgd (fields_of t) b = Some m ->
    exists fuel r v0, Unmarshal fuel t b (zero_val t) = Ok (Some r) /\ of_msg t m = Some v0 /\ norm r = norm v0.
(* (b) hence Unmarshal reads every legal re-encoding of a message as that message (bp = true: any padding) *)
Definition unmarshal_reencoded_statement (bp : bool) : Prop :=
  forall t m w, type_ok t = true -> is_struct_ty t = true -> numbers_ok (codec_of t) = true ->
    tags_sane t = true -> plain t = true ->
    desc_wf (PMsg (fields_of t)) = true -> msg_wf (PMsg (fields_of t)) (PVMsg m) = true ->
    reencodes bp (fields_of t) m w -> len w < lim ->
    exists fuel r v0, Unmarshal fuel t w (zero_val t) = Ok (Some r) /\ of_msg t m = Some v0 /\ norm r = norm v0.
