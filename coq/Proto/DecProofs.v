(* Proofs that decoding is total: never Panic, never out of the stated fuel (C07). *)
From Verif Require Import Base.GoInt Proto.Ext Generated.ProtoGen Proto.Model Proto.PrimSpec Proto.PrimProofs Proto.Spec.
From Coq Require Import ZifyBool.
Open Scope Z_scope.

(* ---------- basic facts ---------- *)
Lemma len_nonneg {A} (l : list A) : 0 <= len l.
Proof. unfold len; lia. Qed.
Lemma w64_id x : 0 <= x < 2 ^ 64 -> w64 x = x.
Proof. intros; unfold w64; apply Z.mod_small; lia. Qed.
Lemma s64_id x : 0 <= x < 2 ^ 63 -> s64 x = x.
Proof.
  intros; unfold s64; rewrite w64_id by lia; cbv zeta.
  destruct (x <? 2 ^ 63) eqn:E; lia.
Qed.

Lemma wfb_skipn n b : wfb b = true -> wfb (skipn n b) = true.
Proof.
  revert b; induction n; intros b H; [exact H|].
  destruct b; [exact H|]. cbn [skipn]. apply IHn.
  unfold wfb in *; cbn [forallb] in H. apply andb_true_iff in H; tauto.
Qed.
Lemma wfb_firstn n b : wfb b = true -> wfb (firstn n b) = true.
Proof.
  revert b; induction n; intros b H; [reflexivity|].
  destruct b; [reflexivity|]. cbn [firstn].
  unfold wfb in *; cbn [forallb] in *. apply andb_true_iff in H. apply andb_true_iff.
  split; [tauto | apply IHn; tauto].
Qed.
Lemma wfb_slice_from b i : wfb b = true -> wfb (slice_from b i) = true.
Proof. apply wfb_skipn. Qed.
Lemma wfb_slice b i j : wfb b = true -> wfb (slice b i j) = true.
Proof. intros; unfold slice; apply wfb_firstn, wfb_skipn; assumption. Qed.
Lemma len_slice_from (b : bytes) i : 0 <= i <= len b -> len (slice_from b i) = len b - i.
Proof. unfold len, slice_from; intros; rewrite skipn_length; lia. Qed.
Lemma len_slice (b : bytes) i j : 0 <= i <= j -> j <= len b -> len (slice b i j) = j - i.
Proof. unfold len, slice; intros; rewrite firstn_length, skipn_length; lia. Qed.
Lemma length_slice_le (b : bytes) i j : (length (slice b i j) <= length b)%nat.
Proof. unfold slice; rewrite firstn_length, skipn_length; lia. Qed.

Lemma cfrom_ok b i : 0 <= i <= len b -> cfrom b i = Ok (slice_from b i).
Proof. intros; unfold cfrom. replace ((0 <=? i) && (i <=? len b)) with true by lia. reflexivity. Qed.
Lemma cslice_ok b i j : 0 <= i <= j -> j <= len b -> cslice b i j = Ok (slice b i j).
Proof. intros; unfold cslice. replace ((0 <=? i) && (i <=? j) && (j <=? len b)) with true by lia. reflexivity. Qed.

(* ---------- the primitives, in the form used below ---------- *)
Lemma dv_bounds b v n e : wfb b = true -> proto_decodeVarint b = (v, n, e) ->
  0 <= n <= len b /\ 0 <= v < 2 ^ 64 /\ (e = None -> 1 <= n).
Proof.
  intros Hwf E. pose proof (decodeVarint_bounds b Hwf) as H. rewrite E in H.
  unfold u64 in H. intuition lia.
Qed.
Lemma dt_bounds b f t n e : wfb b = true -> proto_decodeTag b = (f, t, n, e) ->
  0 <= n <= len b /\ (e = None -> 1 <= n).
Proof.
  intros Hwf E. unfold proto_decodeTag in E. cbv zeta in E.
  destruct (proto_decodeVarint b) as [[v n'] e'] eqn:E'.
  apply dv_bounds in E'; [|assumption]. inversion E; subst. intuition lia.
Qed.
Lemma dl_bounds b v n e : wfb b = true -> len b < lim -> proto_decodeVarlen b = (v, n, e) ->
  0 <= n <= len b.
Proof.
  intros Hwf Hl E. pose proof (decodeVarlen_bounds b Hwf) as H. rewrite E in H.
  unfold lim in Hl. apply H. lia.
Qed.
Lemma dle32_bounds b v n e : proto_decodeLE32 b = (v, n, e) -> 0 <= n <= len b.
Proof. pose proof (len_nonneg b). unfold proto_decodeLE32. destruct (len b <? 4) eqn:G; intros E; inversion E; subst; lia. Qed.
Lemma dle64_bounds b v n e : proto_decodeLE64 b = (v, n, e) -> 0 <= n <= len b.
Proof. pose proof (len_nonneg b). unfold proto_decodeLE64. destruct (len b <? 8) eqn:G; intros E; inversion E; subst; lia. Qed.

Global Opaque proto_decodeVarint proto_decodeTag proto_decodeVarlen proto_decodeLE32 proto_decodeLE64.

Ltac finish := unfold dret; do 3 eexists; split; [reflexivity | lia].

(* ---------- the struct loop, taken out of [decode] ---------- *)
Section Loop.
  Variable dec : codec -> bytes -> val -> Z -> dres.
  Variable fields : list sfield.
  Variable b : bytes.
  Variables flags maxn : Z.

  Definition skip_of (wireType : Z) (w : bytes) : Z * option proto_error :=
    if wireType =? proto_varint then let '(_, s, e) := proto_decodeVarint w in (s, e)
    else if wireType =? proto_varlen then
      let '(size, s, e) := proto_decodeVarint w in
      match e with
      | Some _ => (s, e)
      | None => if size >? w64 (len b - s) then (s, Some proto_ErrUnexpectedEOF) else (s + s64 size, None)
      end
    else if wireType =? proto_fixed32 then let '(_, s, e) := proto_decodeLE32 w in (s, e)
    else if wireType =? proto_fixed64 then let '(_, s, e) := proto_decodeLE64 w in (s, e)
    else (0, Some proto_ErrWireTypeUnknown).

  Definition win_of (wireType offset : Z) (w : bytes) (f : sfield) : res (option (Z * Z) * Z * option proto_error) :=
    if wireType =? proto_varint then
      let '(_, n, e) := proto_decodeVarint w in
      match e with Some _ => Ok (None, offset, e) | None => Ok (Some (offset, offset + n), offset, None) end
    else if wireType =? proto_varlen then
      let '(l, n, e) := proto_decodeVarint w in
      match e with
      | Some _ => Ok (None, offset + n, e)
      | None =>
          if l >? w64 (len b - (offset + n)) then Ok (None, len b, Some proto_ErrUnexpectedEOF)
          else if sf_embedded f then Ok (Some (offset + n, offset + n + s64 l), offset + n, None)
          else Ok (Some (offset, offset + n + s64 l), offset, None)
      end
    else if wireType =? proto_fixed32 then
      if (offset + 4) >? len b then Ok (None, len b, Some proto_ErrUnexpectedEOF) else Ok (Some (offset, offset + 4), offset, None)
    else if wireType =? proto_fixed64 then
      if (offset + 8) >? len b then Ok (None, len b, Some proto_ErrUnexpectedEOF) else Ok (Some (offset, offset + 8), offset, None)
    else Ok (None, offset, Some proto_ErrWireTypeUnknown).

  Definition sunknown (rec : Z -> list val -> dres) (wireType offset : Z) (vs : list val) : dres :=
    rlet w <- cfrom b offset in
    let '(skip, err) := skip_of wireType w in
    let '(offset, err) := if (s64 (offset + skip)) <=? len b then (s64 (offset + skip), err) else (len b, Some proto_ErrUnexpectedEOF) in
    match err with Some _ => dret offset err (VStruct vs) | None => rec offset vs end.

  Definition sknown (rec : Z -> list val -> dres) (wireType offset : Z) (vs : list val) (i : nat) (f : sfield) : dres :=
    if negb (wireType =? wire (sf_codec f)) then dret offset err_mismatch (VStruct vs) else
    rlet w <- cfrom b offset in
    rlet (range, offset, err) <- win_of wireType offset w f in
    match range with
    | None => dret offset err (VStruct vs)
    | Some (lo, hi) =>
        rlet data <- cslice b lo hi in
        let oldf := nth i vs (zero_val (sf_ty f)) in
        rlet (n, err, newf) <- dec (sf_codec f) data oldf (make_flags f flags) in
        let offset := offset + n in
        let vs := set_nth vs i newf in
        match err with Some _ => dret offset err (VStruct vs) | None => rec offset vs end
    end.

  Definition sbody (rec : Z -> list val -> dres) (offset : Z) (vs : list val) : dres :=
    if negb (offset <? len b) then dret offset None (VStruct vs) else
    rlet w <- cfrom b offset in
    let '(fieldNumber, wireType, n, err) := proto_decodeTag w in
    let offset := offset + n in
    match err with Some _ => dret offset err (VStruct vs) | None =>
    let fo := if (0 <=? fieldNumber) && (fieldNumber <? maxn + 1) && (fieldNumber <? 2^63) then nth_field fields vs fieldNumber else None in
    match fo with
    | None => sunknown rec wireType offset vs
    | Some (i, f) => sknown rec wireType offset vs i f
    end end.

  Definition sloop : nat -> Z -> list val -> dres :=
    fix loop (fuel : nat) (offset : Z) (vs : list val) {struct fuel} : dres :=
      match fuel with O => OutOfFuel | S fuel'' => sbody (loop fuel'') offset vs end.
End Loop.

Lemma decode_struct_eq f i fields b old flags :
  decode (S f) (CStruct i fields) b old flags =
  sloop (decode f) fields b (without flags proto_toplevel) (max_number fields) f 0
        (match old with VStruct vs => vs | _ => [] end).
Proof. reflexivity. Qed.

Lemma nf_go_In number : forall fs i acc j f,
  (fix go (fs : list sfield) (i : nat) (acc : option (nat * sfield)) : option (nat * sfield) :=
     match fs with
     | [] => acc
     | f :: r => go r (S i) (if sf_number f =? number then Some (i, f) else acc)
     end) fs i acc = Some (j, f) -> In f fs \/ acc = Some (j, f).
Proof.
  induction fs as [|a r IH]; intros i acc j f H; [right; exact H|].
  apply IH in H. destruct H as [H|H]; [left; right; exact H|].
  destruct (sf_number a =? number); [inversion H; left; left; reflexivity | right; exact H].
Qed.
Lemma nth_field_In fields vs number j f : nth_field fields vs number = Some (j, f) -> In f fields.
Proof.
  unfold nth_field. intros H. apply nf_go_In in H. destruct H as [H|H]; [exact H | discriminate].
Qed.

Section LoopOk.
  Variable dec : codec -> bytes -> val -> Z -> dres.
  Variable fields : list sfield.
  Variable b : bytes.
  Variables flags maxn : Z.
  Hypothesis Hwf : wfb b = true.
  Hypothesis Hlen : len b < lim.
  Hypothesis Hdec : forall f, In f fields -> forall data oldf fl,
    wfb data = true -> (length data <= length b)%nat ->
    exists n e v, dec (sf_codec f) data oldf fl = Ok (n, e, v) /\ 0 <= n <= len data.

  Lemma skip_of_ok wt w skip err : wfb w = true -> len w <= len b ->
    skip_of b wt w = (skip, err) -> 0 <= skip <= 2 * len b.
  Proof.
    intros Hw Hlw. pose proof (len_nonneg w). unfold lim in Hlen. unfold skip_of.
    destruct (wt =? proto_varint).
    { destruct (proto_decodeVarint w) as [[x s] e] eqn:E. apply dv_bounds in E; [|assumption].
      intros E'; inversion E'; subst. lia. }
    destruct (wt =? proto_varlen).
    { destruct (proto_decodeVarint w) as [[x s] e] eqn:E. apply dv_bounds in E; [|assumption].
      destruct e; [intros E'; inversion E'; subst; lia|].
      rewrite w64_id by lia.
      destruct (x >? len b - s) eqn:G; intros E'; inversion E'; subst; [lia|].
      rewrite s64_id by lia. lia. }
    destruct (wt =? proto_fixed32).
    { destruct (proto_decodeLE32 w) as [[x s] e] eqn:E. apply dle32_bounds in E.
      intros E'; inversion E'; subst. lia. }
    destruct (wt =? proto_fixed64).
    { destruct (proto_decodeLE64 w) as [[x s] e] eqn:E. apply dle64_bounds in E.
      intros E'; inversion E'; subst. lia. }
    intros E'; inversion E'; subst. lia.
  Qed.

  Lemma win_of_ok wt offset f : 0 <= offset <= len b ->
    exists range off' err, win_of b wt offset (slice_from b offset) f = Ok (range, off', err) /\
      offset <= off' <= len b /\
      match range with
      | None => True
      | Some (lo, hi) => 0 <= lo <= hi /\ hi <= len b /\ off' + (hi - lo) <= len b
      end.
  Proof.
    intros Ho. unfold lim in Hlen.
    assert (Hw : wfb (slice_from b offset) = true) by (apply wfb_slice_from; assumption).
    pose proof (len_slice_from b offset Ho) as Hlw.
    set (w := slice_from b offset) in *. unfold win_of.
    destruct (wt =? proto_varint).
    { destruct (proto_decodeVarint w) as [[x n] e] eqn:E. apply dv_bounds in E; [|assumption].
      destruct e; do 3 eexists; (split; [reflexivity|]); split; try lia; exact I. }
    destruct (wt =? proto_varlen).
    { destruct (proto_decodeVarint w) as [[x n] e] eqn:E. apply dv_bounds in E; [|assumption].
      destruct e; [do 3 eexists; (split; [reflexivity|]); split; [lia | exact I]|].
      rewrite w64_id by lia.
      destruct (x >? len b - (offset + n)) eqn:G;
        [do 3 eexists; (split; [reflexivity|]); split; [lia | exact I]|].
      rewrite s64_id by lia.
      destruct (sf_embedded f); do 3 eexists; (split; [reflexivity|]); split; lia. }
    destruct (wt =? proto_fixed32).
    { destruct (offset + 4 >? len b) eqn:G; do 3 eexists; (split; [reflexivity|]); split; try lia; exact I. }
    destruct (wt =? proto_fixed64).
    { destruct (offset + 8 >? len b) eqn:G; do 3 eexists; (split; [reflexivity|]); split; try lia; exact I. }
    do 3 eexists; (split; [reflexivity|]); split; [lia | exact I].
  Qed.

  Definition rec_ok (rec : Z -> list val -> dres) (pre : Z) : Prop :=
    forall o vs, pre < o <= len b -> exists n e v, rec o vs = Ok (n, e, v) /\ 0 <= n <= len b.

  Lemma sunknown_ok rec pre wt offset vs : 0 <= pre < offset -> offset <= len b -> rec_ok rec pre ->
    exists n e v, sunknown b rec wt offset vs = Ok (n, e, v) /\ 0 <= n <= len b.
  Proof.
    intros Hp Ho Hrec. unfold lim in Hlen. unfold sunknown.
    rewrite cfrom_ok by lia. cbn [rbind].
    destruct (skip_of b wt (slice_from b offset)) as [skip err] eqn:E.
    apply skip_of_ok in E; [|apply wfb_slice_from; assumption | rewrite len_slice_from by lia; lia].
    rewrite s64_id by lia.
    destruct (offset + skip <=? len b) eqn:G; [|finish].
    destruct err; [finish|]. apply Hrec. lia.
  Qed.

  Lemma sknown_ok rec pre wt offset vs i f : 0 <= pre < offset -> offset <= len b -> In f fields ->
    rec_ok rec pre ->
    exists n e v, sknown dec b flags rec wt offset vs i f = Ok (n, e, v) /\ 0 <= n <= len b.
  Proof.
    intros Hp Ho Hin Hrec. unfold sknown.
    destruct (negb (wt =? wire (sf_codec f))); [finish|].
    rewrite cfrom_ok by lia. cbn [rbind].
    destruct (win_of_ok wt offset f) as (range & off' & err & E & Hoff & Hr); [lia|].
    rewrite E. cbn [rbind].
    destruct range as [[lo hi]|]; [|finish].
    rewrite cslice_ok by lia. cbn [rbind].
    destruct (Hdec f Hin (slice b lo hi) (nth i vs (zero_val (sf_ty f))) (make_flags f flags))
      as (n & e & v & E2 & Hn); [apply wfb_slice; assumption | apply length_slice_le|].
    rewrite len_slice in Hn by lia.
    rewrite E2. cbn [rbind].
    destruct e; [finish|]. apply Hrec. lia.
  Qed.

  Lemma sbody_ok rec offset vs : 0 <= offset <= len b -> rec_ok rec offset ->
    exists n e v, sbody dec fields b flags maxn rec offset vs = Ok (n, e, v) /\ 0 <= n <= len b.
  Proof.
    intros Ho Hrec. unfold sbody.
    destruct (negb (offset <? len b)) eqn:G; [finish|].
    rewrite cfrom_ok by lia. cbn [rbind].
    destruct (proto_decodeTag (slice_from b offset)) as [[[fn wt] n] err] eqn:E.
    apply dt_bounds in E; [|apply wfb_slice_from; assumption].
    rewrite len_slice_from in E by lia.
    destruct err; [finish|].
    destruct E as [E1 E2]. specialize (E2 eq_refl).
    match goal with |- context [match ?x with Some _ => _ | None => _ end] => destruct x as [[i f]|] eqn:F end.
    - apply sknown_ok with (pre := offset); [lia | lia | | exact Hrec].
      destruct ((0 <=? fn) && (fn <? maxn + 1) && (fn <? 2 ^ 63)); [|discriminate].
      apply nth_field_In in F; exact F.
    - apply sunknown_ok with (pre := offset); [lia | lia | exact Hrec].
  Qed.

  Lemma sloop_ok : forall fuel offset vs, 0 <= offset <= len b ->
    (Z.to_nat (len b - offset) + 1 <= fuel)%nat ->
    exists n e v, sloop dec fields b flags maxn fuel offset vs = Ok (n, e, v) /\ 0 <= n <= len b.
  Proof.
    induction fuel as [|k IH]; intros offset vs Ho Hf; [lia|].
    change (sloop dec fields b flags maxn (S k) offset vs)
      with (sbody dec fields b flags maxn (sloop dec fields b flags maxn k) offset vs).
    apply sbody_ok; [lia|]. intros o vs' Ho'. apply IH; lia.
  Qed.
End LoopOk.

(* ---------- codecs that decode totally with d levels of nesting ---------- *)
Definition is_scalar (c : codec) : bool :=
  match c with
  | CBool | CInt | CInt32 | CInt64 | CUint | CUint32 | CUint64 | CFixed32 | CFixed64 | CFloat32 | CFloat64
  | CString | CBytes | CByteArray _ | CMessage => true
  | _ => false
  end.

Inductive dok : codec -> nat -> Prop :=
| dok_scalar c d : is_scalar c = true -> dok c (S d)
| dok_ptr t c d : dok c d -> dok (CPtr t c) (S d)
| dok_slice n wt emb et c d : dok c d -> dok (CSlice n wt emb et c) (S d)
| dok_map n kf vf kt vt kc vc d :
    dok (codec_of (TStruct [GField true None kt; GField true None vt])) d ->
    dok (CMap n kf vf kt vt kc vc) (S d)
| dok_struct inl fs d : (forall f, In f fs -> dok (sf_codec f) d) -> dok (CStruct inl fs) (S d).

Lemma dok_mono c d : dok c d -> forall d', (d <= d')%nat -> dok c d'.
Proof.
  induction 1 as [c d Hs | t c d H IH | n wt emb et c d H IH | n kf vf kt vt kc vc d H IH | inl fs d H IH];
    intros d' Hd; (destruct d' as [|d']; [lia|]).
  - apply dok_scalar; assumption.
  - apply dok_ptr, IH; lia.
  - apply dok_slice, IH; lia.
  - apply dok_map, IH; lia.
  - apply dok_struct. intros f Hin. apply (IH f Hin). lia.
Qed.

Lemma decode_ptr_eq f t c b old flags :
  decode (S f) (CPtr t c) b old flags =
  rlet (n, err, v) <- decode f c b (match old with VPtr (Some x) => x | _ => zero_val t end) flags in
  dret n err (VPtr (Some v)).
Proof. reflexivity. Qed.
Lemma decode_slice_eq f num wt emb et c b old flags :
  decode (S f) (CSlice num wt emb et c) b old flags =
  rlet (n, err, v) <- decode f c b (zero_val et) proto_noflags in
  match err with
  | Some _ => dret n err old
  | None => dret n None (VSlice ((match old with VSlice es => es | _ => [] end) ++ [v]))
  end.
Proof. reflexivity. Qed.
Lemma decode_map_eq f num kf vf kt vt kc vc b old flags :
  decode (S f) (CMap num kf vf kt vt kc vc) b old flags =
  let es := match old with VMap _ es => es | _ => [] end in
  if len b =? 0 then dret 0 None (VMap true es) else
  let st := TStruct [GField true None kt; GField true None vt] in
  rlet (n, err, kv) <- decode f (codec_of st) b (zero_val st) proto_noflags in
  match err, kv with
  | None, VStruct [k; v] => dret n None (VMap true (map_assign es k v))
  | _, _ => dret n err (VMap true es)
  end.
Proof. reflexivity. Qed.

Theorem decode_ok : forall c d, dok c d -> forall fuel b old flags,
  wfb b = true -> len b < lim -> (length b + d + 1 <= fuel)%nat ->
  exists n e v, decode fuel c b old flags = Ok (n, e, v) /\ 0 <= n <= len b.
Proof.
  induction 1 as [c d Hs | t c d H IH | num wt emb et c d H IH | num kf vf kt vt kc vc d H IH | inl fs d H IH];
    intros fuel b old flags Hwf Hlen Hfuel; (destruct fuel as [|fuel]; [lia|]);
    pose proof (len_nonneg b) as Hnn.
  - (* scalars *)
    destruct c; try discriminate Hs; cbn [decode].
    + destruct (proto_decodeVarint b) as [[v n] e] eqn:E; apply dv_bounds in E; [|assumption]; finish.
    + destruct (proto_decodeVarint b) as [[v n] e] eqn:E; apply dv_bounds in E; [|assumption]; finish.
    + destruct (proto_decodeVarint b) as [[v n] e] eqn:E; apply dv_bounds in E; [|assumption].
      match goal with |- context [if ?x then _ else _] => destruct x end; finish.
    + destruct (proto_decodeVarint b) as [[v n] e] eqn:E; apply dv_bounds in E; [|assumption]; finish.
    + destruct (proto_decodeVarint b) as [[v n] e] eqn:E; apply dv_bounds in E; [|assumption]; finish.
    + destruct (proto_decodeVarint b) as [[v n] e] eqn:E; apply dv_bounds in E; [|assumption].
      match goal with |- context [if ?x then _ else _] => destruct x end; finish.
    + destruct (proto_decodeVarint b) as [[v n] e] eqn:E; apply dv_bounds in E; [|assumption]; finish.
    + destruct (proto_decodeLE32 b) as [[v n] e] eqn:E; apply dle32_bounds in E; finish.
    + destruct (proto_decodeLE64 b) as [[v n] e] eqn:E; apply dle64_bounds in E; finish.
    + destruct (proto_decodeLE32 b) as [[v n] e] eqn:E; apply dle32_bounds in E; finish.
    + destruct (proto_decodeLE64 b) as [[v n] e] eqn:E; apply dle64_bounds in E; finish.
    + destruct (proto_decodeVarlen b) as [[v n] e] eqn:E; apply dl_bounds in E; [|assumption..]; finish.
    + destruct (proto_decodeVarlen b) as [[v n] e] eqn:E; apply dl_bounds in E; [|assumption..]; finish.
    + destruct (proto_decodeVarlen b) as [[v r] e] eqn:E; apply dl_bounds in E; [|assumption..].
      destruct e; [finish|].
      match goal with |- context [if ?x then _ else _] => destruct x end; finish.
    + destruct (has flags proto_toplevel); [finish|].
      destruct (proto_decodeVarlen b) as [[v n] e] eqn:E; apply dl_bounds in E; [|assumption..].
      destruct e; finish.
  - (* pointer *)
    rewrite decode_ptr_eq.
    destruct (IH fuel b (match old with VPtr (Some x) => x | _ => zero_val t end) flags)
      as (n & e & v & E & Hn); [assumption | assumption | lia |].
    rewrite E. cbn [rbind]. finish.
  - (* slice element *)
    rewrite decode_slice_eq.
    destruct (IH fuel b (zero_val et) proto_noflags) as (n & e & v & E & Hn); [assumption | assumption | lia |].
    rewrite E. cbn [rbind]. destruct e; finish.
  - (* map entry *)
    rewrite decode_map_eq. cbv zeta.
    destruct (len b =? 0) eqn:G; [finish|].
    match goal with |- context [decode fuel ?c b ?o ?fl] =>
      destruct (IH fuel b o fl) as (n & e & v & E & Hn); [assumption | assumption | lia |]
    end.
    rewrite E. cbn [rbind].
    destruct e; [finish|].
    destruct v as [| | | | | |[|k [|v [|]]]| | |]; finish.
  - (* struct *)
    rewrite decode_struct_eq. apply sloop_ok; [assumption | assumption | | lia | unfold len; lia].
    intros f Hin data oldf fl Hwd Hld. apply (IH f Hin); [assumption | unfold len, lim in *; lia | lia].
Qed.

(* ---------- [codec_of] of a supported type is [dok] at the depth of the type ---------- *)
Section GtyInd.
  Variable P : gty -> Prop.
  Hypothesis Hleaf : forall t,
    match t with TPtr _ | TStruct _ | TSlice _ | TMap _ _ => False | _ => True end -> P t.
  Hypothesis Hptr : forall t, P t -> P (TPtr t).
  Hypothesis Hslice : forall t, P t -> P (TSlice t).
  Hypothesis Hmap : forall k v, P k -> P v -> P (TMap k v).
  Hypothesis Hstruct : forall fs, Forall (fun f => P (field_ty f)) fs -> P (TStruct fs).
  Fixpoint gty_ind2 (t : gty) : P t :=
    match t with
    | TPtr t' => Hptr t' (gty_ind2 t')
    | TSlice t' => Hslice t' (gty_ind2 t')
    | TMap k v => Hmap k v (gty_ind2 k) (gty_ind2 v)
    | TStruct fs =>
        Hstruct fs ((fix go (fs : list gfield) : Forall (fun f => P (field_ty f)) fs :=
                       match fs with
                       | [] => Forall_nil _
                       | f :: r => Forall_cons f (match f return P (field_ty f) with GField _ _ ft => gty_ind2 ft end) (go r)
                       end) fs)
    | TBool => Hleaf TBool I | TInt => Hleaf TInt I | TInt32 => Hleaf TInt32 I | TInt64 => Hleaf TInt64 I
    | TUint => Hleaf TUint I | TUint32 => Hleaf TUint32 I | TUint64 => Hleaf TUint64 I
    | TFloat32 => Hleaf TFloat32 I | TFloat64 => Hleaf TFloat64 I
    | TString => Hleaf TString I | TBytes => Hleaf TBytes I
    | TByteArray n => Hleaf (TByteArray n) I
    | TRawMessage => Hleaf TRawMessage I
    end.
End GtyInd.

Definition scalar_key (kt : gty) : bool :=
  match kt with TBool | TInt | TInt32 | TInt64 | TUint | TUint32 | TUint64 | TString => true | _ => false end.
Definition fok (ft : gty) : bool :=
  match ft with
  | TSlice et => elem_ok et
  | TMap kt vt => scalar_key kt && elem_ok vt
  | _ => elem_ok ft
  end.
Fixpoint fsok (fs : list gfield) : bool :=
  match fs with [] => true | GField e _ ft :: r => e && fok ft && fsok r end.
Lemma elem_ok_struct fs : elem_ok (TStruct fs) = fsok fs.
Proof. reflexivity. Qed.
Fixpoint fsdepth (fs : list gfield) : nat :=
  match fs with [] => O | GField _ _ ft :: r => Nat.max (depth_ty ft) (fsdepth r) end.
Lemma depth_ty_struct fs : depth_ty (TStruct fs) = S (fsdepth fs).
Proof. reflexivity. Qed.

Definition forced_of (tg : ptag) (ft : gty) : option codec :=
  if tag_wire tg =? proto_fixed32 then
    match base_ty ft with TUint32 => Some (pointers_to ft CFixed32) | TFloat32 => Some (pointers_to ft CFloat32) | _ => None end
  else if tag_wire tg =? proto_fixed64 then
    match base_ty ft with TUint64 => Some (pointers_to ft CFixed64) | TFloat64 => Some (pointers_to ft CFloat64) | _ => None end
  else None.
Definition generic_of (fl0 num : Z) (ft : gty) : Z * codec :=
  match ft with
  | TSlice et =>
      let emb := is_struct (base_ty et) in
      let fl1 := Z.lor (if emb then Z.lor fl0 proto_embedded else fl0) proto_repeated in
      let ec := codec_of et in
      (fl1, CSlice num (wire ec) emb et ec)
  | TMap kt vt =>
      let kf := if is_struct (base_ty kt) then proto_embedded else 0 in
      let vf := if is_struct (base_ty vt) then proto_embedded else 0 in
      (Z.lor fl0 (Z.lor proto_embedded proto_repeated), CMap num kf vf kt vt (codec_of kt) (codec_of vt))
  | _ => if is_struct (base_ty ft) then (Z.lor fl0 proto_embedded, codec_of ft) else (fl0, codec_of ft)
  end.
Definition fcodec (tag : option ptag) (ft : gty) (number : Z) : sfield :=
  let num0 := w16 number in
  let '(num, fl0, forced) :=
    match tag with
    | None => (num0, 0, None)
    | Some tg =>
        let fl := (if tag_repeated tg then proto_repeated else 0) + (if tag_zigzag tg then proto_zigzag else 0) in
        (w16 (tag_number tg), fl, forced_of tg ft)
    end in
  let '(fl, c) :=
    match forced with
    | Some c => (fl0, c)
    | None => generic_of fl0 num ft
    end in
  SField num (w8 (proto_sizeOfTag num (wire c))) fl ft c.
Definition fcodec_cons (tag : option ptag) (ft : gty) (number : Z) (tl : list sfield) : list sfield :=
  let num0 := w16 number in
  let '(num, fl0, forced) :=
    match tag with
    | None => (num0, 0, None)
    | Some tg =>
        let fl := (if tag_repeated tg then proto_repeated else 0) + (if tag_zigzag tg then proto_zigzag else 0) in
        (w16 (tag_number tg), fl, forced_of tg ft)
    end in
  let '(fl, c) :=
    match forced with
    | Some c => (fl0, c)
    | None => generic_of fl0 num ft
    end in
  SField num (w8 (proto_sizeOfTag num (wire c))) fl ft c :: tl.
Lemma fcodec_cons_eq tag ft number tl : fcodec_cons tag ft number tl = fcodec tag ft number :: tl.
Proof.
  unfold fcodec_cons, fcodec. destruct tag as [tg|]; cbv zeta.
  - destruct (forced_of tg ft); [reflexivity|].
    match goal with |- context [generic_of ?a ?b ft] => destruct (generic_of a b ft) end. reflexivity.
  - match goal with |- context [generic_of ?a ?b ft] => destruct (generic_of a b ft) end. reflexivity.
Qed.
Fixpoint cfields (fs : list gfield) (number : Z) : list sfield :=
  match fs with
  | [] => []
  | GField false _ _ :: r => cfields r number
  | GField true tag ft :: r => fcodec_cons tag ft number (cfields r (number + 1))
  end.
Lemma codec_of_struct fs : codec_of (TStruct fs) = CStruct (inlined_ty (TStruct fs)) (cfields fs 1).
Proof. reflexivity. Qed.

Lemma pointers_to_dok c : is_scalar c = true -> forall ft,
  match base_ty ft with TUint32 | TFloat32 | TUint64 | TFloat64 => True | _ => False end ->
  dok (pointers_to ft c) (depth_ty ft).
Proof.
  intros Hc. induction ft; cbn [base_ty pointers_to depth_ty]; intros Hb;
    try (apply dok_scalar; exact Hc); try contradiction.
  apply dok_ptr, IHft, Hb.
Qed.
Lemma forced_dok tg ft c : forced_of tg ft = Some c -> dok c (depth_ty ft).
Proof.
  unfold forced_of. intros H.
  destruct (tag_wire tg =? proto_fixed32); [|destruct (tag_wire tg =? proto_fixed64); [|discriminate]];
    destruct (base_ty ft) eqn:E; try discriminate; inversion H; subst;
    apply pointers_to_dok; try reflexivity; rewrite E; exact I.
Qed.

Definition Qt (t : gty) : Prop := elem_ok t = true -> dok (codec_of t) (depth_ty t).
Definition Ft (t : gty) : Prop := fok t = true -> forall fl0 num, dok (snd (generic_of fl0 num t)) (depth_ty t).

Lemma generic_same fl0 num t :
  match t with TSlice _ | TMap _ _ => False | _ => True end -> snd (generic_of fl0 num t) = codec_of t.
Proof. destruct t; try contradiction; intros _; unfold generic_of; destruct (is_struct _); reflexivity. Qed.

Lemma fcodec_dok tag ft number : fok ft = true -> Ft ft -> dok (sf_codec (fcodec tag ft number)) (depth_ty ft).
Proof.
  intros Hok HF. unfold fcodec. destruct tag as [tg|]; cbv zeta.
  - destruct (forced_of tg ft) eqn:E; [apply forced_dok in E; exact E|].
    match goal with |- context [generic_of ?a ?b ft] => specialize (HF Hok a b); destruct (generic_of a b ft) end.
    exact HF.
  - match goal with |- context [generic_of ?a ?b ft] => specialize (HF Hok a b); destruct (generic_of a b ft) end.
    exact HF.
Qed.

Lemma cfields_dok : forall fs number, fsok fs = true -> Forall (fun f => Ft (field_ty f)) fs ->
  forall f, In f (cfields fs number) -> dok (sf_codec f) (fsdepth fs).
Proof.
  induction fs as [|[e tg ft] r IH]; intros number Hok HF f Hin; [contradiction|].
  cbn [fsok] in Hok. apply andb_true_iff in Hok. destruct Hok as [Hok Hr].
  apply andb_true_iff in Hok. destruct Hok as [He Hft]. subst e.
  inversion HF as [|x l HF1 HF2]; subst. cbn [field_ty] in HF1.
  cbn [cfields fsdepth] in *. rewrite fcodec_cons_eq in Hin. destruct Hin as [Hin|Hin].
  - subst f. eapply dok_mono; [apply fcodec_dok; assumption | lia].
  - eapply dok_mono; [eapply IH; eassumption | lia].
Qed.

Lemma codec_of_dok : forall t, Qt t /\ Ft t.
Proof.
  apply gty_ind2.
  - (* leaves *)
    intros t Ht. assert (HQ : Qt t).
    { destruct t; try contradiction; intros _; apply dok_scalar; reflexivity. }
    split; [exact HQ|]. intros Hok fl0 num. rewrite generic_same by (destruct t; try contradiction; exact I).
    apply HQ. destruct t; try contradiction; reflexivity.
  - (* pointer *)
    intros t [HQ _]. assert (HQ' : Qt (TPtr t)).
    { intros Hok. cbn [codec_of depth_ty]. apply dok_ptr, HQ, Hok. }
    split; [exact HQ'|]. intros Hok fl0 num. rewrite generic_same by exact I. apply HQ', Hok.
  - (* slice *)
    intros t [HQ _]. split; [intros Hok; discriminate Hok|].
    intros Hok fl0 num. cbn [generic_of snd depth_ty fok] in *. cbv zeta. cbn [snd].
    apply dok_slice, HQ, Hok.
  - (* map *)
    intros k v [HQk _] [HQv HFv]. split; [intros Hok; discriminate Hok|].
    intros Hok fl0 num. cbn [fok] in Hok. apply andb_true_iff in Hok. destruct Hok as [Hk Hv].
    cbn [generic_of depth_ty]. cbv zeta. cbn [snd].
    apply dok_map. rewrite codec_of_struct. apply dok_struct.
    intros f Hin. cbn [cfields] in Hin. rewrite !fcodec_cons_eq in Hin.
    destruct Hin as [Hin|[Hin|[]]]; subst f.
    + eapply dok_mono; [apply fcodec_dok|].
      * destruct k; try discriminate Hk; reflexivity.
      * intros _ a c. rewrite generic_same by (destruct k; try discriminate Hk; exact I).
        apply HQk. destruct k; try discriminate Hk; reflexivity.
      * lia.
    + eapply dok_mono; [apply fcodec_dok|].
      * destruct v; try discriminate Hv; exact Hv.
      * intros _ a c. rewrite generic_same by (destruct v; try discriminate Hv; exact I).
        apply HQv, Hv.
      * lia.
  - (* struct *)
    intros fs HF. assert (HQ' : Qt (TStruct fs)).
    { intros Hok. rewrite elem_ok_struct in Hok. rewrite codec_of_struct, depth_ty_struct.
      apply dok_struct. apply cfields_dok; [exact Hok|].
      eapply Forall_impl; [|exact HF]. intros a [_ Ha]; exact Ha. }
    split; [exact HQ'|]. intros Hok fl0 num. rewrite generic_same by exact I. apply HQ', Hok.
Qed.

(* the general form: any flags, result within the input *)
Theorem decode_total_strong t b old flags fuel :
  type_ok t = true -> wfb b = true -> len b < lim -> (length b + depth_ty t + 1 <= fuel)%nat ->
  exists n e v, decode fuel (codec_of t) b old flags = Ok (n, e, v) /\ 0 <= n <= len b.
Proof.
  intros Hok Hwf Hlen Hfuel. apply decode_ok with (d := depth_ty t); try assumption.
  apply (proj1 (codec_of_dok t)), Hok.
Qed.

Lemma decode_total : decode_total_statement.
Proof.
  intros t b old flags fuel Hok Hwf Hlen _ Hfuel.
  destruct (decode_total_strong t b old flags fuel) as (n & e & v & E & Hn); try assumption; [lia|].
  exists n, e, v. split; [exact E | lia].
Qed.
Lemma unmarshal_total : unmarshal_total_statement.
Proof.
  intros t b old Hok Hwf Hlen. unfold Unmarshal.
  destruct (len b =? 0); [eexists; reflexivity|].
  destruct (decode_total_strong t b old proto_toplevel (length b + 2 * depth_ty t + 2))
    as (n & e & v & E & Hn); try assumption; [lia|].
  rewrite E. cbn [rbind].
  destruct e; [eexists; reflexivity|]. destruct (n <? len b); eexists; reflexivity.
Qed.
