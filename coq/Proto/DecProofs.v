(* Proofs that decoding is total: never Panic, never out of the stated fuel (C07). *)
From Verif Require Import Base.GoInt Proto.Ext Generated.ProtoGen Proto.Model Proto.PrimSpec Proto.PrimProofs Proto.Spec.
From Coq Require Import ZifyBool.
Open Scope Z_scope.

Lemma decode_total : decode_total_statement.
Admitted.
Lemma unmarshal_total : unmarshal_total_statement.
Admitted.
