(* Statements about the proto model (Proto/Model.v) for C03, C16 and C07. Definitions only. *)
From Verif Require Import Base.GoInt Proto.Ext Generated.ProtoGen Proto.Model Proto.PrimSpec.
Open Scope Z_scope.

(* ---------- the universe: supported types and well-formed values ---------- *)
Definition field_ty (f : gfield) : gty := match f with GField _ _ t => t end.
Definition field_exported (f : gfield) : bool := match f with GField e _ _ => e end.

(* element types: what may appear under a pointer, as a slice element or a map value *)
Fixpoint elem_ok (t : gty) : bool :=
  match t with
  | TSlice _ | TMap _ _ => false
  | TPtr t' => elem_ok t'
  | TStruct fs => (fix go (fs : list gfield) : bool :=
                     match fs with
                     | [] => true
                     | GField e _ ft :: r =>
                         e &&     (* unexported fields are outside the universe: the model pairs compiled fields and values positionally *)
                         (match ft with
                          | TSlice et => elem_ok et
                          | TMap kt vt => (match kt with
                                           | TBool | TInt | TInt32 | TInt64 | TUint | TUint32 | TUint64 | TString => true
                                           | _ => false end) && elem_ok vt
                          | _ => elem_ok ft
                          end) && go r
                     end) fs
  | _ => true
  end.
Definition type_ok (t : gty) : bool := elem_ok t.

(* effective field numbers of a compiled struct are distinct and valid protobuf numbers *)
Fixpoint distinct (l : list Z) : bool :=
  match l with [] => true | x :: r => negb (existsb (Z.eqb x) r) && distinct r end.
Fixpoint numbers_ok (c : codec) : bool :=
  match c with
  | CPtr _ c' => numbers_ok c'
  | CSlice n _ _ _ c' => (1 <=? n) && (n <? 2 ^ 16) && numbers_ok c'
  | CMap n _ _ _ _ k v => (1 <=? n) && (n <? 2 ^ 16) && numbers_ok k && numbers_ok v
  | CStruct _ fs =>
      distinct (map sf_number fs) &&
      (fix go (fs : list sfield) : bool :=
         match fs with
         | [] => true
         | SField n _ _ _ c' :: r => (1 <=? n) && (n <? 2 ^ 16) && numbers_ok c' && go r
         end) fs
  | CUnsupported => false
  | _ => true
  end.

(* values of a type; sizes bounded so that Go's int arithmetic cannot overflow (lim = 2^31 is plenty) *)
Definition lim : Z := 2 ^ 31.
Fixpoint wf_val (t : gty) (v : val) {struct t} : bool :=
  match t, v with
  | TBool, VBool _ => true
  | (TInt | TInt64), VInt z => (- 2 ^ 63 <=? z) && (z <? 2 ^ 63)
  | TInt32, VInt z => (- 2 ^ 31 <=? z) && (z <? 2 ^ 31)
  | (TUint | TUint64 | TFloat64), VInt z => (0 <=? z) && (z <? 2 ^ 64)
  | (TUint32 | TFloat32), VInt z => (0 <=? z) && (z <? 2 ^ 32)
  | TString, VStr s => wfb s && (len s <? lim)
  | TBytes, VBytes nn s => wfb s && (len s <? lim) && (nn || (len s =? 0))
  | TRawMessage, VRaw nn s => wfb s && (len s <? lim) && (nn || (len s =? 0))
  | TByteArray n, VArr s => wfb s && (len s =? Z.of_nat n) && (len s <? lim)
  | TPtr _, VPtr None => true
  | TPtr t', VPtr (Some x) => wf_val t' x
  | TStruct fs, VStruct vs =>
      (fix go (fs : list gfield) (vs : list val) : bool :=
         match fs, vs with
         | [], [] => true
         | GField _ _ ft :: fr, x :: vr => wf_val ft x && go fr vr
         | _, _ => false
         end) fs vs
  | TSlice et, VSlice es =>
      (len es <? lim) && (fix go (es : list val) : bool := match es with [] => true | x :: r => wf_val et x && go r end) es
  | TMap kt vt, VMap nn es =>
      (len es <? lim) && (nn || (len es =? 0)) &&
      (fix go (es : list (val * val)) : bool :=
         match es with [] => true | (k, x) :: r => wf_val kt k && wf_val vt x && go r end) es
  | _, _ => false
  end.

(* a case of the universe: supported type, valid numbering, well-formed value, bounded total size *)
Definition in_universe (t : gty) (v : val) : Prop :=
  type_ok t = true /\ numbers_ok (codec_of t) = true /\ wf_val t v = true /\
  0 <= size_of (codec_of t) (Some v) (Z.lor proto_inline proto_toplevel) < lim.

(* ---------- C16 / C03(size): encode writes exactly size bytes, or reports a short buffer ---------- *)
(* the general form, for every codec position (any flags the code can pass: subsets of inline|wantzero|zigzag|toplevel) *)
Definition flags_ok (f : Z) : Prop := 0 <= f < 16.
Definition encode_exact_statement : Prop :=
  forall t v flags, type_ok t = true -> numbers_ok (codec_of t) = true -> wf_val t v = true -> flags_ok flags ->
    let c := codec_of t in
    let n := size_of c (Some v) flags in
    n < lim ->
    0 <= n /\
    exists bs, len bs = n /\ wfb bs = true /\
      (forall b, n <= len b -> encode c b (Some v) flags = Ok (n, None, bs ++ skipn (Z.to_nat n) b)) /\
      (forall b, len b < n -> exists k b', encode c b (Some v) flags = Ok (k, Some proto_ErrShortBuffer, b') /\ length b' = length b).

(* the public entry points, as the properties state them *)
Definition marshal_never_fails_statement : Prop :=
  forall t v, in_universe t v -> exists bs, Marshal t v = Ok (Some bs) /\ len bs = Size t v.
Definition marshal_to_fits_statement : Prop :=
  forall t v b, in_universe t v -> Size t v <= len b ->
    exists bs, Marshal t v = Ok (Some bs) /\
               MarshalTo t b v = Ok (Size t v, None, bs ++ skipn (Z.to_nat (Size t v)) b).
Definition marshal_to_short_statement : Prop :=
  forall t v b, in_universe t v -> len b < Size t v ->
    exists k b', MarshalTo t b v = Ok (k, Some proto_ErrShortBuffer, b') /\ length b' = length b.

(* ---------- C07: decoding is total ---------- *)
Fixpoint depth_ty (t : gty) : nat :=
  match t with
  | TPtr t' => S (depth_ty t')
  | TSlice t' => S (depth_ty t')
  | TMap k v => S (S (Nat.max (depth_ty k) (depth_ty v)))
  | TStruct fs => S ((fix go (fs : list gfield) : nat := match fs with [] => O | GField _ _ ft :: r => Nat.max (depth_ty ft) (go r) end) fs)
  | _ => 1%nat
  end.
Definition decode_total_statement : Prop :=
  forall t b old flags fuel, type_ok t = true -> wfb b = true -> len b < lim -> flags_ok flags ->
    (length b + 2 * depth_ty t + 2 <= fuel)%nat ->
    exists n e v, decode fuel (codec_of t) b old flags = Ok (n, e, v) /\ 0 <= n.
Definition unmarshal_total_statement : Prop :=
  forall t b old, type_ok t = true -> wfb b = true -> len b < lim ->
    exists r, Unmarshal (length b + 2 * depth_ty t + 2) t b old = Ok r.

(* ---------- C03: round trip ---------- *)
(* normal form: the nil-versus-empty distinction of byte slices, raw messages and maps is erased *)
Fixpoint norm (v : val) : val :=
  match v with
  | VBytes _ s => VBytes true s
  | VRaw _ s => VRaw true s
  | VPtr (Some x) => VPtr (Some (norm x))
  | VStruct vs => VStruct (map norm vs)
  | VSlice es => VSlice (map norm es)
  | VMap _ es => VMap true (map (fun kv => (norm (fst kv), norm (snd kv))) es)
  | _ => v
  end.
(* values the wire format cannot express (known finding F17 and the excluded nil elements):
   [empty_enc v] = the encoding of v is empty even when a zero value is wanted *)
Fixpoint empty_enc (v : val) : bool :=
  match v with
  | VPtr None => true
  | VPtr (Some x) => (match x with VStruct _ | VPtr _ => empty_enc x | _ => false end)
  | VStruct vs => forallb empty_enc vs
  | VSlice [] => true
  | _ => false
  end.
(* representable: no non-nil pointer to an empty-encoding value, no nil/empty-encoding pointer as a slice element or map value *)
Fixpoint representable (v : val) : bool :=
  match v with
  | VPtr (Some x) => negb (empty_enc x) && representable x
  | VStruct vs => forallb representable vs
  | VSlice es => forallb (fun e => representable e && negb (match e with VPtr _ => empty_enc e | _ => false end)) es
  | VMap _ es => forallb (fun kv => representable (fst kv) && representable (snd kv) &&
                                    negb (match snd kv with VPtr _ => empty_enc (snd kv) | _ => false end)) es
  | _ => true
  end.
(* map keys are pairwise different (a Go map cannot hold one key twice) *)
Fixpoint keys_distinct (v : val) : bool :=
  match v with
  | VPtr (Some x) => keys_distinct x
  | VStruct vs => forallb keys_distinct vs
  | VSlice es => forallb keys_distinct es
  | VMap _ es =>
      (fix go (es : list (val * val)) : bool :=
         match es with
         | [] => true
         | (k, x) :: r => negb (existsb (fun kv => val_eqb (fst kv) k) r) && keys_distinct x && go r
         end) es
  | _ => true
  end.
(* further values / types outside the round-trip universe (found while proving, each refuted without it in Proto/RoundTrip.v):
   - a top-level pointer to an EMPTY RawMessage encodes to nothing, and the empty input resets the target to nil;
   - a struct tag with the option "rep" on a field that is neither a slice nor a map puts the field in the repeated pass,
     which writes no tag (generated code never does this). *)
Fixpoint top_raw_empty (v : val) : bool :=
  match v with VPtr (Some x) => top_raw_empty x | VRaw _ [] => true | _ => false end.
Definition top_ok (v : val) : bool := match v with VPtr (Some x) => negb (top_raw_empty x) | _ => true end.
Definition tag_rep_ok (tag : option ptag) (ft : gty) : bool :=
  match ft with
  | TSlice _ | TMap _ _ => true
  | _ => match tag with Some tg => negb (tag_repeated tg) | None => true end
  end.
Fixpoint rep_tags_ok (t : gty) : bool :=
  match t with
  | TPtr t' => rep_tags_ok t'
  | TSlice t' => rep_tags_ok t'
  | TMap k v => rep_tags_ok k && rep_tags_ok v
  | TStruct fs => (fix go (fs : list gfield) : bool :=
                     match fs with
                     | [] => true
                     | GField _ tag ft :: r => tag_rep_ok tag ft && rep_tags_ok ft && go r
                     end) fs
  | _ => true
  end.

(* Unmarshal(Marshal(&v)) reproduces v up to the nil-versus-empty distinction (both sides normalised) *)
Definition roundtrip_statement : Prop :=
  forall t v bs, in_universe t v -> representable v = true -> keys_distinct v = true ->
    rep_tags_ok t = true -> top_ok v = true -> Size (TPtr t) (VPtr (Some v)) < lim ->
    (* zigzag on repeated fields is dropped consistently on both sides, so the round trip holds with it *)
    Marshal (TPtr t) (VPtr (Some v)) = Ok (Some bs) ->
    exists fuel r, Unmarshal fuel t bs (zero_val t) = Ok (Some r) /\ norm r = norm v.
(* the naive form (result syntactically equal to norm v, no extra hypotheses) is false *)
Definition roundtrip_naive_statement : Prop :=
  forall t v bs, in_universe t v -> representable v = true -> keys_distinct v = true ->
    Marshal (TPtr t) (VPtr (Some v)) = Ok (Some bs) ->
    exists fuel, Unmarshal fuel t bs (zero_val t) = Ok (Some (norm v)).
(* F17, stated positively: what a non-representable pointer decodes to *)
Definition ptr_empty_refuted_statement : Prop :=
  exists t v bs, in_universe t v /\ Marshal (TPtr t) (VPtr (Some v)) = Ok (Some bs) /\
                 forall fuel, Unmarshal fuel t bs (zero_val t) <> Ok (Some (norm v)).
