(* Standard-library functions called by the translated proto primitives. *)
From Verif Require Import Base.GoInt.
Open Scope Z_scope.

(* math/bits.Len64: number of bits needed to represent x (0 for 0) *)
Definition bitlen64 (x : Z) : Z := match x with Z0 => 0 | Zpos p => Z.log2 (Zpos p) + 1 | Zneg _ => 0 end.

(* encoding/binary.LittleEndian.PutUint32/64 on a destination of sufficient length
   (callers check the length first; a shorter destination panics in Go and is out of the model) *)
Fixpoint le_bytes (n : nat) (v : Z) : bytes :=
  match n with O => [] | S n' => (v mod 256) :: le_bytes n' (v / 256) end.
Definition put_le32 (b : bytes) (v : Z) : bytes := splice b 0 (le_bytes 4 v).
Definition put_le64 (b : bytes) (v : Z) : bytes := splice b 0 (le_bytes 8 v).
