(* C19 (proto rewriters): proofs about the seen-set (fieldset), the embedded splice, the seen-set
   size, and the bit-or rewriter values. Statements are in Proto/RewriteSpec.v. *)
From Verif Require Import Base.GoInt Proto.Ext Generated.ProtoGen Proto.PrimSpec Proto.PrimProofs
  Proto.RewriteModel Proto.RewriteSpec.
From Coq Require Import Lia ZifyBool ZifyNat Znumtheory.
Open Scope Z_scope.

(* ------------------------------------------------------------------ *)
(* list helpers: zero_words, set_word                                  *)
(* ------------------------------------------------------------------ *)

Lemma zero_words_repeat : forall k, zero_words k = repeat 0 (Z.to_nat k).
Proof.
  intro k. unfold zero_words. generalize (Z.to_nat k) as p.
  induction p as [|p IH]; [reflexivity|]. cbn [repeat]. rewrite IH. reflexivity.
Qed.

Lemma nth_repeat0 : forall p x, nth x (repeat 0 p) 0 = 0.
Proof.
  induction p as [|p IH]; intros [|x]; cbn [repeat nth]; auto.
Qed.

Lemma zero_words_len : forall k, 0 <= k -> len (zero_words k) = k.
Proof.
  intros k Hk. rewrite zero_words_repeat. unfold len. rewrite repeat_length. lia.
Qed.

Lemma set_word_length : forall f x w, length (set_word f x w) = length f.
Proof.
  induction f as [|a f IH]; intros [|x] w; cbn [set_word length]; auto.
Qed.

Lemma set_word_nth_same : forall f x w, (x < length f)%nat -> nth x (set_word f x w) 0 = w.
Proof.
  induction f as [|a f IH]; intros [|x] w Hx; cbn [set_word length nth] in *; try lia; auto.
  apply IH. lia.
Qed.

Lemma set_word_nth_other : forall f x y w, y <> x -> nth y (set_word f x w) 0 = nth y f 0.
Proof.
  induction f as [|a f IH]; intros [|x] [|y] w Hxy; cbn [set_word nth]; auto; try congruence.
Qed.

(* ------------------------------------------------------------------ *)
(* the bit test                                                        *)
(* ------------------------------------------------------------------ *)

Lemma bit_testbit : forall w y, 0 <= y ->
  negb (Z.land (Z.shiftr w y) 1 =? 0) = Z.testbit w y.
Proof.
  intros w y Hy. rewrite land1, Z.shiftr_div_pow2 by assumption.
  rewrite <- Z.testbit_spec' by assumption.
  destruct (Z.testbit w y); reflexivity.
Qed.

Lemma fs_index_nonneg : forall i, 0 <= i -> fs_index i = (i / 64, i mod 64).
Proof.
  intros i Hi. unfold fs_index.
  rewrite Z.quot_div_nonneg, Z.rem_mod_nonneg by lia. reflexivity.
Qed.

Lemma fs_has_eq : forall f i, 0 <= i ->
  fs_has f i = if i / 64 <? len f
               then ROk (Z.testbit (nth (Z.to_nat (i / 64)) f 0) (i mod 64)) else RPanic.
Proof.
  intros f i Hi. unfold fs_has. rewrite fs_index_nonneg by assumption.
  assert (H0 : 0 <= i / 64) by (apply Z.div_pos; lia).
  assert (Hm : 0 <= i mod 64 < 64) by (apply Z.mod_pos_bound; lia).
  replace (0 <=? i / 64) with true by lia. cbn [andb].
  destruct (i / 64 <? len f); [|reflexivity].
  unfold and64, shr64. replace (i mod 64 <? 64) with true by lia.
  rewrite bit_testbit by lia. reflexivity.
Qed.

Lemma shl64_one : forall y, 0 <= y < 64 -> shl64 1 y = 2 ^ y.
Proof.
  intros y Hy. unfold shl64. replace (y <? 64) with true by lia.
  rewrite Z.shiftl_1_l. apply w64_small. split; [apply Z.pow_nonneg; lia|].
  apply Z.pow_lt_mono_r; lia.
Qed.

Lemma fs_set_eq : forall f i, 0 <= i ->
  fs_set f i = if i / 64 <? len f
               then ROk (set_word f (Z.to_nat (i / 64))
                           (Z.lor (nth (Z.to_nat (i / 64)) f 0) (2 ^ (i mod 64))))
               else RPanic.
Proof.
  intros f i Hi. unfold fs_set. rewrite fs_index_nonneg by assumption.
  assert (H0 : 0 <= i / 64) by (apply Z.div_pos; lia).
  assert (Hm : 0 <= i mod 64 < 64) by (apply Z.mod_pos_bound; lia).
  replace (0 <=? i / 64) with true by lia. cbn [andb].
  destruct (i / 64 <? len f); [|reflexivity].
  unfold or64. rewrite shl64_one by lia. reflexivity.
Qed.

Lemma fieldset_spec : fieldset_statement.
Proof.
  intros k Hk. split; [|split].
  - intros i Hi. rewrite fs_has_eq by lia. rewrite zero_words_len by lia.
    assert (Hd : i / 64 < k) by (apply Z.div_lt_upper_bound; lia).
    replace (i / 64 <? k) with true by lia.
    rewrite zero_words_repeat, nth_repeat0, Z.testbit_0_l. reflexivity.
  - intros s i Hs Hi.
    assert (Hd : i / 64 < k) by (apply Z.div_lt_upper_bound; lia).
    assert (H0 : 0 <= i / 64) by (apply Z.div_pos; lia).
    assert (Hm : 0 <= i mod 64 < 64) by (apply Z.mod_pos_bound; lia).
    eexists. split; [|split].
    + rewrite fs_set_eq by lia. rewrite Hs. replace (i / 64 <? k) with true by lia. reflexivity.
    + unfold len. rewrite set_word_length. exact Hs.
    + intros j Hj.
      assert (Hdj : j / 64 < k) by (apply Z.div_lt_upper_bound; lia).
      assert (H0j : 0 <= j / 64) by (apply Z.div_pos; lia).
      assert (Hmj : 0 <= j mod 64 < 64) by (apply Z.mod_pos_bound; lia).
      rewrite !fs_has_eq by lia. rewrite Hs.
      assert (Hl : len (set_word s (Z.to_nat (i / 64))
                     (Z.lor (nth (Z.to_nat (i / 64)) s 0) (2 ^ (i mod 64)))) = k).
      { unfold len. rewrite set_word_length. exact Hs. }
      rewrite Hl. replace (j / 64 <? k) with true by lia. cbn [rrbind]. f_equal.
      destruct (Z.eq_dec (j / 64) (i / 64)) as [E|E].
      * rewrite E. rewrite set_word_nth_same by (unfold len in Hs; lia).
        rewrite Z.lor_spec, Z.pow2_bits_eqb by lia.
        rewrite orb_comm. f_equal.
        pose proof (Z.div_mod i 64). pose proof (Z.div_mod j 64).
        destruct (i mod 64 =? j mod 64) eqn:E1; destruct (j =? i) eqn:E2; try reflexivity; lia.
      * rewrite set_word_nth_other by lia.
        replace (j =? i) with false; [reflexivity|].
        destruct (j =? i) eqn:E2; [|reflexivity].
        exfalso. apply E. f_equal. lia.
  - intros s i Hs Hi Hge.
    assert (Hd : k <= i / 64) by (apply Z.div_le_lower_bound; lia).
    rewrite fs_has_eq, fs_set_eq by lia. rewrite Hs.
    replace (i / 64 <? k) with false by lia. split; reflexivity.
Qed.

(* ------------------------------------------------------------------ *)
(* the embedded splice                                                 *)
(* ------------------------------------------------------------------ *)

Lemma rfrom_ok : forall b i, 0 <= i <= len b -> rfrom b i = ROk (skipn (Z.to_nat i) b).
Proof.
  intros b i Hi. unfold rfrom, slice_from.
  replace ((0 <=? i) && (i <=? len b)) with true by lia. reflexivity.
Qed.

Lemma rslice0_ok : forall b j, 0 <= j <= len b -> rslice b 0 j = ROk (firstn (Z.to_nat j) b).
Proof.
  intros b j Hj. unfold rslice, slice.
  replace ((0 <=? 0) && (0 <=? j) && (j <=? len b)) with true by lia.
  rewrite Z.sub_0_r. reflexivity.
Qed.

Lemma skipn_app_len : forall A (a b : list A), skipn (length a) (a ++ b) = b.
Proof.
  intros A a b. rewrite skipn_app, skipn_all, Nat.sub_diag. reflexivity.
Qed.

Lemma firstn_app_len : forall A (a b : list A), firstn (length a) (a ++ b) = a.
Proof.
  intros A a b. rewrite firstn_app, firstn_all, Nat.sub_diag. cbn [firstn]. apply app_nil_r.
Qed.

Lemma skipn_app_plus : forall A (a b : list A) n, skipn (length a + n) (a ++ b) = skipn n b.
Proof.
  intros A a b n. rewrite skipn_app.
  rewrite skipn_all2 by lia. replace (length a + n - length a)%nat with n by lia. reflexivity.
Qed.

Lemma copy_tail : forall (P I H : bytes),
  (rrlet dst <- rfrom ((P ++ I) ++ H) (len P + len H) in
   rrlet src <- rfrom ((P ++ I) ++ H) (len P) in
   let c := Z.min (len dst) (len src) in
   let out := splice ((P ++ I) ++ H) (len P + len H) (slice_to src c) in
   rrlet dst <- rfrom out (len P) in
   let c := Z.min (len dst) (len H) in
   ROk (splice out (len P) (slice_to H c))) = ROk (P ++ H ++ I).
Proof.
  intros P I H.
  pose proof (len_nonneg _ P) as HP. pose proof (len_nonneg _ I) as HI. pose proof (len_nonneg _ H) as HH.
  assert (Hlen : len ((P ++ I) ++ H) = len P + len I + len H) by (rewrite !len_app; lia).
  rewrite rfrom_ok by lia. cbn [rrbind].
  rewrite rfrom_ok by lia. cbn [rrbind]. cbv zeta.
  replace (Z.to_nat (len P + len H)) with (length P + length H)%nat by (unfold len; lia).
  replace (Z.to_nat (len P)) with (length P) by (unfold len; lia).
  (* src = I ++ H *)
  assert (Esrc : skipn (length P) ((P ++ I) ++ H) = I ++ H).
  { rewrite <- app_assoc. apply skipn_app_len. }
  rewrite Esrc.
  (* dst *)
  assert (Edst : len (skipn (length P + length H) ((P ++ I) ++ H)) = len I).
  { unfold len in *. rewrite skipn_length. lia. }
  rewrite Edst. rewrite len_app.
  replace (Z.min (len I) (len I + len H)) with (len I) by lia.
  assert (Est : slice_to (I ++ H) (len I) = I).
  { unfold slice_to. replace (Z.to_nat (len I)) with (length I) by (unfold len; lia).
    apply firstn_app_len. }
  rewrite Est.
  (* first copy *)
  assert (Efst : firstn (length P + length H) ((P ++ I) ++ H) = P ++ firstn (length H) (I ++ H)).
  { rewrite <- app_assoc. apply firstn_app_2. }
  set (X := firstn (length H) (I ++ H)) in *.
  assert (HX : length X = length H).
  { unfold X. rewrite firstn_length, app_length. lia. }
  assert (Eout : splice ((P ++ I) ++ H) (len P + len H) I = P ++ X ++ I).
  { unfold splice.
    replace (Z.to_nat (len P + len H)) with (length P + length H)%nat by (unfold len; lia).
    rewrite Efst. rewrite skipn_all2 by (rewrite !app_length; lia).
    rewrite app_nil_r, <- app_assoc. reflexivity. }
  rewrite Eout.
  assert (HXl : len X = len H) by (unfold len; lia).
  rewrite rfrom_ok by (rewrite !len_app; lia). cbn [rrbind].
  replace (Z.to_nat (len P)) with (length P) by (unfold len; lia).
  rewrite skipn_app_len. rewrite len_app.
  rewrite HXl. replace (Z.min (len H + len I) (len H)) with (len H) by lia.
  assert (Est2 : slice_to H (len H) = H).
  { unfold slice_to. replace (Z.to_nat (len H)) with (length H) by (unfold len; lia).
    apply firstn_all. }
  rewrite Est2. unfold splice.
  replace (Z.to_nat (len P)) with (length P) by (unfold len; lia).
  rewrite firstn_app_len, skipn_app_plus. rewrite <- HX, skipn_app_len. reflexivity.
Qed.

Lemma encodeTag_u64 : forall number t, 0 <= t < 2 ^ 64 -> u64 (proto_EncodeTag number t).
Proof.
  intros number t Ht. unfold proto_EncodeTag, or64, u64.
  apply lor_range; [lia|apply shl64_range|exact Ht].
Qed.

(* the splice with no upper bound on the size of the inner message: the length prefix is the
   varint of the length as a uint64 *)
Lemma embed_splice_w : embed_splice_w_statement.
Proof.
  intros number out inner Hn Hi.
  set (tag := proto_EncodeTag number proto_varlen).
  assert (Htag : u64 tag) by (apply encodeTag_u64; unfold proto_varlen; lia).
  assert (Hli : u64 (w64 (len inner))) by (apply w64_range).
  destruct (varint_length tag Htag) as [Hvt _].
  destruct (varint_length (w64 (len inner)) Hli) as [Hvl _].
  set (vt := varint tag) in *. set (vl := varint (w64 (len inner))) in *.
  unfold embed_splice. cbv zeta. fold tag.
  assert (Hb : len (repeat 0 24) = 24) by reflexivity.
  set (b := repeat 0 24) in *. clearbody b.
  rewrite (encodeVarint_fits tag b Htag) by (fold vt; lia). fold vt.
  assert (Hvtn : Z.to_nat (len vt) = length vt) by (unfold len; lia).
  rewrite rfrom_ok by (rewrite len_app; pose proof (len_nonneg _ (skipn (length vt) b)); lia).
  cbn [rrbind]. rewrite Hvtn, skipn_app_len.
  replace (len (out ++ inner) - len out) with (len inner) by (rewrite len_app; lia).
  set (w := skipn (length vt) b).
  assert (Hw : len w = 24 - len vt).
  { unfold w, len in *. rewrite skipn_length. lia. }
  rewrite (encodeVarint_fits (w64 (len inner)) w Hli) by (fold vl; lia). fold vl.
  set (w' := vl ++ skipn (length vl) w).
  assert (Eb2 : splice (vt ++ w) (len vt) w' = vt ++ w').
  { unfold splice. rewrite Hvtn, firstn_app_len.
    rewrite skipn_all2; [rewrite app_nil_r; reflexivity|].
    rewrite app_length. unfold w'. rewrite app_length, skipn_length. unfold len in *. lia. }
  rewrite Eb2.
  assert (Ehd : firstn (Z.to_nat (len vt + len vl)) (vt ++ w') = vt ++ vl).
  { replace (Z.to_nat (len vt + len vl)) with (length vt + length vl)%nat by (unfold len; lia).
    rewrite firstn_app_2. unfold w'. rewrite firstn_app_len. reflexivity. }
  rewrite rslice0_ok.
  2:{ rewrite len_app. unfold w'. rewrite len_app.
      pose proof (len_nonneg _ (skipn (length vl) w)). lia. }
  cbn [rrbind]. rewrite Ehd.
  pose proof (copy_tail out inner (vt ++ vl)) as HT.
  cbv zeta in HT. rewrite <- (len_app _ vt vl). rewrite HT.
  rewrite <- app_assoc. reflexivity.
Qed.

Lemma embed_splice_spec : embed_splice_statement.
Proof.
  intros number out inner Hn Hi.
  rewrite embed_splice_w by lia. rewrite w64_small by lia. reflexivity.
Qed.

(* ------------------------------------------------------------------ *)
(* refutations by witness                                              *)
(* ------------------------------------------------------------------ *)

(* ------------------------------------------------------------------ *)
(* bit-or on two's complement integers stays in range                  *)
(* ------------------------------------------------------------------ *)

Lemma nonneg_high_zero_lt : forall z k, 0 <= k -> 0 <= z ->
  (forall m, k <= m -> Z.testbit z m = false) -> z < 2 ^ k.
Proof.
  intros z k Hk Hz Hb.
  destruct (Z.lt_ge_cases z (2 ^ k)) as [|Hge]; [assumption|exfalso].
  assert (Hp : 0 < 2 ^ k) by (apply Z.pow_pos_nonneg; lia).
  assert (Hz0 : 0 < z) by lia.
  assert (Hl : k <= Z.log2 z) by (apply Z.log2_le_pow2; assumption).
  pose proof (Z.bit_log2 z Hz0) as Ht. rewrite (Hb _ Hl) in Ht. discriminate.
Qed.

Lemma land_small_l : forall a b k, 0 <= k -> 0 <= a < 2 ^ k -> 0 <= Z.land a b < 2 ^ k.
Proof.
  intros a b k Hk Ha.
  assert (H0 : 0 <= Z.land a b) by (apply Z.land_nonneg; left; lia).
  split; [assumption|].
  apply nonneg_high_zero_lt; try assumption.
  intros m Hm. rewrite Z.land_spec, (bits_high_zero a k m) by lia. reflexivity.
Qed.

Lemma lor_signed_range : forall k a b, 0 < k ->
  - 2 ^ k <= a < 2 ^ k -> - 2 ^ k <= b < 2 ^ k -> - 2 ^ k <= Z.lor a b < 2 ^ k.
Proof.
  intros k a b Hk Ha Hb.
  destruct (Z_lt_le_dec a 0) as [Ha0|Ha0].
  - assert (Hc : Z.lor a b < 0) by (apply Z.lor_neg; left; assumption).
    pose proof (Z.lnot_lor a b) as E.
    pose proof (land_small_l (Z.lnot a) (Z.lnot b) k ltac:(lia)) as HL.
    unfold Z.lnot in *. rewrite <- E in HL. lia.
  - destruct (Z_lt_le_dec b 0) as [Hb0|Hb0].
    + assert (Hc : Z.lor a b < 0) by (apply Z.lor_neg; right; assumption).
      pose proof (Z.lnot_lor a b) as E. rewrite Z.land_comm in E.
      pose proof (land_small_l (Z.lnot b) (Z.lnot a) k ltac:(lia)) as HL.
      unfold Z.lnot in *. rewrite <- E in HL. lia.
    + pose proof (lor_range a b k Hk ltac:(lia) ltac:(lia)). lia.
Qed.

Lemma s64_w64 : forall v, s64 (w64 v) = s64 v.
Proof.
  intro v. unfold s64, w64. rewrite Z.mod_mod by lia. reflexivity.
Qed.

Lemma s32_s32 : forall v, s32 (s32 v) = s32 v.
Proof.
  intro v. apply s32_small. unfold s32, w32.
  pose proof (Z.mod_pos_bound v (2 ^ 32) ltac:(lia)).
  destruct (v mod 2 ^ 32 <? 2 ^ 31) eqn:E; lia.
Qed.

Lemma s32_range : forall v, i32 (s32 v).
Proof.
  intro v. unfold i32, s32, w32.
  pose proof (Z.mod_pos_bound v (2 ^ 32) ltac:(lia)).
  destruct (v mod 2 ^ 32 <? 2 ^ 31) eqn:E; lia.
Qed.


(* ------------------------------------------------------------------ *)
(* the seen-set is large enough for every length                       *)
(* ------------------------------------------------------------------ *)

Lemma makeFieldset_words_nonneg : forall n, 0 <= n -> 0 <= makeFieldset_words n.
Proof. intros n Hn. unfold makeFieldset_words. apply Z.quot_pos; lia. Qed.

Lemma seen_bits_spec : seen_bits_statement.
Proof.
  intros n Hn. unfold seen_bits. destruct (n >=? 256) eqn:E; [|lia].
  unfold makeFieldset_words. rewrite Z.quot_div_nonneg by lia.
  pose proof (Z.div_mod (n + 1 + 63) 64 ltac:(lia)).
  pose proof (Z.mod_pos_bound (n + 1 + 63) 64 ltac:(lia)). lia.
Qed.

(* ------------------------------------------------------------------ *)
(* bit-or through the encoding of the field                            *)
(* ------------------------------------------------------------------ *)

Lemma s32_w64 : forall x, - 2 ^ 31 <= x < 2 ^ 31 -> s32 (w64 x) = x.
Proof.
  intros x Hx. unfold s32, w32, w64.
  rewrite <- (Zmod_div_mod (2 ^ 32) (2 ^ 64) x) by (try lia; exists (2 ^ 32); reflexivity).
  fold (w32 x). fold (s32 x). apply s32_small. exact Hx.
Qed.

Lemma bitor_roundtrip : bitor_roundtrip_statement.
Proof.
  intros k x mask Hx Hm.
  destruct k; unfold kind_range, kind_go in Hx, Hm; unfold kind_range, kind_go, kind_enc, bitor_in, bitor_value, conv.
  - (* int32 *)
    pose proof (lor_signed_range 31 x mask ltac:(lia) Hx Hm) as Hr.
    rewrite s32_w64 by exact Hx. rewrite s32_small by exact Hr. split; [reflexivity | exact Hr].
  - (* int64 *)
    pose proof (lor_signed_range 63 x mask ltac:(lia) Hx Hm) as Hr.
    rewrite s64_w64, (s64_small x) by exact Hx. rewrite s64_small by exact Hr. split; [reflexivity | exact Hr].
  - (* sint32 *)
    pose proof (lor_signed_range 31 x mask ltac:(lia) Hx Hm) as Hr.
    destruct (zigzag32_spec x Hx) as [_ [Hu Hd]].
    rewrite w32_small by exact Hu. rewrite Hd, (s32_small x) by exact Hx. rewrite s32_small by exact Hr.
    split; [apply encodeZigZag32_zigzag; exact Hr | exact Hr].
  - (* sint64 *)
    pose proof (lor_signed_range 63 x mask ltac:(lia) Hx Hm) as Hr.
    destruct (zigzag64_spec x Hx) as [_ [Hu Hd]].
    rewrite Hd, (s64_small x) by exact Hx. rewrite s64_small by exact Hr.
    split; [apply encodeZigZag64_zigzag; exact Hr | exact Hr].
  - (* uint32 *)
    pose proof (lor_range x mask 32 ltac:(lia) Hx Hm) as Hr.
    rewrite w32_small by exact Hx. split; [apply w64_small; lia | exact Hr].
  - (* uint64 *)
    pose proof (lor_range x mask 64 ltac:(lia) Hx Hm) as Hr.
    rewrite (w64_small x) by exact Hx. split; [apply w64_small; exact Hr | exact Hr].
  - (* fixed32 *)
    pose proof (lor_range x mask 32 ltac:(lia) Hx Hm) as Hr.
    rewrite (w32_small x) by exact Hx. split; [apply w32_small; exact Hr | exact Hr].
  - (* fixed64 *)
    pose proof (lor_range x mask 64 ltac:(lia) Hx Hm) as Hr.
    rewrite (w64_small x) by exact Hx. split; [apply w64_small; exact Hr | exact Hr].
  - (* sfixed32 *)
    pose proof (lor_signed_range 31 x mask ltac:(lia) Hx Hm) as Hr.
    destruct (zigzag32_spec x Hx) as [_ [Hu Hd]].
    rewrite w32_small by exact Hu. rewrite Hd, (s32_small x) by exact Hx. rewrite s32_small by exact Hr.
    split; [apply encodeZigZag32_zigzag; exact Hr | exact Hr].
  - (* sfixed64 *)
    pose proof (lor_signed_range 63 x mask ltac:(lia) Hx Hm) as Hr.
    destruct (zigzag64_spec x Hx) as [_ [Hu Hd]].
    rewrite Hd, (s64_small x) by exact Hx. rewrite s64_small by exact Hr.
    split; [apply encodeZigZag64_zigzag; exact Hr | exact Hr].
Qed.
