(* Proofs that encode writes exactly size_of bytes or reports a short buffer (C16, C03 size part). *)
From Verif Require Import Base.GoInt Proto.Ext Generated.ProtoGen Proto.Model Proto.PrimSpec Proto.PrimProofs Proto.Spec.
From Coq Require Import ZifyBool.
Open Scope Z_scope.

Lemma encode_exact : encode_exact_statement.
Admitted.
Lemma marshal_never_fails : marshal_never_fails_statement.
Admitted.
Lemma marshal_to_fits : marshal_to_fits_statement.
Admitted.
Lemma marshal_to_short : marshal_to_short_statement.
Admitted.
