(* Proofs that encode writes exactly size_of bytes or reports a short buffer (C16, C03 size part).
   Structure: (1-3) list/window lemmas and the notion of an exact writer; (4-6) flags, sizes, tags;
   (7) a compatibility predicate between a compiled codec and a value ([cok]/[vok]) and the goal [G];
   (8) leaves; (9) the loops of the model restated with named steps (convertible to the model's local
   fixes); (10-12) positional steps, their sequencing, and the struct/slice/map loops; (13) [G] for every
   compatible pair by induction on the codec; (14) type_ok/numbers_ok/wf_val give compatible pairs;
   (15) the statements of Spec.v. *)
From Verif Require Import Base.GoInt Proto.Ext Generated.ProtoGen Proto.Model Proto.PrimSpec Proto.PrimProofs Proto.Spec.
From Coq Require Import ZifyBool.
Open Scope Z_scope.

(* ================= 1. lists and lengths ================= *)
Lemma len_nonneg {A} (l : list A) : 0 <= len l.
Proof. unfold len; lia. Qed.
Lemma len_app {A} (a b : list A) : len (a ++ b) = len a + len b.
Proof. unfold len; rewrite app_length; lia. Qed.
Lemma len_nil {A} : len (@nil A) = 0.
Proof. reflexivity. Qed.
Lemma len_cons {A} (x : A) l : len (x :: l) = 1 + len l.
Proof. unfold len; cbn [length]; lia. Qed.
Lemma to_nat_len {A} (l : list A) : Z.to_nat (len l) = length l.
Proof. unfold len; lia. Qed.
Lemma len_eq_length {A} (a b : list A) : len a = len b -> length a = length b.
Proof. unfold len; lia. Qed.
Lemma len_skipn {A} (l : list A) n : 0 <= n <= len l -> len (skipn (Z.to_nat n) l) = len l - n.
Proof. unfold len; rewrite skipn_length; lia. Qed.
Lemma len_firstn {A} (l : list A) n : 0 <= n <= len l -> len (firstn (Z.to_nat n) l) = n.
Proof. unfold len; rewrite firstn_length; lia. Qed.
Lemma len_repeat {A} (x : A) n : len (repeat x n) = Z.of_nat n.
Proof. unfold len; rewrite repeat_length; lia. Qed.
Lemma wfb_app a b : wfb (a ++ b) = wfb a && wfb b.
Proof. apply forallb_app. Qed.
Lemma wfb_app_true a b : wfb a = true -> wfb b = true -> wfb (a ++ b) = true.
Proof. intros; rewrite wfb_app; now rewrite H, H0. Qed.
Lemma skipn_skipn' {A} (x y : nat) (l : list A) : skipn x (skipn y l) = skipn (y + x) l.
Proof.
  revert l; induction y; intros l; cbn [Nat.add]; [reflexivity|].
  destruct l; [now rewrite !skipn_nil|]. cbn [skipn]. apply IHy.
Qed.
Lemma skipn_Z_add {A} (a b : Z) (l : list A) : 0 <= a -> 0 <= b ->
  skipn (Z.to_nat b) (skipn (Z.to_nat a) l) = skipn (Z.to_nat (a + b)) l.
Proof. intros; rewrite skipn_skipn'; f_equal; lia. Qed.
Lemma firstn_app_exact {A} (pre rest : list A) : firstn (length pre) (pre ++ rest) = pre.
Proof. rewrite firstn_app, Nat.sub_diag, firstn_all; cbn [firstn]; apply app_nil_r. Qed.
Lemma skipn_app_exact {A} (pre rest : list A) k : skipn (length pre + k) (pre ++ rest) = skipn k rest.
Proof.
  rewrite skipn_app, skipn_all2 by lia. cbn [app]. f_equal; lia.
Qed.
Lemma skipn_len_app {A} (pre rest : list A) : skipn (Z.to_nat (len pre)) (pre ++ rest) = rest.
Proof. rewrite to_nat_len. replace (length pre) with (length pre + 0)%nat by lia. now rewrite skipn_app_exact. Qed.
Lemma w64_small x : 0 <= x < 2 ^ 64 -> w64 x = x.
Proof. intros; unfold w64; now apply Z.mod_small. Qed.
Lemma lim_val : lim = 2147483648.
Proof. reflexivity. Qed.

(* ================= 2. exact writers ================= *)
Definition short_res (r : eres) (b : bytes) : Prop :=
  exists k b', r = Ok (k, Some proto_ErrShortBuffer, b') /\ length b' = length b.
Definition exact (f : bytes -> eres) (n : Z) (bs : bytes) : Prop :=
  len bs = n /\
  (forall b, n <= len b -> f b = Ok (n, None, bs ++ skipn (Z.to_nat n) b)) /\
  (forall b, len b < n -> short_res (f b) b).

Lemma short_res_intro k b' b : length b' = length b -> short_res (Ok (k, Some proto_ErrShortBuffer, b')) b.
Proof. intros; exists k, b'; auto. Qed.

Lemma exact_nop f : (forall b, f b = ret 0 None b) -> exact f 0 [].
Proof.
  intros H; split; [reflexivity|split].
  - intros b _. rewrite H. reflexivity.
  - intros b Hb. pose proof (len_nonneg b). lia.
Qed.

Lemma exact_ext f g n bs : (forall b, f b = g b) -> exact g n bs -> exact f n bs.
Proof.
  intros E (H1 & H2 & H3); split; [auto|split]; intros b Hb; rewrite E; auto.
Qed.

Lemma exact_varint v : u64 v ->
  exact (fun b => lift3 (proto_encodeVarint b v)) (len (varint v)) (varint v).
Proof.
  intros Hu; split; [reflexivity|split]; intros b Hb; unfold lift3.
  - rewrite (encodeVarint_fits v b Hu Hb). now rewrite to_nat_len.
  - rewrite (encodeVarint_short v b Hu Hb). now apply short_res_intro.
Qed.

Lemma le_bytes_len n v : len (le_bytes n v) = Z.of_nat n.
Proof. revert v; induction n; intros v; [reflexivity|]. cbn [le_bytes]. rewrite len_cons, IHn. lia. Qed.
Lemma le_bytes_wfb n v : wfb (le_bytes n v) = true.
Proof.
  revert v; induction n; intros v; [reflexivity|]. cbn [le_bytes wfb forallb].
  fold (wfb (le_bytes n (v / 256))). rewrite IHn. unfold is_byte.
  pose proof (Z.mod_pos_bound v 256 ltac:(lia)). lia.
Qed.

Lemma exact_le32 v : u32 v -> exact (fun b => lift3 (proto_encodeLE32 b v)) 4 (le_bytes 4 v).
Proof.
  intros Hu; split; [apply (le_bytes_len 4)|split]; intros b Hb; unfold lift3;
    destruct (encodeLE_spec v b) as (A & B & _ & _).
  - now rewrite (A Hu Hb).
  - rewrite (B Hb). now apply short_res_intro.
Qed.
Lemma exact_le64 v : u64 v -> exact (fun b => lift3 (proto_encodeLE64 b v)) 8 (le_bytes 8 v).
Proof.
  intros Hu; split; [apply (le_bytes_len 8)|split]; intros b Hb; unfold lift3;
    destruct (encodeLE_spec v b) as (_ & _ & A & B).
  - now rewrite (A Hu Hb).
  - rewrite (B Hb). now apply short_res_intro.
Qed.

Lemma exact_bool (x : bool) :
  exact (fun b => if len b =? 0 then ret 0 (Some proto_ErrShortBuffer) b else ret 1 None (upd b 0 (if x then 1 else 0)))
        1 [if x then 1 else 0].
Proof.
  split; [reflexivity|split]; intros b Hb.
  - destruct b as [|y r]; [rewrite len_nil in Hb; lia|].
    rewrite len_cons. pose proof (len_nonneg r).
    destruct (1 + len r =? 0) eqn:E; [lia|]. reflexivity.
  - pose proof (len_nonneg b). assert (len b = 0) as -> by lia. cbn [Z.eqb]. now apply short_res_intro.
Qed.

(* ================= 3. windows ================= *)
Lemma cfrom_app pre rest off : off = len pre -> cfrom (pre ++ rest) off = Ok rest.
Proof.
  intros ->. unfold cfrom. pose proof (len_nonneg pre). pose proof (len_nonneg rest).
  rewrite len_app.
  destruct ((0 <=? len pre) && (len pre <=? len pre + len rest)) eqn:E; [|lia].
  unfold slice_from. now rewrite skipn_len_app.
Qed.
Lemma splice_app pre rest off w : off = len pre ->
  splice (pre ++ rest) off w = (pre ++ w) ++ skipn (length w) rest.
Proof.
  intros ->. unfold splice. rewrite to_nat_len, firstn_app_exact, skipn_app_exact. now rewrite app_assoc.
Qed.
Lemma splice_app_full pre rest off w : off = len pre -> length w = length rest ->
  splice (pre ++ rest) off w = pre ++ w.
Proof.
  intros. rewrite splice_app by assumption. rewrite H0, skipn_all. apply app_nil_r.
Qed.

Lemma in_from_fits f n bs pre rest off : exact f n bs -> off = len pre -> n <= len rest ->
  in_from (pre ++ rest) off f = Ok (n, None, (pre ++ bs) ++ skipn (Z.to_nat n) rest).
Proof.
  intros (Hl & Hf & _) Ho Hn. unfold in_from. rewrite (cfrom_app _ _ _ Ho). cbn [rbind].
  rewrite (Hf rest Hn). cbn [rbind].
  rewrite splice_app_full; [now rewrite app_assoc|assumption|].
  apply len_eq_length. pose proof (len_nonneg bs). rewrite len_app, len_skipn by lia. lia.
Qed.
Lemma in_from_short f n bs pre rest off : exact f n bs -> off = len pre -> len rest < n ->
  short_res (in_from (pre ++ rest) off f) (pre ++ rest).
Proof.
  intros (Hl & _ & Hs) Ho Hn. unfold in_from. rewrite (cfrom_app _ _ _ Ho). cbn [rbind].
  destruct (Hs rest Hn) as (k & b' & E & L). rewrite E. cbn [rbind].
  rewrite splice_app_full by assumption. apply short_res_intro. now rewrite !app_length, L.
Qed.

Lemma in_window_fits f n bs pre rest off : exact f n bs -> off = len pre -> n <= len rest ->
  in_window (pre ++ rest) off n f = Ok (n, None, (pre ++ bs) ++ skipn (Z.to_nat n) rest).
Proof.
  intros (Hl & Hf & _) Ho Hn. unfold in_window, cslice. subst off.
  pose proof (len_nonneg pre). pose proof (len_nonneg bs). rewrite len_app.
  destruct ((0 <=? len pre) && (len pre <=? len pre + n) && (len pre + n <=? len pre + len rest)) eqn:E; [|lia].
  cbn [rbind]. unfold slice. rewrite skipn_len_app. replace (len pre + n - len pre) with n by lia.
  rewrite (Hf (firstn (Z.to_nat n) rest)) by (rewrite len_firstn; lia). cbn [rbind].
  rewrite skipn_all2 by (apply Nat2Z.inj_le; fold (len (firstn (Z.to_nat n) rest)); rewrite len_firstn; lia).
  rewrite app_nil_r. rewrite splice_app by reflexivity. now rewrite <- Hl, to_nat_len.
Qed.

Lemma copy_at_app pre rest off src : off = len pre ->
  copy_at (pre ++ rest) off src =
    Ok (Z.min (len rest) (len src),
        (pre ++ slice_to src (Z.min (len rest) (len src))) ++
        skipn (Z.to_nat (Z.min (len rest) (len src))) rest).
Proof.
  intros Ho. unfold copy_at. rewrite (cfrom_app _ _ _ Ho). cbn [rbind].
  rewrite splice_app by assumption. do 3 f_equal.
  unfold slice_to. rewrite firstn_length. pose proof (len_nonneg rest). pose proof (len_nonneg src).
  unfold len in *. f_equal. lia.
Qed.
Lemma copy_at_fits pre rest off src : off = len pre -> len src <= len rest ->
  copy_at (pre ++ rest) off src = Ok (len src, (pre ++ src) ++ skipn (Z.to_nat (len src)) rest).
Proof.
  intros Ho Hl. rewrite copy_at_app by assumption. rewrite Z.min_r by lia.
  unfold slice_to. now rewrite to_nat_len, firstn_all.
Qed.
Lemma copy_at_short pre rest off src : off = len pre -> len rest < len src ->
  exists b', copy_at (pre ++ rest) off src = Ok (len rest, b') /\ length b' = length (pre ++ rest).
Proof.
  intros Ho Hl. rewrite copy_at_app by assumption. rewrite Z.min_l by lia.
  eexists; split; [reflexivity|].
  rewrite to_nat_len, skipn_all, app_nil_r, !app_length. f_equal.
  unfold slice_to. rewrite firstn_length. unfold len in *. lia.
Qed.

(* encodeString / encodeBytes / byte arrays *)
Lemma varint_len_bounds v : u64 v -> 1 <= len (varint v) <= 10.
Proof. intros; now destruct (varint_length v H). Qed.
Lemma varint_wfb v : u64 v -> wfb (varint v) = true.
Proof. intros; now destruct (varint_length v H). Qed.

Lemma exact_varlen s : len s < lim ->
  exact (fun b => encode_varlen_bytes b s) (len (varint (len s)) + len s) (varint (len s) ++ s).
Proof.
  intros Hl. pose proof (len_nonneg s) as Hs0. rewrite lim_val in Hl.
  assert (Hu : u64 (len s)) by (unfold u64; lia).
  pose proof (varint_len_bounds _ Hu) as Hv.
  split; [apply len_app|split]; intros b Hb; unfold encode_varlen_bytes; rewrite (w64_small (len s)) by (unfold u64 in Hu; lia).
  - rewrite (encodeVarint_fits (len s) b Hu) by lia.
    cbv beta iota. rewrite <- to_nat_len.
    rewrite (copy_at_fits (varint (len s)) _ _ s eq_refl) by (rewrite len_skipn; lia).
    cbn [rbind]. unfold ret. rewrite Z.ltb_irrefl. rewrite skipn_Z_add by lia. reflexivity.
  - destruct (Z_lt_le_dec (len b) (len (varint (len s)))) as [Hc|Hc].
    + rewrite (encodeVarint_short (len s) b Hu Hc). cbv beta iota. now apply short_res_intro.
    + rewrite (encodeVarint_fits (len s) b Hu Hc). cbv beta iota. rewrite <- to_nat_len.
      destruct (copy_at_short (varint (len s)) (skipn (Z.to_nat (len (varint (len s)))) b) _ s eq_refl) as (b' & E & L).
      { rewrite len_skipn; lia. }
      rewrite E. cbn [rbind]. unfold ret. rewrite len_skipn by lia.
      destruct (len b - len (varint (len s)) <? len s) eqn:E2; [|lia].
      apply short_res_intro. rewrite L. apply len_eq_length. rewrite len_app, len_skipn; lia.
Qed.

Lemma sizeOfVarlen_len s : wfb s = true -> len s < lim ->
  proto_sizeOfVarlen (len s) = len (varint (len s)) + len s.
Proof.
  intros Hw Hl. rewrite lim_val in Hl.
  destruct (decodeVarlen_encode s [] Hw) as (_ & E); [lia|rewrite len_nil; lia|exact E].
Qed.

(* ================= 4. flags ================= *)
Ltac enum16 H :=
  match type of H with
  | 0 <= ?f < 16 =>
      let HH := fresh "HH" in
      assert (HH : f = 0 \/ f = 1 \/ f = 2 \/ f = 3 \/ f = 4 \/ f = 5 \/ f = 6 \/ f = 7 \/
                   f = 8 \/ f = 9 \/ f = 10 \/ f = 11 \/ f = 12 \/ f = 13 \/ f = 14 \/ f = 15) by lia;
      clear H; repeat (destruct HH as [HH|HH]); subst f
  end.
Ltac enum8 H :=
  match type of H with
  | 0 <= ?f < 8 =>
      let HH := fresh "HH" in
      assert (HH : f = 0 \/ f = 1 \/ f = 2 \/ f = 3 \/ f = 4 \/ f = 5 \/ f = 6 \/ f = 7) by lia;
      clear H; repeat (destruct HH as [HH|HH]); subst f
  end.
Ltac fin_flags := vm_compute; split; [discriminate|reflexivity].

Lemma flags_ok_without_wz f : flags_ok f -> flags_ok (without f proto_wantzero).
Proof. unfold flags_ok; intros H; enum16 H; fin_flags. Qed.
Lemma flags_ok_struct0 inl_ f : flags_ok f ->
  flags_ok (if inl_ : bool then without f proto_toplevel else without f (Z.lor proto_inline proto_toplevel)).
Proof. unfold flags_ok; intros H; destruct inl_; enum16 H; fin_flags. Qed.
Lemma flags_ok_ptr f : flags_ok f -> flags_ok (with_ (without f proto_inline) proto_wantzero).
Proof. unfold flags_ok; intros H; enum16 H; fin_flags. Qed.
Lemma flags_ok_make f base : 0 <= sf_flags f < 8 -> flags_ok base -> flags_ok (make_flags f base).
Proof.
  unfold flags_ok, make_flags; intros H1 H2.
  assert (Z.land (sf_flags f) proto_zigzag = 0 \/ Z.land (sf_flags f) proto_zigzag = 4) as [-> | ->].
  { generalize dependent (sf_flags f). intros z H; enum8 H; vm_compute; auto. }
  - enum16 H2; fin_flags.
  - enum16 H2; fin_flags.
Qed.
Lemma flags_ok_wz : flags_ok proto_wantzero.
Proof. fin_flags. Qed.

(* ================= 5. sizes ================= *)
Lemma sov_u64 v : u64 v -> proto_sizeOfVarint v = len (varint v).
Proof. apply sizeOfVarint_spec. Qed.
Lemma s64_lb y : - 2 ^ 63 <= s64 y.
Proof.
  unfold s64, w64. pose proof (Z.mod_pos_bound y (2 ^ 64) ltac:(lia)).
  destruct (y mod 2 ^ 64 <? 2 ^ 63) eqn:E; lia.
Qed.
Lemma sov_lb x : - 2 ^ 63 <= proto_sizeOfVarint x.
Proof. unfold proto_sizeOfVarint, divi64. apply s64_lb. Qed.
Lemma szv_bound x : 0 <= x ->
  (x < 2 ^ 64 /\ 1 <= proto_sizeOfVarint x <= 10) \/ lim <= x + proto_sizeOfVarint x.
Proof.
  intros H. destruct (Z_lt_le_dec x (2 ^ 64)) as [L|L].
  - left. split; [assumption|]. rewrite sov_u64 by (unfold u64; lia). apply varint_len_bounds; unfold u64; lia.
  - right. pose proof (sov_lb x). rewrite lim_val. lia.
Qed.
(* the length prefix of an embedded part *)
Definition lenpfx (emb : bool) (size : Z) : bytes := if emb then varint size else [].
Lemma lenpfx_size (emb : bool) size : 0 <= size < lim ->
  (if emb then proto_sizeOfVarint size else 0) = len (lenpfx emb size) /\ wfb (lenpfx emb size) = true /\
  0 <= len (lenpfx emb size) <= 10.
Proof.
  intros H. rewrite lim_val in H. assert (u64 size) by (unfold u64; lia).
  destruct emb; cbn [lenpfx].
  - rewrite sov_u64 by assumption. pose proof (varint_len_bounds _ H0). split; [reflexivity|split; [now apply varint_wfb|lia]].
  - split; [reflexivity|split; [reflexivity|unfold len; cbn [length]; lia]].
Qed.
(* [size + optional prefix]: non-negative, and bounded only if [size] is *)
Lemma part_bound (emb : bool) size : 0 <= size ->
  let p := size + (if emb then proto_sizeOfVarint size else 0) in
  0 <= p /\ (p < lim -> size <= p /\ size < lim).
Proof.
  intros H p. subst p. destruct emb; [|lia].
  pose proof lim_val. destruct (szv_bound size H) as [(A & B)|A]; lia.
Qed.

(* ================= 6. tags ================= *)
Lemma tag_u64 num wt : 1 <= num < 2 ^ 16 -> 0 <= wt < 8 -> u64 (tag_of num wt).
Proof. unfold u64, tag_of; lia. Qed.
Lemma sizeOfTag_len num wt : 1 <= num < 2 ^ 16 -> 0 <= wt < 8 ->
  proto_sizeOfTag num wt = len (varint (tag_of num wt)).
Proof. intros H1 H2. destruct (tag_spec num wt [] ltac:(lia) H2) as (_ & E & _). exact E. Qed.
Lemma encodeTag_eq num wt b : 1 <= num < 2 ^ 16 -> 0 <= wt < 8 ->
  proto_encodeTag b num wt = proto_encodeVarint b (tag_of num wt).
Proof. intros H1 H2. destruct (tag_spec num wt b ltac:(lia) H2) as (E & _). exact E. Qed.
Lemma exact_tag num wt : 1 <= num < 2 ^ 16 -> 0 <= wt < 8 ->
  exact (fun w => lift3 (proto_encodeTag w num wt)) (len (varint (tag_of num wt))) (varint (tag_of num wt)).
Proof.
  intros H1 H2. eapply exact_ext; [|apply exact_varint, tag_u64; assumption].
  intros b. cbv beta. now rewrite encodeTag_eq.
Qed.
Lemma tagData_eq num wt : 1 <= num < 2 ^ 16 -> 0 <= wt < 8 ->
  proto_encodeTag (repeat 0 (Z.to_nat (proto_sizeOfTag num wt))) num wt =
  (len (varint (tag_of num wt)), None, varint (tag_of num wt)).
Proof.
  intros H1 H2. rewrite encodeTag_eq, sizeOfTag_len by assumption.
  rewrite encodeVarint_fits; [|now apply tag_u64|rewrite len_repeat, to_nat_len; unfold len; lia].
  rewrite to_nat_len, skipn_all2 by (rewrite repeat_length; lia). now rewrite app_nil_r.
Qed.
Lemma varint_small x : 0 <= x < 128 -> varint x = [x].
Proof. intros H. unfold varint. cbn [varint_fuel]. destruct (x <? 128) eqn:E; [reflexivity|lia]. Qed.
Lemma entryTag_eq num wt : 1 <= num <= 2 -> 0 <= wt < 8 ->
  proto_encodeTag [0] num wt = (1, None, [tag_of num wt]) /\ proto_sizeOfTag num wt = 1 /\ wfb [tag_of num wt] = true.
Proof.
  intros H1 H2. assert (Hs : 0 <= tag_of num wt < 128) by (unfold tag_of; lia).
  rewrite encodeTag_eq, sizeOfTag_len by lia.
  rewrite encodeVarint_fits; [|unfold u64; lia|rewrite varint_small by assumption; cbn; lia].
  rewrite varint_small by assumption. repeat split.
  cbn [wfb forallb]. unfold is_byte. lia.
Qed.
Lemma skipn_repeat_app {A} (x : A) n l : skipn n (repeat x n ++ l) = l.
Proof. induction n; cbn [repeat app skipn]; auto. Qed.
Lemma zeroTag_eq num : 1 <= num < 2 ^ 16 ->
  proto_encodeTag (repeat 0 (Z.to_nat (proto_sizeOfTag num proto_varlen + proto_zeroSize))) num proto_varlen =
  (len (varint (tag_of num proto_varlen)), None, varint (tag_of num proto_varlen) ++ [0]).
Proof.
  intros H1. assert (H2 : 0 <= proto_varlen < 8) by (cbv; split; [discriminate|reflexivity]).
  rewrite encodeTag_eq, sizeOfTag_len by assumption.
  pose proof (varint_len_bounds _ (tag_u64 _ _ H1 H2)) as Hb.
  replace (Z.to_nat (len (varint (tag_of num proto_varlen)) + proto_zeroSize))
    with (length (varint (tag_of num proto_varlen)) + 1)%nat by (unfold len, proto_zeroSize; lia).
  rewrite repeat_app.
  rewrite encodeVarint_fits; [|now apply tag_u64|rewrite len_app, len_repeat; unfold len; cbn [repeat length]; lia].
  rewrite skipn_repeat_app. reflexivity.
Qed.

(* ================= 7. compatibility of a compiled codec with a value ================= *)
Fixpoint cok (c : codec) : Prop :=
  match c with
  | CPtr _ c' => cok c'
  | CStruct _ fs =>
      (fix go (fs : list sfield) : Prop :=
         match fs with
         | [] => True
         | SField n ts fl _ c' :: r =>
             (1 <= n < 2 ^ 16 /\ ts = proto_sizeOfTag n (wire c') /\ 0 <= fl < 8 /\ cok c') /\ go r
         end) fs
  | CSlice n wt _ _ c' => 1 <= n < 2 ^ 16 /\ 0 <= wt < 8 /\ cok c'
  | CMap n _ _ _ _ k v => 1 <= n < 2 ^ 16 /\ cok k /\ cok v
  | CUnsupported => False
  | _ => True
  end.

Fixpoint vok (c : codec) (v : val) {struct c} : Prop :=
  match c, v with
  | CBool, VBool _ => True
  | (CInt | CInt32 | CInt64), VInt z => i64 z
  | (CUint | CUint32 | CUint64 | CFixed64 | CFloat64), VInt z => u64 z
  | (CFixed32 | CFloat32), VInt z => u32 z
  | CString, VStr s => wfb s = true /\ len s < lim
  | CBytes, VBytes _ s => wfb s = true /\ len s < lim
  | CByteArray n, VArr s => wfb s = true /\ len s < lim /\ len s = Z.of_nat n
  | CMessage, VRaw _ s => wfb s = true /\ len s < lim
  | CPtr _ c', VPtr None => True
  | CPtr _ c', VPtr (Some x) => vok c' x
  | CStruct _ fs, VStruct vs =>
      (fix go (fs : list sfield) (vs : list val) : Prop :=
         match fs, vs with
         | [], [] => True
         | SField _ _ _ _ c' :: fr, x :: vr => vok c' x /\ go fr vr
         | _, _ => False
         end) fs vs
  | CSlice _ _ _ _ c', VSlice es => Forall (vok c') es
  | CMap _ _ _ _ _ kc vc, VMap _ es => Forall (fun kv => vok kc (fst kv) /\ vok vc (snd kv)) es
  | _, _ => False
  end.
Definition ovok (c : codec) (ov : option val) : Prop := match ov with None => True | Some v => vok c v end.

Definition Gres (f : bytes -> eres) (n : Z) : Prop :=
  0 <= n /\ (n < lim -> exists bs, wfb bs = true /\ exact f n bs).
Definition G (c : codec) : Prop :=
  forall ov flags, ovok c ov -> flags_ok flags ->
    Gres (fun b => encode c b ov flags) (size_of c ov flags).

Lemma Gres_nop f : (forall b, f b = ret 0 None b) -> Gres f 0.
Proof. intros H; split; [lia|]. intros _. exists []. split; [reflexivity|now apply exact_nop]. Qed.
Lemma Gres_exact f n bs : exact f n bs -> wfb bs = true -> Gres f n.
Proof.
  intros He Hw; split.
  - destruct He as (<- & _). apply len_nonneg.
  - intros _. now exists bs.
Qed.

Lemma Gres_eq f n m : n = m -> Gres f m -> Gres f n.
Proof. now intros ->. Qed.

(* induction over the nested codec type *)
Definition sub_ok (P : codec -> Prop) (c : codec) : Prop :=
  match c with
  | CPtr _ c' => P c'
  | CStruct _ fs => Forall (fun f => P (sf_codec f)) fs
  | CSlice _ _ _ _ c' => P c'
  | CMap _ _ _ _ _ k v => P k /\ P v
  | _ => True
  end.
Lemma codec_ind' (P : codec -> Prop) : (forall c, sub_ok P c -> P c) -> forall c, P c.
Proof.
  intros H. fix IH 1. intros c. apply H. destruct c; cbn [sub_ok]; auto.
  revert fields. fix IHl 1. intros [|f r]; constructor.
  - destruct f. cbn [sf_codec]. apply IH.
  - apply IHl.
Qed.

Lemma cok_wire c : cok c -> 0 <= wire c < 8.
Proof.
  induction c using codec_ind'. destruct c; cbn [wire cok sub_ok] in *; intros Hc;
    try (cbv; split; [discriminate|reflexivity]); auto.
  - tauto.
Qed.

(* ================= 8. the leaves ================= *)
Lemma encode_None c b flags : encode c b None flags = ret 0 None b.
Proof. destruct c; reflexivity. Qed.
Lemma size_of_None c flags : size_of c None flags = 0.
Proof. destruct c; reflexivity. Qed.

Lemma G_None c flags : Gres (fun b => encode c b None flags) (size_of c None flags).
Proof. rewrite size_of_None. apply Gres_nop. intros; apply encode_None. Qed.

Lemma Gres_varint (cond : bool) u : u64 u ->
  Gres (fun b => if cond then lift3 (proto_encodeVarint b u) else ret 0 None b)
       (if cond then proto_sizeOfVarint u else 0).
Proof.
  intros Hu. destruct cond; [|now apply Gres_nop].
  rewrite sov_u64 by assumption. eapply Gres_exact; [now apply exact_varint|now apply varint_wfb].
Qed.
Lemma Gres_le32 (cond : bool) u : u32 u ->
  Gres (fun b => if cond then lift3 (proto_encodeLE32 b u) else ret 0 None b) (if cond then 4 else 0).
Proof.
  intros Hu. destruct cond; [|now apply Gres_nop].
  eapply Gres_exact; [now apply exact_le32|apply le_bytes_wfb].
Qed.
Lemma Gres_le64 (cond : bool) u : u64 u ->
  Gres (fun b => if cond then lift3 (proto_encodeLE64 b u) else ret 0 None b) (if cond then 8 else 0).
Proof.
  intros Hu. destruct cond; [|now apply Gres_nop].
  eapply Gres_exact; [now apply exact_le64|apply le_bytes_wfb].
Qed.
Lemma Gres_varlen (cond : bool) s n : wfb s = true -> len s < lim -> n = len s ->
  Gres (fun b => if cond then encode_varlen_bytes b s else ret 0 None b) (if cond then proto_sizeOfVarlen n else 0).
Proof.
  intros Hw Hl ->. destruct cond; [|now apply Gres_nop].
  rewrite sizeOfVarlen_len by assumption.
  eapply Gres_exact; [now apply exact_varlen|].
  apply wfb_app_true; [|assumption]. apply varint_wfb. pose proof (len_nonneg s). rewrite lim_val in Hl. unfold u64; lia.
Qed.

Lemma exact_msg_top s :
  exact (fun b => if len b <? len s then ret 0 (Some proto_ErrShortBuffer) b
                  else rlet (_, b) <- copy_at b 0 s in ret (len s) None b) (len s) s.
Proof.
  split; [reflexivity|split]; intros b Hb.
  - destruct (len b <? len s) eqn:E; [lia|].
    pose proof (copy_at_fits [] b 0 s eq_refl Hb) as Ec. cbn [app] in Ec. rewrite Ec. reflexivity.
  - destruct (len b <? len s) eqn:E; [|lia]. now apply short_res_intro.
Qed.
Lemma exact_msg_inner s : wfb s = true -> len s < lim ->
  exact (fun b =>
           let vlen := proto_sizeOfVarlen (len s) in
           if len b <? vlen then ret 0 (Some proto_ErrShortBuffer) b
           else
             let '(n, err, b) := proto_encodeVarint b (w64 (len s)) in
             match err with
             | Some _ => ret n err b
             | None => rlet (_, b) <- copy_at b n s in ret vlen None b
             end) (len (varint (len s)) + len s) (varint (len s) ++ s).
Proof.
  intros Hw Hl. pose proof (len_nonneg s) as Hs0.
  assert (Hu : u64 (len s)) by (rewrite lim_val in Hl; unfold u64; lia).
  pose proof (varint_len_bounds _ Hu) as Hv.
  split; [apply len_app|split]; intros b Hb; cbv zeta; rewrite sizeOfVarlen_len by assumption.
  - destruct (len b <? len (varint (len s)) + len s) eqn:E; [lia|].
    rewrite (w64_small (len s)) by (unfold u64 in Hu; lia).
    rewrite (encodeVarint_fits (len s) b Hu) by lia. cbv beta iota. rewrite <- to_nat_len.
    rewrite (copy_at_fits (varint (len s)) _ _ s eq_refl) by (rewrite len_skipn; lia).
    cbn [rbind]. unfold ret. rewrite skipn_Z_add by lia. reflexivity.
  - destruct (len b <? len (varint (len s)) + len s) eqn:E; [|lia]. now apply short_res_intro.
Qed.

Lemma G_leaves c : match c with CPtr _ _ | CStruct _ _ | CSlice _ _ _ _ _ | CMap _ _ _ _ _ _ _ | CUnsupported => True | _ => G c end.
Proof.
  destruct c; try exact I; intros [v|] flags Hv Hf; try apply G_None;
    destruct v; cbn [ovok vok] in Hv; try contradiction; cbn [size_of encode].
  - (* bool *) destruct (b || has flags proto_wantzero); [|now apply Gres_nop].
    eapply Gres_exact; [apply exact_bool|]. destruct b; reflexivity.
  - apply Gres_varint. apply flags_int64_spec; [unfold flags_ok in Hf; lia|assumption].
  - apply Gres_varint. apply flags_int64_spec; [unfold flags_ok in Hf; lia|assumption].
  - apply Gres_varint. apply flags_int64_spec; [unfold flags_ok in Hf; lia|assumption].
  - now apply Gres_varint.
  - now apply Gres_varint.
  - now apply Gres_varint.
  - now apply Gres_le32.
  - now apply Gres_le64.
  - now apply Gres_le32.
  - now apply Gres_le64.
  - destruct Hv. now apply Gres_varlen.
  - destruct Hv. now apply Gres_varlen.
  - destruct Hv as (? & ? & ?). apply Gres_varlen; auto.
  - (* message *) destruct Hv as (Hw & Hl). destruct (has flags proto_toplevel).
    + eapply Gres_exact; [apply exact_msg_top|assumption].
    + eapply Gres_eq; [now apply sizeOfVarlen_len|].
      eapply Gres_exact; [now apply exact_msg_inner|].
      apply wfb_app_true; [|assumption]. apply varint_wfb. pose proof (len_nonneg s). rewrite lim_val in Hl. unfold u64; lia.
Qed.

(* ================= 9. the loops of the model, restated with named steps (convertible) ================= *)
Definition emb_step (emb : bool) (size offset : Z) (b : bytes) : eres :=
  if emb then
    rlet (n, err, b) <- in_from b offset (fun w => lift3 (proto_encodeVarint w (w64 size))) in
    Ok (offset + n, err, b)
  else Ok (offset, None, b).

Definition data_step (c : codec) (v : val) (fl size offset : Z) (b : bytes) (K : Z -> bytes -> eres) : eres :=
  if (len b - offset) <? size then ret (len b) (Some proto_ErrShortBuffer) b else
  rlet (n, err, b) <- in_window b offset size (fun w => encode c w (Some v) fl) in
  let offset := offset + n in
  match err with Some _ => ret offset err b | None => K offset b end.

Definition elem_tail (emb : bool) (c : codec) (v : val) (fl size offset : Z) (b : bytes) (K : Z -> bytes -> eres) : eres :=
  rlet (offset, err, b) <- emb_step emb size offset b in
  match err with Some _ => ret offset err b | None => data_step c v fl size offset b K end.

Definition field_step (f : sfield) (v : val) (fl size offset : Z) (b : bytes) (K : Z -> bytes -> eres) : eres :=
  rlet (n, err, b) <- in_from b offset (fun w => lift3 (proto_encodeTag w (sf_number f) (wire (sf_codec f)))) in
  let offset := offset + n in
  match err with Some _ => ret offset err b | None =>
  elem_tail (sf_embedded f) (sf_codec f) v fl size offset b K end.

Fixpoint pass_ (rep : bool) (fs : list sfield) (vs : list val) (flags : Z) (n : Z) {struct fs} : Z * Z :=
  match fs, vs with
  | f :: fr, v :: vr =>
      if Bool.eqb (sf_repeated f) rep then
        let size := size_of (sf_codec f) (Some v) (make_flags f flags) in
        if size >? 0 then
          let n' := if rep then n + size
                    else n + sf_tagsize f + size + (if sf_embedded f then proto_sizeOfVarint size else 0) in
          pass_ rep fr vr (without flags proto_wantzero) n'
        else pass_ rep fr vr flags n
      else pass_ rep fr vr flags n
  | _, _ => (flags, n)
  end.

Fixpoint uniq_ (fs : list sfield) (vs : list val) (flags : Z) (offset : Z) (b : bytes)
               (k : Z -> Z -> bytes -> eres) {struct fs} : eres :=
  match fs, vs with
  | f :: fr, v :: vr =>
      if sf_repeated f then uniq_ fr vr flags offset b k else
      let fieldFlags := make_flags f flags in
      let size := size_of (sf_codec f) (Some v) fieldFlags in
      if size >? 0 then
        field_step f v fieldFlags size offset b (fun offset b => uniq_ fr vr (without flags proto_wantzero) offset b k)
      else uniq_ fr vr flags offset b k
  | _, _ => k flags offset b
  end.

Fixpoint reps_ (fs : list sfield) (vs : list val) (flags : Z) (offset : Z) (b : bytes) {struct fs} : eres :=
  match fs, vs with
  | f :: fr, v :: vr =>
      if negb (sf_repeated f) then reps_ fr vr flags offset b else
      rlet (n, err, b) <- in_from b offset (fun w => encode (sf_codec f) w (Some v) (make_flags f flags)) in
      let offset := offset + n in
      match err with Some _ => ret offset err b | None =>
      reps_ fr vr (if n >? 0 then without flags proto_wantzero else flags) offset b
      end
  | _, _ => ret offset None b
  end.

Definition struct_flags0 (inl_ : bool) (flags : Z) : Z :=
  if inl_ then without flags proto_toplevel else without flags (Z.lor proto_inline proto_toplevel).

Lemma size_of_struct inl_ fields vs flags :
  size_of (CStruct inl_ fields) (Some (VStruct vs)) flags =
  let '(flags1, n1) := pass_ false fields vs (struct_flags0 inl_ flags) 0 in
  let '(_, n2) := pass_ true fields vs flags1 n1 in n2.
Proof. reflexivity. Qed.

Lemma encode_struct inl_ fields vs flags b :
  encode (CStruct inl_ fields) b (Some (VStruct vs)) flags =
  uniq_ fields vs (struct_flags0 inl_ flags) 0 b (fun flags offset b => reps_ fields vs flags offset b).
Proof. reflexivity. Qed.

Definition slice_elem (tagData : bytes) (emb : bool) (c' : codec) (e : val) (offset : Z) (b : bytes) (K : Z -> bytes -> eres) : eres :=
  let size := size_of c' (Some e) proto_wantzero in
  rlet (n, b) <- copy_at b offset tagData in
  let offset := offset + n in
  if n <? len tagData then ret offset (Some proto_ErrShortBuffer) b else
  elem_tail emb c' e proto_wantzero size offset b K.

Definition slice_go (tagData : bytes) (emb : bool) (c' : codec) : list val -> Z -> bytes -> eres :=
  fix go (es : list val) (offset : Z) (b : bytes) {struct es} : eres :=
  match es with
  | [] => ret offset None b
  | e :: er => slice_elem tagData emb c' e offset b (fun offset b => go er offset b)
  end.

Lemma encode_slice number wt emb et c' es flags b :
  encode (CSlice number wt emb et c') b (Some (VSlice es)) flags =
  let tagSize := proto_sizeOfTag number wt in
  let '(_, _, tagData) := proto_encodeTag (repeat 0 (Z.to_nat tagSize)) number wt in
  slice_go tagData emb c' es 0 b.
Proof. reflexivity. Qed.

Definition slice_F (tagSize : Z) (emb : bool) (c' : codec) (n : Z) (e : val) : Z :=
  let size := size_of c' (Some e) proto_wantzero in
  n + tagSize + size + (if emb then proto_sizeOfVarint size else 0).
Lemma size_of_slice number wt emb et c' es flags :
  size_of (CSlice number wt emb et c') (Some (VSlice es)) flags =
  fold_left (slice_F (proto_sizeOfTag number wt) emb c') es 0.
Proof. reflexivity. Qed.

Definition map_part (tg : bytes) (embf : bool) (pc : codec) (pv : val) (psize offset : Z) (b : bytes) (short_ret_n : bool) : eres :=
  if psize >? 0 then
    rlet (n, b) <- copy_at b offset tg in
    let offset' := offset + n in
    if n <? len tg then Ok ((if short_ret_n then n else offset'), Some proto_ErrShortBuffer, b) else
    rlet (offset', err, b) <- emb_step embf psize offset' b in
    match err with Some _ => Ok (offset', err, b) | None =>
    if (len b - offset') <? psize then Ok (len b, Some proto_ErrShortBuffer, b) else
    rlet (n, err, b) <- in_window b offset' psize (fun w => encode pc w (Some pv) proto_wantzero) in
    Ok (offset' + n, err, b)
    end
  else Ok (offset, None, b).

Definition map_esize_enc (keyTag valTag : bytes) (kf vf keySize valSize : Z) : Z :=
  let elemSize := keySize + valSize in
  let elemSize := if keySize >? 0 then elemSize + len keyTag + (if negb (Z.land kf proto_embedded =? 0) then proto_sizeOfVarint keySize else 0) else elemSize in
  let elemSize := if valSize >? 0 then elemSize + len valTag + (if negb (Z.land vf proto_embedded =? 0) then proto_sizeOfVarint valSize else 0) else elemSize in
  elemSize.

Definition map_entry (keyTag valTag mapTag : bytes) (kf vf : Z) (kc vc : codec) (k v : val)
                     (offset : Z) (b : bytes) (K : Z -> bytes -> eres) : eres :=
  let keySize := size_of kc (Some k) proto_wantzero in
  let valSize := size_of vc (Some v) proto_wantzero in
  let elemSize := map_esize_enc keyTag valTag kf vf keySize valSize in
  rlet (n, b) <- copy_at b offset mapTag in
  let offset := offset + n in
  if n <? len mapTag then ret offset (Some proto_ErrShortBuffer) b else
  rlet (n, err, b) <- in_from b offset (fun w => lift3 (proto_encodeVarint w (w64 elemSize))) in
  let offset := offset + n in
  match err with Some _ => ret offset err b | None =>
  rlet (offset, err, b) <- map_part keyTag (negb (Z.land kf proto_embedded =? 0)) kc k keySize offset b false in
  match err with Some _ => ret offset err b | None =>
  rlet (offset, err, b) <- map_part valTag (negb (Z.land vf proto_embedded =? 0)) vc v valSize offset b true in
  match err with Some _ => ret offset err b | None => K offset b end end end.

Definition map_go (keyTag valTag zero mapTag : bytes) (kf vf : Z) (kc vc : codec) : list (val * val) -> Z -> bytes -> eres :=
  fix go (es : list (val * val)) (offset : Z) (b : bytes) {struct es} : eres :=
  match es with
  | [] =>
      if offset =? 0 then
        rlet (n, b) <- copy_at b 0 zero in
        if n <? len zero then ret n (Some proto_ErrShortBuffer) b else ret n None b
      else ret offset None b
  | (k, v) :: er => map_entry keyTag valTag mapTag kf vf kc vc k v offset b (fun offset b => go er offset b)
  end.

Lemma encode_map number kf vf kt vt kc vc nn es flags b :
  encode (CMap number kf vf kt vt kc vc) b (Some (VMap nn es)) flags =
  let '(_, _, keyTag) := proto_encodeTag [0] 1 (wire kc) in
  let '(_, _, valTag) := proto_encodeTag [0] 2 (wire vc) in
  let tagsz := proto_sizeOfTag number proto_varlen in
  let '(_, _, zero) := proto_encodeTag (repeat 0 (Z.to_nat (tagsz + proto_zeroSize))) number proto_varlen in
  let mapTag := slice_to zero (len zero - 1) in
  map_go keyTag valTag zero mapTag kf vf kc vc es 0 b.
Proof. reflexivity. Qed.

Definition map_esize_sz (kf vf : Z) (kc vc : codec) (keySize valSize : Z) : Z :=
  let keyTagSize := proto_sizeOfTag 1 (wire kc) in
  let valTagSize := proto_sizeOfTag 2 (wire vc) in
  let elemSize := 0 in
  let elemSize := if keySize >? 0 then elemSize + keyTagSize + keySize + (if negb (Z.land kf proto_embedded =? 0) then proto_sizeOfVarint keySize else 0) else elemSize in
  let elemSize := if valSize >? 0 then elemSize + valTagSize + valSize + (if negb (Z.land vf proto_embedded =? 0) then proto_sizeOfVarint valSize else 0) else elemSize in
  elemSize.
Definition map_F (number kf vf : Z) (kc vc : codec) (n : Z) (kv : val * val) : Z :=
  let keySize := size_of kc (Some (fst kv)) proto_wantzero in
  let valSize := size_of vc (Some (snd kv)) proto_wantzero in
  let elemSize := map_esize_sz kf vf kc vc keySize valSize in
  n + proto_sizeOfTag number proto_varlen + proto_sizeOfVarint elemSize + elemSize.
Lemma size_of_map number kf vf kt vt kc vc nn es flags :
  size_of (CMap number kf vf kt vt kc vc) (Some (VMap nn es)) flags =
  let n := fold_left (map_F number kf vf kc vc) es 0 in
  if n =? 0 then proto_sizeOfTag number proto_varlen + proto_zeroSize else n.
Proof. reflexivity. Qed.

(* ================= 10. positional steps and their sequencing ================= *)
(* a step with continuation: writes [bs] at the current offset and continues, or reports a short buffer *)
Definition kstep (S : Z -> bytes -> (Z -> bytes -> eres) -> eres) (bs : bytes) : Prop :=
  forall pre rest off K, off = len pre ->
    (len bs <= len rest ->
       S off (pre ++ rest) K = K (off + len bs) ((pre ++ bs) ++ skipn (Z.to_nat (len bs)) rest)) /\
    (len rest < len bs -> short_res (S off (pre ++ rest) K) (pre ++ rest)).
(* a step returning (new offset, err, buffer) *)
Definition pstep (S : Z -> bytes -> eres) (bs : bytes) : Prop :=
  forall pre rest off, off = len pre ->
    (len bs <= len rest ->
       S off (pre ++ rest) = Ok (off + len bs, None, (pre ++ bs) ++ skipn (Z.to_nat (len bs)) rest)) /\
    (len rest < len bs -> short_res (S off (pre ++ rest)) (pre ++ rest)).

Lemma short_res_len r b b2 : short_res r b -> length b = length b2 -> short_res r b2.
Proof. intros (k & b' & E & L) H. exists k, b'. split; [assumption|congruence]. Qed.
Lemma length_written {A} (pre bs rest : list A) :
  len bs <= len rest -> length ((pre ++ bs) ++ skipn (Z.to_nat (len bs)) rest) = length (pre ++ rest).
Proof.
  intros H. apply len_eq_length. pose proof (len_nonneg bs).
  rewrite !len_app, len_skipn by lia. lia.
Qed.
Lemma written_assoc {A} (pre bs1 bs2 rest : list A) :
  ((pre ++ bs1) ++ bs2) ++ skipn (Z.to_nat (len bs2)) (skipn (Z.to_nat (len bs1)) rest) =
  (pre ++ bs1 ++ bs2) ++ skipn (Z.to_nat (len (bs1 ++ bs2))) rest.
Proof.
  rewrite skipn_Z_add by apply len_nonneg. rewrite len_app. now rewrite <- (app_assoc pre bs1 bs2).
Qed.

Lemma kstep_after S2 bs2 bs1 pre rest off K X :
  kstep S2 bs2 -> off = len pre -> len bs1 <= len rest ->
  X = S2 (off + len bs1) ((pre ++ bs1) ++ skipn (Z.to_nat (len bs1)) rest) K ->
  (len (bs1 ++ bs2) <= len rest ->
     X = K (off + len (bs1 ++ bs2)) ((pre ++ bs1 ++ bs2) ++ skipn (Z.to_nat (len (bs1 ++ bs2))) rest)) /\
  (len rest < len (bs1 ++ bs2) -> short_res X (pre ++ rest)).
Proof.
  intros P2 Ho H1 ->. pose proof (len_nonneg bs1).
  destruct (P2 (pre ++ bs1) (skipn (Z.to_nat (len bs1)) rest) (off + len bs1) K) as (F & S).
  { rewrite len_app; lia. }
  rewrite len_skipn in F, S by lia. rewrite len_app. split; intros H2.
  - rewrite F by lia. rewrite written_assoc, len_app. f_equal. lia.
  - eapply short_res_len; [apply S; lia|]. now apply length_written.
Qed.
Lemma pstep_after S2 bs2 bs1 pre rest off X :
  pstep S2 bs2 -> off = len pre -> len bs1 <= len rest ->
  X = S2 (off + len bs1) ((pre ++ bs1) ++ skipn (Z.to_nat (len bs1)) rest) ->
  (len (bs1 ++ bs2) <= len rest ->
     X = Ok (off + len (bs1 ++ bs2), None, (pre ++ bs1 ++ bs2) ++ skipn (Z.to_nat (len (bs1 ++ bs2))) rest)) /\
  (len rest < len (bs1 ++ bs2) -> short_res X (pre ++ rest)).
Proof.
  intros P2 Ho H1 ->. pose proof (len_nonneg bs1).
  destruct (P2 (pre ++ bs1) (skipn (Z.to_nat (len bs1)) rest) (off + len bs1)) as (F & S).
  { rewrite len_app; lia. }
  rewrite len_skipn in F, S by lia. rewrite len_app. split; intros H2.
  - rewrite F by lia. rewrite written_assoc, len_app. do 3 f_equal. lia.
  - eapply short_res_len; [apply S; lia|]. now apply length_written.
Qed.

(* first step: another positional step *)
Lemma kseq_p S1 bs1 S2 bs2 : pstep S1 bs1 -> kstep S2 bs2 ->
  kstep (fun off b K => rlet (off', err, b') <- S1 off b in
                        match err with Some _ => ret off' err b' | None => S2 off' b' K end) (bs1 ++ bs2).
Proof.
  intros P1 P2 pre rest off K Ho. destruct (P1 pre rest off Ho) as (F1 & S1').
  pose proof (len_nonneg bs2).
  destruct (Z_lt_le_dec (len rest) (len bs1)) as [L|L].
  - split; intros Hx; [rewrite len_app in Hx; lia|].
    destruct (S1' L) as (k & b' & E & Hl). rewrite E. cbn [rbind]. now apply short_res_intro.
  - eapply kstep_after; eauto. rewrite (F1 L). reflexivity.
Qed.
Lemma pseq_p S1 bs1 S2 bs2 : pstep S1 bs1 -> pstep S2 bs2 ->
  pstep (fun off b => rlet (off', err, b') <- S1 off b in
                      match err with Some _ => Ok (off', err, b') | None => S2 off' b' end) (bs1 ++ bs2).
Proof.
  intros P1 P2 pre rest off Ho. destruct (P1 pre rest off Ho) as (F1 & S1').
  pose proof (len_nonneg bs2).
  destruct (Z_lt_le_dec (len rest) (len bs1)) as [L|L].
  - split; intros Hx; [rewrite len_app in Hx; lia|].
    destruct (S1' L) as (k & b' & E & Hl). rewrite E. cbn [rbind]. now apply short_res_intro.
  - eapply pstep_after; eauto. rewrite (F1 L). reflexivity.
Qed.
(* first step: an exact writer through b[off:] *)
Lemma kseq_from f n bs1 S2 bs2 : exact f n bs1 -> kstep S2 bs2 ->
  kstep (fun off b K => rlet (n, err, b') <- in_from b off f in
                        let off' := off + n in
                        match err with Some _ => ret off' err b' | None => S2 off' b' K end) (bs1 ++ bs2).
Proof.
  intros E1 P2 pre rest off K Ho. pose proof (len_nonneg bs2). assert (Hn : len bs1 = n) by apply E1.
  destruct (Z_lt_le_dec (len rest) (len bs1)) as [L|L].
  - split; intros Hx; [rewrite len_app in Hx; lia|].
    destruct (in_from_short f n bs1 pre rest off E1 Ho) as (k & b' & E & Hl); [lia|].
    cbv beta. rewrite E. cbn [rbind]. now apply short_res_intro.
  - eapply kstep_after; eauto. cbv beta.
    rewrite (in_from_fits f n bs1 pre rest off E1 Ho) by lia. rewrite Hn. reflexivity.
Qed.
(* first step: copy of a constant *)
Lemma kseq_copy tg S2 bs2 : kstep S2 bs2 ->
  kstep (fun off b K => rlet (n, b') <- copy_at b off tg in
                        let off' := off + n in
                        if n <? len tg then ret off' (Some proto_ErrShortBuffer) b' else S2 off' b' K) (tg ++ bs2).
Proof.
  intros P2 pre rest off K Ho. pose proof (len_nonneg bs2).
  destruct (Z_lt_le_dec (len rest) (len tg)) as [L|L].
  - split; intros Hx; [rewrite len_app in Hx; lia|].
    destruct (copy_at_short pre rest off tg Ho L) as (b' & E & Hl).
    cbv beta. rewrite E. cbn [rbind]. destruct (len rest <? len tg) eqn:E2; [|lia]. now apply short_res_intro.
  - eapply kstep_after; eauto. cbv beta.
    rewrite (copy_at_fits pre rest off tg Ho L). cbn [rbind]. now rewrite Z.ltb_irrefl.
Qed.
Lemma pseq_copy tg (sr : bool) S2 bs2 : pstep S2 bs2 ->
  pstep (fun off b => rlet (n, b') <- copy_at b off tg in
                      let off' := off + n in
                      if n <? len tg then Ok ((if sr then n else off'), Some proto_ErrShortBuffer, b') else S2 off' b') (tg ++ bs2).
Proof.
  intros P2 pre rest off Ho. pose proof (len_nonneg bs2).
  destruct (Z_lt_le_dec (len rest) (len tg)) as [L|L].
  - split; intros Hx; [rewrite len_app in Hx; lia|].
    destruct (copy_at_short pre rest off tg Ho L) as (b' & E & Hl).
    cbv beta. rewrite E. cbn [rbind]. destruct (len rest <? len tg) eqn:E2; [|lia]. now apply short_res_intro.
  - eapply pstep_after; eauto. cbv beta.
    rewrite (copy_at_fits pre rest off tg Ho L). cbn [rbind]. now rewrite Z.ltb_irrefl.
Qed.

(* last steps *)
Lemma pstep_emb emb size : 0 <= size < lim -> pstep (emb_step emb size) (lenpfx emb size).
Proof.
  intros Hs pre rest off Ho. rewrite lim_val in Hs. assert (Hu : u64 size) by (unfold u64; lia).
  unfold emb_step. rewrite (w64_small size) by (unfold u64 in Hu; lia).
  destruct emb; cbn [lenpfx].
  - split; intros H.
    + rewrite (in_from_fits _ _ _ pre rest off (exact_varint size Hu) Ho H). reflexivity.
    + destruct (in_from_short _ _ _ pre rest off (exact_varint size Hu) Ho H) as (k & b' & E & L).
      rewrite E. cbn [rbind]. now apply short_res_intro.
  - rewrite len_nil. split; intros H; [|pose proof (len_nonneg rest); lia].
    cbn [Z.to_nat skipn]. now rewrite Z.add_0_r, app_nil_r.
Qed.
Lemma kstep_data c v fl size dbs : exact (fun w => encode c w (Some v) fl) size dbs ->
  kstep (fun off b K => data_step c v fl size off b K) dbs.
Proof.
  intros E1 pre rest off K Ho. assert (Hn : len dbs = size) by apply E1.
  unfold data_step. rewrite len_app, Hn. split; intros H.
  - destruct (len pre + len rest - off <? size) eqn:E; [lia|].
    rewrite (in_window_fits _ _ _ pre rest off E1 Ho H). reflexivity.
  - destruct (len pre + len rest - off <? size) eqn:E; [|lia]. now apply short_res_intro.
Qed.
Lemma pstep_data c v fl size dbs : exact (fun w => encode c w (Some v) fl) size dbs ->
  pstep (fun off b => if (len b - off) <? size then Ok (len b, Some proto_ErrShortBuffer, b) else
                      rlet (n, err, b') <- in_window b off size (fun w => encode c w (Some v) fl) in
                      Ok (off + n, err, b')) dbs.
Proof.
  intros E1 pre rest off Ho. assert (Hn : len dbs = size) by apply E1.
  cbv beta. rewrite len_app, Hn. split; intros H.
  - destruct (len pre + len rest - off <? size) eqn:E; [lia|].
    rewrite (in_window_fits _ _ _ pre rest off E1 Ho H). reflexivity.
  - destruct (len pre + len rest - off <? size) eqn:E; [|lia]. now apply short_res_intro.
Qed.
Lemma pstep_nop : pstep (fun off b => Ok (off, None, b)) [].
Proof.
  intros pre rest off Ho. rewrite len_nil. split; intros H; [|pose proof (len_nonneg rest); lia].
  cbn [Z.to_nat skipn]. now rewrite Z.add_0_r, app_nil_r.
Qed.

(* ================= 11. the composite steps ================= *)
Lemma kstep_elem_tail emb c v fl size dbs :
  0 <= size < lim -> exact (fun w => encode c w (Some v) fl) size dbs ->
  kstep (fun off b K => elem_tail emb c v fl size off b K) (lenpfx emb size ++ dbs).
Proof.
  intros Hs E1.
  exact (kseq_p _ _ _ _ (pstep_emb emb size Hs) (kstep_data c v fl size dbs E1)).
Qed.
Lemma kstep_field f v fl size dbs :
  1 <= sf_number f < 2 ^ 16 -> 0 <= wire (sf_codec f) < 8 ->
  0 <= size < lim -> exact (fun w => encode (sf_codec f) w (Some v) fl) size dbs ->
  kstep (fun off b K => field_step f v fl size off b K)
        (varint (tag_of (sf_number f) (wire (sf_codec f))) ++ lenpfx (sf_embedded f) size ++ dbs).
Proof.
  intros Hn Hw Hs E1.
  exact (kseq_from _ _ _ _ _ (exact_tag _ _ Hn Hw) (kstep_elem_tail (sf_embedded f) _ v fl size dbs Hs E1)).
Qed.
Lemma kstep_slice_elem tagData emb c' e dbs :
  0 <= size_of c' (Some e) proto_wantzero < lim ->
  exact (fun w => encode c' w (Some e) proto_wantzero) (size_of c' (Some e) proto_wantzero) dbs ->
  kstep (fun off b K => slice_elem tagData emb c' e off b K)
        (tagData ++ lenpfx emb (size_of c' (Some e) proto_wantzero) ++ dbs).
Proof.
  intros Hs E1.
  exact (kseq_copy tagData _ _ (kstep_elem_tail emb c' e proto_wantzero _ dbs Hs E1)).
Qed.
Definition part_bytes (tg : bytes) (embf : bool) (psize : Z) (dbs : bytes) : bytes :=
  if psize >? 0 then tg ++ lenpfx embf psize ++ dbs else [].
Lemma pstep_map_part tg embf pc pv sr dbs :
  0 <= size_of pc (Some pv) proto_wantzero < lim ->
  exact (fun w => encode pc w (Some pv) proto_wantzero) (size_of pc (Some pv) proto_wantzero) dbs ->
  pstep (fun off b => map_part tg embf pc pv (size_of pc (Some pv) proto_wantzero) off b sr)
        (part_bytes tg embf (size_of pc (Some pv) proto_wantzero) dbs).
Proof.
  intros Hs E1. unfold map_part, part_bytes.
  destruct (size_of pc (Some pv) proto_wantzero >? 0); [|apply pstep_nop].
  exact (pseq_copy tg sr _ _ (pseq_p _ _ _ _ (pstep_emb embf _ Hs) (pstep_data pc pv proto_wantzero _ dbs E1))).
Qed.

(* ================= 12. loops ================= *)
(* a step whose continuation is fixed *)
Definition kstepK (S K : Z -> bytes -> eres) (bs : bytes) : Prop :=
  forall pre rest off, off = len pre ->
    (len bs <= len rest ->
       S off (pre ++ rest) = K (off + len bs) ((pre ++ bs) ++ skipn (Z.to_nat (len bs)) rest)) /\
    (len rest < len bs -> short_res (S off (pre ++ rest)) (pre ++ rest)).

Lemma kstepK_nop K : kstepK K K [].
Proof.
  intros pre rest off Ho. rewrite len_nil. split; intros H; [|pose proof (len_nonneg rest); lia].
  cbn [Z.to_nat skipn]. now rewrite Z.add_0_r, app_nil_r.
Qed.
Lemma kstepK_seq S1 bs1 S2 K bs2 : kstep S1 bs1 -> kstepK S2 K bs2 ->
  kstepK (fun off b => S1 off b S2) K (bs1 ++ bs2).
Proof.
  intros P1 P2 pre rest off Ho. destruct (P1 pre rest off S2 Ho) as (F1 & S1').
  pose proof (len_nonneg bs1). pose proof (len_nonneg bs2).
  destruct (Z_lt_le_dec (len rest) (len bs1)) as [L|L].
  - rewrite len_app. split; intros Hx; [lia|]. now apply S1'.
  - destruct (P2 (pre ++ bs1) (skipn (Z.to_nat (len bs1)) rest) (off + len bs1)) as (F & Sh).
    { rewrite len_app; lia. }
    rewrite len_skipn in F, Sh by lia. cbv beta. rewrite (F1 L). rewrite len_app. split; intros H2.
    + rewrite F by lia. rewrite written_assoc, len_app. f_equal. lia.
    + eapply short_res_len; [apply Sh; lia|]. now apply length_written.
Qed.
Lemma kstepK_then_p S K bs1 bs2 : kstepK S K bs1 -> pstep K bs2 -> pstep S (bs1 ++ bs2).
Proof.
  intros P1 P2 pre rest off Ho. destruct (P1 pre rest off Ho) as (F1 & S1').
  pose proof (len_nonneg bs1). pose proof (len_nonneg bs2).
  destruct (Z_lt_le_dec (len rest) (len bs1)) as [L|L].
  - rewrite len_app. split; intros Hx; [lia|]. now apply S1'.
  - destruct (P2 (pre ++ bs1) (skipn (Z.to_nat (len bs1)) rest) (off + len bs1)) as (F & Sh).
    { rewrite len_app; lia. }
    rewrite len_skipn in F, Sh by lia. rewrite (F1 L). rewrite len_app. split; intros H2.
    + rewrite F by lia. rewrite written_assoc, len_app. do 3 f_equal. lia.
    + eapply short_res_len; [apply Sh; lia|]. now apply length_written.
Qed.
Lemma kstep_p_seq S1 bs1 S2 bs2 : kstep S1 bs1 -> pstep S2 bs2 -> pstep (fun off b => S1 off b S2) (bs1 ++ bs2).
Proof. intros P1 P2. exact (kstepK_seq S1 bs1 S2 (fun off b => Ok (off, None, b)) bs2 P1 P2). Qed.
Lemma pstep_exact S bs : pstep S bs -> exact (fun b => S 0 b) (len bs) bs.
Proof.
  intros P. split; [reflexivity|split]; intros b Hb; destruct (P [] b 0 eq_refl) as (F & Sh); cbn [app] in *.
  - now rewrite (F Hb).
  - now apply Sh.
Qed.
(* first step an exact writer whose count selects the continuation *)
Lemma pseq_from_n f n bs1 (S2 : Z -> Z -> bytes -> eres) bs2 : exact f n bs1 -> pstep (S2 n) bs2 ->
  pstep (fun off b => rlet (m, err, b') <- in_from b off f in
                      let off' := off + m in
                      match err with Some _ => ret off' err b' | None => S2 m off' b' end) (bs1 ++ bs2).
Proof.
  intros E1 P2 pre rest off Ho. pose proof (len_nonneg bs2). assert (Hn : len bs1 = n) by apply E1.
  destruct (Z_lt_le_dec (len rest) (len bs1)) as [L|L].
  - split; intros Hx; [rewrite len_app in Hx; lia|].
    destruct (in_from_short f n bs1 pre rest off E1 Ho) as (k & b' & E & Hl); [lia|].
    cbv beta. rewrite E. cbn [rbind]. now apply short_res_intro.
  - eapply pstep_after; eauto. cbv beta.
    rewrite (in_from_fits f n bs1 pre rest off E1 Ho) by lia. rewrite Hn. reflexivity.
Qed.

(* ---------- struct ---------- *)
Definition FP (f : sfield) (v : val) : Prop :=
  1 <= sf_number f < 2 ^ 16 /\ 0 <= wire (sf_codec f) < 8 /\
  sf_tagsize f = proto_sizeOfTag (sf_number f) (wire (sf_codec f)) /\ 0 <= sf_flags f < 8 /\
  forall flags, flags_ok flags ->
    Gres (fun b => encode (sf_codec f) b (Some v) flags) (size_of (sf_codec f) (Some v) flags).

Lemma pass_acc rep fs : forall vs flags n,
  pass_ rep fs vs flags n = (fst (pass_ rep fs vs flags 0), n + snd (pass_ rep fs vs flags 0)).
Proof.
  induction fs as [|f fr IH]; intros [|v vr] flags n; cbn [pass_ fst snd]; try (f_equal; lia).
  destruct (Bool.eqb (sf_repeated f) rep); [|apply IH]. cbv zeta.
  destruct (size_of (sf_codec f) (Some v) (make_flags f flags) >? 0); [|apply IH].
  rewrite IH. rewrite (IH vr _ (if rep then _ else _)). cbn [fst snd]. f_equal. destruct rep; lia.
Qed.

Definition field_bytes (f : sfield) (size : Z) (dbs : bytes) : bytes :=
  varint (tag_of (sf_number f) (wire (sf_codec f))) ++ lenpfx (sf_embedded f) size ++ dbs.

Lemma uniq_spec fs vs : Forall2 FP fs vs -> forall flags, flags_ok flags ->
  let r := pass_ false fs vs flags 0 in
  flags_ok (fst r) /\ 0 <= snd r /\
  (snd r < lim -> exists bs, len bs = snd r /\ wfb bs = true /\
     forall k, kstepK (fun off b => uniq_ fs vs flags off b k) (k (fst r)) bs).
Proof.
  induction 1 as [|f v fr vr HF HR IH]; intros flags Hfl; cbn [pass_ uniq_ fst snd].
  - split; [assumption|split; [lia|]]. intros _. exists []. split; [reflexivity|split; [reflexivity|]]. intros k. apply kstepK_nop.
  - destruct HF as (Hnum & Hwire & Hts & Hsfl & HG).
    destruct (sf_repeated f); cbn [Bool.eqb]; [now apply IH|]. cbv zeta.
    pose proof (flags_ok_make f flags Hsfl Hfl) as Hmf.
    destruct (HG _ Hmf) as (Hs0 & Hex).
    set (size := size_of (sf_codec f) (Some v) (make_flags f flags)) in *.
    destruct (size >? 0) eqn:Epos; [|now apply IH].
    rewrite pass_acc. cbn [fst snd].
    pose proof (flags_ok_without_wz flags Hfl) as Hfl'.
    destruct (IH _ Hfl') as (I1 & I2 & I3).
    set (r' := pass_ false fr vr (without flags proto_wantzero) 0) in *.
    pose proof (part_bound (sf_embedded f) size Hs0) as (Pb1 & Pb2). cbv zeta in Pb1, Pb2.
    rewrite Hts, sizeOfTag_len by assumption.
    pose proof (varint_len_bounds _ (tag_u64 _ _ Hnum Hwire)) as Hvt.
    split; [assumption|split; [lia|]]. intros Hlim.
    destruct Pb2 as (Pb2 & Pb3); [lia|].
    destruct Hex as (dbs & Hdw & Hde); [assumption|].
    destruct I3 as (bs' & Hl' & Hw' & Hk'); [lia|].
    destruct (lenpfx_size (sf_embedded f) size (conj Hs0 Pb3)) as (Lp1 & Lp2 & Lp3).
    assert (Hdl : len dbs = size) by apply Hde.
    exists (field_bytes f size dbs ++ bs'). split; [|split].
    + unfold field_bytes. rewrite !len_app. lia.
    + unfold field_bytes. repeat apply wfb_app_true; auto. apply varint_wfb. now apply tag_u64.
    + intros k.
      exact (kstepK_seq _ _ _ _ _ (kstep_field f v _ size dbs Hnum Hwire (conj Hs0 Pb3) Hde) (Hk' k)).
Qed.

Lemma pass_true_cons f fr v vr flags n :
  sf_repeated f = true -> 0 <= size_of (sf_codec f) (Some v) (make_flags f flags) ->
  pass_ true (f :: fr) (v :: vr) flags n =
  pass_ true fr vr (if size_of (sf_codec f) (Some v) (make_flags f flags) >? 0 then without flags proto_wantzero else flags)
        (n + size_of (sf_codec f) (Some v) (make_flags f flags)).
Proof.
  intros Hr H0. cbn [pass_]. rewrite Hr. cbn [Bool.eqb]. cbv zeta.
  destruct (size_of (sf_codec f) (Some v) (make_flags f flags) >? 0) eqn:E; [reflexivity|].
  f_equal. lia.
Qed.

Lemma reps_spec fs vs : Forall2 FP fs vs -> forall flags, flags_ok flags ->
  let r := pass_ true fs vs flags 0 in
  0 <= snd r /\
  (snd r < lim -> exists bs, len bs = snd r /\ wfb bs = true /\
     pstep (fun off b => reps_ fs vs flags off b) bs).
Proof.
  induction 1 as [|f v fr vr HF HR IH]; intros flags Hfl.
  - cbn [pass_ reps_ fst snd]. split; [lia|]. intros _. exists []. split; [reflexivity|split; [reflexivity|]]. apply pstep_nop.
  - destruct HF as (Hnum & Hwire & Hts & Hsfl & HG).
    destruct (sf_repeated f) eqn:Hrep.
    2:{ cbn [pass_ reps_]. rewrite Hrep. cbn [Bool.eqb negb]. now apply IH. }
    pose proof (flags_ok_make f flags Hsfl Hfl) as Hmf.
    destruct (HG _ Hmf) as (Hs0 & Hex).
    rewrite (pass_true_cons f fr v vr flags 0 Hrep Hs0). cbn [reps_]. rewrite Hrep. cbn [negb].
    set (size := size_of (sf_codec f) (Some v) (make_flags f flags)) in *.
    set (flags' := if size >? 0 then without flags proto_wantzero else flags).
    assert (Hfl' : flags_ok flags') by (subst flags'; destruct (size >? 0); [now apply flags_ok_without_wz|assumption]).
    rewrite pass_acc. cbn [fst snd].
    destruct (IH _ Hfl') as (I2 & I3).
    split; [lia|]. intros Hlim.
    destruct Hex as (dbs & Hdw & Hde); [lia|].
    destruct I3 as (bs' & Hl' & Hw' & Hk'); [lia|].
    assert (Hdl : len dbs = size) by apply Hde.
    exists (dbs ++ bs'). split; [rewrite len_app; lia|split; [now apply wfb_app_true|]].
    exact (pseq_from_n _ size dbs
             (fun m off b => reps_ fr vr (if m >? 0 then without flags proto_wantzero else flags) off b) bs' Hde Hk').
Qed.

Lemma G_struct inl_ fs : Forall (fun f => cok (sf_codec f) -> G (sf_codec f)) fs -> cok (CStruct inl_ fs) -> G (CStruct inl_ fs).
Proof.
  intros HF Hc [v|] flags Hv Hfl; [|apply G_None].
  destruct v; cbn [ovok vok] in Hv; try contradiction. rename fs0 into vs.
  assert (H2 : Forall2 FP fs vs).
  { cbn [cok] in Hc. revert vs Hv Hc. induction HF as [|f fr HG HR IH]; intros [|v vr] Hv Hc; try contradiction.
    - constructor.
    - destruct f as [n ts fl t c]; contradiction.
    - destruct f as [n ts fl t c]. destruct Hv as (Hv1 & Hv2). destruct Hc as ((C1 & C2 & C3 & C4) & C5).
      constructor; [|now apply IH]. cbn [sf_codec] in HG. unfold FP; cbn [sf_number sf_codec sf_tagsize sf_flags].
      split; [exact C1|split; [now apply cok_wire|split; [exact C2|split; [exact C3|]]]].
      intros flags' Hf'. now apply (HG C4 (Some v)). }
  rewrite size_of_struct.
  change (fun b => encode (CStruct inl_ fs) b (Some (VStruct vs)) flags)
    with (fun b => uniq_ fs vs (struct_flags0 inl_ flags) 0 b (fun flags offset b => reps_ fs vs flags offset b)).
  pose proof (flags_ok_struct0 inl_ flags Hfl) as Hf0. fold (struct_flags0 inl_ flags) in Hf0.
  destruct (uniq_spec fs vs H2 _ Hf0) as (U1 & U2 & U3).
  destruct (pass_ false fs vs (struct_flags0 inl_ flags) 0) as [flags1 n1] eqn:E1. cbn [fst snd] in *.
  rewrite pass_acc. destruct (reps_spec fs vs H2 _ U1) as (R2 & R3).
  destruct (pass_ true fs vs flags1 0) as [flags2 n2] eqn:E2. cbn [fst snd] in *.
  split; [lia|]. intros Hlim.
  destruct U3 as (bs1 & L1 & W1 & K1); [lia|].
  destruct R3 as (bs2 & L2 & W2 & K2); [lia|].
  exists (bs1 ++ bs2). split; [now apply wfb_app_true|].
  replace (n1 + n2) with (len (bs1 ++ bs2)) by (rewrite len_app; lia).
  apply (pstep_exact (fun off b => uniq_ fs vs (struct_flags0 inl_ flags) off b (fun flags offset b => reps_ fs vs flags offset b))).
  exact (kstepK_then_p _ _ _ _ (K1 _) K2).
Qed.

(* ---------- slices ---------- *)
Lemma slice_fold_acc tagSize emb c' es : forall a,
  fold_left (slice_F tagSize emb c') es a = a + fold_left (slice_F tagSize emb c') es 0.
Proof.
  induction es as [|e er IH]; intros a; cbn [fold_left]; [lia|].
  rewrite IH, (IH (slice_F _ _ _ 0 e)). unfold slice_F. lia.
Qed.

Lemma slice_spec tagData emb c' es : wfb tagData = true ->
  Forall (fun e => Gres (fun b => encode c' b (Some e) proto_wantzero) (size_of c' (Some e) proto_wantzero)) es ->
  let t := fold_left (slice_F (len tagData) emb c') es 0 in
  0 <= t /\
  (t < lim -> exists bs, len bs = t /\ wfb bs = true /\ pstep (fun off b => slice_go tagData emb c' es off b) bs).
Proof.
  intros Htw. induction 1 as [|e er (Hs0 & Hex) HR IH]; cbn [fold_left slice_go].
  - split; [lia|]. intros _. exists []. split; [reflexivity|split; [reflexivity|]]. apply pstep_nop.
  - rewrite slice_fold_acc.
    change (slice_F (len tagData) emb c' 0 e) with (0 + len tagData + size_of c' (Some e) proto_wantzero + (if emb then proto_sizeOfVarint (size_of c' (Some e) proto_wantzero) else 0)).
    set (size := size_of c' (Some e) proto_wantzero) in *.
    destruct IH as (I2 & I3). cbv zeta in I2, I3.
    pose proof (part_bound emb size Hs0) as (Pb1 & Pb2). cbv zeta in Pb1, Pb2.
    pose proof (len_nonneg tagData).
    split; [lia|]. intros Hlim.
    destruct Pb2 as (Pb2 & Pb3); [lia|].
    destruct Hex as (dbs & Hdw & Hde); [assumption|].
    destruct I3 as (bs' & Hl' & Hw' & Hk'); [lia|].
    destruct (lenpfx_size emb size (conj Hs0 Pb3)) as (Lp1 & Lp2 & Lp3).
    assert (Hdl : len dbs = size) by apply Hde.
    exists ((tagData ++ lenpfx emb size ++ dbs) ++ bs'). split; [|split].
    + rewrite !len_app. lia.
    + repeat apply wfb_app_true; auto.
    + exact (kstep_p_seq _ _ _ _ (kstep_slice_elem tagData emb c' e dbs (conj Hs0 Pb3) Hde) Hk').
Qed.

Lemma G_slice number wt emb et c' : (cok c' -> G c') -> cok (CSlice number wt emb et c') -> G (CSlice number wt emb et c').
Proof.
  intros HG (Hn & Hw & Hc) [v|] flags Hv Hfl; [|apply G_None].
  destruct v; cbn [ovok vok] in Hv; try contradiction.
  rewrite size_of_slice.
  assert (Hchg : forall b, encode (CSlice number wt emb et c') b (Some (VSlice es)) flags =
                           slice_go (varint (tag_of number wt)) emb c' es 0 b).
  { intros b. rewrite encode_slice. cbv zeta. now rewrite tagData_eq. }
  rewrite sizeOfTag_len by assumption.
  destruct (slice_spec (varint (tag_of number wt)) emb c' es) as (S1 & S2).
  { apply varint_wfb. now apply tag_u64. }
  { eapply Forall_impl; [|exact Hv]. intros e He. apply (HG Hc (Some e)); [exact He|apply flags_ok_wz]. }
  cbv zeta in S1, S2. split; [assumption|]. intros Hlim.
  destruct (S2 Hlim) as (bs & L & W & P). exists bs. split; [assumption|].
  eapply exact_ext; [exact Hchg|]. rewrite <- L.
  exact (pstep_exact _ _ P).
Qed.

(* ---------- maps ---------- *)
Definition kpart_sz (tagSize : Z) (emb : bool) (ps : Z) : Z :=
  if ps >? 0 then tagSize + ps + (if emb then proto_sizeOfVarint ps else 0) else 0.

Lemma map_esize_sz_eq kf vf kc vc ks vs :
  map_esize_sz kf vf kc vc ks vs =
  kpart_sz (proto_sizeOfTag 1 (wire kc)) (negb (Z.land kf proto_embedded =? 0)) ks +
  kpart_sz (proto_sizeOfTag 2 (wire vc)) (negb (Z.land vf proto_embedded =? 0)) vs.
Proof. unfold map_esize_sz, kpart_sz. cbv zeta. destruct (ks >? 0), (vs >? 0); lia. Qed.
Lemma map_esize_enc_eq keyTag valTag kf vf ks vs : 0 <= ks -> 0 <= vs ->
  map_esize_enc keyTag valTag kf vf ks vs =
  kpart_sz (len keyTag) (negb (Z.land kf proto_embedded =? 0)) ks +
  kpart_sz (len valTag) (negb (Z.land vf proto_embedded =? 0)) vs.
Proof. intros. unfold map_esize_enc, kpart_sz. cbv zeta. destruct (ks >? 0) eqn:E1, (vs >? 0) eqn:E2; lia. Qed.

Lemma kpart_sz_bound tagSize emb ps : 0 <= tagSize -> 0 <= ps ->
  0 <= kpart_sz tagSize emb ps /\ (kpart_sz tagSize emb ps < lim -> ps < lim).
Proof.
  intros Ht Hp. unfold kpart_sz. pose proof lim_val.
  pose proof (part_bound emb ps Hp) as (A & B). cbv zeta in A, B.
  destruct (ps >? 0) eqn:E; [|lia]. split; [lia|]. intros. apply B. lia.
Qed.
Lemma part_bytes_len tg emb ps dbs : wfb tg = true -> wfb dbs = true -> 0 <= ps < lim -> len dbs = ps ->
  len (part_bytes tg emb ps dbs) = kpart_sz (len tg) emb ps /\ wfb (part_bytes tg emb ps dbs) = true.
Proof.
  intros Hw1 Hw2 Hp Hl. unfold part_bytes, kpart_sz.
  destruct (lenpfx_size emb ps Hp) as (L1 & L2 & L3).
  destruct (ps >? 0); [|split; reflexivity]. rewrite !len_app. split; [lia|].
  repeat apply wfb_app_true; auto.
Qed.

Lemma kstep_id : kstep (fun off b K => K off b) [].
Proof. intros pre rest off K Ho. exact (kstepK_nop K pre rest off Ho). Qed.

Lemma kstep_map_entry keyTag valTag mapTag kf vf kc vc k v kdbs vdbs :
  let ks := size_of kc (Some k) proto_wantzero in
  let vs := size_of vc (Some v) proto_wantzero in
  let E := map_esize_enc keyTag valTag kf vf ks vs in
  0 <= ks < lim -> 0 <= vs < lim -> 0 <= E < lim ->
  exact (fun w => encode kc w (Some k) proto_wantzero) ks kdbs ->
  exact (fun w => encode vc w (Some v) proto_wantzero) vs vdbs ->
  kstep (fun off b K => map_entry keyTag valTag mapTag kf vf kc vc k v off b K)
        (mapTag ++ varint E ++
         part_bytes keyTag (negb (Z.land kf proto_embedded =? 0)) ks kdbs ++
         part_bytes valTag (negb (Z.land vf proto_embedded =? 0)) vs vdbs ++ []).
Proof.
  intros ks vs E Hks Hvs HE Hke Hve. rewrite lim_val in HE.
  assert (HuE : u64 E) by (unfold u64; lia).
  unfold map_entry. cbv zeta. fold ks vs. fold E. rewrite (w64_small E) by (unfold u64 in HuE; lia).
  exact (kseq_copy mapTag _ _
          (kseq_from _ _ _ _ _ (exact_varint E HuE)
            (kseq_p _ _ _ _ (pstep_map_part keyTag _ kc k false kdbs Hks Hke)
              (kseq_p _ _ _ _ (pstep_map_part valTag _ vc v true vdbs Hvs Hve) kstep_id)))).
Qed.

Definition pstep_pos (S : Z -> bytes -> eres) (bs : bytes) : Prop :=
  forall pre rest off, off = len pre -> 0 < off ->
    (len bs <= len rest ->
       S off (pre ++ rest) = Ok (off + len bs, None, (pre ++ bs) ++ skipn (Z.to_nat (len bs)) rest)) /\
    (len rest < len bs -> short_res (S off (pre ++ rest)) (pre ++ rest)).
Lemma kstep_ppos_seq S1 bs1 S2 bs2 : kstep S1 bs1 -> 0 < len bs1 -> pstep_pos S2 bs2 ->
  pstep (fun off b => S1 off b S2) (bs1 ++ bs2).
Proof.
  intros P1 Hpos P2 pre rest off Ho. destruct (P1 pre rest off S2 Ho) as (F1 & S1').
  pose proof (len_nonneg bs1). pose proof (len_nonneg bs2). pose proof (len_nonneg pre).
  destruct (Z_lt_le_dec (len rest) (len bs1)) as [L|L].
  - rewrite len_app. split; intros Hx; [lia|]. now apply S1'.
  - destruct (P2 (pre ++ bs1) (skipn (Z.to_nat (len bs1)) rest) (off + len bs1)) as (F & Sh).
    { rewrite len_app; lia. } { lia. }
    rewrite len_skipn in F, Sh by lia. cbv beta. rewrite (F1 L). rewrite len_app. split; intros H2.
    + rewrite F by lia. rewrite written_assoc, len_app. do 3 f_equal. lia.
    + eapply short_res_len; [apply Sh; lia|]. now apply length_written.
Qed.

Lemma map_fold_acc number kf vf kc vc es : forall a,
  fold_left (map_F number kf vf kc vc) es a = a + fold_left (map_F number kf vf kc vc) es 0.
Proof.
  induction es as [|e er IH]; intros a; cbn [fold_left]; [lia|].
  rewrite IH, (IH (map_F _ _ _ _ _ 0 e)). unfold map_F. lia.
Qed.

Section MapLoop.
  Variables (number kf vf : Z) (kc vc : codec).
  Hypothesis Hnum : 1 <= number < 2 ^ 16.
  Hypothesis Hwk : 0 <= wire kc < 8.
  Hypothesis Hwv : 0 <= wire vc < 8.
  Let keyTag := [tag_of 1 (wire kc)].
  Let valTag := [tag_of 2 (wire vc)].
  Let mapTag := varint (tag_of number proto_varlen).
  Let zero := mapTag ++ [0].
  Let kemb := negb (Z.land kf proto_embedded =? 0).
  Let vemb := negb (Z.land vf proto_embedded =? 0).
  Definition MP (kv : val * val) : Prop :=
    Gres (fun b => encode kc b (Some (fst kv)) proto_wantzero) (size_of kc (Some (fst kv)) proto_wantzero) /\
    Gres (fun b => encode vc b (Some (snd kv)) proto_wantzero) (size_of vc (Some (snd kv)) proto_wantzero).

  Lemma varlen_range : 0 <= proto_varlen < 8.
  Proof. cbv; split; [discriminate|reflexivity]. Qed.

  (* one entry: its size is positive, and bounded size gives a continuation step *)
  Lemma map_entry_spec k v : MP (k, v) ->
    let e := map_F number kf vf kc vc 0 (k, v) in
    2 <= e /\
    (e < lim -> exists bs, len bs = e /\ wfb bs = true /\
       kstep (fun off b K => map_entry keyTag valTag mapTag kf vf kc vc k v off b K) bs).
  Proof.
    intros ((Hk0 & Hkx) & (Hv0 & Hvx)). cbn [fst snd] in *.
    unfold map_F. cbn [fst snd]. cbv zeta. rewrite map_esize_sz_eq.
    set (ks := size_of kc (Some k) proto_wantzero) in *.
    set (vs := size_of vc (Some v) proto_wantzero) in *.
    destruct (entryTag_eq 1 (wire kc) ltac:(lia) Hwk) as (_ & Tk & Wk).
    destruct (entryTag_eq 2 (wire vc) ltac:(lia) Hwv) as (_ & Tv & Wv).
    rewrite Tk, Tv.
    destruct (kpart_sz_bound 1 kemb ks ltac:(lia) Hk0) as (Kb1 & Kb2).
    destruct (kpart_sz_bound 1 vemb vs ltac:(lia) Hv0) as (Vb1 & Vb2).
    fold kemb vemb.
    set (E := kpart_sz 1 kemb ks + kpart_sz 1 vemb vs) in *.
    assert (HE0 : 0 <= E) by (subst E; lia).
    pose proof (part_bound true E HE0) as (Pb1 & Pb2). cbv zeta iota in Pb1, Pb2.
    rewrite sizeOfTag_len by (assumption || apply varlen_range).
    pose proof (varint_len_bounds _ (tag_u64 _ _ Hnum varlen_range)) as Hmt. fold mapTag in Hmt |- *.
    pose proof lim_val as Hlv.
    assert (Hsov : E < 2 ^ 64 -> 1 <= proto_sizeOfVarint E).
    { intros. rewrite sov_u64 by (unfold u64; lia). apply varint_len_bounds. unfold u64; lia. }
    split.
    { destruct (szv_bound E HE0) as [(A & B)|A]; lia. }
    intros Hlim. destruct Pb2 as (Pb2 & Pb3); [lia|].
    assert (HuE : u64 E) by (unfold u64; lia).
    destruct Hkx as (kdbs & Wkd & Ekd); [apply Kb2; subst E; lia|].
    destruct Hvx as (vdbs & Wvd & Evd); [apply Vb2; subst E; lia|].
    assert (Hks : 0 <= ks < lim) by (split; [assumption|apply Kb2; subst E; lia]).
    assert (Hvs : 0 <= vs < lim) by (split; [assumption|apply Vb2; subst E; lia]).
    destruct (part_bytes_len keyTag kemb ks kdbs Wk Wkd Hks (proj1 Ekd)) as (Lk & Wkb).
    destruct (part_bytes_len valTag vemb vs vdbs Wv Wvd Hvs (proj1 Evd)) as (Lv & Wvb).
    change (len keyTag) with 1 in Lk. change (len valTag) with 1 in Lv.
    assert (HEe : map_esize_enc keyTag valTag kf vf ks vs = E).
    { rewrite map_esize_enc_eq by assumption. reflexivity. }
    exists (mapTag ++ varint E ++ part_bytes keyTag kemb ks kdbs ++ part_bytes valTag vemb vs vdbs ++ []).
    split; [|split].
    - rewrite !len_app, len_nil, Lk, Lv, sov_u64 by assumption. subst E. lia.
    - repeat apply wfb_app_true; auto. apply varint_wfb. now apply tag_u64; try apply varlen_range.
      now apply varint_wfb.
    - rewrite <- HEe. apply kstep_map_entry; try assumption. fold ks vs. rewrite HEe. lia.
  Qed.

  Lemma map_tail_spec es : Forall MP es ->
    let t := fold_left (map_F number kf vf kc vc) es 0 in
    0 <= t /\
    (t < lim -> exists bs, len bs = t /\ wfb bs = true /\
       pstep_pos (fun off b => map_go keyTag valTag zero mapTag kf vf kc vc es off b) bs).
  Proof.
    induction 1 as [|[k v] er HM HR IH]; cbn [fold_left map_go].
    - split; [lia|]. intros _. exists []. split; [reflexivity|split; [reflexivity|]].
      intros pre rest off Ho Hpos. destruct (off =? 0) eqn:E0; [lia|].
      exact (pstep_nop pre rest off Ho).
    - rewrite map_fold_acc. destruct IH as (I2 & I3). cbv zeta in I2, I3.
      destruct (map_entry_spec k v HM) as (E1 & E2). cbv zeta in E1, E2.
      split; [lia|]. intros Hlim.
      destruct E2 as (ebs & Le & We & Ke); [lia|].
      destruct I3 as (bs' & L' & W' & K'); [lia|].
      exists (ebs ++ bs'). split; [rewrite len_app; lia|split; [now apply wfb_app_true|]].
      intros pre rest off Ho Hpos.
      exact (kstep_ppos_seq _ _ _ _ Ke ltac:(lia) K' pre rest off Ho).
  Qed.

  Lemma exact_zero_marker :
    exact (fun b => rlet (n, b) <- copy_at b 0 zero in
                    if n <? len zero then ret n (Some proto_ErrShortBuffer) b else ret n None b)
          (len zero) zero.
  Proof.
    split; [reflexivity|split]; intros b Hb.
    - pose proof (copy_at_fits [] b 0 zero eq_refl Hb) as Ec. cbn [app] in Ec. rewrite Ec.
      cbn [rbind]. now rewrite Z.ltb_irrefl.
    - destruct (copy_at_short [] b 0 zero eq_refl Hb) as (b' & Ec & L). cbn [app] in Ec, L. rewrite Ec.
      cbn [rbind]. destruct (len b <? len zero) eqn:E; [|lia]. now apply short_res_intro.
  Qed.

  Lemma map_top_spec es : Forall MP es ->
    let n := fold_left (map_F number kf vf kc vc) es 0 in
    Gres (fun b => map_go keyTag valTag zero mapTag kf vf kc vc es 0 b)
         (if n =? 0 then proto_sizeOfTag number proto_varlen + proto_zeroSize else n).
  Proof.
    intros HF. cbv zeta.
    pose proof (varint_len_bounds _ (tag_u64 _ _ Hnum varlen_range)) as Hmt. fold mapTag in Hmt.
    destruct HF as [|[k v] er HM HR].
    - cbn [fold_left map_go Z.eqb].
      rewrite sizeOfTag_len by (assumption || apply varlen_range). fold mapTag.
      replace (len mapTag + proto_zeroSize) with (len zero) by (unfold zero; rewrite len_app; reflexivity).
      eapply Gres_exact; [apply exact_zero_marker|].
      unfold zero. apply wfb_app_true; [|reflexivity]. apply varint_wfb. now apply tag_u64; try apply varlen_range.
    - cbn [fold_left map_go]. rewrite map_fold_acc.
      destruct (map_tail_spec er HR) as (I2 & I3). cbv zeta in I2, I3.
      destruct (map_entry_spec k v HM) as (E1 & E2). cbv zeta in E1, E2.
      set (e := map_F number kf vf kc vc 0 (k, v)) in *.
      set (t := fold_left (map_F number kf vf kc vc) er 0) in *.
      destruct (e + t =? 0) eqn:E0; [lia|].
      split; [lia|]. intros Hlim.
      destruct E2 as (ebs & Le & We & Ke); [lia|].
      destruct I3 as (bs' & L' & W' & K'); [lia|].
      exists (ebs ++ bs'). split; [now apply wfb_app_true|].
      replace (e + t) with (len (ebs ++ bs')) by (rewrite len_app; lia).
      apply (pstep_exact (fun off b => map_entry keyTag valTag mapTag kf vf kc vc k v off b
                                         (fun off b => map_go keyTag valTag zero mapTag kf vf kc vc er off b))).
      exact (kstep_ppos_seq _ _ _ _ Ke ltac:(lia) K').
  Qed.
End MapLoop.

Lemma G_map number kf vf kt vt kc vc : (cok kc -> G kc) -> (cok vc -> G vc) ->
  cok (CMap number kf vf kt vt kc vc) -> G (CMap number kf vf kt vt kc vc).
Proof.
  intros HGk HGv (Hn & Hck & Hcv) [v|] flags Hv Hfl; [|apply G_None].
  destruct v; cbn [ovok vok] in Hv; try contradiction.
  pose proof (cok_wire kc Hck) as Hwk. pose proof (cok_wire vc Hcv) as Hwv.
  rewrite size_of_map.
  assert (Hchg : forall b, encode (CMap number kf vf kt vt kc vc) b (Some (VMap nonnil es)) flags =
                           map_go [tag_of 1 (wire kc)] [tag_of 2 (wire vc)]
                                  (varint (tag_of number proto_varlen) ++ [0]) (varint (tag_of number proto_varlen))
                                  kf vf kc vc es 0 b).
  { intros b. rewrite encode_map.
    destruct (entryTag_eq 1 (wire kc) ltac:(lia) Hwk) as (-> & _).
    destruct (entryTag_eq 2 (wire vc) ltac:(lia) Hwv) as (-> & _).
    cbv zeta. rewrite zeroTag_eq by assumption.
    replace (slice_to (varint (tag_of number proto_varlen) ++ [0]) (len (varint (tag_of number proto_varlen) ++ [0]) - 1))
      with (varint (tag_of number proto_varlen)); [reflexivity|].
    unfold slice_to. rewrite len_app. replace (len (varint (tag_of number proto_varlen)) + len [0] - 1) with (len (varint (tag_of number proto_varlen))) by (unfold len; cbn [length]; lia).
    rewrite to_nat_len. now rewrite firstn_app_exact. }
  assert (HF : Forall (MP kc vc) es).
  { eapply Forall_impl; [|exact Hv]. intros [k x] (Hk & Hx). cbn [fst snd] in *. split.
    - apply (HGk Hck (Some k)); [exact Hk|apply flags_ok_wz].
    - apply (HGv Hcv (Some x)); [exact Hx|apply flags_ok_wz]. }
  pose proof (map_top_spec number kf vf kc vc Hn Hwk Hwv es HF) as HT. cbv zeta in HT.
  destruct HT as (T1 & T2). split; [assumption|]. intros Hlim.
  destruct (T2 Hlim) as (bs & W & Ex). exists bs. split; [assumption|].
  eapply exact_ext; [exact Hchg|exact Ex].
Qed.

(* ================= 13. every compatible codec/value pair is written exactly ================= *)
Theorem G_all c : cok c -> G c.
Proof.
  induction c as [c IH] using codec_ind'. destruct c; cbn [sub_ok] in IH; intros Hc;
    try exact (G_leaves CBool); try exact (G_leaves CInt); try exact (G_leaves CInt32);
    try exact (G_leaves CInt64); try exact (G_leaves CUint); try exact (G_leaves CUint32);
    try exact (G_leaves CUint64); try exact (G_leaves CFixed32); try exact (G_leaves CFixed64);
    try exact (G_leaves CFloat32); try exact (G_leaves CFloat64); try exact (G_leaves CString);
    try exact (G_leaves CBytes); try exact (G_leaves (CByteArray n)); try exact (G_leaves CMessage).
  - (* pointer *)
    intros [v|] flags Hv Hfl; [|apply G_None].
    destruct v; cbn [ovok vok] in Hv; try contradiction. cbn [size_of encode].
    apply (IH Hc o); [exact Hv|now apply flags_ok_ptr].
  - now apply G_struct.
  - now apply G_slice.
  - destruct IH. now apply G_map.
  - contradiction.
Qed.

(* ================= 14. from the universe of Spec.v to compatible pairs ================= *)
Definition fl0_of (tg : ptag) : Z :=
  (if tag_repeated tg then proto_repeated else 0) + (if tag_zigzag tg then proto_zigzag else 0).
Definition forced_of (tg : ptag) (ft : gty) : option codec :=
  if tag_wire tg =? proto_fixed32 then
    match base_ty ft with TUint32 => Some (pointers_to ft CFixed32) | TFloat32 => Some (pointers_to ft CFloat32) | _ => None end
  else if tag_wire tg =? proto_fixed64 then
    match base_ty ft with TUint64 => Some (pointers_to ft CFixed64) | TFloat64 => Some (pointers_to ft CFloat64) | _ => None end
  else None.
Definition fc_of (fl0 num : Z) (forced : option codec) (ft : gty) : Z * codec :=
  match forced with
  | Some c => (fl0, c)
  | None =>
      match ft with
      | TSlice et =>
          let emb := is_struct (base_ty et) in
          let fl1 := Z.lor (if emb then Z.lor fl0 proto_embedded else fl0) proto_repeated in
          let ec := codec_of et in
          (fl1, CSlice num (wire ec) emb et ec)
      | TMap kt vt =>
          let kf := if is_struct (base_ty kt) then proto_embedded else 0 in
          let vf := if is_struct (base_ty vt) then proto_embedded else 0 in
          (Z.lor fl0 (Z.lor proto_embedded proto_repeated), CMap num kf vf kt vt (codec_of kt) (codec_of vt))
      | _ => if is_struct (base_ty ft) then (Z.lor fl0 proto_embedded, codec_of ft) else (fl0, codec_of ft)
      end
  end.
Fixpoint fields_of (fs : list gfield) (number : Z) : list sfield :=
  match fs with
  | [] => []
  | GField false _ _ :: r => fields_of r number
  | GField true tag ft :: r =>
      let num0 := w16 number in
      let '(num, fl0, forced) :=
        match tag with
        | None => (num0, 0, None)
        | Some tg => (w16 (tag_number tg), fl0_of tg, forced_of tg ft)
        end in
      let '(fl, c) := fc_of fl0 num forced ft in
      SField num (w8 (proto_sizeOfTag num (wire c))) fl ft c :: fields_of r (number + 1)
  end.
Lemma codec_of_struct fs : codec_of (TStruct fs) = CStruct (inlined_ty (TStruct fs)) (fields_of fs 1).
Proof. reflexivity. Qed.

Definition felem_ok (ft : gty) : bool :=
  match ft with
  | TSlice et => elem_ok et
  | TMap kt vt => (match kt with
                   | TBool | TInt | TInt32 | TInt64 | TUint | TUint32 | TUint64 | TString => true
                   | _ => false end) && elem_ok vt
  | _ => elem_ok ft
  end.
Lemma elem_ok_cons e tg ft r : elem_ok (TStruct (GField e tg ft :: r)) = e && felem_ok ft && elem_ok (TStruct r).
Proof. reflexivity. Qed.
Lemma wf_struct_cons e tg ft r x vr :
  wf_val (TStruct (GField e tg ft :: r)) (VStruct (x :: vr)) = wf_val ft x && wf_val (TStruct r) (VStruct vr).
Proof. reflexivity. Qed.
Definition nfields : list sfield -> bool :=
  fix go (fs : list sfield) : bool :=
    match fs with
    | [] => true
    | SField n _ _ _ c' :: r => (1 <=? n) && (n <? 2 ^ 16) && numbers_ok c' && go r
    end.
Lemma numbers_ok_struct i sfs : numbers_ok (CStruct i sfs) = distinct (map sf_number sfs) && nfields sfs.
Proof. reflexivity. Qed.
Lemma cok_struct_cons i n ts fl t c r :
  cok (CStruct i (SField n ts fl t c :: r)) =
  ((1 <= n < 2 ^ 16 /\ ts = proto_sizeOfTag n (wire c) /\ 0 <= fl < 8 /\ cok c) /\ cok (CStruct i r)).
Proof. reflexivity. Qed.
Lemma vok_struct_cons i n ts fl t c r x vr :
  vok (CStruct i (SField n ts fl t c :: r)) (VStruct (x :: vr)) = (vok c x /\ vok (CStruct i r) (VStruct vr)).
Proof. reflexivity. Qed.

Fixpoint ty_size (t : gty) : nat :=
  match t with
  | TPtr t' => S (ty_size t')
  | TSlice t' => S (ty_size t')
  | TMap k v => S (ty_size k + ty_size v)%nat
  | TStruct fs => S ((fix go (fs : list gfield) : nat :=
                        match fs with [] => O | GField _ _ ft :: r => (ty_size ft + go r)%nat end) fs)
  | _ => 1%nat
  end.
Lemma ty_size_cons e tg ft r : ty_size (TStruct (GField e tg ft :: r)) = (ty_size ft + ty_size (TStruct r))%nat.
Proof. cbn [ty_size]. lia. Qed.

Definition B (t : gty) : Prop :=
  elem_ok t = true -> numbers_ok (codec_of t) = true ->
  cok (codec_of t) /\ forall v, wf_val t v = true -> vok (codec_of t) v.

Lemma cok_pointers_to ft c0 : cok c0 -> cok (pointers_to ft c0).
Proof. intros H. induction ft; cbn [pointers_to cok]; auto. Qed.
Lemma vok_pointers_to T0 c0 : (match T0 with TPtr _ => False | _ => True end) ->
  (forall y, wf_val T0 y = true -> vok c0 y) ->
  forall ft x, base_ty ft = T0 -> wf_val ft x = true -> vok (pointers_to ft c0) x.
Proof.
  intros HT H0. induction ft; intros x Hb Hw; cbn [base_ty] in Hb;
    try (subst T0; cbn [pointers_to]; now apply H0).
  cbn [pointers_to]. destruct x; cbn [wf_val] in Hw; try discriminate.
  destruct o as [y|]; cbn [vok]; [|exact I]. now apply IHft.
Qed.

Ltac bool_hyps :=
  repeat match goal with
         | H : _ && _ = true |- _ => apply andb_prop in H; destruct H
         end.

Lemma B_scalars t :
  match t with TPtr _ | TStruct _ | TSlice _ | TMap _ _ => True | _ => B t end.
Proof.
  destruct t; try exact I; intros _ _; (split; [exact I|]); intros v Hw;
    destruct v; cbn [wf_val] in Hw; try discriminate; cbn [codec_of vok]; unfold i64, u64, u32; bool_hyps;
    repeat split; try assumption; try lia.
Qed.

Lemma forced_cases tg ft fc : forced_of tg ft = Some fc ->
  (base_ty ft = TUint32 /\ fc = pointers_to ft CFixed32) \/ (base_ty ft = TFloat32 /\ fc = pointers_to ft CFloat32) \/
  (base_ty ft = TUint64 /\ fc = pointers_to ft CFixed64) \/ (base_ty ft = TFloat64 /\ fc = pointers_to ft CFloat64).
Proof.
  unfold forced_of. destruct (tag_wire tg =? proto_fixed32); [|destruct (tag_wire tg =? proto_fixed64)];
    destruct (base_ty ft); intros H; inversion H; auto.
Qed.

Lemma fl0_range tg : fl0_of tg = 0 \/ fl0_of tg = 2 \/ fl0_of tg = 4 \/ fl0_of tg = 6.
Proof. unfold fl0_of. destruct (tag_repeated tg), (tag_zigzag tg); cbv; auto. Qed.

Lemma fc_of_ok fl0 num forced ft :
  (fl0 = 0 \/ fl0 = 2 \/ fl0 = 4 \/ fl0 = 6) ->
  (forced = None \/ exists tg, forced = forced_of tg ft) ->
  (forall t, (ty_size t <= ty_size ft)%nat -> B t) ->
  felem_ok ft = true -> 1 <= num < 2 ^ 16 -> numbers_ok (snd (fc_of fl0 num forced ft)) = true ->
  0 <= fst (fc_of fl0 num forced ft) < 8 /\ cok (snd (fc_of fl0 num forced ft)) /\
  forall x, wf_val ft x = true -> vok (snd (fc_of fl0 num forced ft)) x.
Proof.
  intros Hfl0 Hforced IH Hel Hnum Hno.
  assert (Hflr : forall (b : bool), 0 <= fl0 < 8 /\ 0 <= Z.lor fl0 proto_embedded < 8 /\
             0 <= Z.lor (if b then Z.lor fl0 proto_embedded else fl0) proto_repeated < 8 /\
             0 <= Z.lor fl0 (Z.lor proto_embedded proto_repeated) < 8).
  { intros b. destruct b; destruct Hfl0 as [->|[->|[->| ->]]]; cbv; repeat split; discriminate. }
  destruct forced as [fc|].
  - (* forced fixed-width codec *)
    destruct Hforced as [Hx|(tg & Hx)]; [discriminate|]. symmetry in Hx.
    cbn [fc_of fst snd]. split; [apply (Hflr true)|].
    destruct (forced_cases tg ft fc Hx) as [(Hb & ->)|[(Hb & ->)|[(Hb & ->)|(Hb & ->)]]];
      (split; [now apply cok_pointers_to|]); intros x Hw;
      eapply vok_pointers_to; try eassumption; try exact I;
      intros y Hy; destruct y; cbn [wf_val] in Hy; try discriminate; cbn [vok]; unfold u32, u64; lia.
  - destruct ft as [ | | | | | | | | | | |n0|t'|fs0|et|kt vt| ]; cbn [fc_of fst snd] in *; cbv zeta in *;
      try (match goal with
           | |- context [is_struct (base_ty ?X)] =>
               destruct (is_struct (base_ty X)); cbn [fst snd] in *;
               (split; [destruct (Hflr true) as (A1 & A2 & _); assumption|]);
               (apply (IH X); [lia|exact Hel|exact Hno])
           end).
    + (* slice *)
      cbn [numbers_ok] in Hno. bool_hyps.
      destruct (IH et ltac:(cbn [ty_size]; lia) Hel ltac:(assumption)) as (Hc & Hv).
      split; [apply Hflr|]. split.
      * cbn [cok]. split; [assumption|split; [now apply cok_wire|assumption]].
      * intros x Hw. destruct x; cbn [wf_val] in Hw; try discriminate. cbn [vok].
        bool_hyps. repeat match goal with H : context [len es] |- _ => clear H end. induction es as [|e er IHe]; constructor; bool_hyps; auto.
    + (* map *)
      cbn [numbers_ok] in Hno. unfold felem_ok in Hel. bool_hyps.
      assert (Hk : elem_ok kt = true) by (destruct kt; try discriminate; reflexivity).
      destruct (IH kt ltac:(cbn [ty_size]; lia) Hk ltac:(assumption)) as (Hck & Hvk).
      destruct (IH vt ltac:(cbn [ty_size]; lia) ltac:(assumption) ltac:(assumption)) as (Hcv & Hvv).
      split; [apply (Hflr true)|]. split.
      * cbn [cok]. auto.
      * intros x Hw. destruct x; cbn [wf_val] in Hw; try discriminate. cbn [vok].
        bool_hyps. repeat match goal with H : context [len es] |- _ => clear H end. induction es as [|[k e] er IHe]; constructor; bool_hyps; cbn [fst snd]; auto.
Qed.

Lemma w8_tagsize num c : 1 <= num < 2 ^ 16 -> cok c ->
  w8 (proto_sizeOfTag num (wire c)) = proto_sizeOfTag num (wire c).
Proof.
  intros Hn Hc. pose proof (cok_wire c Hc) as Hw. rewrite sizeOfTag_len by assumption.
  pose proof (varint_len_bounds _ (tag_u64 _ _ Hn Hw)). unfold w8. apply Z.mod_small. lia.
Qed.

Lemma B_fields i fs : (forall t, (ty_size t < ty_size (TStruct fs))%nat -> B t) ->
  forall number, elem_ok (TStruct fs) = true -> nfields (fields_of fs number) = true ->
  cok (CStruct i (fields_of fs number)) /\
  forall vs, wf_val (TStruct fs) (VStruct vs) = true -> vok (CStruct i (fields_of fs number)) (VStruct vs).
Proof.
  induction fs as [|[e tg ft] r IHr]; intros IH number Hel Hno.
  - split; [exact I|]. intros [|x vr] Hw; [exact I|discriminate].
  - rewrite elem_ok_cons in Hel. bool_hyps. subst e.
    assert (IHr' : forall t, (ty_size t < ty_size (TStruct r))%nat -> B t).
    { intros t Ht. apply IH. rewrite ty_size_cons. lia. }
    assert (IHft : forall t, (ty_size t <= ty_size ft)%nat -> B t).
    { intros t Ht. apply IH. rewrite ty_size_cons. cbn [ty_size]. lia. }
    cbn [fields_of] in *. cbv zeta in *.
    set (nff := match tg with
                | Some tg0 => (w16 (tag_number tg0), fl0_of tg0, forced_of tg0 ft)
                | None => (w16 number, 0, None)
                end) in *.
    assert (Hnff : (fst (fst nff) = w16 number \/ exists tg0, fst (fst nff) = w16 (tag_number tg0)) /\
                   (snd (fst nff) = 0 \/ snd (fst nff) = 2 \/ snd (fst nff) = 4 \/ snd (fst nff) = 6) /\
                   (snd nff = None \/ exists tg0, snd nff = forced_of tg0 ft)).
    { subst nff. destruct tg as [tg0|]; cbn [fst snd].
      - split; [right; now exists tg0|]. split; [apply fl0_range|right; now exists tg0].
      - split; [now left|]. split; [now left|now left]. }
    destruct nff as [[num fl0] forced]. cbn [fst snd] in Hnff. destruct Hnff as (_ & Hfl0 & Hforced).
    pose proof (fc_of_ok fl0 num forced ft Hfl0 Hforced IHft H1) as Hfc.
    destruct (fc_of fl0 num forced ft) as [fl c]. cbn [fst snd] in Hfc.
    cbn [nfields] in Hno. bool_hyps.
    assert (Hnum : 1 <= num < 2 ^ 16) by lia.
    destruct (Hfc Hnum ltac:(assumption)) as (F1 & F2 & F3).
    destruct (IHr IHr' (number + 1) H0 ltac:(assumption)) as (R1 & R2).
    split.
    + rewrite cok_struct_cons. split; [|exact R1].
      split; [assumption|split; [now apply w8_tagsize|split; assumption]].
    + intros [|x vr] Hw; [discriminate|]. rewrite wf_struct_cons in Hw. bool_hyps.
      rewrite vok_struct_cons. split; [now apply F3|now apply R2].
Qed.

Lemma B_all : forall n t, (ty_size t < n)%nat -> B t.
Proof.
  induction n as [|n IHn]; intros t Hn; [lia|].
  destruct t; try exact (B_scalars TBool); try exact (B_scalars TInt); try exact (B_scalars TInt32);
    try exact (B_scalars TInt64); try exact (B_scalars TUint); try exact (B_scalars TUint32);
    try exact (B_scalars TUint64); try exact (B_scalars TFloat32); try exact (B_scalars TFloat64);
    try exact (B_scalars TString); try exact (B_scalars TBytes); try exact (B_scalars (TByteArray n0));
    try exact (B_scalars TRawMessage).
  - (* pointer *)
    intros Hel Hno. cbn [elem_ok codec_of numbers_ok] in *.
    destruct (IHn t ltac:(cbn [ty_size] in Hn; lia) Hel Hno) as (Hc & Hv).
    split; [exact Hc|]. intros v Hw. destruct v; cbn [wf_val] in Hw; try discriminate.
    destruct o as [x|]; cbn [vok]; [now apply Hv|exact I].
  - (* struct *)
    intros Hel Hno. rewrite codec_of_struct in *. rewrite numbers_ok_struct in Hno. bool_hyps.
    destruct (B_fields (inlined_ty (TStruct fs)) fs) with (number := 1) as (Hc & Hv); try assumption.
    { intros t Ht. apply IHn. lia. }
    split; [exact Hc|]. intros v Hw. destruct v; cbn [wf_val] in Hw; try discriminate.
    now apply Hv.
  - intros Hel; discriminate.
  - intros Hel; discriminate.
Qed.

Lemma bridge t v : type_ok t = true -> numbers_ok (codec_of t) = true -> wf_val t v = true ->
  cok (codec_of t) /\ vok (codec_of t) v.
Proof.
  intros Ht Hn Hv. destruct (B_all (S (ty_size t)) t ltac:(lia) Ht Hn) as (Hc & Hvo). split; auto.
Qed.

(* ================= 15. the statements of Spec.v ================= *)
Lemma encode_exact : encode_exact_statement.
Proof.
  intros t v flags Ht Hn Hv Hfl c n Hlim. subst c n.
  destruct (bridge t v Ht Hn Hv) as (Hc & Hvo).
  destruct (G_all (codec_of t) Hc (Some v) flags Hvo Hfl) as (H0 & Hex).
  split; [exact H0|]. destruct (Hex Hlim) as (bs & W & L & F & S).
  exists bs. split; [exact L|split; [exact W|split; [exact F|exact S]]].
Qed.

Lemma top_flags_ok : flags_ok top_flags.
Proof. cbv. split; [discriminate|reflexivity]. Qed.

Lemma marshal_to_fits : marshal_to_fits_statement.
Proof.
  intros t v b (Ht & Hn & Hv & Hs0 & Hlim) Hb.
  destruct (encode_exact t v top_flags Ht Hn Hv top_flags_ok Hlim) as (_ & bs & L & W & F & S).
  fold top_flags in Hs0, Hlim. unfold Size in *. exists bs. split.
  - unfold Marshal. cbv zeta. destruct (size_of (codec_of t) (Some v) top_flags <? 0) eqn:E; [lia|].
    rewrite F by (rewrite len_repeat; lia). cbn [rbind].
    rewrite skipn_all2 by (rewrite repeat_length; lia). now rewrite app_nil_r.
  - unfold MarshalTo. now apply F.
Qed.
Lemma marshal_never_fails : marshal_never_fails_statement.
Proof.
  intros t v Hu. pose proof Hu as (Ht & Hn & Hv & Hs0 & Hlim).
  destruct (encode_exact t v top_flags Ht Hn Hv top_flags_ok Hlim) as (_ & bs & L & W & F & S).
  fold top_flags in Hs0, Hlim. unfold Size in *. exists bs. split; [|exact L].
  unfold Marshal. cbv zeta. destruct (size_of (codec_of t) (Some v) top_flags <? 0) eqn:E; [lia|].
  rewrite F by (rewrite len_repeat; lia). cbn [rbind].
  rewrite skipn_all2 by (rewrite repeat_length; lia). now rewrite app_nil_r.
Qed.
Lemma marshal_to_short : marshal_to_short_statement.
Proof.
  intros t v b (Ht & Hn & Hv & Hs0 & Hlim) Hb.
  destruct (encode_exact t v top_flags Ht Hn Hv top_flags_ok Hlim) as (_ & bs & L & W & F & S).
  unfold MarshalTo, Size in *. now apply S.
Qed.
