(* C12 proofs (WireDecProofs): the package's decoder against the transcribed specification (Proto/WireSpec.v).
   - unmarshal_refines_refuted: the statement (b1) of WireSpec.v is false as written: a zigzag struct tag on a
     struct-typed field is inherited by the integers inside (the struct codec hands its flags down), while
     ptype_of ignores the tag of such a field
   - unmarshal_refines_zz: the statement with the extra hypothesis zz_ok (no zigzag tag on a field whose base type
     is a struct), proved
   Layout: D1 primitives on arbitrary bytes, D2 one iteration of the struct loop on an arbitrary record,
   A specification decoder with named pieces, B scalars, C0/C the struct loop against merge_records,
   E pointers / singular / repeated fields, M map fields, then the induction over types and Unmarshal. *)
From Coq Require Import ZArith List Bool Lia.
From Verif Require Import Base.GoInt Proto.Ext Generated.ProtoGen Proto.Model Proto.PrimSpec Proto.PrimProofs Proto.Spec Proto.WireSpec Proto.DecProofs Proto.RoundTrip.
Import ListNotations.
Open Scope Z_scope.

Module D1.
Local Transparent proto_decodeTag proto_decodeVarlen proto_decodeLE32 proto_decodeLE64 proto_decodeVarint.

(* ---------- small helpers ---------- *)
Lemma d1_len_nn : forall A (l : list A), 0 <= len l.
Proof. intros. unfold len. lia. Qed.

Lemma d1_wfb_cons : forall c l, wfb (c :: l) = true -> 0 <= c < 256 /\ wfb l = true.
Proof.
  intros c l H. unfold wfb in *. cbn [forallb] in H.
  apply andb_prop in H. destruct H as [Hc Hl].
  unfold is_byte in Hc. apply andb_prop in Hc. destruct Hc as [H1 H2].
  apply Z.leb_le in H1. apply Z.ltb_lt in H2. split; [lia | exact Hl].
Qed.

Lemma d1_some3 : forall (a a' b b' : Z) (c c' : bytes),
  Some (a, b, c) = Some (a', b', c') -> a = a' /\ b = b' /\ c = c'.
Proof. intros a a' b b' c c' H. inversion H. auto. Qed.

(* ---------- gv_split ---------- *)
Lemma gv_split : forall k b v n r, get_varint_k k b = Some (v, n, r) ->
  exists pre, b = pre ++ r /\ len pre = n /\ 1 <= n <= Z.of_nat k /\
              (forall r', get_varint_k k (pre ++ r') = Some (v, n, r')).
Proof.
  induction k as [|k IH]; intros b v n r H.
  - cbn [get_varint_k] in H. discriminate.
  - destruct b as [|c r0]; [cbn [get_varint_k] in H; discriminate|].
    cbn [get_varint_k] in H.
    destruct (c <? 128) eqn:Ec.
    + destruct (Nat.eqb k 0 && (1 <? c)) eqn:Ek; [discriminate|].
      apply d1_some3 in H; destruct H as (Hv_ & Hn_ & Hr_); subst v n r. exists [c].
      split; [reflexivity|]. split; [reflexivity|]. split; [lia|].
      intros r'. cbn [app get_varint_k]. rewrite Ec, Ek. reflexivity.
    + destruct (get_varint_k k r0) as [[[v' n'] r1]|] eqn:Er; [|discriminate].
      apply d1_some3 in H; destruct H as (Hv_ & Hn_ & Hr_); subst v n r.
      destruct (IH _ _ _ _ Er) as (pre & E1 & E2 & E3 & E4).
      exists (c :: pre).
      split; [rewrite E1; reflexivity|].
      split; [rewrite len_cons; lia|].
      split; [lia|].
      intros r'. cbn [app get_varint_k]. rewrite Ec, E4. reflexivity.
Qed.

(* ---------- ranges ---------- *)
Lemma gv_range : forall f l v n r, get_varint_k (S f) l = Some (v, n, r) -> wfb l = true ->
  0 <= v < 2 * 128 ^ Z.of_nat f.
Proof.
  induction f as [|f IH]; intros l v n r H W.
  - destruct l as [|c r0]; [cbn [get_varint_k] in H; discriminate|].
    apply d1_wfb_cons in W. destruct W as [Hc W].
    cbn [get_varint_k] in H.
    destruct (Z.ltb_spec c 128).
    + cbn [Nat.eqb andb] in H. destruct (Z.ltb_spec 1 c); [discriminate|].
      apply d1_some3 in H; destruct H as (Hv_ & Hn_ & Hr_); subst v n r. change (128 ^ Z.of_nat 0) with 1. lia.
    + destruct r0; discriminate.
  - destruct l as [|c r0]; [cbn [get_varint_k] in H; discriminate|].
    apply d1_wfb_cons in W. destruct W as [Hc W].
    remember (S f) as f1.
    cbn [get_varint_k] in H.
    assert (P : 128 ^ Z.of_nat f1 = 128 * 128 ^ Z.of_nat f).
    { subst f1. rewrite Nat2Z.inj_succ. rewrite Z.pow_succ_r by lia. reflexivity. }
    assert (Q : 0 < 128 ^ Z.of_nat f) by (apply Z.pow_pos_nonneg; lia).
    destruct (Z.ltb_spec c 128).
    + destruct (Nat.eqb f1 0 && (1 <? c)); [discriminate|].
      apply d1_some3 in H; destruct H as (Hv_ & Hn_ & Hr_); subst v n r. rewrite P. lia.
    + destruct (get_varint_k f1 r0) as [[[v' n'] r1]|] eqn:Er; [|discriminate].
      apply d1_some3 in H; destruct H as (Hv_ & Hn_ & Hr_); subst v n r. subst f1.
      pose proof (IH _ _ _ _ Er W) as B. rewrite P. lia.
Qed.

(* ---------- the loop ---------- *)
Lemma gv_loop : forall f l v n r lb i x,
  get_varint_k (S f) l = Some (v, n, r) -> wfb l = true ->
  0 <= i -> i + Z.of_nat f = 9 -> 0 <= x < 2 ^ (7 * i) -> x + v * 2 ^ (7 * i) < 2 ^ 64 ->
  dv_loop lb l i x (7 * i) = (x + v * 2 ^ (7 * i), i + n, None).
Proof.
  induction f as [|f IH]; intros l v n r lb i x H W Hi Hf Hx Hb.
  - assert (i = 9) by lia. subst i. change (7 * 9) with 63 in *.
    destruct l as [|c r0]; [cbn [get_varint_k] in H; discriminate|].
    apply d1_wfb_cons in W. destruct W as [Hc W].
    cbn [get_varint_k] in H.
    destruct (Z.ltb_spec c 128) as [C|C].
    + cbn [Nat.eqb andb] in H. destruct (Z.ltb_spec 1 c); [discriminate|].
      apply d1_some3 in H; destruct H as (Hv_ & Hn_ & Hr_); subst v n r.
      cbn [dv_loop]. destruct (Z.ltb_spec c 128); [|lia].
      change (9 >? 9) with false. change (9 =? 9) with true. cbn [orb andb].
      destruct (Z.gtb_spec c 1); [lia|].
      change (2 ^ 63) with 9223372036854775808 in *.
      change (2 ^ 64) with 18446744073709551616 in *.
      rewrite shl64_mul by lia. change (2 ^ 63) with 9223372036854775808.
      rewrite w64_small by (change (2 ^ 64) with 18446744073709551616; lia).
      unfold or64. change 9223372036854775808 with (2 ^ 63) at 1.
      rewrite lor_add by (change (2 ^ 63) with 9223372036854775808; lia).
      reflexivity.
    + destruct r0; discriminate.
  - destruct l as [|c r0]; [cbn [get_varint_k] in H; discriminate|].
    apply d1_wfb_cons in W. destruct W as [Hc W].
    assert (P : 0 < 2 ^ (7 * i)) by (apply Z.pow_pos_nonneg; lia).
    assert (P7 : 2 ^ (7 * (i + 1)) = 128 * 2 ^ (7 * i)).
    { replace (7 * (i + 1)) with (7 * i + 7) by lia. rewrite Z.pow_add_r by lia.
      change (2 ^ 7) with 128. lia. }
    remember (S f) as f1.
    cbn [get_varint_k] in H.
    destruct (Z.ltb_spec c 128) as [C|C].
    + destruct (Nat.eqb f1 0 && (1 <? c)); [discriminate|].
      apply d1_some3 in H; destruct H as (Hv_ & Hn_ & Hr_); subst v n r.
      cbn [dv_loop]. destruct (Z.ltb_spec c 128); [|lia].
      destruct (Z.gtb_spec i 9); [lia|]. destruct (Z.eqb_spec i 9); [lia|]. cbn [orb andb].
      assert (0 <= c * 2 ^ (7 * i)) by (apply Z.mul_nonneg_nonneg; lia).
      rewrite shl64_mul by lia. rewrite w64_small by lia.
      unfold or64. rewrite lor_add by lia.
      unfold addi64. rewrite s64_small by (change (2 ^ 63) with 9223372036854775808; lia).
      reflexivity.
    + destruct (get_varint_k f1 r0) as [[[v' n'] r1]|] eqn:Er; [|discriminate].
      apply d1_some3 in H; destruct H as (Hv_ & Hn_ & Hr_); subst v n r. subst f1.
      pose proof (gv_range _ _ _ _ _ Er W) as Rv.
      assert (Q : 0 < 128 ^ Z.of_nat f) by (apply Z.pow_pos_nonneg; lia).
      cbn [dv_loop]. destruct (Z.ltb_spec c 128); [lia|].
      unfold and8. rewrite land127 by lia.
      assert (M : c mod 128 = c - 128).
      { replace c with ((c - 128) + 1 * 128) at 1 by lia. rewrite Z.mod_add by lia.
        apply Z.mod_small. lia. }
      rewrite M.
      assert (B1 : 0 <= (c - 128) * 2 ^ (7 * i)) by (apply Z.mul_nonneg_nonneg; lia).
      assert (B2 : 0 <= v' * (128 * 2 ^ (7 * i))) by (apply Z.mul_nonneg_nonneg; lia).
      assert (E : x + (c - 128 + 128 * v') * 2 ^ (7 * i)
                  = x + (c - 128) * 2 ^ (7 * i) + v' * (128 * 2 ^ (7 * i))) by ring.
      assert (B3 : (c - 128) * 2 ^ (7 * i) <= 127 * 2 ^ (7 * i)) by (apply Z.mul_le_mono_nonneg_r; lia).
      rewrite shl64_mul by lia.
      rewrite w64_small by lia.
      unfold or64. rewrite lor_add by lia.
      unfold add64. rewrite w64_small by (change (2 ^ 64) with 18446744073709551616; lia).
      replace (7 * i + 7) with (7 * (i + 1)) by lia.
      rewrite (IH r0 v' n' r1 lb (i + 1) (x + (c - 128) * 2 ^ (7 * i)) Er W) by lia.
      rewrite P7. rewrite E. f_equal. f_equal. lia.
Qed.

Lemma skipn_len_app : forall (pre r : bytes), skipn (Z.to_nat (len pre)) (pre ++ r) = r.
Proof.
  intros. unfold len. rewrite Nat2Z.id.
  rewrite skipn_app. rewrite skipn_all. rewrite Nat.sub_diag. reflexivity.
Qed.

Lemma gv_dv : forall b v n r, get_varint b = Some (v, n, r) -> wfb b = true ->
  proto_decodeVarint b = (v, n, None) /\ r = skipn (Z.to_nat n) b /\ 1 <= n <= 10 /\ n <= len b /\ 0 <= v < 2 ^ 64.
Proof.
  intros b v n r H W. unfold get_varint in H.
  pose proof (gv_range _ _ _ _ _ H W) as R.
  change (2 * 128 ^ Z.of_nat 9) with (2 ^ 64) in R.
  destruct (gv_split _ _ _ _ _ H) as (pre & E1 & E2 & E3 & _).
  change (Z.of_nat 10) with 10 in E3.
  assert (D : proto_decodeVarint b = (v, n, None)).
  { rewrite decodeVarint_unfold.
    destruct b as [|c r0]; [cbn [get_varint_k] in H; discriminate|].
    pose proof (d1_wfb_cons _ _ W) as [Hc _].
    rewrite len_cons. unfold at_. cbn [Z.to_nat nth].
    pose proof (d1_len_nn _ r0) as Hl.
    destruct (Z.eqb_spec (len r0 + 1) 0); [lia|]. cbn [negb andb].
    destruct (Z.ltb_spec c 128) as [C|C].
    - cbn [get_varint_k] in H. destruct (Z.ltb_spec c 128); [|lia].
      cbn [Nat.eqb andb] in H. apply d1_some3 in H; destruct H as (Hv_ & Hn_ & Hr_); subst v n r. reflexivity.
    - rewrite (gv_loop 9 (c :: r0) v n r _ 0 0 H W); change (2 ^ (7 * 0)) with 1; try lia.
      f_equal. f_equal. lia. }
  split; [exact D|].
  split; [rewrite E1, <- E2; symmetry; apply skipn_len_app|].
  split; [lia|].
  split; [|exact R].
  rewrite E1, len_app. pose proof (d1_len_nn _ r). lia.
Qed.

Lemma gv_tag : forall b v n r, get_varint b = Some (v, n, r) -> wfb b = true ->
  proto_decodeTag b = (v / 8, v mod 8, n, None).
Proof.
  intros b v n r H W.
  destruct (gv_dv _ _ _ _ H W) as (D & _).
  unfold proto_decodeTag. rewrite D.
  rewrite shr64_div by lia. unfold and64. rewrite land7.
  change (2 ^ 3) with 8. reflexivity.
Qed.

Lemma le_load_le_val : forall n b, le_load n b = le_val (firstn n b).
Proof.
  induction n as [|n IH]; intros b.
  - reflexivity.
  - destruct b as [|x r]; [reflexivity|].
    cbn [le_load firstn le_val]. rewrite IH. reflexivity.
Qed.

Lemma le_val_le32 : forall b, wfb b = true -> 4 <= len b -> proto_decodeLE32 b = (le_val (firstn 4 b), 4, None).
Proof.
  intros b _ H. unfold proto_decodeLE32.
  destruct (Z.ltb_spec (len b) 4); [lia|].
  unfold le32. rewrite le_load_le_val. reflexivity.
Qed.

Lemma le_val_le64 : forall b, wfb b = true -> 8 <= len b -> proto_decodeLE64 b = (le_val (firstn 8 b), 8, None).
Proof.
  intros b _ H. unfold proto_decodeLE64.
  destruct (Z.ltb_spec (len b) 8); [lia|].
  unfold le64. rewrite le_load_le_val. reflexivity.
Qed.

Lemma le_val_range : forall s, wfb s = true -> 0 <= le_val s < 256 ^ (len s).
Proof.
  induction s as [|c s IH]; intros W.
  - cbn [le_val]. rewrite len_nil. change (256 ^ 0) with 1. lia.
  - apply d1_wfb_cons in W. destruct W as [Hc W]. specialize (IH W).
    cbn [le_val]. rewrite len_cons.
    rewrite Z.pow_add_r by (pose proof (d1_len_nn _ s); lia).
    change (256 ^ 1) with 256. lia.
Qed.

Lemma gv_varlen : forall b l n r, get_varint b = Some (l, n, r) -> wfb b = true -> len b < 2 ^ 62 -> l <= len r ->
  proto_decodeVarlen b = (firstn (Z.to_nat l) r, n + l, None).
Proof.
  intros b l n r H W Hb Hl.
  destruct (gv_dv _ _ _ _ H W) as (D & Er & Hn & Hnb & Hv).
  unfold proto_decodeVarlen. rewrite D. cbn [isnil negb].
  assert (Lr : len r = len b - n).
  { rewrite Er. apply (len_slice_from b n). lia. }
  change (2 ^ 62) with 4611686018427387904 in Hb.
  unfold subi64.
  rewrite (s64_small (len b - n)) by (change (2 ^ 63) with 9223372036854775808; lia).
  rewrite w64_small by (change (2 ^ 64) with 18446744073709551616; lia).
  destruct (Z.gtb_spec l (len b - n)); [lia|].
  rewrite (s64_small l) by (change (2 ^ 63) with 9223372036854775808; lia).
  unfold addi64.
  rewrite (s64_small (n + l)) by (change (2 ^ 63) with 9223372036854775808; lia).
  unfold slice. replace (n + l - n) with l by lia. rewrite <- Er. reflexivity.
Qed.
End D1.
Export D1.

Module D2.
Definition wt_w (w : wval) : Z := match w with WVarint _ _ => 0 | WFix64 _ => 1 | WLen _ => 2 | WFix32 _ => 5 end.
(* the data window the struct loop hands to the codec of a field, for one record payload *)
Definition win (emb : bool) (w : wval) (data : bytes) : Prop :=
  match w with
  | WVarint z n => get_varint data = Some (z, n, [])
  | WFix64 z => len data = 8 /\ le_val data = z
  | WFix32 z => len data = 4 /\ le_val data = z
  | WLen s => if emb then data = s else exists n, get_varint data = Some (len s, n, s)
  end.

(* ---------- small facts ---------- *)
Lemma wfb_app (a b : bytes) : wfb (a ++ b) = true <-> wfb a = true /\ wfb b = true.
Proof. unfold wfb. rewrite forallb_app. apply andb_true_iff. Qed.

Lemma len_firstn_le (n : nat) (r : bytes) : Z.of_nat n <= len r -> len (firstn n r) = Z.of_nat n.
Proof. unfold len. rewrite firstn_length. lia. Qed.

(* ---------- the shape of one record: tag bytes, payload bytes, remainder ---------- *)
Definition body_ok (w : wval) (body : bytes) : Prop :=
  match w with
  | WVarint z n => len body = n /\ 1 <= n <= 10 /\ (forall r', get_varint (body ++ r') = Some (z, n, r'))
  | WFix64 z => len body = 8 /\ le_val body = z
  | WFix32 z => len body = 4 /\ le_val body = z
  | WLen s => exists lb n, body = lb ++ s /\ len lb = n /\ 1 <= n <= 10 /\
                           (forall r', get_varint (lb ++ r') = Some (len s, n, r'))
  end.

Lemma get_record_shape : forall rb num w rest, get_record rb = Some (num, w, rest) -> wfb rb = true ->
  exists tgb body,
    rb = tgb ++ body ++ rest /\ 1 <= len tgb <= 10 /\ 1 <= num <= max_field_number /\
    (forall r', wfb (tgb ++ r') = true -> proto_decodeTag (tgb ++ r') = (num, wt_w w, len tgb, None)) /\
    body_ok w body.
Proof.
  intros rb num w rest H Hwf. unfold get_record in H.
  destruct (get_varint rb) as [[[tg n0] r]|] eqn:Et; [|discriminate].
  unfold get_varint in Et. destruct (gv_split _ _ _ _ _ Et) as (tgb & Hrb & Hn0 & Hn0r & Htg).
  cbv zeta in H.
  destruct ((tg / 8 <? 1) || (max_field_number <? tg / 8)) eqn:Eb; [discriminate|].
  assert (Hnum : 1 <= tg / 8 <= max_field_number) by lia.
  assert (Hwr : wfb r = true) by (rewrite Hrb in Hwf; apply wfb_app in Hwf; tauto).
  assert (HT : forall wt, tg mod 8 = wt -> forall r', wfb (tgb ++ r') = true ->
                proto_decodeTag (tgb ++ r') = (tg / 8, wt, len tgb, None)).
  { intros wt <- r' Hw'. rewrite (gv_tag (tgb ++ r') tg n0 r'); [rewrite Hn0; reflexivity | apply Htg | exact Hw']. }
  destruct (tg mod 8 =? 0) eqn:E0.
  { destruct (get_varint r) as [[[z n] r']|] eqn:Ev; [|discriminate]. inversion H; subst num w rest. clear H.
    unfold get_varint in Ev. destruct (gv_split _ _ _ _ _ Ev) as (body & Hr & Hn & Hnr & Hb).
    exists tgb, body. split; [rewrite Hrb, Hr; reflexivity|]. split; [lia|]. split; [exact Hnum|].
    split; [apply HT; cbn [wt_w]; lia|]. cbn [body_ok]. split; [exact Hn|]. split; [lia|]. exact Hb. }
  destruct (tg mod 8 =? 1) eqn:E1.
  { destruct (len r <? 8) eqn:El; [discriminate|]. inversion H; subst num w rest. clear H.
    exists tgb, (firstn 8 r). split; [rewrite firstn_skipn; exact Hrb|]. split; [lia|]. split; [exact Hnum|].
    split; [apply HT; cbn [wt_w]; lia|]. cbn [body_ok]. split; [|reflexivity].
    apply (len_firstn_le 8 r). lia. }
  destruct (tg mod 8 =? 2) eqn:E2.
  { destruct (get_varint r) as [[[l n] r']|] eqn:Ev; [|discriminate].
    destruct (len r' <? l) eqn:El; [discriminate|]. inversion H; subst num w rest. clear H.
    destruct (gv_dv _ _ _ _ Ev Hwr) as (_ & _ & _ & _ & Hl).
    unfold get_varint in Ev. destruct (gv_split _ _ _ _ _ Ev) as (lb & Hr & Hn & Hnr & Hb).
    assert (Hls : len (firstn (Z.to_nat l) r') = l).
    { rewrite len_firstn_le; lia. }
    exists tgb, (lb ++ firstn (Z.to_nat l) r'). split.
    { rewrite <- app_assoc, firstn_skipn, <- Hr. exact Hrb. }
    split; [lia|]. split; [exact Hnum|].
    split; [apply HT; cbn [wt_w]; lia|]. cbn [body_ok].
    exists lb, n. split; [reflexivity|]. split; [exact Hn|]. split; [lia|].
    rewrite Hls. exact Hb. }
  destruct (tg mod 8 =? 5) eqn:E5; [|discriminate].
  destruct (len r <? 4) eqn:El; [discriminate|]. inversion H; subst num w rest. clear H.
  exists tgb, (firstn 4 r). split; [rewrite firstn_skipn; exact Hrb|]. split; [lia|]. split; [exact Hnum|].
  split; [apply HT; cbn [wt_w]; lia|]. cbn [body_ok]. split; [|reflexivity].
  apply (len_firstn_le 4 r). lia.
Qed.

Lemma body_ok_len w body : body_ok w body -> 1 <= len body.
Proof.
  destruct w; cbn [body_ok].
  - intros (H1 & H2 & _). lia.
  - intros (H1 & _). lia.
  - intros (lb & n & -> & H1 & H2 & _). rewrite len_app. pose proof (PrimProofs.len_nonneg _ s). lia.
  - intros (H1 & _). lia.
Qed.

Lemma get_record_suffix : forall rb num w rest, get_record rb = Some (num, w, rest) -> wfb rb = true ->
  exists used, rb = used ++ rest /\ 2 <= len used.
Proof.
  intros rb num w rest H Hwf.
  destruct (get_record_shape _ _ _ _ H Hwf) as (tgb & body & Hrb & Htl & _ & _ & Hbo).
  apply body_ok_len in Hbo.
  exists (tgb ++ body). split; [rewrite <- app_assoc; exact Hrb|]. rewrite len_app. lia.
Qed.

Section D2.
  Variable dec : codec -> bytes -> val -> Z -> dres.
  Variable fields : list sfield.
  Variable flags : Z.

  (* a record whose number no field carries is skipped *)
  Lemma sbody_skip : forall b pre rb num w rest vs rec,
    b = pre ++ rb -> wfb b = true -> len b < lim -> get_record rb = Some (num, w, rest) ->
    nth_field fields vs num = None ->
    sbody dec fields b flags (max_number fields) rec (len pre) vs = rec (len b - len rest) vs.
  Proof.
    intros b pre rb num w rest vs rec Hb Hwf Hlim Hrec Hnf.
    rewrite lim_val in Hlim.
    assert (Hwrb : wfb rb = true) by (rewrite Hb in Hwf; apply wfb_app in Hwf; tauto).
    destruct (get_record_shape _ _ _ _ Hrec Hwrb) as (tgb & body & Hrb & Htl & Hnum & Htag & Hw).
    assert (Hb' : b = pre ++ tgb ++ body ++ rest) by (rewrite Hb, Hrb; reflexivity).
    assert (Hb2 : b = (pre ++ tgb) ++ body ++ rest) by (rewrite Hb', <- app_assoc; reflexivity).
    assert (Hlb : len b = len pre + len tgb + len body + len rest) by (rewrite Hb', !len_app; lia).
    pose proof (PrimProofs.len_nonneg _ pre). pose proof (PrimProofs.len_nonneg _ body).
    pose proof (PrimProofs.len_nonneg _ rest).
    assert (Hwbr : wfb (body ++ rest) = true) by (rewrite Hrb in Hwrb; apply wfb_app in Hwrb; tauto).
    assert (Hsf : slice_from b (len pre) = tgb ++ body ++ rest) by (rewrite Hb'; apply slice_from_app).
    assert (Hsf2 : slice_from b (len pre + len tgb) = body ++ rest)
      by (rewrite Hb2, <- len_app; apply slice_from_app).
    unfold sbody.
    replace (negb (len pre <? len b)) with false by lia.
    rewrite cfrom_ok by lia. cbn [rbind]. rewrite Hsf.
    rewrite Htag by (rewrite <- Hrb; exact Hwrb).
    assert (Hfo : forall c : bool, (if c then nth_field fields vs num else None) = None)
      by (intros []; [exact Hnf | reflexivity]).
    rewrite Hfo.
    unfold sunknown; rewrite cfrom_ok by lia; cbn [rbind]; rewrite Hsf2.
    unfold skip_of, proto_varint, proto_varlen, proto_fixed32, proto_fixed64.
    destruct w; cbn [wt_w body_ok Z.eqb Pos.eqb] in *.
    - destruct Hw as (Hl & Hn & Hg).
      destruct (gv_dv _ _ _ _ (Hg rest) Hwbr) as (Hdv & _).
      rewrite Hdv. lazy beta iota.
      rewrite s64_id by lia. replace (len pre + len tgb + nbytes <=? len b) with true by lia.
      f_equal; lia.
    - destruct Hw as (Hl & _).
      rewrite (le_val_le64 (body ++ rest)) by (try assumption; rewrite len_app; lia). lazy beta iota.
      rewrite s64_id by lia. replace (len pre + len tgb + 8 <=? len b) with true by lia.
      f_equal; lia.
    - destruct Hw as (lb & n & -> & Hl & Hn & Hg).
      rewrite len_app in *. pose proof (PrimProofs.len_nonneg _ s).
      assert (Hg' : get_varint ((lb ++ s) ++ rest) = Some (len s, n, s ++ rest)) by (rewrite <- app_assoc; apply Hg).
      destruct (gv_dv _ _ _ _ Hg' Hwbr) as (Hdv & _). rewrite Hdv. lazy beta iota.
      rewrite w64_id by lia. replace (len s >? len b - n) with false by lia.
      rewrite (s64_id (len s)) by lia. rewrite s64_id by lia.
      replace (len pre + len tgb + (n + len s) <=? len b) with true by lia.
      f_equal; lia.
    - destruct Hw as (Hl & _).
      rewrite (le_val_le32 (body ++ rest)) by (try assumption; rewrite len_app; lia). lazy beta iota.
      rewrite s64_id by lia. replace (len pre + len tgb + 4 <=? len b) with true by lia.
      f_equal; lia.
  Qed.

  (* a record of a known field with the expected wire type: the codec gets the right window *)
  Lemma sbody_known : forall b pre rb num w rest vs rec i f,
    b = pre ++ rb -> wfb b = true -> len b < lim -> get_record rb = Some (num, w, rest) ->
    nth_field fields vs num = Some (i, f) -> In f fields -> sf_number f = num ->
    wire (sf_codec f) = wt_w w ->
    exists data, win (sf_embedded f) w data /\ wfb data = true /\ (length data <= length rb)%nat /\
      forall newf, dec (sf_codec f) data (nth i vs (zero_val (sf_ty f))) (make_flags f flags) = Ok (len data, None, newf) ->
        sbody dec fields b flags (max_number fields) rec (len pre) vs = rec (len b - len rest) (set_nth vs i newf).
  Proof.
    intros b pre rb num w rest vs rec i f Hb Hwf Hlim Hrec Hnf Hin Hnumf Hwire.
    rewrite lim_val in Hlim.
    assert (Hwrb : wfb rb = true) by (rewrite Hb in Hwf; apply wfb_app in Hwf; tauto).
    destruct (get_record_shape _ _ _ _ Hrec Hwrb) as (tgb & body & Hrb & Htl & Hnum & Htag & Hw).
    assert (Hb' : b = pre ++ tgb ++ body ++ rest) by (rewrite Hb, Hrb; reflexivity).
    assert (Hb2 : b = (pre ++ tgb) ++ body ++ rest) by (rewrite Hb', <- app_assoc; reflexivity).
    assert (Hlb : len b = len pre + len tgb + len body + len rest) by (rewrite Hb', !len_app; lia).
    pose proof (PrimProofs.len_nonneg _ pre). pose proof (PrimProofs.len_nonneg _ body).
    pose proof (PrimProofs.len_nonneg _ rest).
    assert (Hwbr : wfb (body ++ rest) = true) by (rewrite Hrb in Hwrb; apply wfb_app in Hwrb; tauto).
    assert (Hwbody : wfb body = true) by (apply wfb_app in Hwbr; tauto).
    assert (Hsf : slice_from b (len pre) = tgb ++ body ++ rest) by (rewrite Hb'; apply slice_from_app).
    assert (Hsf2 : slice_from b (len pre + len tgb) = body ++ rest)
      by (rewrite Hb2, <- len_app; apply slice_from_app).
    assert (Hlrb : (length body <= length rb)%nat) by (rewrite Hrb, !app_length; lia).
    pose proof (max_number_ge fields f Hin) as Hmax. rewrite Hnumf in Hmax.
    unfold max_field_number in Hnum.
    (* the iteration up to the call of the codec *)
    assert (Hstep : forall lo hi off data newf,
      win_of b (wt_w w) (len pre + len tgb) (body ++ rest) f = Ok (Some (lo, hi), off, None) ->
      0 <= lo <= hi -> hi <= len b -> slice b lo hi = data -> off + len data = len b - len rest ->
      dec (sf_codec f) data (nth i vs (zero_val (sf_ty f))) (make_flags f flags) = Ok (len data, None, newf) ->
      sbody dec fields b flags (max_number fields) rec (len pre) vs = rec (len b - len rest) (set_nth vs i newf)).
    { intros lo hi off data newf Hwin Hlo Hhi Hsl Hoff Hdec.
      unfold sbody.
      replace (negb (len pre <? len b)) with false by lia.
      rewrite cfrom_ok by lia. cbn [rbind]. rewrite Hsf.
      rewrite Htag by (rewrite <- Hrb; exact Hwrb).
      replace ((0 <=? num) && (num <? max_number fields + 1) && (num <? 2 ^ 63)) with true by lia.
      rewrite Hnf. unfold sknown. rewrite Hwire, Z.eqb_refl. cbn [negb].
      rewrite cfrom_ok by lia. cbn [rbind]. rewrite Hsf2, Hwin. cbn [rbind].
      rewrite cslice_ok by lia. cbn [rbind]. rewrite Hsl, Hdec. cbn [rbind].
      f_equal. exact Hoff. }
    unfold win_of, proto_varint, proto_varlen, proto_fixed32, proto_fixed64 in Hstep.
    destruct w; cbn [wt_w body_ok win Z.eqb Pos.eqb] in *.
    - destruct Hw as (Hl & Hn & Hg).
      destruct (gv_dv _ _ _ _ (Hg rest) Hwbr) as (Hdv & _).
      rewrite Hdv in Hstep.
      exists body. split; [rewrite <- (app_nil_r body); apply Hg|]. split; [exact Hwbody|]. split; [exact Hlrb|].
      intros newf Hdec. eapply Hstep; [reflexivity | lia | lia | | | exact Hdec]; [|lia].
      rewrite Hb2, <- Hl, <- len_app. apply slice_mid.
    - destruct Hw as (Hl & Hz).
      replace (len pre + len tgb + 8 >? len b) with false in Hstep by lia.
      exists body. split; [split; assumption|]. split; [exact Hwbody|]. split; [exact Hlrb|].
      intros newf Hdec. eapply Hstep; [reflexivity | lia | lia | | | exact Hdec]; [|lia].
      rewrite Hb2, <- Hl, <- len_app. apply slice_mid.
    - destruct Hw as (lb & n & -> & Hl & Hn & Hg).
      rewrite len_app in *. pose proof (PrimProofs.len_nonneg _ s).
      assert (Hg' : get_varint ((lb ++ s) ++ rest) = Some (len s, n, s ++ rest)) by (rewrite <- app_assoc; apply Hg).
      destruct (gv_dv _ _ _ _ Hg' Hwbr) as (Hdv & _). rewrite Hdv in Hstep.
      rewrite w64_id in Hstep by lia.
      replace (len s >? len b - (len pre + len tgb + n)) with false in Hstep by lia.
      rewrite (s64_id (len s)) in Hstep by lia.
      destruct (sf_embedded f).
      + exists s. split; [reflexivity|]. split; [apply wfb_app in Hwbody; tauto|].
        split; [rewrite app_length in Hlrb; lia|].
        intros newf Hdec. eapply Hstep; [reflexivity | lia | lia | | | exact Hdec]; [|lia].
        replace b with ((pre ++ tgb ++ lb) ++ s ++ rest) by (rewrite Hb2, <- !app_assoc; reflexivity).
        replace (len pre + len tgb + n) with (len (pre ++ tgb ++ lb)) by (rewrite !len_app; lia).
        apply slice_mid.
      + exists (lb ++ s). split; [exists n; exact (Hg s)|].
        split; [exact Hwbody|]. split; [exact Hlrb|].
        intros newf Hdec. eapply Hstep; [reflexivity | lia | lia | | | exact Hdec]; [|rewrite len_app; lia].
        replace (len pre + len tgb + n + len s) with (len (pre ++ tgb) + len (lb ++ s)) by (rewrite !len_app; lia).
        rewrite Hb2, <- len_app. apply slice_mid.
    - destruct Hw as (Hl & Hz).
      replace (len pre + len tgb + 4 >? len b) with false in Hstep by lia.
      exists body. split; [split; assumption|]. split; [exact Hwbody|]. split; [exact Hlrb|].
      intros newf Hdec. eapply Hstep; [reflexivity | lia | lia | | | exact Hdec]; [|lia].
      rewrite Hb2, <- Hl, <- len_app. apply slice_mid.
  Qed.
End D2.
End D2.
Export D2.

Module A.
(* ---------- the specification decoder with named pieces ---------- *)
Lemma dec_value_msg d fs w old :
  dec_value d (PMsg fs) w old =
  match w with
  | WLen payload =>
      match records payload with
      | None => Bad
      | Some recs =>
          match merge_records d fs recs (match old with Some (PVMsg c) => c | _ => default_msg fs end) with
          | Some c' => Upd (PVMsg c')
          | None => Bad
          end
      end
  | _ => mismatch d
  end.
Proof.
  destruct w; try reflexivity. cbn [dec_value].
  destruct (records s) as [recs|]; [|reflexivity].
  match goal with |- match ?g recs ?c with Some _ => _ | None => _ end = _ =>
    assert (H : forall recs cur, g recs cur = merge_records d fs recs cur) end.
  { induction recs0 as [|[num w'] rr IH]; intros cur; [reflexivity|].
    cbn [merge_records].
    match goal with |- match ?u fs cur with Upd _ => _ | Unk => _ | Bad => _ end = _ =>
      assert (HU : forall fs cur, u fs cur = upd_slot d fs cur num w') end.
    { clear. induction fs as [|[n lab ft] fr IHf]; intros cur; [reflexivity|].
      destruct cur as [|c cr]; [reflexivity|]. cbn [upd_slot]. rewrite <- IHf. reflexivity. }
    rewrite HU. destruct (upd_slot d fs cur num w'); try apply IH. reflexivity. }
  rewrite H. reflexivity.
Qed.

Lemma spec_decode_eq d fs b :
  spec_decode d fs b =
  match records b with
  | None => None
  | Some recs => merge_records d fs recs (default_msg fs)
  end.
Proof.
  unfold spec_decode. rewrite dec_value_msg.
  destruct (records b) as [recs|]; [|reflexivity].
  destruct (merge_records d fs recs (default_msg fs)); reflexivity.
Qed.

(* in the package dialect nothing is skipped for its wire type *)
Lemma dec_scalar_pkgd_nounk s w : dec_scalar pkgd s w <> Unk.
Proof.
  destruct s, w; cbn [dec_scalar pkgd strict_bool strict_32 strict_wire mismatch andb];
    try discriminate;
    match goal with |- (if ?c then _ else _) <> _ => destruct c; discriminate end.
Qed.
Lemma dec_value_pkgd_nounk t w o : dec_value pkgd t w o <> Unk.
Proof.
  destruct t as [s|fs]; [apply dec_scalar_pkgd_nounk|].
  rewrite dec_value_msg. destruct w; try discriminate.
  destruct (records s); [|discriminate].
  destruct (merge_records _ _ _ _); discriminate.
Qed.
Lemma dec_field_pkgd_nounk lab ft w c : dec_field pkgd lab ft (dec_value pkgd ft) w c <> Unk.
Proof.
  destruct lab; cbn [dec_field].
  - destruct (dec_value pkgd ft w _) eqn:E; try discriminate. exfalso; exact (dec_value_pkgd_nounk _ _ _ E).
  - destruct (packable ft), w; cbn [strict_wire pkgd]; try discriminate;
      destruct (dec_value pkgd ft _ None) eqn:E; try discriminate; exfalso; exact (dec_value_pkgd_nounk _ _ _ E).
  - destruct w; try discriminate.
    destruct (_ && _); [discriminate|].
    destruct (records s); [|discriminate].
    destruct (entry_fold _ _ _ _ _ _) as [[ok ov]|]; discriminate.
Qed.

(* ---------- the missing hypothesis ---------- *)
(* the struct codec hands its own flags down to every field: a zigzag tag on a struct-typed field reaches the
   integers inside, while TypeOf (ptype_of) ignores the tag of such a field *)
Fixpoint zz_ok (t : gty) : bool :=
  match t with
  | TPtr t' => zz_ok t'
  | TSlice t' => zz_ok t'
  | TMap k v => zz_ok k && zz_ok v
  | TStruct fs => (fix go (fs : list gfield) : bool :=
                     match fs with
                     | [] => true
                     | GField _ tag ft :: r => negb (tag_zz tag && is_struct (base_ty ft)) && zz_ok ft && go r
                     end) fs
  | _ => true
  end.

(* ---------- the descriptor and the Go value, field by field ---------- *)
Definition pnum (tag : option ptag) (number : Z) : Z := match tag with Some tg => tag_number tg | None => number end.
Definition pfield_of (tag : option ptag) (ft : gty) (number : Z) : pfield :=
  match ft with
  | TSlice et => PField (pnum tag number) LRep (ptype_of et tag)
  | TMap kt vt => PField (pnum tag number) (LMap (scalar_of kt None)) (ptype_of vt None)
  | _ => PField (pnum tag number) LOpt (ptype_of ft tag)
  end.
Fixpoint pfields (gfs : list gfield) (number : Z) : list pfield :=
  match gfs with
  | [] => []
  | GField false _ _ :: r => pfields r number
  | GField true tag ft :: r => pfield_of tag ft number :: pfields r (number + 1)
  end.
Lemma ptype_of_struct gfs tag : ptype_of (TStruct gfs) tag = PMsg (pfields gfs 1).
Proof.
  reflexivity.
Qed.

Definition of_field (ft : gty) (c : fval) : option val :=
  match ft, c with
  | TSlice et, FRep vs =>
      match omap (of_pval et) vs with Some l => Some (VSlice l) | None => None end
  | TMap kt vt, FMapv es =>
      match omap (fun kv => match of_pval kt (fst kv), of_pval vt (snd kv) with
                            | Some k, Some x => Some (k, x)
                            | _, _ => None
                            end) es with
      | Some l => Some (VMap true l)
      | None => None
      end
  | (TSlice _ | TMap _ _), _ => None
  | _, FAbsent => Some (zero_val ft)
  | _, FOne x => of_pval ft x
  | _, _ => None
  end.
Fixpoint of_fields (gfs : list gfield) (m : list fval) : option (list val) :=
  match gfs with
  | [] => Some []
  | GField false _ ft :: r =>
      match of_fields r m with Some vs => Some (zero_val ft :: vs) | None => None end
  | GField true _ ft :: r =>
      match m with
      | [] => None
      | c :: mr =>
          match of_field ft c, of_fields r mr with
          | Some v, Some vs => Some (v :: vs)
          | _, _ => None
          end
      end
  end.
Lemma of_pval_struct gfs pv :
  of_pval (TStruct gfs) pv =
  match pv with
  | PVMsg m => match of_fields gfs m with Some vs => Some (VStruct vs) | None => None end
  | _ => None
  end.
Proof.
  destruct pv; reflexivity.
Qed.
Lemma of_pval_ptr t pv : of_pval (TPtr t) pv = match of_pval t pv with Some x => Some (VPtr (Some x)) | None => None end.
Proof. destruct pv; reflexivity. Qed.

(* ---------- the codec of a singular field, forced variants included ---------- *)
Fixpoint tcodec (t : gty) (tag : option ptag) : codec :=
  match t with
  | TPtr t' => CPtr t' (tcodec t' tag)
  | TUint32 => if tag_fx32 tag then CFixed32 else CUint32
  | TUint64 => if tag_fx64 tag then CFixed64 else CUint64
  | _ => codec_of t
  end.
Definition zfl (tag : option ptag) : Z := if tag_zz tag then proto_zigzag else 0.
End A.
Export A.

Module B.
(* ---------- related values ---------- *)
Definition Rv (t : gty) (pv : pval) (v : val) : Prop := exists v0, of_pval t pv = Some v0 /\ norm v = norm v0.
Definition Rold (t : gty) (opv : option pval) (v : val) : Prop :=
  match opv with Some pv => Rv t pv v | None => norm v = norm (zero_val t) end.
Lemma Rv_refl t pv v : of_pval t pv = Some v -> Rv t pv v.
Proof. intros H; exists v; split; [exact H | reflexivity]. Qed.

(* ---------- windows of scalars ---------- *)
Lemma win_varint data z n : get_varint data = Some (z, n, []) -> wfb data = true ->
  proto_decodeVarint data = (z, len data, None) /\ n = len data /\ 0 <= z < 2 ^ 64.
Proof.
  intros H Hwf. destruct (gv_dv _ _ _ _ H Hwf) as (H1 & _ & _ & _ & H5).
  destruct (gv_split _ _ _ _ _ H) as (pre & Hp & Hl & _ & _). rewrite app_nil_r in Hp. subst pre.
  subst n. auto.
Qed.
Lemma win_bool data z : get_varint data = Some (z, 1, []) -> wfb data = true ->
  len data = 1 /\ at_ data 0 = z.
Proof.
  intros H Hwf. destruct (win_varint _ _ _ H Hwf) as (_ & Hl & _).
  destruct data as [|c [|c' r]]; try (unfold len in Hl; cbn in Hl; lia).
  split; [reflexivity|]. unfold get_varint in H. cbn [get_varint_k] in H.
  destruct (c <? 128); cbn in H; [|discriminate]. inversion H. reflexivity.
Qed.
Lemma firstn_len_all {A} (l : list A) n : len l = Z.of_nat n -> firstn n l = l.
Proof. unfold len. intros H. apply firstn_all2. lia. Qed.
Lemma win_varlen data s n : get_varint data = Some (len s, n, s) -> wfb data = true -> len data < lim ->
  proto_decodeVarlen data = (s, len data, None) /\ wfb s = true.
Proof.
  intros H Hwf Hl. rewrite lim_val in Hl.
  destruct (gv_split _ _ _ _ _ H) as (pre & Hp & Hlp & _ & _).
  rewrite (gv_varlen _ _ _ _ H Hwf) by lia.
  rewrite to_nat_len. rewrite firstn_all. subst data. rewrite len_app. subst n. split; [reflexivity|].
  unfold wfb in *. rewrite forallb_app in Hwf. apply andb_true_iff in Hwf. tauto.
Qed.

Local Transparent proto_flags_int64 proto_flags_has.
Lemma fi64_0 z : proto_flags_int64 0 z = s64 z.
Proof. reflexivity. Qed.
Lemma fi64_zz z : 0 <= z < 2 ^ 64 -> proto_flags_int64 proto_zigzag z = unzigzag z.
Proof. intros H. change (proto_flags_int64 proto_zigzag z) with (proto_decodeZigZag64 z). apply decodeZigZag64_unzigzag. exact H. Qed.

Lemma s32_s64 z : - 2 ^ 31 <= s64 z < 2 ^ 31 -> s32 z = s64 z.
Proof.
  intros H. unfold s32, s64, w32, w64 in *.
  assert (E : z mod 2 ^ 32 = (z mod 2 ^ 64) mod 2 ^ 32).
  { apply Znumtheory.Zmod_div_mod; try lia. exists (2 ^ 32). reflexivity. }
  rewrite E. clear E. set (y := z mod 2 ^ 64) in *. assert (Hy : 0 <= y < 2 ^ 64) by (apply Z.mod_pos_bound; lia).
  clearbody y. clear z. cbv zeta in *.
  change (2 ^ 64) with 18446744073709551616 in *. change (2 ^ 63) with 9223372036854775808 in *.
  change (2 ^ 32) with 4294967296 in *. change (2 ^ 31) with 2147483648 in *.
  destruct (y <? 9223372036854775808) eqn:E1.
  - rewrite Z.mod_small by lia. destruct (y <? 2147483648) eqn:E2; lia.
  - assert (E : y mod 4294967296 = y - 18446744069414584320).
    { symmetry. apply Z.mod_unique_pos with (q := 4294967295); lia. }
    rewrite E. destruct (y - 18446744069414584320 <? 2147483648) eqn:E2; lia.
Qed.
Lemma unzigzag_32 z : 0 <= z < 2 ^ 32 -> - 2 ^ 31 <= unzigzag z < 2 ^ 31.
Proof.
  intros H. unfold unzigzag. destruct (Z.even z).
  - assert (0 <= z / 2 < 2 ^ 31) by (split; [apply Z.div_pos; lia | apply Z.div_lt_upper_bound; lia]). lia.
  - assert (0 <= (z + 1) / 2 <= 2 ^ 31).
    { split; [apply Z.div_pos; lia | apply Z.div_le_upper_bound; lia]. } lia.
Qed.

(* ---------- the property proved by induction over the type ---------- *)
Definition Pt (t : gty) : Prop :=
  elem_ok t = true -> tags_sane t = true -> plain t = true -> zz_ok t = true ->
  forall tag w opv pv' data oldv fuel,
    numbers_ok (tcodec t tag) = true ->
    (is_struct (base_ty t) = true -> tag_zz tag = false) ->
    dec_value pkgd (ptype_of t tag) w opv = Upd pv' ->
    win (is_struct (base_ty t)) w data -> wfb data = true -> len data < lim ->
    Rold t opv oldv ->
    (length data + depth_ty t + 1 <= fuel)%nat ->
    exists v', decode fuel (tcodec t tag) data oldv (zfl tag) = Ok (len data, None, v') /\ Rv t pv' v'.

Ltac dsc H := cbn [dec_scalar pkgd strict_bool strict_32 strict_wire mismatch andb negb] in H; try discriminate H.
Ltac fin := eexists; split; [reflexivity | apply Rv_refl; reflexivity].

Lemma Pt_leaf t : match t with TPtr _ | TStruct _ | TSlice _ | TMap _ _ => False | _ => True end -> Pt t.
Proof.
  intros Ht _ _ Hplain _ tag w opv pv' data oldv fuel _ _ Hdec Hwin Hwf Hlen _ Hfuel.
  destruct fuel as [|f]; [lia|].
  destruct t; try contradiction; try discriminate Hplain;
    cbn [ptype_of dec_value scalar_of tcodec codec_of base_ty is_struct] in *; unfold zfl.
  - (* bool: written for both readings of decodeBool, first byte only or whole varint *)
    destruct w as [z n| | |]; dsc Hdec. cbn [win] in Hwin.
    destruct (n =? 1) eqn:En; dsc Hdec; inversion Hdec; subst pv'; clear Hdec;
      destruct (win_varint _ _ _ Hwin Hwf) as (Hdv & Hn & Hz); cbn [decode];
      first [ rewrite Hdv; fin
            | apply Z.eqb_eq in En; rewrite En in Hwin; destruct (win_bool _ _ Hwin Hwf) as [Hl Ha];
              rewrite Hl; cbn [Z.eqb]; rewrite Ha; fin ].
  - (* int *)
    destruct (tag_zz tag); destruct w as [z n| | |]; dsc Hdec; cbn [win] in Hwin;
      destruct (win_varint _ _ _ Hwin Hwf) as (Hdv & _ & Hz); inversion Hdec; subst pv'; clear Hdec;
      cbn [decode]; rewrite Hdv.
    + rewrite fi64_zz by exact Hz. fin.
    + rewrite fi64_0. fin.
  - (* int32 *)
    destruct (tag_zz tag); destruct w as [z n| | |]; dsc Hdec; cbn [win] in Hwin;
      destruct (win_varint _ _ _ Hwin Hwf) as (Hdv & _ & Hz); cbn [decode]; rewrite Hdv.
    + rewrite fi64_zz by exact Hz.
      destruct (z <? 2 ^ 32) eqn:E; dsc Hdec. inversion Hdec; subst pv'; clear Hdec.
      assert (Hr := unzigzag_32 z). rewrite w32_small by lia.
      replace ((unzigzag z <? -2147483648) || (unzigzag z >? 2147483647)) with false by lia. fin.
    + rewrite fi64_0. unfold in_i32 in Hdec.
      destruct ((- 2 ^ 31 <=? s64 z) && (s64 z <? 2 ^ 31)) eqn:E; dsc Hdec. inversion Hdec; subst pv'; clear Hdec.
      rewrite s32_s64 by lia.
      replace ((s64 z <? -2147483648) || (s64 z >? 2147483647)) with false by lia. fin.
  - (* int64 *)
    destruct (tag_zz tag); destruct w as [z n| | |]; dsc Hdec; cbn [win] in Hwin;
      destruct (win_varint _ _ _ Hwin Hwf) as (Hdv & _ & Hz); inversion Hdec; subst pv'; clear Hdec;
      cbn [decode]; rewrite Hdv.
    + rewrite fi64_zz by exact Hz. fin.
    + rewrite fi64_0. fin.
  - (* uint *)
    destruct w as [z n| | |]; dsc Hdec; cbn [win] in Hwin;
      destruct (win_varint _ _ _ Hwin Hwf) as (Hdv & _ & Hz); inversion Hdec; subst pv'; clear Hdec;
      cbn [decode]; rewrite Hdv. fin.
  - (* uint32 *)
    destruct (tag_fx32 tag); destruct w as [z n| | |]; dsc Hdec; cbn [win] in Hwin.
    + destruct Hwin as [Hl Hz]. inversion Hdec; subst pv'; clear Hdec. cbn [decode].
      rewrite le_val_le32 by (try assumption; lia). rewrite (firstn_len_all data 4) by exact Hl. rewrite Hl, Hz. fin.
    + destruct (win_varint _ _ _ Hwin Hwf) as (Hdv & _ & Hz). cbn [decode]. rewrite Hdv.
      destruct (z <? 2 ^ 32) eqn:E; dsc Hdec. inversion Hdec; subst pv'; clear Hdec.
      rewrite w32_small by lia. replace (z >? 4294967295) with false by lia. fin.
  - (* uint64 *)
    destruct (tag_fx64 tag); destruct w as [z n| | |]; dsc Hdec; cbn [win] in Hwin.
    + destruct Hwin as [Hl Hz]. inversion Hdec; subst pv'; clear Hdec. cbn [decode].
      rewrite le_val_le64 by (try assumption; lia). rewrite (firstn_len_all data 8) by exact Hl. rewrite Hl, Hz. fin.
    + destruct (win_varint _ _ _ Hwin Hwf) as (Hdv & _ & Hz). cbn [decode]. rewrite Hdv.
      inversion Hdec; subst pv'; clear Hdec. fin.
  - (* float32 *)
    destruct w as [z n| | |]; dsc Hdec; cbn [win] in Hwin.
    destruct Hwin as [Hl Hz]. inversion Hdec; subst pv'; clear Hdec. cbn [decode].
    rewrite le_val_le32 by (try assumption; lia). rewrite (firstn_len_all data 4) by exact Hl. rewrite Hl, Hz. fin.
  - (* float64 *)
    destruct w as [z n| | |]; dsc Hdec; cbn [win] in Hwin.
    destruct Hwin as [Hl Hz]. inversion Hdec; subst pv'; clear Hdec. cbn [decode].
    rewrite le_val_le64 by (try assumption; lia). rewrite (firstn_len_all data 8) by exact Hl. rewrite Hl, Hz. fin.
  - (* string *)
    destruct w as [z n| |s|]; dsc Hdec; cbn [win] in Hwin. destruct Hwin as [n Hwin].
    destruct (win_varlen _ _ _ Hwin Hwf Hlen) as [Hdl _]. inversion Hdec; subst pv'; clear Hdec.
    cbn [decode]. rewrite Hdl. fin.
  - (* bytes *)
    destruct w as [z n| |s|]; dsc Hdec; cbn [win] in Hwin. destruct Hwin as [n Hwin].
    destruct (win_varlen _ _ _ Hwin Hwf Hlen) as [Hdl _]. inversion Hdec; subst pv'; clear Hdec.
    cbn [decode]. rewrite Hdl. fin.
Qed.
End B.
Export B.

Module C0.
(* ---------- fields ---------- *)
Definition Rf (ft : gty) (c : fval) (v : val) : Prop := exists v0, of_field ft c = Some v0 /\ norm v = norm v0.
Definition Rg (g : gfield) (c : fval) (v : val) : Prop :=
  match g with GField e _ ft => e = true /\ Rf ft c v end.
Definition fhyp (g : gfield) : Prop :=
  match g with
  | GField e tag ft => e = true /\ fok ft = true /\ tag_sane tag ft = true /\ tags_sane ft = true /\ plain ft = true /\
                       negb (tag_zz tag && is_struct (base_ty ft)) = true /\ zz_ok ft = true
  end.
Definition Pf (ft : gty) : Prop :=
  fok ft = true -> tags_sane ft = true -> plain ft = true -> zz_ok ft = true ->
  forall tag number w c c' data oldv fuel,
    tag_sane tag ft = true -> negb (tag_zz tag && is_struct (base_ty ft)) = true ->
    numbers_ok (sf_codec (fcodec tag ft number)) = true ->
    dec_field pkgd (pf_lab (pfield_of tag ft number)) (pf_ty (pfield_of tag ft number))
              (dec_value pkgd (pf_ty (pfield_of tag ft number))) w c = Upd c' ->
    win (sf_embedded (fcodec tag ft number)) w data -> wfb data = true -> len data < lim ->
    Rf ft c oldv ->
    (length data + depth_ty ft + 1 <= fuel)%nat ->
    exists v', decode fuel (sf_codec (fcodec tag ft number)) data oldv (make_flags (fcodec tag ft number) 0) = Ok (len data, None, v') /\
               Rf ft c' v'.
Definition struct_sim_statement : Prop :=
  forall gfs inl, Forall fhyp gfs -> Forall (fun g => Pf (field_ty g)) gfs ->
  numbers_ok (CStruct inl (cfields gfs 1)) = true ->
  forall data fuel flags recs cur final vs, wfb data = true -> len data < lim ->
   (length data + fsdepth gfs + 1 <= fuel)%nat -> without flags proto_toplevel = 0 ->
   records data = Some recs -> merge_records pkgd (pfields gfs 1) recs cur = Some final ->
   Forall3 Rg gfs cur vs ->
   exists vs', decode (S fuel) (CStruct inl (cfields gfs 1)) data (VStruct vs) flags = Ok (len data, None, VStruct vs') /\
               Forall3 Rg gfs final vs'.
End C0.
Export C0.

Module C.
(* ---------- what codec_of builds for a field ---------- *)
Lemma forced_tcodec tg ft :
  match forced_of tg ft with
  | Some c => c = tcodec ft (Some tg) /\ elem_ty ft = true /\ is_struct (base_ty ft) = false
  | None => codec_of ft = tcodec ft (Some tg)
  end.
Proof.
  assert (X : (tag_wire tg =? proto_fixed32) = true -> (tag_wire tg =? proto_fixed64) = false).
  { intros H. apply Z.eqb_eq in H. rewrite H. reflexivity. }
  induction ft; unfold forced_of in *; cbn [base_ty pointers_to tcodec codec_of tag_fx32 tag_fx64 elem_ty is_struct] in *;
    destruct (tag_wire tg =? proto_fixed32) eqn:E5; destruct (tag_wire tg =? proto_fixed64) eqn:E1;
    try (specialize (X eq_refl); discriminate X); auto;
    destruct (base_ty ft); try (rewrite IHft; reflexivity);
    destruct IHft as (-> & _ & H); auto.
Qed.

Lemma tcodec_plain t tag : tag_fx32 tag = false -> tag_fx64 tag = false -> tcodec t tag = codec_of t.
Proof. intros H1 H2. induction t; cbn [tcodec codec_of]; rewrite ?H1, ?H2; try reflexivity. rewrite IHt. reflexivity. Qed.
Lemma tcodec_none t : tcodec t None = codec_of t.
Proof. apply tcodec_plain; reflexivity. Qed.

Lemma forced_map tg kt vt : forced_of tg (TMap kt vt) = None.
Proof. unfold forced_of. cbn [base_ty]. destruct (tag_wire tg =? proto_fixed32); [reflexivity|]. destruct (tag_wire tg =? proto_fixed64); reflexivity. Qed.
Lemma fl0_cases (r z : bool) :
  let fl0 := (if r then proto_repeated else 0) + (if z then proto_zigzag else 0) in
  (Z.land fl0 proto_embedded =? 0) = true /\ (Z.land (Z.lor fl0 proto_embedded) proto_embedded =? 0) = false /\
  Z.lor 0 (Z.land fl0 proto_zigzag) = (if z then proto_zigzag else 0) /\
  Z.lor 0 (Z.land (Z.lor fl0 proto_embedded) proto_zigzag) = (if z then proto_zigzag else 0).
Proof. destruct r, z; vm_compute; auto. Qed.

Lemma fcodec_elem_facts tag ft number : elem_ty ft = true ->
  sf_number (fcodec tag ft number) = w16 (pnum tag number) /\ sf_ty (fcodec tag ft number) = ft /\
  sf_codec (fcodec tag ft number) = tcodec ft tag /\ sf_embedded (fcodec tag ft number) = is_struct (base_ty ft) /\
  make_flags (fcodec tag ft number) 0 = zfl tag.
Proof.
  intros Hel. unfold fcodec. destruct tag as [tg|]; cbv zeta.
  - pose proof (forced_tcodec tg ft) as HF. pose proof (fl0_cases (tag_repeated tg) (tag_zigzag tg)) as (F1 & F2 & F3 & F4).
    destruct (forced_of tg ft) as [c|].
    + destruct HF as (-> & _ & Hb). unfold sf_embedded, make_flags, zfl. cbn [sf_number sf_ty sf_codec sf_flags pnum tag_zz].
      rewrite F1, F3, Hb. auto.
    + unfold generic_of. destruct ft; try discriminate Hel; cbn [base_ty is_struct] in *;
        try (unfold sf_embedded, make_flags, zfl; cbn [sf_number sf_ty sf_codec sf_flags pnum tag_zz];
             rewrite ?F1, ?F2, ?F3, ?F4, <- ?HF; auto; fail).
      destruct (is_struct (base_ty ft)) eqn:Eb; unfold sf_embedded, make_flags, zfl; cbn [sf_number sf_ty sf_codec sf_flags pnum tag_zz];
        rewrite ?F1, ?F2, ?F3, ?F4, <- ?HF; auto.
  - rewrite (fcodec_elem ft number Hel) || idtac.
    unfold generic_of. destruct ft; try discriminate Hel; cbn [base_ty is_struct] in *;
      try (unfold sf_embedded, make_flags, zfl; cbn [sf_number sf_ty sf_codec sf_flags pnum tag_zz tcodec tag_fx32 tag_fx64]; auto; fail).
    rewrite <- (tcodec_none (TPtr ft)).
    destruct (is_struct (base_ty ft)) eqn:Eb; unfold sf_embedded, make_flags, zfl; cbn [sf_number sf_ty sf_codec sf_flags pnum tag_zz]; auto.
Qed.

Lemma fcodec_slice_facts tag et number :
  sf_number (fcodec tag (TSlice et) number) = w16 (pnum tag number) /\ sf_ty (fcodec tag (TSlice et) number) = TSlice et /\
  sf_codec (fcodec tag (TSlice et) number) =
    CSlice (w16 (pnum tag number)) (wire (codec_of et)) (is_struct (base_ty et)) et (codec_of et) /\
  sf_embedded (fcodec tag (TSlice et) number) = is_struct (base_ty et).
Proof.
  unfold fcodec. destruct tag as [tg|]; cbv zeta.
  - assert (HF : forced_of tg (TSlice et) = None).
    { unfold forced_of. cbn [base_ty]. destruct (_ =? _); [reflexivity|]. destruct (_ =? _); reflexivity. }
    rewrite HF. cbn [generic_of]. cbv zeta. unfold sf_embedded. cbn [sf_number sf_ty sf_codec sf_flags pnum].
    repeat split. destruct (is_struct (base_ty et)), (tag_repeated tg), (tag_zigzag tg); reflexivity.
  - cbn [generic_of]. cbv zeta. unfold sf_embedded. cbn [sf_number sf_ty sf_codec sf_flags pnum].
    repeat split. destruct (is_struct (base_ty et)); reflexivity.
Qed.

(* ---------- an accepted record has the wire type of the codec ---------- *)
Lemma wire_dec t : forall tag w o pv, dec_value pkgd (ptype_of t tag) w o = Upd pv -> wire (tcodec t tag) = wt_w w.
Proof.
  induction t; intros tag w o pv H;
    try (cbn [ptype_of dec_value scalar_of tcodec codec_of] in *;
         try destruct (tag_zz tag); try destruct (tag_fx32 tag); try destruct (tag_fx64 tag);
         destruct w; dsc H; reflexivity).
  - cbn [ptype_of tcodec wire] in *. eapply IHt; eassumption.
Qed.

(* ---------- list relations ---------- *)
Lemma F3_app {A B C} (R : A -> B -> C -> Prop) a1 b1 c1 a2 b2 c2 :
  Forall3 R a1 b1 c1 -> Forall3 R a2 b2 c2 -> Forall3 R (a1 ++ a2) (b1 ++ b2) (c1 ++ c2).
Proof. induction 1; intros H2; [exact H2|]. cbn [app]. constructor; [assumption | auto]. Qed.
Lemma F3_len {A B C} (R : A -> B -> C -> Prop) a b c : Forall3 R a b c -> length b = length a /\ length c = length a.
Proof. induction 1; [auto|]. cbn [length]. lia. Qed.

Lemma pfield_eta pf : pf = PField (pf_num pf) (pf_lab pf) (pf_ty pf).
Proof. destruct pf; reflexivity. Qed.
Lemma pf_num_of tag ft k : pf_num (pfield_of tag ft k) = pnum tag k.
Proof. destruct ft; reflexivity. Qed.
Lemma cfields_cons tag ft r k : cfields (GField true tag ft :: r) k = fcodec tag ft k :: cfields r (k + 1).
Proof. cbn [cfields]. apply fcodec_cons_eq. Qed.

Definition hit (tag : option ptag) (ft : gty) (k : Z) (w : wval) (c c' : fval) : Prop :=
  dec_field pkgd (pf_lab (pfield_of tag ft k)) (pf_ty (pfield_of tag ft k))
            (dec_value pkgd (pf_ty (pfield_of tag ft k))) w c = Upd c'.

Lemma lookup_upd : forall gfs cur vs, Forall3 Rg gfs cur vs -> forall k num w cur',
  upd_slot pkgd (pfields gfs k) cur num w = Upd cur' ->
  exists g1 tag ft g2 c1 c c2 v1 v v2 c',
    gfs = g1 ++ GField true tag ft :: g2 /\ cur = c1 ++ c :: c2 /\ vs = v1 ++ v :: v2 /\ cur' = c1 ++ c' :: c2 /\
    Forall3 Rg g1 c1 v1 /\ Rf ft c v /\ Forall3 Rg g2 c2 v2 /\
    pnum tag (k + Z.of_nat (length g1)) = num /\ hit tag ft (k + Z.of_nat (length g1)) w c c'.
Proof.
  induction 1 as [|[e tag ft] c v la lb lc [He HR] HF IH]; intros k num w cur' H; [discriminate H|].
  subst e. cbn [pfields] in H. rewrite (pfield_eta (pfield_of tag ft k)) in H. cbn [upd_slot] in H.
  rewrite pf_num_of in H. destruct (pnum tag k =? num) eqn:En.
  - destruct (dec_field _ _ _ _ _ _) as [c'| |] eqn:Ed; try discriminate H. inversion H; subst cur'.
    exists [], tag, ft, la, [], c, lb, [], v, lc, c'. cbn [app length]. rewrite Z.add_0_r.
    repeat split; try constructor; try assumption. apply Z.eqb_eq, En.
  - destruct (upd_slot pkgd (pfields la (k + 1)) lb num w) as [cr'| |] eqn:Eu; try discriminate H. inversion H; subst cur'.
    destruct (IH _ _ _ _ Eu) as (g1 & tg & ft' & g2 & c1 & c0 & c2 & v1 & v0 & v2 & c' & -> & -> & -> & -> & H1 & H2 & H3 & H4 & H5).
    exists (GField true tag ft :: g1), tg, ft', g2, (c :: c1), c0, c2, (v :: v1), v0, v2, c'. cbn [app length].
    replace (k + Z.of_nat (S (length g1))) with (k + 1 + Z.of_nat (length g1)) by lia.
    repeat split; try assumption. constructor; [split; [reflexivity | assumption] | assumption].
Qed.

Lemma lookup_unk : forall gfs cur vs, Forall3 Rg gfs cur vs -> forall k num w,
  upd_slot pkgd (pfields gfs k) cur num w = Unk ->
  existsb (Z.eqb num) (map pf_num (pfields gfs k)) = false.
Proof.
  induction 1 as [|[e tag ft] c v la lb lc [He HR] HF IH]; intros k num w H; [reflexivity|].
  subst e. cbn [pfields map existsb] in *. rewrite (pfield_eta (pfield_of tag ft k)) in H. cbn [upd_slot] in H.
  rewrite pf_num_of in *. rewrite (Z.eqb_sym num). destruct (pnum tag k =? num) eqn:En.
  - destruct (dec_field _ _ _ _ _ _) as [c'| |] eqn:Ed; try discriminate H.
    exfalso. exact (dec_field_pkgd_nounk _ _ _ _ Ed).
  - cbn [orb]. destruct (upd_slot pkgd (pfields la (k + 1)) lb num w) as [cr'| |] eqn:Eu; try discriminate H.
    eapply IH; eassumption.
Qed.

(* ---------- the numbers of the two sides agree ---------- *)
Lemma w16_id x : 0 <= x < 2 ^ 16 -> w16 x = x.
Proof. intros; unfold w16; apply Z.mod_small; assumption. Qed.
Lemma fcodec_number tag ft k : sf_number (fcodec tag ft k) = w16 (pnum tag k).
Proof.
  destruct ft; try (apply fcodec_elem_facts; reflexivity).
  - apply fcodec_slice_facts.
  - unfold fcodec. destruct tag as [tg|]; cbv zeta.
    + rewrite forced_map. reflexivity.
    + reflexivity.
Qed.
Lemma nums_agree : forall gfs k, Forall fhyp gfs -> 0 <= k -> k + len gfs <= 2 ^ 16 ->
  map sf_number (cfields gfs k) = map pf_num (pfields gfs k).
Proof.
  induction gfs as [|[e tag ft] r IH]; intros k HF Hk Hl; [reflexivity|].
  inversion HF as [|x l H1 H2]; subst. destruct H1 as (-> & _ & Hts & _).
  rewrite cfields_cons. cbn [pfields map]. rewrite len_cons in Hl. pose proof (PrimProofs.len_nonneg _ r).
  rewrite IH by (try assumption; lia). f_equal.
  rewrite fcodec_number, pf_num_of. apply w16_id. destruct tag as [tg|]; cbn [pnum]; [|lia].
  cbn [tag_sane] in Hts. apply andb_true_iff in Hts. destruct Hts as [Hts _]. lia.
Qed.
Lemma cfields_length : forall gfs k, Forall fhyp gfs -> length (cfields gfs k) = length gfs.
Proof.
  induction gfs as [|[e tag ft] r IH]; intros k HF; [reflexivity|].
  inversion HF as [|x l H1 H2]; subst. destruct H1 as (-> & _). rewrite cfields_cons. cbn [length]. rewrite IH by assumption. reflexivity.
Qed.
Lemma cfields_app : forall g1 g2 k, Forall fhyp g1 ->
  cfields (g1 ++ g2) k = cfields g1 k ++ cfields g2 (k + Z.of_nat (length g1)).
Proof.
  induction g1 as [|[e tag ft] r IH]; intros g2 k HF.
  - cbn [app cfields length]. rewrite Z.add_0_r. reflexivity.
  - inversion HF as [|x l H1 H2]; subst. destruct H1 as (-> & _). cbn [app]. rewrite !cfields_cons. cbn [app]. rewrite IH by assumption.
    do 3 f_equal. cbn [length]. lia.
Qed.

(* ---------- at most 65535 fields ---------- *)
Lemma distinct_NoDup l : distinct l = true -> NoDup l.
Proof.
  induction l as [|x r IH]; intros H; [constructor|]. cbn [distinct] in H. apply andb_true_iff in H. destruct H as [H1 H2].
  constructor; [|apply IH, H2]. intros Hin. apply negb_true_iff in H1.
  assert (existsb (Z.eqb x) r = true) by (apply existsb_exists; exists x; split; [exact Hin | apply Z.eqb_refl]). congruence.
Qed.
Lemma pigeon l : distinct l = true -> (forall x, In x l -> 1 <= x < 2 ^ 16) -> len l < 2 ^ 16.
Proof.
  intros Hd Hr. pose proof (NoDup_incl_length (l' := map Z.of_nat (seq 1 (Z.to_nat 65535))) (distinct_NoDup l Hd)) as H.
  rewrite map_length, seq_length in H. unfold len. change (2 ^ 16) with 65536 in *.
  assert (length l <= Z.to_nat 65535)%nat; [|lia]. apply H. intros x Hx. specialize (Hr x Hx).
  apply in_map_iff. exists (Z.to_nat x). split; [lia|]. apply in_seq. lia.
Qed.

Lemma tag_clean tag et : tag_sane tag (TSlice et) = true -> tag_zz tag = false /\ tag_fx32 tag = false /\ tag_fx64 tag = false.
Proof.
  destruct tag as [tg|]; [|auto]. cbn [tag_sane tag_zz tag_fx32 tag_fx64]. intros H.
  apply andb_true_iff in H. destruct H as [_ H]. apply negb_true_iff in H. rewrite andb_true_r in H.
  apply orb_false_iff in H. destruct H as [H H3]. apply orb_false_iff in H. tauto.
Qed.

Lemma hit_elem tag ft k w c c' : elem_ty ft = true -> hit tag ft k w c c' ->
  exists pv, dec_value pkgd (ptype_of ft tag) w (match c with FOne v => Some v | _ => None end) = Upd pv /\ c' = FOne pv.
Proof.
  intros He H. unfold hit in H.
  assert (E : pfield_of tag ft k = PField (pnum tag k) LOpt (ptype_of ft tag)) by (destruct ft; try discriminate He; reflexivity).
  rewrite E in H. cbn [pf_lab pf_ty dec_field] in H.
  match type of H with match ?d with _ => _ end = _ => destruct d eqn:E'; try discriminate H end.
  inversion H; subst. eexists; split; reflexivity.
Qed.
Lemma wire_field tag ft k w c c' : tag_sane tag ft = true -> hit tag ft k w c c' ->
  wire (sf_codec (fcodec tag ft k)) = wt_w w.
Proof.
  intros Hts H.
  destruct (elem_ty ft) eqn:He.
  { destruct (fcodec_elem_facts tag ft k He) as (_ & _ & -> & _).
    destruct (hit_elem _ _ _ _ _ _ He H) as (pv & E & _). eapply wire_dec; exact E. }
  unfold hit in H. destruct ft as [ | | | | | | | | | | |n|pt|gl|et|kt vt| ]; try discriminate He.
  - destruct (fcodec_slice_facts tag et k) as (_ & _ & -> & _). cbn [wire].
    destruct (tag_clean _ _ Hts) as (_ & H32 & H64). rewrite <- (tcodec_plain et tag H32 H64).
    cbn [pfield_of pf_lab pf_ty dec_field] in H.
    destruct (packable (ptype_of et tag)), w; cbn [strict_wire pkgd] in H; try discriminate H;
      match type of H with match ?d with _ => _ end = _ => destruct d eqn:E; try discriminate H end;
      eapply wire_dec; exact E.
  - cbn [pfield_of pf_lab pf_ty dec_field] in H. destruct w; dsc H.
    unfold fcodec. destruct tag as [tg|]; cbv zeta.
    + rewrite forced_map. reflexivity.
    + reflexivity.
Qed.

Lemma fsdepth_in e tag ft gfs : In (GField e tag ft) gfs -> (depth_ty ft <= fsdepth gfs)%nat.
Proof.
  induction gfs as [|[e' tag' ft'] r IH]; [contradiction|]. intros [H|H]; cbn [fsdepth].
  - inversion H; subst. lia.
  - specialize (IH H). lia.
Qed.
Lemma pnum_range e tag ft k : fhyp (GField e tag ft) -> 1 <= k < 2 ^ 16 -> 1 <= pnum tag k < 2 ^ 16.
Proof.
  intros (_ & _ & Hts & _) Hk. destruct tag as [tg|]; cbn [pnum]; [|exact Hk].
  cbn [tag_sane] in Hts. apply andb_true_iff in Hts. destruct Hts as [Hts _]. lia.
Qed.
Lemma parse_nil k rem : parse_records k rem = Some [] -> rem = [].
Proof.
  destruct rem; [reflexivity|]. destruct k; cbn [parse_records]; [discriminate|].
  destruct (get_record _) as [[[? ?] ?]|]; [|discriminate]. destruct (parse_records _ _); discriminate.
Qed.
Lemma parse_cons k rem num w rr : parse_records k rem = Some ((num, w) :: rr) ->
  exists k' rest, k = S k' /\ get_record rem = Some (num, w, rest) /\ parse_records k' rest = Some rr.
Proof.
  destruct k; destruct rem; cbn [parse_records]; try discriminate.
  destruct (get_record _) as [[[n' w'] rest]|]; [|discriminate]. destruct (parse_records k rest) eqn:E; [|discriminate].
  intros H. inversion H; subst. exists k, rest. auto.
Qed.

(* ---------- the struct loop follows merge_records ---------- *)
Section StructSim.
  Variables (gfs : list gfield) (inl : bool).
  Hypothesis Hfh : Forall fhyp gfs.
  Hypothesis HPf : Forall (fun g => Pf (field_ty g)) gfs.
  Hypothesis Hnum : numbers_ok (CStruct inl (cfields gfs 1)) = true.
  Variables (data : bytes) (fuel : nat).
  Hypothesis Hwf : wfb data = true.
  Hypothesis Hlen : len data < lim.
  Hypothesis Hfuel : (length data + fsdepth gfs + 1 <= fuel)%nat.

  Lemma gfs_short : 1 + len gfs <= 2 ^ 16.
  Proof.
    rewrite numbers_ok_struct in Hnum. apply andb_true_iff in Hnum. destruct Hnum as [Hd Hn].
    pose proof (pigeon _ Hd) as H. unfold len in *. rewrite map_length, cfields_length in H by assumption.
    assert (Z.of_nat (length gfs) < 2 ^ 16); [|lia]. apply H. intros x Hx. apply in_map_iff in Hx. destruct Hx as (f & <- & Hf).
    apply (nums_fs_in _ _ Hn Hf).
  Qed.

  Lemma loop_sim : forall recs k pre rem cur vs final lf,
    data = pre ++ rem -> parse_records k rem = Some recs ->
    merge_records pkgd (pfields gfs 1) recs cur = Some final ->
    Forall3 Rg gfs cur vs -> (length rem + 1 <= lf)%nat ->
    exists vs', sloop (decode fuel) (cfields gfs 1) data 0 (max_number (cfields gfs 1)) lf (len pre) vs = Ok (len data, None, VStruct vs') /\
                Forall3 Rg gfs final vs'.
  Proof.
    pose proof gfs_short as Hshort.
    assert (Hnum' := Hnum). rewrite numbers_ok_struct in Hnum'. apply andb_true_iff in Hnum'. destruct Hnum' as [Hd Hn].
    induction recs as [|[num w] rr IH]; intros k pre rem cur vs final lf Hdata Hparse Hmerge HR Hlf;
      (destruct lf as [|lf]; [lia|]);
      change (sloop (decode fuel) (cfields gfs 1) data 0 (max_number (cfields gfs 1)) (S lf) (len pre) vs)
        with (sbody (decode fuel) (cfields gfs 1) data 0 (max_number (cfields gfs 1))
                    (sloop (decode fuel) (cfields gfs 1) data 0 (max_number (cfields gfs 1)) lf) (len pre) vs).
    - apply parse_nil in Hparse. subst rem. rewrite app_nil_r in Hdata. subst pre.
      cbn [merge_records] in Hmerge. inversion Hmerge; subst final.
      unfold sbody. replace (negb (len data <? len data)) with true by lia. exists vs. split; [reflexivity | exact HR].
    - apply parse_cons in Hparse. destruct Hparse as (k' & rest & -> & Hrec & Hparse).
      assert (Hwr : wfb rem = true).
      { subst data. unfold wfb in *. rewrite forallb_app in Hwf. apply andb_true_iff in Hwf. tauto. }
      destruct (get_record_suffix _ _ _ _ Hrec Hwr) as (used & Hused & Hul).
      assert (Hoff : len data - len rest = len (pre ++ used)).
      { subst data rem. rewrite !len_app. lia. }
      assert (Hdata' : data = (pre ++ used) ++ rest) by (subst data rem; rewrite app_assoc; reflexivity).
      assert (Hlf' : (length rest + 1 <= lf)%nat).
      { subst rem. rewrite app_length in Hlf. unfold len in Hul. lia. }
      cbn [merge_records] in Hmerge.
      destruct (upd_slot pkgd (pfields gfs 1) cur num w) as [cur'| |] eqn:Eu; try discriminate Hmerge.
      + (* a declared field *)
        destruct (lookup_upd _ _ _ HR _ _ _ _ Eu)
          as (g1 & tag & ft & g2 & c1 & c & c2 & v1 & v & v2 & c' & Eg & -> & -> & -> & H1 & H2 & H3 & H4 & H5).
        assert (Hin : In (GField true tag ft) gfs) by (rewrite Eg; apply in_or_app; right; left; reflexivity).
        pose proof (proj1 (Forall_forall _ _) Hfh _ Hin) as Hg.
        pose proof (proj1 (Forall_forall _ _) HPf _ Hin) as HP. cbn [field_ty] in HP.
        assert (Hfg1 : Forall fhyp g1) by (rewrite Eg in Hfh; apply Forall_app in Hfh; tauto).
        set (kk := 1 + Z.of_nat (length g1)) in *. set (f := fcodec tag ft kk).
        assert (Efs : cfields gfs 1 = cfields g1 1 ++ f :: cfields g2 (kk + 1)).
        { rewrite Eg, cfields_app by assumption. rewrite cfields_cons. reflexivity. }
        assert (Hkk : 1 <= kk < 2 ^ 16).
        { subst kk. rewrite Eg in Hshort. unfold len in Hshort. rewrite app_length in Hshort. cbn [length] in Hshort. lia. }
        assert (Hfn : sf_number f = num).
        { subst f. rewrite fcodec_number, w16_id; [exact H4|]. pose proof (pnum_range _ _ _ _ Hg Hkk). lia. }
        assert (Hinf : In f (cfields gfs 1)) by (rewrite Efs; apply in_or_app; right; left; reflexivity).
        assert (Hnf : nth_field (cfields gfs 1) (v1 ++ v :: v2) num = Some (length v1, f)).
        { rewrite <- Hfn. rewrite Efs. rewrite Efs in Hd. rewrite (nth_field_at _ _ _ _ Hd).
          destruct (F3_len _ _ _ _ H1) as [_ Hl]. rewrite Hl, cfields_length by assumption. reflexivity. }
        destruct Hg as (_ & Hfok & Hts & Htss & Hpl & Hzt & Hzz).
        pose proof (wire_field _ _ _ _ _ _ Hts H5) as Hwire. fold f in Hwire.
        destruct (sbody_known (decode fuel) (cfields gfs 1) 0 data pre rem num w rest (v1 ++ v :: v2)
                    (sloop (decode fuel) (cfields gfs 1) data 0 (max_number (cfields gfs 1)) lf) (length v1) f
                    Hdata Hwf Hlen Hrec Hnf Hinf Hfn Hwire) as (win_ & Hwin & Hwfw & Hlw & Hstep).
        assert (Hlrem : (length rem <= length data)%nat) by (subst data; rewrite app_length; lia).
        destruct (HP Hfok Htss Hpl Hzz tag kk w c c' win_ v fuel Hts Hzt) as (v' & Hdec & HRf).
        { apply (nums_fs_in _ _ Hn Hinf). }
        { exact H5. } { exact Hwin. } { exact Hwfw. } { unfold len in *. lia. } { exact H2. }
        { pose proof (fsdepth_in _ _ _ _ Hin). lia. }
        fold f in Hdec. rewrite nth_app_len in Hstep.
        assert (Hty : sf_ty f = ft).
        { subst f. destruct (elem_ty ft) eqn:He; [apply fcodec_elem_facts, He|].
          destruct ft; try discriminate He; [apply fcodec_slice_facts|].
          unfold fcodec. destruct tag as [tg|]; cbv zeta; [rewrite forced_map|]; reflexivity. }
        rewrite (Hstep v') by exact Hdec. rewrite set_nth_app_len, Hoff.
        eapply (IH k' (pre ++ used) rest); try eassumption.
        rewrite Eg. apply F3_app; [exact H1|]. constructor; [split; [reflexivity | exact HRf] | exact H3].
      + (* an unknown number *)
        assert (Hnone : nth_field (cfields gfs 1) vs num = None).
        { rewrite nth_field_go. apply nf_go_none. rewrite nums_agree by (try assumption; lia).
          eapply lookup_unk; eassumption. }
        rewrite (sbody_skip (decode fuel) (cfields gfs 1) 0 data pre rem num w rest vs _ Hdata Hwf Hlen Hrec Hnone).
        rewrite Hoff. eapply (IH k' (pre ++ used) rest); eassumption.
  Qed.
End StructSim.

Lemma struct_sim : struct_sim_statement.
Proof.
  intros gfs inl Hfh HPf Hnum data fuel flags recs cur final vs Hwf Hlen Hfuel Hfl Hrecs Hmerge HR.
  rewrite decode_struct_eq, Hfl. unfold records in Hrecs.
  destruct (loop_sim gfs inl Hfh HPf Hnum data fuel Hwf Hlen Hfuel recs (length data) [] data cur vs final fuel)
    as (vs' & H1 & H2); try assumption; try reflexivity; [lia|].
  exists vs'. split; [exact H1 | exact H2].
Qed.
End C.
Export C.

Module E.
(* ---------- pointers ---------- *)
Lemma Pt_ptr t : Pt t -> Pt (TPtr t).
Proof.
  intros IH Hok Hts Hpl Hzz tag w opv pv' data oldv fuel Hnum Hzt Hdec Hwin Hwf Hlen Hold Hfuel.
  destruct fuel as [|fuel]; [lia|]. cbn [tcodec]. rewrite decode_ptr_eq.
  cbn [ptype_of base_ty tcodec numbers_ok depth_ty elem_ok tags_sane plain zz_ok] in *.
  set (cur := match oldv with VPtr (Some x) => x | _ => zero_val t end).
  assert (Hc : Rold t opv cur).
  { destruct opv as [pv|]; cbn [Rold] in *.
    - destruct Hold as (v0 & Hv0 & Hn). rewrite of_pval_ptr in Hv0.
      destruct (of_pval t pv) as [x|] eqn:E; [|discriminate]. inversion Hv0; subst v0.
      destruct oldv as [| | | | |[y|]| | | |]; try discriminate Hn. cbn [norm] in Hn. inversion Hn.
      exists x. split; [exact E | assumption].
    - destruct oldv as [| | | | |[y|]| | | |]; try discriminate Hold. reflexivity. }
  destruct (IH Hok Hts Hpl Hzz tag w opv pv' data cur fuel Hnum Hzt Hdec Hwin Hwf Hlen Hc) as (v' & E & v0 & Hv0 & Hn); [lia|].
  rewrite E. cbn [rbind]. exists (VPtr (Some v')). split; [reflexivity|].
  exists (VPtr (Some v0)). rewrite of_pval_ptr, Hv0. split; [reflexivity|]. cbn [norm]. rewrite Hn. reflexivity.
Qed.

(* ---------- singular fields ---------- *)
Lemma of_field_elem ft c : elem_ty ft = true ->
  of_field ft c = match c with FAbsent => Some (zero_val ft) | FOne x => of_pval ft x | _ => None end.
Proof. intros He. destruct ft; try discriminate He; destruct c; reflexivity. Qed.
Lemma fok_elem ft : elem_ty ft = true -> fok ft = elem_ok ft.
Proof. intros He. destruct ft; try discriminate He; reflexivity. Qed.

Lemma Pf_elem ft : elem_ty ft = true -> Pt ft -> Pf ft.
Proof.
  intros He HPt Hfok Htss Hpl Hzz tag number w c c' data oldv fuel Hts Hzt Hnum Hhit Hwin Hwf Hlen HRf Hfuel.
  destruct (fcodec_elem_facts tag ft number He) as (_ & _ & Ec & Ee & Efl). rewrite Ec, Efl. rewrite Ee in Hwin. rewrite Ec in Hnum.
  destruct (hit_elem _ _ _ _ _ _ He Hhit) as (pv & Hdv & ->).
  rewrite fok_elem in Hfok by exact He.
  destruct (HPt Hfok Htss Hpl Hzz tag w (match c with FOne v => Some v | _ => None end) pv data oldv fuel Hnum) as (v' & E & HR); try assumption.
  - intros Hs. rewrite Hs, andb_true_r in Hzt. apply negb_true_iff in Hzt. exact Hzt.
  - destruct HRf as (v0 & Hv0 & Hn). rewrite of_field_elem in Hv0 by exact He.
    destruct c; try discriminate Hv0; cbn [Rold].
    + inversion Hv0; subst v0. exact Hn.
    + exists v0. auto.
  - exists v'. split; [exact E|]. destruct HR as (v0 & Hv0 & Hn). exists v0. rewrite of_field_elem by exact He. auto.
Qed.

(* ---------- repeated fields ---------- *)
Lemma omap_app {A B} (f : A -> option B) l1 l2 r1 r2 :
  omap f l1 = Some r1 -> omap f l2 = Some r2 -> omap f (l1 ++ l2) = Some (r1 ++ r2).
Proof.
  revert r1. induction l1 as [|x l IH]; intros r1 H1 H2; cbn [omap app] in *.
  - inversion H1; subst. exact H2.
  - destruct (f x); [|discriminate]. destruct (omap f l) eqn:E; [|discriminate]. inversion H1; subst.
    rewrite (IH _ eq_refl H2). reflexivity.
Qed.

Lemma Pf_slice et : Pt et -> Pf (TSlice et).
Proof.
  intros HPt Hfok Htss Hpl Hzz tag number w c c' data oldv fuel Hts Hzt Hnum Hhit Hwin Hwf Hlen HRf Hfuel.
  destruct (fcodec_slice_facts tag et number) as (_ & _ & Ec & Ee). rewrite Ec. rewrite Ee in Hwin. rewrite Ec in Hnum.
  destruct (tag_clean _ _ Hts) as (Hz & H32 & H64).
  unfold hit in Hhit. cbn [pfield_of pf_lab pf_ty dec_field] in Hhit.
  assert (Hv : exists pv, dec_value pkgd (ptype_of et tag) w None = Upd pv /\
                          c' = FRep (match c with FRep vs => vs | _ => [] end ++ [pv])).
  { destruct (packable (ptype_of et tag)), w; cbn [strict_wire pkgd] in Hhit; try discriminate Hhit;
      match type of Hhit with match ?d with _ => _ end = _ => destruct d eqn:E; try discriminate Hhit end;
      inversion Hhit; subst; eexists; split; reflexivity. }
  destruct Hv as (pv & Hdv & ->).
  destruct fuel as [|fuel]; [lia|]. rewrite decode_slice_eq.
  cbn [fok tags_sane plain zz_ok numbers_ok depth_ty] in *.
  apply andb_true_iff in Hnum. destruct Hnum as [_ Hnum]. rewrite <- (tcodec_plain et tag H32 H64) in Hnum |- *.
  destruct (HPt Hfok Htss Hpl Hzz tag w None pv data (zero_val et) fuel Hnum) as (v' & E & v0 & Hv0 & Hn); try assumption.
  - intros _. exact Hz.
  - reflexivity.
  - lia.
  - unfold zfl in E. rewrite Hz in E. change proto_noflags with 0. rewrite E. cbn [rbind].
    eexists. split; [reflexivity|].
    destruct HRf as (o0 & Ho0 & Hno). cbn [of_field] in Ho0. destruct c as [| |pvs|]; try discriminate Ho0.
    destruct (omap (of_pval et) pvs) as [l0|] eqn:El; [|discriminate]. inversion Ho0; subst o0.
    destruct oldv as [| | | | |[y|]| |es| |]; try discriminate Hno. cbn [norm] in Hno. inversion Hno as [Hm].
    exists (VSlice (l0 ++ [v0])). cbn [of_field]. rewrite (omap_app _ _ _ _ [v0] El); [|cbn [omap]; rewrite Hv0; reflexivity].
    split; [reflexivity|]. cbn [norm]. rewrite !map_app, Hm. cbn [map]. rewrite Hn. reflexivity.
Qed.
End E.
Export E.

Module M.
(* ---------- singular fields ---------- *)
Lemma of_field_absent t : elem_ty t = true -> of_field t FAbsent = Some (zero_val t).
Proof. destruct t; try discriminate; reflexivity. Qed.
Lemma of_field_one t x : elem_ty t = true -> of_field t (FOne x) = of_pval t x.
Proof. destruct t; try discriminate; reflexivity. Qed.
Lemma pfield_of_elem tag t number : elem_ty t = true -> pfield_of tag t number = PField (pnum tag number) LOpt (ptype_of t tag).
Proof. destruct t; try discriminate; reflexivity. Qed.

Lemma fsok_exported fs : fsok fs = true -> Forall (fun g => field_exported g = true) fs.
Proof.
  induction fs as [|[e tag ft] r IH]; intros H; [constructor|]. cbn [fsok] in H.
  apply andb_true_iff in H. destruct H as [H H2]. apply andb_true_iff in H. destruct H as [H0 H1].
  constructor; [exact H0 | apply IH; exact H2].
Qed.
Lemma fhyp_exported gfs : Forall fhyp gfs -> Forall (fun g => field_exported g = true) gfs.
Proof.
  induction 1 as [|[e tag ft] r H _ IH]; constructor; [|exact IH]. destruct H as [H _]. exact H.
Qed.

(* ---------- GOAL 2 ---------- *)
Lemma default_fields_e : forall gfs k, Forall (fun g => field_exported g = true) gfs ->
  Forall3 Rg gfs (default_msg (pfields gfs k)) (map zero_val (map field_ty gfs)).
Proof.
  induction gfs as [|[e tag ft] r IH]; intros k H; [constructor|].
  inversion H as [|? ? He Hr]; subst. cbn [field_exported] in He. subst e.
  unfold default_msg. cbn [pfields map field_ty]. constructor.
  - cbn [Rg]. split; [reflexivity|]. unfold Rf.
    destruct ft; cbn [pfield_of pf_lab default_fval of_field zero_val]; eexists; (split; [reflexivity | reflexivity]).
  - apply IH; exact Hr.
Qed.
Lemma default_fields : forall gfs k, Forall fhyp gfs ->
  Forall3 Rg gfs (default_msg (pfields gfs k)) (map zero_val (map field_ty gfs)).
Proof. intros gfs k H. apply default_fields_e, fhyp_exported, H. Qed.

Lemma Rg_of_fields gfs cur vs : Forall3 Rg gfs cur vs ->
  exists vs0, of_fields gfs cur = Some vs0 /\ map norm vs = map norm vs0.
Proof.
  induction 1 as [|g c v gr cr vr H1 _ IH].
  - exists []. split; reflexivity.
  - destruct g as [e tag ft]. destruct H1 as [He (v0 & Hv0 & Hn)]. destruct IH as (vs0 & Hvs & Hm).
    subst e. exists (v0 :: vs0). cbn [of_fields]. rewrite Hv0, Hvs. split; [reflexivity|].
    cbn [map]. rewrite Hn, Hm. reflexivity.
Qed.
(* the converse needs the message to have exactly one slot per field *)
Lemma Rg_of_fields_inv : forall gfs cur vs0 vs, of_fields gfs cur = Some vs0 -> map norm vs = map norm vs0 ->
  Forall (fun g => field_exported g = true) gfs -> length cur = length gfs -> Forall3 Rg gfs cur vs.
Proof.
  induction gfs as [|[e tag ft] r IH]; intros cur vs0 vs Hof Hn He Hl.
  - cbn [of_fields] in Hof. inversion Hof; subst vs0. destruct vs; [|discriminate Hn].
    destruct cur; [|discriminate Hl]. constructor.
  - inversion He as [|? ? He1 He2]; subst. cbn [field_exported] in He1. subst e.
    cbn [of_fields] in Hof. destruct cur as [|c mr]; [discriminate Hof|].
    destruct (of_field ft c) as [v|] eqn:E1; [|discriminate Hof].
    destruct (of_fields r mr) as [vs'|] eqn:E2; [|discriminate Hof].
    inversion Hof; subst vs0. destruct vs as [|x xr]; [discriminate Hn|]. cbn [map] in Hn. inversion Hn as [[Hx Hxr]].
    constructor.
    + split; [reflexivity|]. exists v. split; [exact E1 | exact Hx].
    + apply (IH mr vs' xr E2 Hxr He2). cbn [length] in Hl. lia.
Qed.

Lemma default_rel_struct fs tag : elem_ok (TStruct fs) = true ->
  exists v0, of_pval (TStruct fs) (default_pval (ptype_of (TStruct fs) tag)) = Some v0 /\ norm v0 = norm (zero_val (TStruct fs)).
Proof.
  intros He. rewrite elem_ok_struct in He. rewrite ptype_of_struct. cbn [default_pval]. rewrite of_pval_struct.
  destruct (Rg_of_fields _ _ _ (default_fields_e fs 1 (fsok_exported fs He))) as (vs0 & H1 & H2).
  rewrite H1. eexists; split; [reflexivity|]. rewrite zero_struct. cbn [norm]. f_equal. symmetry; exact H2.
Qed.
Lemma default_rel : forall t tag, elem_ok t = true -> plain t = true -> match t with TPtr _ => False | _ => True end ->
  exists v0, of_pval t (default_pval (ptype_of t tag)) = Some v0 /\ norm v0 = norm (zero_val t).
Proof.
  intros t tag He Hp Hn. destruct t; try contradiction; try discriminate He; try discriminate Hp;
    try (apply default_rel_struct; exact He);
    cbn [ptype_of scalar_of default_pval]; try destruct (tag_zz tag); try destruct (tag_fx32 tag); try destruct (tag_fx64 tag);
    eexists; (split; [reflexivity | reflexivity]).
Qed.

(* ---------- an entry is a two-field message ---------- *)
Definition fo (o : option pval) : fval := match o with Some x => FOne x | None => FAbsent end.
Lemma fo_inv o : match fo o with FOne v => Some v | _ => None end = o.
Proof. destruct o; reflexivity. Qed.
Lemma entry_fold_merge ks vty : forall recs ok ov ok' ov',
  entry_fold pkgd ks (dec_value pkgd vty) recs ok ov = Some (ok', ov') ->
  merge_records pkgd [PField 1 LOpt (PSc ks); PField 2 LOpt vty] recs [fo ok; fo ov] = Some [fo ok'; fo ov'].
Proof.
  induction recs as [|[num w] rr IH]; intros ok ov ok' ov' H.
  - cbn [entry_fold] in H. inversion H; subst. reflexivity.
  - cbn [entry_fold] in H. cbn [merge_records upd_slot]. rewrite (Z.eqb_sym 1 num), (Z.eqb_sym 2 num).
    destruct (num =? 1) eqn:E1.
    + cbn [dec_field dec_value].
      destruct (dec_scalar pkgd ks w) as [v| |]; [| |discriminate H].
      * apply (IH (Some v) ov). exact H.
      * apply IH. exact H.
    + destruct (num =? 2) eqn:E2.
      * cbn [dec_field]. rewrite fo_inv.
        destruct (dec_value pkgd vty w ov) as [v| |]; [| |discriminate H].
        -- apply (IH ok (Some v)). exact H.
        -- apply IH. exact H.
      * apply IH. exact H.
Qed.

(* ---------- map entries, pointwise ---------- *)
Definition Rp (kt vt : gty) (pe : pval * pval) (ve : val * val) : Prop :=
  Rv kt (fst pe) (fst ve) /\ Rv vt (snd pe) (snd ve).
Definition ofpair (kt vt : gty) (kv : pval * pval) : option (val * val) :=
  match of_pval kt (fst kv), of_pval vt (snd kv) with Some k, Some x => Some (k, x) | _, _ => None end.
Definition npair (kv : val * val) : val * val := (norm (fst kv), norm (snd kv)).
Lemma of_field_map kt vt c : of_field (TMap kt vt) c =
  match c with
  | FMapv es => match omap (ofpair kt vt) es with Some l => Some (VMap true l) | None => None end
  | _ => None
  end.
Proof. destruct c; reflexivity. Qed.
Lemma norm_map nn es : norm (VMap nn es) = VMap true (map npair es).
Proof. reflexivity. Qed.

Lemma Rp_of_omap kt vt : forall es l esv, omap (ofpair kt vt) es = Some l -> map npair esv = map npair l ->
  Forall2 (Rp kt vt) es esv.
Proof.
  induction es as [|pe es IH]; intros l esv Ho Hn.
  - cbn [omap] in Ho. inversion Ho; subst l. destruct esv; [constructor | discriminate Hn].
  - cbn [omap] in Ho. destruct (ofpair kt vt pe) as [[k0 x0]|] eqn:E1; [|discriminate Ho].
    destruct (omap (ofpair kt vt) es) as [l'|] eqn:E2; [|discriminate Ho]. inversion Ho; subst l.
    destruct esv as [|ve esv]; [discriminate Hn|]. cbn [map] in Hn.
    assert (Hh : npair ve = npair (k0, x0)) by congruence.
    assert (Ht : map npair esv = map npair l') by congruence.
    constructor; [|apply (IH l' esv eq_refl Ht)].
    unfold ofpair in E1. destruct (of_pval kt (fst pe)) as [k1|] eqn:Ek; [|discriminate E1].
    destruct (of_pval vt (snd pe)) as [x1|] eqn:Ex; [|discriminate E1]. inversion E1; subst k1 x1.
    unfold npair in Hh. cbn [fst snd] in Hh. inversion Hh as [[Hk Hx]].
    split; [exists k0 | exists x0]; split; assumption.
Qed.
Lemma Rp_to_omap kt vt : forall es esv, Forall2 (Rp kt vt) es esv ->
  exists l, omap (ofpair kt vt) es = Some l /\ map npair esv = map npair l.
Proof.
  induction 1 as [|pe ve es esv [(k0 & Hk & Hkn) (x0 & Hx & Hxn)] _ (l & Hl & Hn)].
  - exists []. split; reflexivity.
  - exists ((k0, x0) :: l). cbn [omap]. unfold ofpair at 1. rewrite Hk, Hx, Hl. split; [reflexivity|].
    cbn [map]. rewrite Hn. f_equal. unfold npair. cbn [fst snd]. rewrite Hkn, Hxn. reflexivity.
Qed.
Lemma Rf_map_iff kt vt es nn esv : Rf (TMap kt vt) (FMapv es) (VMap nn esv) <-> Forall2 (Rp kt vt) es esv.
Proof.
  unfold Rf. rewrite of_field_map. split.
  - intros (v0 & H0 & Hn). destruct (omap (ofpair kt vt) es) as [l|] eqn:E; [|discriminate H0]. inversion H0; subst v0.
    rewrite !norm_map in Hn. inversion Hn as [Hm]. exact (Rp_of_omap kt vt es l esv E Hm).
  - intros H. destruct (Rp_to_omap kt vt es esv H) as (l & Hl & Hn). rewrite Hl. eexists; split; [reflexivity|].
    rewrite !norm_map. f_equal. exact Hn.
Qed.
Lemma Rf_map_shape kt vt c v : Rf (TMap kt vt) c v -> exists es nn esv, c = FMapv es /\ v = VMap nn esv.
Proof.
  unfold Rf. rewrite of_field_map. intros (v0 & H0 & Hn). destruct c as [| | |es]; try discriminate H0.
  destruct (omap _ es); [|discriminate H0]. inversion H0; subst v0. rewrite norm_map in Hn.
  destruct v as [| | | | |[?|]| | |nn esv|]; try discriminate Hn. exists es, nn, esv. split; reflexivity.
Qed.

(* keys: the relation is the identity up to the injection of scalars *)
Lemma key_rel kt pk k : scalar_key kt = true -> Rv kt pk k -> of_pval kt pk = Some k /\ is_key_val k = true.
Proof.
  intros Hs (k0 & H0 & Hn).
  assert (Hk : is_key_val k0 = true) by (destruct kt; try discriminate Hs; destruct pk; try discriminate H0; inversion H0; reflexivity).
  rewrite (key_norm_inv k0 k Hk) by (symmetry in Hn; rewrite Hn; reflexivity). split; assumption.
Qed.
Lemma key_eqb kt pk k pk' k' : scalar_key kt = true -> Rv kt pk k -> Rv kt pk' k' -> pval_eqb pk pk' = val_eqb k k'.
Proof.
  intros Hs H1 H2. destruct (key_rel kt pk k Hs H1) as [E1 _]. destruct (key_rel kt pk' k' Hs H2) as [E2 _].
  destruct kt; try discriminate Hs; destruct pk; try discriminate E1; destruct pk'; try discriminate E2;
    inversion E1; inversion E2; reflexivity.
Qed.
Lemma map_set_assign kt vt key val kv vv : scalar_key kt = true -> Rv kt key kv -> Rv vt val vv ->
  forall es esv, Forall2 (Rp kt vt) es esv -> Forall2 (Rp kt vt) (map_set es key val) (map_assign esv kv vv).
Proof.
  intros Hs Hk Hv. induction 1 as [|[pk px] [k x] es esv [H1 H2] Hr IH].
  - cbn [map_set map_assign]. constructor; [split; assumption | constructor].
  - cbn [fst snd] in H1, H2. cbn [map_set map_assign]. rewrite (key_eqb kt pk k key kv Hs H1 Hk).
    destruct (val_eqb k kv).
    + constructor; [split; assumption | exact Hr].
    + constructor; [split; assumption | exact IH].
Qed.

(* ---------- the compiled map field ---------- *)
Lemma forced_map tg kt vt : forced_of tg (TMap kt vt) = None.
Proof.
  unfold forced_of. cbn [base_ty]. destruct (tag_wire tg =? proto_fixed32); [reflexivity|].
  destruct (tag_wire tg =? proto_fixed64); reflexivity.
Qed.
Lemma fcodec_map tag kt vt number : exists num ts fl kf vf,
  fcodec tag (TMap kt vt) number = SField num ts fl (TMap kt vt) (CMap num kf vf kt vt (codec_of kt) (codec_of vt)) /\
  negb (Z.land fl proto_embedded =? 0) = true.
Proof.
  unfold fcodec. destruct tag as [tg|]; cbv zeta.
  - rewrite forced_map. cbn [generic_of]. do 5 eexists. split; [reflexivity|].
    destruct (tag_repeated tg), (tag_zigzag tg); reflexivity.
  - cbn [generic_of]. do 5 eexists. split; reflexivity.
Qed.
Lemma scalar_key_ptype kt : scalar_key kt = true -> ptype_of kt None = PSc (scalar_of kt None).
Proof. destruct kt; try discriminate; reflexivity. Qed.
Lemma scalar_key_default kt : scalar_key kt = true -> of_pval kt (default_scalar (scalar_of kt None)) = Some (zero_val kt).
Proof. destruct kt; try discriminate; reflexivity. Qed.
Lemma scalar_key_facts kt : scalar_key kt = true ->
  elem_ok kt = true /\ elem_ty kt = true /\ fok kt = true /\ is_struct (base_ty kt) = false.
Proof. destruct kt; try discriminate; repeat split. Qed.
Lemma elem_fok t : elem_ok t = true -> fok t = true.
Proof. destruct t; try discriminate; intros H; exact H. Qed.

Lemma Pf_map : forall kt vt, struct_sim_statement -> Pf kt -> Pf vt -> Pf (TMap kt vt).
Proof.
  intros kt vt SIM Pk Pv Hfok Hts Hpl Hzz tag number w c c' data oldv fuel Htag _ Hnum Hdec Hwin Hwf Hlen HR Hfuel.
  cbn [fok] in Hfok. apply andb_true_iff in Hfok. destruct Hfok as [Hsk Hev].
  cbn [tags_sane] in Hts. apply andb_true_iff in Hts. destruct Hts as [Htk Htv].
  cbn [plain] in Hpl. apply andb_true_iff in Hpl. destruct Hpl as [Hpl Hnp]. apply andb_true_iff in Hpl. destruct Hpl as [Hpk Hpv].
  cbn [zz_ok] in Hzz. apply andb_true_iff in Hzz. destruct Hzz as [Hzk Hzv].
  destruct (scalar_key_facts kt Hsk) as (Hek & Hetk & Hfk & Hsk').
  pose proof (elem_ok_elem_ty vt Hev) as Hetv. pose proof (elem_fok vt Hev) as Hfv.
  destruct (fcodec_map tag kt vt number) as (num & ts & fl & kf & vf & Efc & Hemb).
  rewrite Efc in *. unfold sf_embedded in Hwin. cbn [sf_flags sf_codec] in *. rewrite Hemb in Hwin.
  cbn [pfield_of pf_lab pf_ty] in Hdec.
  cbn [numbers_ok] in Hnum. apply andb_true_iff in Hnum. destruct Hnum as [Hnum Hnv]. apply andb_true_iff in Hnum. destruct Hnum as [_ Hnk].
  destruct (Rf_map_shape kt vt c oldv HR) as (es & nn & esv & -> & ->).
  apply Rf_map_iff in HR.
  destruct w as [z n| |payload|]; try discriminate Hdec. cbn [win] in Hwin. subst data.
  destruct fuel as [|f]; [lia|]. rewrite decode_map_eq. cbv zeta.
  cbn [dec_field pkgd drop_empty_entry andb] in Hdec.
  destruct (len payload =? 0) eqn:El.
  - inversion Hdec; subst c'. apply Z.eqb_eq in El. rewrite El. eexists. split; [reflexivity|].
    apply Rf_map_iff. exact HR.
  - destruct (records payload) as [recs|] eqn:Erec; [|discriminate Hdec].
    destruct (entry_fold _ _ _ recs None None) as [[ok ov]|] eqn:Efold; [|discriminate Hdec].
    inversion Hdec; subst c'. clear Hdec.
    set (gfs := [GField true None kt; GField true None vt]).
    assert (Epf : pfields gfs 1 = [PField 1 LOpt (PSc (scalar_of kt None)); PField 2 LOpt (ptype_of vt None)]).
    { unfold gfs. cbn [pfields]. rewrite (pfield_of_elem None kt 1 Hetk), (pfield_of_elem None vt (1 + 1) Hetv).
      rewrite (scalar_key_ptype kt Hsk). reflexivity. }
    assert (Hfh : Forall fhyp gfs).
    { unfold gfs. constructor; [|constructor; [|constructor]]; cbn [fhyp tag_sane tag_zz andb negb]; repeat split; assumption. }
    assert (HPf : Forall (fun g => Pf (field_ty g)) gfs).
    { unfold gfs. constructor; [exact Pk|constructor; [exact Pv|constructor]]. }
    assert (Ecf : cfields gfs 1 = syn_fields kt vt).
    { unfold gfs. cbn [cfields]. rewrite !fcodec_cons_eq. rewrite (fcodec_elem kt 1 Hetk), (fcodec_elem vt (1 + 1) Hetv). reflexivity. }
    assert (Hno : numbers_ok (CStruct (inlined_ty (TStruct gfs)) (cfields gfs 1)) = true).
    { rewrite Ecf, numbers_ok_struct. unfold syn_fields. cbn [map sf_number nums_fs]. rewrite Hnk, Hnv. reflexivity. }
    assert (HF3 : Forall3 Rg gfs [FAbsent; FAbsent] (map zero_val (map field_ty gfs))).
    { pose proof (default_fields gfs 1 Hfh) as H0. rewrite Epf in H0. exact H0. }
    pose proof (entry_fold_merge _ _ recs None None ok ov Efold) as Hm. cbn [fo] in Hm. rewrite <- Epf in Hm.
    cbn [depth_ty] in Hfuel. destruct f as [|f']; [lia|].
    assert (Hfu : (length payload + fsdepth gfs + 1 <= f')%nat).
    { unfold gfs. cbn [fsdepth]. lia. }
    assert (Hwo : without proto_noflags proto_toplevel = 0) by (vm_compute; reflexivity).
    destruct (SIM gfs (inlined_ty (TStruct gfs)) Hfh HPf Hno payload f' proto_noflags recs _ _ _ Hwf Hlen Hfu Hwo Erec Hm HF3)
      as (vs' & Hd & HF3').
    rewrite (codec_of_struct gfs), (zero_struct gfs), Hd. cbn [rbind].
    unfold gfs in HF3'.
    inversion HF3' as [|g1 c1 v1 gr1 cr1 vr1 R1 HF3a]; subst.
    inversion HF3a as [|g2 c2 v2 gr2 cr2 vr2 R2 HF3b]; subst.
    inversion HF3b; subst. clear HF3' HF3a HF3b.
    destruct R1 as [_ R1]. destruct R2 as [_ R2].
    assert (Hkey : Rv kt (match ok with Some x => x | None => default_scalar (scalar_of kt None) end) v1).
    { destruct ok as [x|]; cbn [fo] in R1; destruct R1 as (v0 & H0 & Hn).
      - rewrite (of_field_one kt x Hetk) in H0. exists v0; split; assumption.
      - rewrite (of_field_absent kt Hetk) in H0. inversion H0; subst v0. exists (zero_val kt).
        split; [apply scalar_key_default, Hsk | exact Hn]. }
    assert (Hval : Rv vt (match ov with Some x => x | None => default_pval (ptype_of vt None) end) v2).
    { destruct ov as [x|]; cbn [fo] in R2; destruct R2 as (v0 & H0 & Hn).
      - rewrite (of_field_one vt x Hetv) in H0. exists v0; split; assumption.
      - rewrite (of_field_absent vt Hetv) in H0. inversion H0; subst v0.
        assert (Hnp' : match vt with TPtr _ => False | _ => True end) by (destruct vt; try exact I; discriminate Hnp).
        destruct (default_rel vt None Hev Hpv Hnp') as (v0' & Hd0 & Hn0). exists v0'.
        split; [exact Hd0 | congruence]. }
    unfold dret. eexists. split; [reflexivity|].
    apply Rf_map_iff. apply map_set_assign; assumption.
Qed.
End M.
Export M.

(* ---------- surplus slots of a message are left alone ---------- *)
Lemma of_fields_len : forall gfs m vs0, Forall (fun g => field_exported g = true) gfs ->
  of_fields gfs m = Some vs0 -> (length gfs <= length m)%nat.
Proof.
  induction gfs as [|[e tag ft] r IH]; intros m vs0 He H; [cbn [length]; lia|].
  inversion He as [|? ? He1 He2]; subst. cbn [field_exported] in He1. subst e. cbn [of_fields] in H.
  destruct m as [|c mr]; [discriminate H|]. destruct (of_field ft c); [|discriminate H].
  destruct (of_fields r mr) eqn:E; [|discriminate H]. specialize (IH _ _ He2 E). cbn [length]. lia.
Qed.
Lemma of_fields_app : forall gfs c ex, Forall (fun g => field_exported g = true) gfs -> length c = length gfs ->
  of_fields gfs (c ++ ex) = of_fields gfs c.
Proof.
  induction gfs as [|[e tag ft] r IH]; intros c ex He Hl; [reflexivity|].
  inversion He as [|? ? He1 He2]; subst. cbn [field_exported] in He1. subst e.
  destruct c as [|x c]; [discriminate Hl|]. cbn [app of_fields]. rewrite IH by (try assumption; cbn [length] in Hl; lia). reflexivity.
Qed.
Lemma upd_slot_len d : forall fs cur num w c', upd_slot d fs cur num w = Upd c' -> length c' = length cur.
Proof.
  induction fs as [|[n lab ft] fr IH]; intros cur num w c' H; [discriminate H|].
  destruct cur as [|c cr]; [discriminate H|]. cbn [upd_slot] in H. destruct (n =? num).
  - destruct (dec_field _ _ _ _ _ _); try discriminate H. inversion H; subst. reflexivity.
  - destruct (upd_slot d fr cr num w) eqn:E; try discriminate H. inversion H; subst. cbn [length]. rewrite (IH _ _ _ _ E). reflexivity.
Qed.
Lemma upd_slot_app d : forall fs cur ex num w, length cur = length fs ->
  upd_slot d fs (cur ++ ex) num w =
  match upd_slot d fs cur num w with Upd c => Upd (c ++ ex) | Unk => Unk | Bad => Bad end.
Proof.
  induction fs as [|[n lab ft] fr IH]; intros cur ex num w Hl.
  - destruct cur; [|discriminate Hl]. reflexivity.
  - destruct cur as [|c cr]; [discriminate Hl|]. cbn [app upd_slot]. destruct (n =? num).
    + destruct (dec_field _ _ _ _ _ _); reflexivity.
    + rewrite IH by (cbn [length] in Hl; lia). destruct (upd_slot d fr cr num w); reflexivity.
Qed.
Lemma merge_app d fs : forall recs cur ex, length cur = length fs ->
  merge_records d fs recs (cur ++ ex) =
  match merge_records d fs recs cur with Some c => Some (c ++ ex) | None => None end.
Proof.
  induction recs as [|[num w] rr IH]; intros cur ex Hl; [reflexivity|].
  cbn [merge_records]. rewrite upd_slot_app by exact Hl.
  destruct (upd_slot d fs cur num w) eqn:E; [|apply IH; exact Hl|reflexivity].
  apply IH. rewrite (upd_slot_len _ _ _ _ _ _ E). exact Hl.
Qed.
Lemma pfields_length : forall gfs k, Forall (fun g => field_exported g = true) gfs -> length (pfields gfs k) = length gfs.
Proof.
  induction gfs as [|[e tag ft] r IH]; intros k He; [reflexivity|].
  inversion He as [|? ? He1 He2]; subst. cbn [field_exported] in He1. subst e. cbn [pfields length]. rewrite IH by assumption. reflexivity.
Qed.

(* ---------- structs ---------- *)
Lemma fhyp_of_struct gfs : elem_ok (TStruct gfs) = true -> tags_sane (TStruct gfs) = true -> plain (TStruct gfs) = true ->
  zz_ok (TStruct gfs) = true -> Forall fhyp gfs.
Proof.
  induction gfs as [|[e tag ft] r IH]; intros H1 H2 H3 H4; [constructor|].
  rewrite elem_ok_struct in H1. cbn [fsok] in H1. cbn [tags_sane plain zz_ok] in H2, H3, H4.
  repeat match goal with H : _ && _ = true |- _ => apply andb_true_iff in H; destruct H end.
  constructor; [|apply IH; assumption]. cbn [fhyp]. repeat split; assumption.
Qed.
Lemma F3_norm gfs cur vs0 vs : Forall3 Rg gfs cur vs0 -> map norm vs = map norm vs0 -> Forall3 Rg gfs cur vs.
Proof.
  intros H. revert vs. induction H as [|[e tag ft] c v0 la lb lc [He (x & Hx & Hn)] _ IH]; intros vs Hm.
  - destruct vs; [constructor | discriminate Hm].
  - destruct vs as [|v vr]; [discriminate Hm|]. cbn [map] in Hm. inversion Hm as [[H1 H2]].
    constructor; [|apply IH, H2]. split; [exact He|]. exists x. split; [exact Hx | congruence].
Qed.

Lemma struct_dec gfs : Forall (fun g => Pf (field_ty g)) gfs ->
  elem_ok (TStruct gfs) = true -> tags_sane (TStruct gfs) = true -> plain (TStruct gfs) = true -> zz_ok (TStruct gfs) = true ->
  numbers_ok (codec_of (TStruct gfs)) = true ->
  forall flags w opv pv' data oldv fuel, without flags proto_toplevel = 0 ->
    dec_value pkgd (PMsg (pfields gfs 1)) w opv = Upd pv' ->
    win true w data -> wfb data = true -> len data < lim ->
    Rold (TStruct gfs) opv oldv ->
    (length data + depth_ty (TStruct gfs) + 1 <= fuel)%nat ->
    exists v', decode fuel (codec_of (TStruct gfs)) data oldv flags = Ok (len data, None, v') /\ Rv (TStruct gfs) pv' v'.
Proof.
  intros HPf Hok Hts Hpl Hzz Hnum flags w opv pv' data oldv fuel Hfl Hdec Hwin Hwf Hlen Hold Hfuel.
  pose proof (fhyp_of_struct gfs Hok Hts Hpl Hzz) as Hfh. pose proof (fhyp_exported _ Hfh) as Hex.
  rewrite codec_of_struct in *. rewrite depth_ty_struct in Hfuel. destruct fuel as [|fuel]; [lia|].
  rewrite dec_value_msg in Hdec. destruct w as [| |payload|]; dsc Hdec. cbn [win] in Hwin. subst payload.
  destruct (records data) as [recs|] eqn:Erec; [|discriminate Hdec].
  assert (HS : exists m0 ex vs, match opv with Some (PVMsg c) => c | _ => default_msg (pfields gfs 1) end = m0 ++ ex /\
                                oldv = VStruct vs /\ Forall3 Rg gfs m0 vs).
  { destruct opv as [pv|]; cbn [Rold] in Hold.
    - destruct Hold as (v0 & Hv0 & Hn). rewrite of_pval_struct in Hv0. destruct pv as [| | |m]; try discriminate Hv0.
      destruct (of_fields gfs m) as [vs0|] eqn:Eof; [|discriminate Hv0]. inversion Hv0; subst v0.
      destruct oldv as [| | | | |[y|]|vs| | |]; try discriminate Hn. cbn [norm] in Hn. inversion Hn as [Hm].
      pose proof (of_fields_len _ _ _ Hex Eof) as Hl.
      exists (firstn (length gfs) m), (skipn (length gfs) m), vs. split; [symmetry; apply firstn_skipn|]. split; [reflexivity|].
      assert (Hl0 : length (firstn (length gfs) m) = length gfs) by (rewrite firstn_length; lia).
      eapply Rg_of_fields_inv; [|exact Hm|exact Hex|exact Hl0].
      rewrite <- (of_fields_app gfs _ (skipn (length gfs) m) Hex Hl0), firstn_skipn. exact Eof.
    - rewrite zero_struct in Hold. destruct oldv as [| | | | |[y|]|vs| | |]; try discriminate Hold. cbn [norm] in Hold. inversion Hold as [Hm].
      exists (default_msg (pfields gfs 1)), [], vs. rewrite app_nil_r. split; [reflexivity|]. split; [reflexivity|].
      eapply F3_norm; [apply default_fields, Hfh | exact Hm]. }
  destruct HS as (m0 & ex & vs & Ecur & -> & HR). rewrite Ecur in Hdec.
  destruct (F3_len _ _ _ _ HR) as [Hl1 Hl2].
  rewrite merge_app in Hdec by (rewrite pfields_length by exact Hex; exact Hl1).
  destruct (merge_records pkgd (pfields gfs 1) recs m0) as [c0|] eqn:Em; [|discriminate Hdec]. inversion Hdec; subst pv'.
  destruct (struct_sim gfs (inlined_ty (TStruct gfs)) Hfh HPf Hnum data fuel flags recs m0 c0 vs Hwf Hlen) as (vs' & E & HR');
    try assumption; [lia|].
  exists (VStruct vs'). split; [exact E|].
  destruct (Rg_of_fields _ _ _ HR') as (vs0 & Hof & Hm). destruct (F3_len _ _ _ _ HR') as [Hl3 _].
  exists (VStruct vs0). rewrite of_pval_struct, of_fields_app, Hof by assumption. split; [reflexivity|].
  cbn [norm]. rewrite Hm. reflexivity.
Qed.

Lemma without_0 : without 0 proto_toplevel = 0. Proof. reflexivity. Qed.
Lemma without_top : without proto_toplevel proto_toplevel = 0. Proof. reflexivity. Qed.

Lemma Pt_struct gfs : Forall (fun g => Pf (field_ty g)) gfs -> Pt (TStruct gfs).
Proof.
  intros HPf Hok Hts Hpl Hzz tag w opv pv' data oldv fuel Hnum Hzt Hdec Hwin Hwf Hlen Hold Hfuel.
  cbn [tcodec] in *. unfold zfl. rewrite (Hzt eq_refl). rewrite ptype_of_struct in Hdec.
  eapply struct_dec; try eassumption. apply without_0.
Qed.

(* ---------- every supported type ---------- *)
Theorem sim_all : forall t, Pt t /\ Pf t.
Proof.
  apply gty_ind2.
  - intros t Ht. assert (HP : Pt t) by (apply Pt_leaf, Ht). split; [exact HP|].
    apply Pf_elem; [destruct t; try contradiction; reflexivity | exact HP].
  - intros t [HP _]. assert (HP' : Pt (TPtr t)) by (apply Pt_ptr, HP). split; [exact HP'|]. apply Pf_elem; [reflexivity | exact HP'].
  - intros t [HP _]. split; [intros H; discriminate H|]. apply Pf_slice, HP.
  - intros k v [_ Hk] [_ Hv]. split; [intros H; discriminate H|]. apply Pf_map; [exact struct_sim | exact Hk | exact Hv].
  - intros fs HF. assert (HP : Pt (TStruct fs)).
    { apply Pt_struct. eapply Forall_impl; [|exact HF]. intros a [_ Ha]. exact Ha. }
    split; [exact HP|]. apply Pf_elem; [reflexivity | exact HP].
Qed.

(* ---------- D4: through Unmarshal ---------- *)
Definition unmarshal_refines_zz_statement : Prop :=
  forall t b m, type_ok t = true -> is_struct_ty t = true -> numbers_ok (codec_of t) = true ->
    tags_sane t = true -> plain t = true -> zz_ok t = true -> wfb b = true -> len b < lim ->
    spec_decode pkgd (fields_of t) b = Some m ->
    exists fuel r v0, Unmarshal fuel t b (zero_val t) = Ok (Some r) /\ of_msg t m = Some v0 /\ norm r = norm v0.

Theorem unmarshal_refines_zz : unmarshal_refines_zz_statement.
Proof.
  intros t b m Hok Hst Hnum Hts Hpl Hzz Hwf Hlen Hspec.
  destruct t as [ | | | | | | | | | | | | |gfs| | | ]; try discriminate Hst. unfold type_ok in Hok.
  change (fields_of (TStruct gfs)) with (pfields gfs 1) in Hspec.
  unfold Unmarshal, of_msg. destruct (len b =? 0) eqn:Eb.
  - apply Z.eqb_eq in Eb. apply len_0_nil in Eb. subst b. rewrite spec_decode_eq in Hspec. cbn in Hspec. inversion Hspec; subst m.
    destruct (default_rel (TStruct gfs) None Hok Hpl I) as (v0 & Hv0 & Hn). rewrite ptype_of_struct in Hv0. cbn [default_pval] in Hv0.
    exists O, (zero_val (TStruct gfs)), v0. split; [reflexivity|]. split; [exact Hv0 | symmetry; exact Hn].
  - unfold spec_decode in Hspec.
    destruct (dec_value pkgd (PMsg (pfields gfs 1)) (WLen b) None) as [pv| |] eqn:Ed; try discriminate Hspec.
    destruct pv as [| | |m']; try discriminate Hspec. inversion Hspec; subst m'.
    assert (HPf : Forall (fun g => Pf (field_ty g)) gfs) by (apply Forall_forall; intros g _; apply sim_all).
    destruct (struct_dec gfs HPf Hok Hts Hpl Hzz Hnum proto_toplevel (WLen b) None (PVMsg m) b (zero_val (TStruct gfs))
                (S (length b + depth_ty (TStruct gfs) + 1)) without_top Ed eq_refl Hwf Hlen eq_refl) as (v' & E & v0 & Hv0 & Hn); [lia|].
    exists (S (length b + depth_ty (TStruct gfs) + 1)), v', v0. rewrite E. cbn [rbind].
    rewrite Z.ltb_irrefl. auto.
Qed.

(* ---------- the statement of WireSpec.v is false as written ---------- *)
Definition cx_tag : ptag := {| tag_wire := 2; tag_number := 1; tag_repeated := false; tag_zigzag := true |}.
Definition cx_t : gty := TStruct [GField true (Some cx_tag) (TStruct [GField true None TInt64])].
(* field 1, two bytes: inner field 1 = varint 3 *)
Definition cx_b : bytes := [10; 2; 8; 3].
Lemma cx_zz_ok : zz_ok cx_t = false.
Proof. reflexivity. Qed.
Lemma cx_spec : spec_decode pkgd (fields_of cx_t) cx_b = Some [FOne (PVMsg [FOne (PVInt 3)])].
Proof. vm_compute. reflexivity. Qed.
Lemma cx_pkg : Unmarshal 10 cx_t cx_b (zero_val cx_t) = Ok (Some (VStruct [VStruct [VInt (-2)]])).
Proof. vm_compute. reflexivity. Qed.
Lemma unmarshal_refines_refuted : ~ unmarshal_refines_statement.
Proof.
  intros H.
  destruct (H cx_t cx_b [FOne (PVMsg [FOne (PVInt 3)])]) as (fuel & r & v0 & Hu & Hm & Hn); try reflexivity.
  vm_compute in Hm. inversion Hm; subst v0. clear Hm.
  destruct fuel as [|[|[|[|[|[|f]]]]]]; vm_compute in Hu; try discriminate Hu;
    inversion Hu; subst r; vm_compute in Hn; discriminate Hn.
Qed.
(* hence the missing hypothesis is exactly zz_ok: with it the statement holds (unmarshal_refines_zz), and every
   other hypothesis of the statement is kept unchanged *)
