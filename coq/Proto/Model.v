(* Hand-written executable model of the reflection-driven part of package proto:
   proto.go (codecOf, inlined, Marshal/MarshalTo/Unmarshal/Size), struct.go (structCodecOf and the
   three struct closures), slice.go, map.go, pointer.go, bytes.go, bool.go, the scalar codecs,
   message.go (message codec for RawMessage). The wire primitives it calls (encodeVarint,
   decodeVarint, sizeOfVarint, zig-zag, tags, LE32/64, decodeVarlen, flag helpers) are the
   MACHINE-TRANSLATED definitions of Generated/ProtoGen.v.

   Memory is abstracted to values: a Go variable of type t holds a [val]; "p == nil" situations
   (a nil pointer dereferenced by the pointer codec) are the [None] of [option val].
   Every slice expression of the Go code is checked as Go checks it: a violated bound is [Panic].
   Definitions only. *)
From Verif Require Import Base.GoInt Proto.Ext Generated.ProtoGen.
Open Scope Z_scope.

(* ---------- outcomes ---------- *)
Inductive res (A : Type) : Type := Ok (a : A) | Panic | OutOfFuel.
Arguments Ok {A} a.
Arguments Panic {A}.
Arguments OutOfFuel {A}.
Definition rbind {A B} (r : res A) (f : A -> res B) : res B :=
  match r with Ok a => f a | Panic => Panic | OutOfFuel => OutOfFuel end.
Notation "'rlet' x <- e 'in' k" := (rbind e (fun x => k))
  (at level 200, x pattern, e at level 100, k at level 200, right associativity).

(* checked slice expressions (len = cap in the model, which is stricter than Go) *)
Definition cfrom (b : bytes) (i : Z) : res bytes :=
  if (0 <=? i) && (i <=? len b) then Ok (slice_from b i) else Panic.
Definition cslice (b : bytes) (i j : Z) : res bytes :=
  if (0 <=? i) && (i <=? j) && (j <=? len b) then Ok (slice b i j) else Panic.

(* ---------- Go types as reflect shows them, with the parsed protobuf struct tag ---------- *)
Record ptag := { tag_wire : Z; tag_number : Z; tag_repeated : bool; tag_zigzag : bool }.

Inductive gty : Type :=
| TBool | TInt | TInt32 | TInt64 | TUint | TUint32 | TUint64 | TFloat32 | TFloat64
| TString | TBytes
| TByteArray (n : nat)
| TPtr (t : gty)
| TStruct (fs : list gfield)
| TSlice (t : gty)                (* only as the type of a struct field *)
| TMap (k v : gty)                (* only as the type of a struct field *)
| TRawMessage                     (* proto.RawMessage: implements Message *)
with gfield : Type := GField (exported : bool) (tag : option ptag) (t : gty).

(* ---------- values ---------- *)
Inductive val : Type :=
| VBool (b : bool)
| VInt (z : Z)                    (* every integer kind; floats as their IEEE bits *)
| VStr (s : bytes)
| VBytes (nonnil : bool) (s : bytes)
| VArr (s : bytes)
| VPtr (o : option val)
| VStruct (fs : list val)
| VSlice (es : list val)
| VMap (nonnil : bool) (es : list (val * val))
| VRaw (nonnil : bool) (s : bytes).

(* ---------- codecs: the result of codecOf ---------- *)
Inductive codec : Type :=
| CBool | CInt | CInt32 | CInt64 | CUint | CUint32 | CUint64 | CFixed32 | CFixed64 | CFloat32 | CFloat64
| CString | CBytes | CByteArray (n : nat)
| CPtr (t : gty) (c : codec)
| CStruct (inl_ : bool) (fields : list sfield)
| CSlice (number wt : Z) (emb : bool) (et : gty) (c : codec)
| CMap (number : Z) (kflags vflags : Z) (kt vt : gty) (k v : codec)
| CMessage
| CUnsupported
with sfield : Type := SField (number tagsize flags : Z) (t : gty) (c : codec).

Fixpoint wire (c : codec) : Z :=
  match c with
  | CBool | CInt | CInt32 | CInt64 | CUint | CUint32 | CUint64 => proto_varint
  | CFixed32 | CFloat32 => proto_fixed32
  | CFixed64 | CFloat64 => proto_fixed64
  | CString | CBytes | CByteArray _ | CStruct _ _ | CMap _ _ _ _ _ _ _ | CMessage => proto_varlen
  | CPtr _ c' => wire c'
  | CSlice _ wt _ _ _ => wt
  | CUnsupported => proto_varlen
  end.

(* baseTypeOf: strip pointers *)
Fixpoint base_ty (t : gty) : gty := match t with TPtr t' => base_ty t' | _ => t end.
Definition is_struct (t : gty) : bool := match t with TStruct _ => true | _ => false end.

(* proto.go inlined *)
Fixpoint inlined_ty (t : gty) : bool :=
  match t with
  | TPtr _ => true
  | TMap _ _ => true
  | TStruct [GField _ _ ft] => inlined_ty ft
  | _ => false
  end.

(* zero values (reflect.Zero / reflect.New) *)
Fixpoint zero_val (t : gty) : val :=
  match t with
  | TBool => VBool false
  | TInt | TInt32 | TInt64 | TUint | TUint32 | TUint64 | TFloat32 | TFloat64 => VInt 0
  | TString => VStr []
  | TBytes => VBytes false []
  | TByteArray n => VArr (repeat 0 n)
  | TPtr _ => VPtr None
  | TStruct fs => VStruct ((fix zs (fs : list gfield) : list val :=
                              match fs with [] => [] | GField _ _ t :: r => zero_val t :: zs r end) fs)
  | TSlice _ => VSlice []
  | TMap _ _ => VMap false []
  | TRawMessage => VRaw false []
  end.

(* struct.go pointersTo: one pointer codec per level of indirection *)
Fixpoint pointers_to (t : gty) (c : codec) : codec :=
  match t with
  | TPtr t' => CPtr t' (pointers_to t' c)
  | _ => c
  end.

(* codecOf / structCodecOf / sliceCodecOf / mapCodecOf / pointerCodecOf *)
Fixpoint codec_of (t : gty) : codec :=
  match t with
  | TBool => CBool | TInt => CInt | TInt32 => CInt32 | TInt64 => CInt64
  | TUint => CUint | TUint32 => CUint32 | TUint64 => CUint64
  | TFloat32 => CFloat32 | TFloat64 => CFloat64
  | TString => CString | TBytes => CBytes
  | TByteArray n => CByteArray n
  | TPtr t' => CPtr t' (codec_of t')
  | TRawMessage => CMessage
  | TSlice _ | TMap _ _ => CUnsupported            (* codecOf panics: only reachable through struct fields *)
  | TStruct fs =>
      CStruct (inlined_ty t)
        ((fix go (fs : list gfield) (number : Z) : list sfield :=
            match fs with
            | [] => []
            | GField false _ _ :: r => go r number                    (* unexported: skipped, number not advanced *)
            | GField true tag ft :: r =>
                let num0 := w16 number in
                let '(num, fl0, forced) :=
                  match tag with
                  | None => (num0, 0, None)
                  | Some tg =>
                      let fl := (if tag_repeated tg then proto_repeated else 0) + (if tag_zigzag tg then proto_zigzag else 0) in
                      let forced :=
                        if tag_wire tg =? proto_fixed32 then
                          match base_ty ft with TUint32 => Some (pointers_to ft CFixed32) | TFloat32 => Some (pointers_to ft CFloat32) | _ => None end
                        else if tag_wire tg =? proto_fixed64 then
                          match base_ty ft with TUint64 => Some (pointers_to ft CFixed64) | TFloat64 => Some (pointers_to ft CFloat64) | _ => None end
                        else None in
                      (w16 (tag_number tg), fl, forced)
                  end in
                let '(fl, c) :=
                  match forced with
                  | Some c => (fl0, c)
                  | None =>
                      (* pointer-to-slice and pointer-to-map fields are outside the modelled universe *)
                      match ft with
                      | TSlice et =>
                          let emb := is_struct (base_ty et) in
                          let fl1 := Z.lor (if emb then Z.lor fl0 proto_embedded else fl0) proto_repeated in
                          let ec := codec_of et in
                          (fl1, CSlice num (wire ec) emb et ec)
                      | TMap kt vt =>
                          let kf := if is_struct (base_ty kt) then proto_embedded else 0 in
                          let vf := if is_struct (base_ty vt) then proto_embedded else 0 in
                          (Z.lor fl0 (Z.lor proto_embedded proto_repeated), CMap num kf vf kt vt (codec_of kt) (codec_of vt))
                      | _ => if is_struct (base_ty ft) then (Z.lor fl0 proto_embedded, codec_of ft) else (fl0, codec_of ft)
                      end
                  end in
                SField num (w8 (proto_sizeOfTag num (wire c))) fl ft c :: go r (number + 1)
            end) fs 1)
  end.

Definition sf_number (f : sfield) : Z := match f with SField n _ _ _ _ => n end.
Definition sf_tagsize (f : sfield) : Z := match f with SField _ ts _ _ _ => ts end.
Definition sf_flags (f : sfield) : Z := match f with SField _ _ fl _ _ => fl end.
Definition sf_ty (f : sfield) : gty := match f with SField _ _ _ t _ => t end.
Definition sf_codec (f : sfield) : codec := match f with SField _ _ _ _ c => c end.
Definition sf_embedded (f : sfield) : bool := negb (Z.land (sf_flags f) proto_embedded =? 0).
Definition sf_repeated (f : sfield) : bool := negb (Z.land (sf_flags f) proto_repeated =? 0).
Definition make_flags (f : sfield) (base : Z) : Z := Z.lor base (Z.land (sf_flags f) proto_zigzag).

Definition has (f x : Z) : bool := proto_flags_has f x.
Definition without (f x : Z) : Z := proto_flags_without f x.
Definition with_ (f x : Z) : Z := proto_flags_with f x.

Definition all_zero (s : bytes) : bool := forallb (fun b => b =? 0) s.

(* float "v != 0" on IEEE bits: false exactly for +0 and -0 *)
Definition f32_nonzero (bits : Z) : bool := negb (Z.land bits 2147483647 =? 0).
Definition f64_nonzero (bits : Z) : bool := negb (Z.land bits 9223372036854775807 =? 0).
Definition f32_signbit (bits : Z) : bool := 2147483648 <=? bits.
Definition f64_signbit (bits : Z) : bool := 9223372036854775808 <=? bits.

(* ---------- size functions ---------- *)
Fixpoint size_of (c : codec) (ov : option val) (flags : Z) {struct c} : Z :=
  match c, ov with
  | CBool, Some (VBool x) =>
      (* p is non-nil and (the bool is true or flags.has(wantzero)) *)
      if x || has flags proto_wantzero then 1 else 0
  | (CInt | CInt32 | CInt64), Some (VInt v) =>
      if negb (v =? 0) || has flags proto_wantzero then proto_sizeOfVarint (proto_flags_uint64 flags v) else 0
  | (CUint | CUint32 | CUint64), Some (VInt v) =>
      if negb (v =? 0) || has flags proto_wantzero then proto_sizeOfVarint v else 0
  | CFixed32, Some (VInt v) => if negb (v =? 0) || has flags proto_wantzero then 4 else 0
  | CFixed64, Some (VInt v) => if negb (v =? 0) || has flags proto_wantzero then 8 else 0
  | CFloat32, Some (VInt v) => if f32_nonzero v || has flags proto_wantzero || f32_signbit v then 4 else 0
  | CFloat64, Some (VInt v) => if f64_nonzero v || has flags proto_wantzero || f64_signbit v then 8 else 0
  | CString, Some (VStr s) => if negb (len s =? 0) || has flags proto_wantzero then proto_sizeOfVarlen (len s) else 0
  | CBytes, Some (VBytes nn s) => if nn || has flags proto_wantzero then proto_sizeOfVarlen (len s) else 0
  | CByteArray n, Some (VArr s) =>
      if has flags proto_wantzero || negb (all_zero s) then proto_sizeOfVarlen (Z.of_nat n) else 0
  | CPtr _ c', Some (VPtr o) => size_of c' o (with_ (without flags proto_inline) proto_wantzero)
  | CMessage, Some (VRaw _ s) =>
      if has flags proto_toplevel then len s else proto_sizeOfVarlen (len s)
  | CStruct inl_ fields, Some (VStruct vs) =>
      let flags0 := if inl_ then without flags proto_toplevel else without flags (Z.lor proto_inline proto_toplevel) in
      (* unique fields first, then repeated fields, wantzero dropped after the first emitted field *)
      let pass := fix pass (rep : bool) (fs : list sfield) (vs : list val) (flags : Z) (n : Z) {struct fs} : Z * Z :=
        match fs, vs with
        | f :: fr, v :: vr =>
            if Bool.eqb (sf_repeated f) rep then
              let size := size_of (sf_codec f) (Some v) (make_flags f flags) in
              if size >? 0 then
                let n' := if rep then n + size
                          else n + sf_tagsize f + size + (if sf_embedded f then proto_sizeOfVarint size else 0) in
                pass rep fr vr (without flags proto_wantzero) n'
              else pass rep fr vr flags n
            else pass rep fr vr flags n
        | _, _ => (flags, n)
        end in
      let '(flags1, n1) := pass false fields vs flags0 0 in
      let '(_, n2) := pass true fields vs flags1 n1 in
      n2
  | CSlice number wt emb _ c', Some (VSlice es) =>
      let tagSize := proto_sizeOfTag number wt in
      fold_left (fun n e =>
                   let size := size_of c' (Some e) proto_wantzero in
                   n + tagSize + size + (if emb then proto_sizeOfVarint size else 0)) es 0
  | CMap number kf vf _ _ kc vc, Some (VMap _ es) =>
      let mapTagSize := proto_sizeOfTag number proto_varlen in
      let keyTagSize := proto_sizeOfTag 1 (wire kc) in
      let valTagSize := proto_sizeOfTag 2 (wire vc) in
      let n := fold_left (fun n kv =>
                   let keySize := size_of kc (Some (fst kv)) proto_wantzero in
                   let valSize := size_of vc (Some (snd kv)) proto_wantzero in
                   let elemSize := 0 in
                   let elemSize := if keySize >? 0 then elemSize + keyTagSize + keySize + (if negb (Z.land kf proto_embedded =? 0) then proto_sizeOfVarint keySize else 0) else elemSize in
                   let elemSize := if valSize >? 0 then elemSize + valTagSize + valSize + (if negb (Z.land vf proto_embedded =? 0) then proto_sizeOfVarint valSize else 0) else elemSize in
                   n + mapTagSize + proto_sizeOfVarint elemSize + elemSize) es 0 in
      if n =? 0 then mapTagSize + proto_zeroSize else n
  | _, _ => 0          (* p == nil, or a value of the wrong shape *)
  end.

(* ---------- encode functions: destination b, result (n, err, b') ---------- *)
Definition eres : Type := res (Z * option proto_error * bytes).
Definition ret (n : Z) (e : option proto_error) (b : bytes) : eres := Ok (n, e, b).

(* write through a window b[off:] / b[off:off+size] and put the result back *)
Definition in_from (b : bytes) (off : Z) (f : bytes -> eres) : eres :=
  rlet w <- cfrom b off in
  rlet (n, e, w') <- f w in
  Ok (n, e, splice b off w').
Definition in_window (b : bytes) (off size : Z) (f : bytes -> eres) : eres :=
  rlet w <- cslice b off (off + size) in
  rlet (n, e, w') <- f w in
  Ok (n, e, splice b off w').
Definition lift3 (r : Z * option proto_error * bytes) : eres := Ok r.

(* copy(b[off:], src): returns the count *)
Definition copy_at (b : bytes) (off : Z) (src : bytes) : res (Z * bytes) :=
  rlet w <- cfrom b off in
  let n := Z.min (len w) (len src) in
  Ok (n, splice b off (slice_to src n)).

(* encodeString / encodeBytes body *)
Definition encode_varlen_bytes (b : bytes) (s : bytes) : eres :=
  let '(n, err, b) := proto_encodeVarint b (w64 (len s)) in
  match err with
  | Some _ => ret n err b
  | None =>
      rlet (c, b) <- copy_at b n s in
      ret (n + c) (if c <? len s then Some proto_ErrShortBuffer else None) b
  end.

Fixpoint encode (c : codec) (b : bytes) (ov : option val) (flags : Z) {struct c} : eres :=
  match c, ov with
  | CBool, Some (VBool x) =>
      if x || has flags proto_wantzero then
        if len b =? 0 then ret 0 (Some proto_ErrShortBuffer) b else ret 1 None (upd b 0 (if x then 1 else 0))
      else ret 0 None b
  | (CInt | CInt32 | CInt64), Some (VInt v) =>
      if negb (v =? 0) || has flags proto_wantzero then lift3 (proto_encodeVarint b (proto_flags_uint64 flags v)) else ret 0 None b
  | (CUint | CUint32 | CUint64), Some (VInt v) =>
      if negb (v =? 0) || has flags proto_wantzero then lift3 (proto_encodeVarint b v) else ret 0 None b
  | CFixed32, Some (VInt v) => if negb (v =? 0) || has flags proto_wantzero then lift3 (proto_encodeLE32 b v) else ret 0 None b
  | CFixed64, Some (VInt v) => if negb (v =? 0) || has flags proto_wantzero then lift3 (proto_encodeLE64 b v) else ret 0 None b
  | CFloat32, Some (VInt v) => if f32_nonzero v || has flags proto_wantzero || f32_signbit v then lift3 (proto_encodeLE32 b v) else ret 0 None b
  | CFloat64, Some (VInt v) => if f64_nonzero v || has flags proto_wantzero || f64_signbit v then lift3 (proto_encodeLE64 b v) else ret 0 None b
  | CString, Some (VStr s) => if negb (len s =? 0) || has flags proto_wantzero then encode_varlen_bytes b s else ret 0 None b
  | CBytes, Some (VBytes nn s) => if nn || has flags proto_wantzero then encode_varlen_bytes b s else ret 0 None b
  | CByteArray n, Some (VArr s) => if has flags proto_wantzero || negb (all_zero s) then encode_varlen_bytes b s else ret 0 None b
  | CPtr _ c', Some (VPtr o) => encode c' b o (with_ (without flags proto_inline) proto_wantzero)
  | CMessage, Some (VRaw _ s) =>
      let size := len s in
      if has flags proto_toplevel then
        if len b <? size then ret 0 (Some proto_ErrShortBuffer) b
        else rlet (_, b) <- copy_at b 0 s in ret size None b               (* returns size, m.Marshal(b[:size]) *)
      else
        let vlen := proto_sizeOfVarlen size in
        if len b <? vlen then ret 0 (Some proto_ErrShortBuffer) b
        else
          let '(n, err, b) := proto_encodeVarint b (w64 size) in
          match err with
          | Some _ => ret n err b
          | None => rlet (_, b) <- copy_at b n s in ret vlen None b
          end
  | CStruct inl_ fields, Some (VStruct vs) =>
      let flags0 := if inl_ then without flags proto_toplevel else without flags (Z.lor proto_inline proto_toplevel) in
      let uniq := fix uniq (fs : list sfield) (vs : list val) (flags : Z) (offset : Z) (b : bytes)
                      (k : Z -> Z -> bytes -> eres) {struct fs} : eres :=
        match fs, vs with
        | f :: fr, v :: vr =>
            if sf_repeated f then uniq fr vr flags offset b k else
            let fieldFlags := make_flags f flags in
            let size := size_of (sf_codec f) (Some v) fieldFlags in
            if size >? 0 then
              rlet (n, err, b) <- in_from b offset (fun w => lift3 (proto_encodeTag w (sf_number f) (wire (sf_codec f)))) in
              let offset := offset + n in
              match err with Some _ => ret offset err b | None =>
              rlet (offset, err, b) <-
                (if sf_embedded f then
                   rlet (n, err, b) <- in_from b offset (fun w => lift3 (proto_encodeVarint w (w64 size))) in
                   Ok (offset + n, err, b)
                 else Ok (offset, None, b)) in
              match err with Some _ => ret offset err b | None =>
              if (len b - offset) <? size then ret (len b) (Some proto_ErrShortBuffer) b else
              rlet (n, err, b) <- in_window b offset size (fun w => encode (sf_codec f) w (Some v) fieldFlags) in
              let offset := offset + n in
              match err with Some _ => ret offset err b | None =>
              uniq fr vr (without flags proto_wantzero) offset b k
              end end end
            else uniq fr vr flags offset b k
        | _, _ => k flags offset b
        end in
      let reps := fix reps (fs : list sfield) (vs : list val) (flags : Z) (offset : Z) (b : bytes) {struct fs} : eres :=
        match fs, vs with
        | f :: fr, v :: vr =>
            if negb (sf_repeated f) then reps fr vr flags offset b else
            rlet (n, err, b) <- in_from b offset (fun w => encode (sf_codec f) w (Some v) (make_flags f flags)) in
            let offset := offset + n in
            match err with Some _ => ret offset err b | None =>
            reps fr vr (if n >? 0 then without flags proto_wantzero else flags) offset b
            end
        | _, _ => ret offset None b
        end in
      uniq fields vs flags0 0 b (fun flags offset b => reps fields vs flags offset b)
  | CSlice number wt emb _ c', Some (VSlice es) =>
      let tagSize := proto_sizeOfTag number wt in
      let '(_, _, tagData) := proto_encodeTag (repeat 0 (Z.to_nat tagSize)) number wt in
      (fix go (es : list val) (offset : Z) (b : bytes) {struct es} : eres :=
         match es with
         | [] => ret offset None b
         | e :: er =>
             let size := size_of c' (Some e) proto_wantzero in
             rlet (n, b) <- copy_at b offset tagData in
             let offset := offset + n in
             if n <? len tagData then ret offset (Some proto_ErrShortBuffer) b else
             rlet (offset, err, b) <-
               (if emb then
                  rlet (n, err, b) <- in_from b offset (fun w => lift3 (proto_encodeVarint w (w64 size))) in
                  Ok (offset + n, err, b)
                else Ok (offset, None, b)) in
             match err with Some _ => ret offset err b | None =>
             if (len b - offset) <? size then ret (len b) (Some proto_ErrShortBuffer) b else
             rlet (n, err, b) <- in_window b offset size (fun w => encode c' w (Some e) proto_wantzero) in
             let offset := offset + n in
             match err with Some _ => ret offset err b | None => go er offset b end end
         end) es 0 b
  | CMap number kf vf _ _ kc vc, Some (VMap _ es) =>
      let '(_, _, keyTag) := proto_encodeTag [0] 1 (wire kc) in
      let '(_, _, valTag) := proto_encodeTag [0] 2 (wire vc) in
      let tagsz := proto_sizeOfTag number proto_varlen in
      let '(_, _, zero) := proto_encodeTag (repeat 0 (Z.to_nat (tagsz + proto_zeroSize))) number proto_varlen in
      let mapTag := slice_to zero (len zero - 1) in
      let part := fun (tg : bytes) (embf : bool) (pc : codec) (pv : val) (psize : Z) (offset : Z) (b : bytes) (short_ret_n : bool) =>
        (* one of the key / value halves of an entry; returns (offset, err, b) *)
        if psize >? 0 then
          rlet (n, b) <- copy_at b offset tg in
          let offset' := offset + n in
          if n <? len tg then Ok ((if short_ret_n then n else offset'), Some proto_ErrShortBuffer, b) else
          rlet (offset', err, b) <-
            (if embf then
               rlet (n, err, b) <- in_from b offset' (fun w => lift3 (proto_encodeVarint w (w64 psize))) in
               Ok (offset' + n, err, b)
             else Ok (offset', None, b)) in
          match err with Some _ => Ok (offset', err, b) | None =>
          if (len b - offset') <? psize then Ok (len b, Some proto_ErrShortBuffer, b) else
          rlet (n, err, b) <- in_window b offset' psize (fun w => encode pc w (Some pv) proto_wantzero) in
          Ok (offset' + n, err, b)
          end
        else Ok (offset, None, b) in
      (fix go (es : list (val * val)) (offset : Z) (b : bytes) {struct es} : eres :=
         match es with
         | [] =>
             if offset =? 0 then
               rlet (n, b) <- copy_at b 0 zero in
               if n <? len zero then ret n (Some proto_ErrShortBuffer) b else ret n None b
             else ret offset None b
         | (k, v) :: er =>
             let keySize := size_of kc (Some k) proto_wantzero in
             let valSize := size_of vc (Some v) proto_wantzero in
             let elemSize := keySize + valSize in
             let elemSize := if keySize >? 0 then elemSize + len keyTag + (if negb (Z.land kf proto_embedded =? 0) then proto_sizeOfVarint keySize else 0) else elemSize in
             let elemSize := if valSize >? 0 then elemSize + len valTag + (if negb (Z.land vf proto_embedded =? 0) then proto_sizeOfVarint valSize else 0) else elemSize in
             rlet (n, b) <- copy_at b offset mapTag in
             let offset := offset + n in
             if n <? len mapTag then ret offset (Some proto_ErrShortBuffer) b else
             rlet (n, err, b) <- in_from b offset (fun w => lift3 (proto_encodeVarint w (w64 elemSize))) in
             let offset := offset + n in
             match err with Some _ => ret offset err b | None =>
             rlet (offset, err, b) <- part keyTag (negb (Z.land kf proto_embedded =? 0)) kc k keySize offset b false in
             match err with Some _ => ret offset err b | None =>
             rlet (offset, err, b) <- part valTag (negb (Z.land vf proto_embedded =? 0)) vc v valSize offset b true in
             match err with Some _ => ret offset err b | None => go er offset b end end end
         end) es 0 b
  | _, _ => ret 0 None b
  end.

(* ---------- decode ---------- *)
Definition dres : Type := res (Z * option proto_error * val).
Definition dret (n : Z) (e : option proto_error) (v : val) : dres := Ok (n, e, v).
(* errors created with fmt.Errorf in the Go code are mapped to the classes below (the properties
   never distinguish them further) *)
Definition err_overflow : option proto_error := Some proto_errVarintOverflow.   (* integer overflow decoding into (u)int32 *)
Definition err_mismatch : option proto_error := Some proto_ErrWireTypeUnknown.  (* wire type mismatch / byte array size / unknown wire type *)

Fixpoint val_eqb (a b : val) {struct a} : bool :=
  match a, b with
  | VBool x, VBool y => Bool.eqb x y
  | VInt x, VInt y => x =? y
  | VStr x, VStr y => bytes_eqb x y
  | VArr x, VArr y => bytes_eqb x y
  | VBytes _ x, VBytes _ y => bytes_eqb x y
  | VPtr None, VPtr None => true
  | VPtr (Some x), VPtr (Some y) => val_eqb x y
  | VStruct xs, VStruct ys =>
      (fix go (xs ys : list val) : bool :=
         match xs, ys with [], [] => true | x :: xr, y :: yr => val_eqb x y && go xr yr | _, _ => false end) xs ys
  | _, _ => false
  end.
(* MapAssign: replace the value of an equal key or add the entry at the end *)
Fixpoint map_assign (es : list (val * val)) (k v : val) : list (val * val) :=
  match es with
  | [] => [(k, v)]
  | (k', v') :: r => if val_eqb k' k then (k', v) :: r else (k', v') :: map_assign r k v
  end.

Definition nth_field (fields : list sfield) (vs : list val) (number : Z) : option (nat * sfield) :=
  (* fieldIndex[number]: the LAST field declared with that number wins *)
  (fix go (fs : list sfield) (i : nat) (acc : option (nat * sfield)) : option (nat * sfield) :=
     match fs with
     | [] => acc
     | f :: r => go r (S i) (if sf_number f =? number then Some (i, f) else acc)
     end) fields O None.
Definition max_number (fields : list sfield) : Z := fold_left (fun m f => Z.max m (sf_number f)) fields 0.
Fixpoint set_nth (vs : list val) (i : nat) (v : val) : list val :=
  match vs, i with
  | [], _ => []
  | _ :: r, O => v :: r
  | x :: r, S i' => x :: set_nth r i' v
  end.

Fixpoint decode (fuel : nat) (c : codec) (b : bytes) (old : val) (flags : Z) {struct fuel} : dres :=
  match fuel with O => OutOfFuel | S fuel' =>
  match c with
  | CBool => let '(v, n, err) := proto_decodeVarint b in dret n err (VBool (negb (v =? 0)))
  | CInt | CInt64 =>
      let '(v, n, err) := proto_decodeVarint b in dret n err (VInt (proto_flags_int64 flags v))
  | CInt32 =>
      let '(u, n, err) := proto_decodeVarint b in
      let v := proto_flags_int64 flags u in
      if (v <? -2147483648) || (v >? 2147483647) then dret n err_overflow old else dret n err (VInt v)
  | CUint | CUint64 => let '(v, n, err) := proto_decodeVarint b in dret n err (VInt v)
  | CUint32 =>
      let '(v, n, err) := proto_decodeVarint b in
      if v >? 4294967295 then dret n err_overflow old else dret n err (VInt v)
  | CFixed32 | CFloat32 => let '(v, n, err) := proto_decodeLE32 b in dret n err (VInt v)
  | CFixed64 | CFloat64 => let '(v, n, err) := proto_decodeLE64 b in dret n err (VInt v)
  | CString => let '(v, n, err) := proto_decodeVarlen b in dret n err (VStr v)
  | CBytes => let '(v, n, err) := proto_decodeVarlen b in dret n err (VBytes true v)
  | CByteArray sz =>
      let '(v, r, err) := proto_decodeVarlen b in
      match err with
      | Some _ => dret r err old
      | None =>
          let oldb := match old with VArr s => s | _ => repeat 0 sz end in
          let cnt := Z.min (Z.of_nat sz) (len v) in
          let newv := VArr (slice_to v cnt ++ slice_from oldb cnt) in
          if negb (cnt =? Z.of_nat sz) then dret r err_mismatch newv else dret r None newv
      end
  | CPtr t c' =>
      let cur := match old with VPtr (Some x) => x | _ => zero_val t end in
      rlet (n, err, v) <- decode fuel' c' b cur flags in
      dret n err (VPtr (Some v))
  | CMessage =>
      if has flags proto_toplevel then dret (len b) None (VRaw true b)
      else
        let '(v, n, err) := proto_decodeVarlen b in
        match err with Some _ => dret n err old | None => dret n None (VRaw true v) end
  | CSlice _ _ _ et c' =>
      (* one element is decoded into a fresh zeroed slot and appended *)
      let es := match old with VSlice es => es | _ => [] end in
      rlet (n, err, v) <- decode fuel' c' b (zero_val et) proto_noflags in
      match err with Some _ => dret n err old | None => dret n None (VSlice (es ++ [v])) end
  | CMap _ _ _ kt vt kc vc =>
      let es := match old with VMap _ es => es | _ => [] end in
      if len b =? 0 then dret 0 None (VMap true es) else
      let st := TStruct [GField true None kt; GField true None vt] in
      rlet (n, err, kv) <- decode fuel' (codec_of st) b (zero_val st) proto_noflags in
      match err, kv with
      | None, VStruct [k; v] => dret n None (VMap true (map_assign es k v))
      | _, _ => dret n err (VMap true es)
      end
  | CUnsupported => Panic
  | CStruct _ fields =>
      let vs := match old with VStruct vs => vs | _ => [] end in
      let flags := without flags proto_toplevel in
      let maxn := max_number fields in
      (fix loop (fuel : nat) (offset : Z) (vs : list val) {struct fuel} : dres :=
         match fuel with O => OutOfFuel | S fuel'' =>
         if negb (offset <? len b) then dret offset None (VStruct vs) else
         rlet w <- cfrom b offset in
         let '(fieldNumber, wireType, n, err) := proto_decodeTag w in
         let offset := offset + n in
         match err with Some _ => dret offset err (VStruct vs) | None =>
         let fo := if (0 <=? fieldNumber) && (fieldNumber <? maxn + 1) && (fieldNumber <? 2^63) then nth_field fields vs fieldNumber else None in
         match fo with
         | None =>
             (* unknown field: skip by wire type *)
             rlet w <- cfrom b offset in
             let '(skip, err) :=
               if wireType =? proto_varint then let '(_, s, e) := proto_decodeVarint w in (s, e)
               else if wireType =? proto_varlen then
                 let '(size, s, e) := proto_decodeVarint w in
                 match e with
                 | Some _ => (s, e)
                 | None => if size >? w64 (len b - s) then (s, Some proto_ErrUnexpectedEOF) else (s + s64 size, None)
                 end
               else if wireType =? proto_fixed32 then let '(_, s, e) := proto_decodeLE32 w in (s, e)
               else if wireType =? proto_fixed64 then let '(_, s, e) := proto_decodeLE64 w in (s, e)
               else (0, Some proto_ErrWireTypeUnknown) in
             let '(offset, err) := if (s64 (offset + skip)) <=? len b then (s64 (offset + skip), err) else (len b, Some proto_ErrUnexpectedEOF) in
             match err with Some _ => dret offset err (VStruct vs) | None => loop fuel'' offset vs end
         | Some (i, f) =>
             if negb (wireType =? wire (sf_codec f)) then dret offset err_mismatch (VStruct vs) else
             rlet w <- cfrom b offset in
             (* data window *)
             let win : res (option (Z * Z) * Z * option proto_error) :=   (* (Some (lo,hi)) | early return (offset, err) *)
               if wireType =? proto_varint then
                 let '(_, n, e) := proto_decodeVarint w in
                 match e with Some _ => Ok (None, offset, e) | None => Ok (Some (offset, offset + n), offset, None) end
               else if wireType =? proto_varlen then
                 let '(l, n, e) := proto_decodeVarint w in
                 match e with
                 | Some _ => Ok (None, offset + n, e)
                 | None =>
                     if l >? w64 (len b - (offset + n)) then Ok (None, len b, Some proto_ErrUnexpectedEOF)
                     else if sf_embedded f then Ok (Some (offset + n, offset + n + s64 l), offset + n, None)
                     else Ok (Some (offset, offset + n + s64 l), offset, None)
                 end
               else if wireType =? proto_fixed32 then
                 if (offset + 4) >? len b then Ok (None, len b, Some proto_ErrUnexpectedEOF) else Ok (Some (offset, offset + 4), offset, None)
               else if wireType =? proto_fixed64 then
                 if (offset + 8) >? len b then Ok (None, len b, Some proto_ErrUnexpectedEOF) else Ok (Some (offset, offset + 8), offset, None)
               else Ok (None, offset, Some proto_ErrWireTypeUnknown) in
             rlet (range, offset, err) <- win in
             match range with
             | None => dret offset err (VStruct vs)
             | Some (lo, hi) =>
                 rlet data <- cslice b lo hi in
                 let oldf := nth i vs (zero_val (sf_ty f)) in
                 rlet (n, err, newf) <- decode fuel' (sf_codec f) data oldf (make_flags f flags) in
                 let offset := offset + n in
                 let vs := set_nth vs i newf in
                 match err with Some _ => dret offset err (VStruct vs) | None => loop fuel'' offset vs end
             end
         end end end) fuel' 0 vs
  end end.

(* ---------- public entry points ---------- *)
Definition top_flags : Z := Z.lor proto_inline proto_toplevel.
Definition Size (t : gty) (v : val) : Z := size_of (codec_of t) (Some v) top_flags.
(* Marshal: make([]byte, size) then encode; error => (nil, err) *)
Definition Marshal (t : gty) (v : val) : res (option bytes) :=
  let c := codec_of t in
  let n := size_of c (Some v) top_flags in
  if n <? 0 then Panic else
  rlet (_, err, b) <- encode c (repeat 0 (Z.to_nat n)) (Some v) top_flags in
  match err with Some _ => Ok None | None => Ok (Some b) end.
(* MarshalTo(b, v): (n, err, b') *)
Definition MarshalTo (t : gty) (b : bytes) (v : val) : eres := encode (codec_of t) b (Some v) top_flags.
(* Unmarshal(b, &v): new value or error; empty input resets the target to its zero value *)
Definition Unmarshal (fuel : nat) (t : gty) (b : bytes) (old : val) : res (option val) :=
  if len b =? 0 then Ok (Some (zero_val t)) else
  rlet (n, err, v) <- decode fuel (codec_of t) b old proto_toplevel in
  match err with
  | Some _ => Ok None
  | None => if n <? len b then Ok None else Ok (Some v)
  end.
