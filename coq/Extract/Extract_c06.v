(* extraction for the C06 correspondence driver (ocaml/driver_c06.ml): the cycle-detection model and the
   well-formedness check of graph descriptions *)
From Coq Require Import ExtrOcamlBasic.
From Verif Require Import Json.CycleModel Json.CycleSpec.
Extraction "model_c06.ml" encode wfb fuel_bound.
