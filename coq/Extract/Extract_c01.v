(* Extraction of the C01/C02 scalar-core models (string escaping and unquoting, integer formatting and decoding)
   and of their specifications for the correspondence check. ExtrOcamlBasic only; model and spec files only. *)
From Coq Require Import ExtrOcamlBasic.
From Verif Require Import Base.GoInt Json.Ext Generated.JsonParseGen Json.Grammar Json.Spec Json.StrExt
  Generated.JsonStringGen Json.StrModel Json.StrSpec Json.NumModel Json.NumSpec Json.FloatModel Json.FloatSpec Json.TreeModel.
Extraction Language OCaml.
Extraction "model_c01.ml" escape_flags std_escape unmarshal_string spec_unmarshal_string append_unescape uq_lit sanitize
  utf8_decode_rune utf8_encode_rune utf16_is_surrogate utf16_decode_rune coerce_utf8
  append_int append_uint z_to_dec unmarshal_int spec_unmarshal_int
  json_escapeIndex escape_index_tot first_index needs_escape_json g_valid
  pkg_encode_float pkg_encode_float32 pkg_encode_float64 std_float_encode float_repr_of_bits fres_obs
  jenc jenc_ws jdec jdec_fuel jwf ty_ok jzero jnorm.
