(* Extraction of the C01/C02 value-tree model (ExtrOcamlBasic only). *)
From Coq Require Import ExtrOcamlBasic.
From Verif Require Import Base.GoInt Json.TreeModel.
Extraction Language OCaml.
Extraction "model_c01tree.ml" jenc jenc_ws jdec jdec_fuel jwf ty_ok jzero jnorm.
