(* Extraction of the C14 value-tree model with flags (ExtrOcamlBasic only). *)
From Coq Require Import ExtrOcamlBasic.
From Verif Require Import Base.GoInt Json.TreeModel Json.TreeFlagsModel.
Extraction Language OCaml.
Extraction "model_c14tree.ml" jenc_f jdec_f jdec_fuel jwf ty_ok jzero jnorm small_maps sorted_ord rev_ord rot_ord.
