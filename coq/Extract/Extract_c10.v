(* Extraction of the C10 memory model (Json/MemModel.v) for the correspondence check.
   ExtrOcamlBasic only; depends on model files only. *)
From Coq Require Import ExtrOcamlBasic.
From Verif Require Import Base.GoInt Json.Ext Generated.JsonParseGen Json.MemModel.
Extraction Language OCaml.
Extraction "model_c10.ml" leaves g_tok_strings alias_flag run init.
