(* Extraction for C12: the proto model's Marshal/Unmarshal and the transcribed protobuf specification.
   ExtrOcamlBasic only; depends on model/spec files only. *)
From Coq Require Import ExtrOcamlBasic.
From Verif Require Import Base.GoInt Proto.Ext Generated.ProtoGen Proto.Model Proto.PrimSpec Proto.Spec Proto.WireSpec.
Extraction Language OCaml.
Extraction "model_c12.ml"
  Proto.Model.Marshal Proto.Model.Unmarshal zero_val codec_of type_ok numbers_ok wf_val norm
  spec_decode spec_encode std pkgd fields_of of_msg tags_sane plain desc_wf msg_wf ptype_of.
