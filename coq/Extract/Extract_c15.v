(* Extraction of the C15 capacity-arithmetic model (ExtrOcamlBasic only). *)
From Coq Require Import ExtrOcamlBasic.
From Verif Require Import Base.GoInt Json.AppendModel.
Extraction Language OCaml.
Extraction "model_c15.ml" encode_bytes requote rollback_to gcap gdata.
