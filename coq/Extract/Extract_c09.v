(* Extraction of the cache machine (C09) for the correspondence check: the sequential projection seq_obs is run by
   ocaml/driver_c09.ml on the lookup histories the Go harness performed on the real caches.
   ExtrOcamlBasic only; depends on model/spec files only. *)
From Coq Require Import ExtrOcamlBasic.
From Verif Require Import Conc.CacheModel Conc.CacheSpec Conc.PoolModel.
Extraction Language OCaml.
Extraction "model_c09.ml" seq_obs solo run unfold spec_tree roots_one roots_pair prun pinit.
