(* Extraction of the C14 models (number-kind selection and its decision table) for the correspondence check.
   ExtrOcamlBasic only; depends on model and spec files only. *)
From Coq Require Import ExtrOcamlBasic.
From Verif Require Import Base.GoInt Json.Ext Generated.JsonParseGen Json.Grammar Json.FlagsModel Json.FlagsSpec Json.TreeModel Json.TreeFlagsModel.
Extraction Language OCaml.
Extraction "model_c14.ml" decode_number_literal num_spec g_number
  jenc_f jdec_f jdec_fuel jwf ty_ok jzero jnorm small_maps sorted_ord rev_ord rot_ord.
