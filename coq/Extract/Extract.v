(* Extraction of the executable models to OCaml for the correspondence check.
   ExtrOcamlBasic only: Z, positive, nat stay the extracted inductives. *)
From Coq Require Import ExtrOcamlBasic.
From Verif Require Import Base.GoInt Iso8601.Ext Generated.Iso8601Gen Iso8601.Spec.
Extraction Language OCaml.
Extraction "model.ml"
  iso8601_Parse iso8601_Valid time_parse rfc3339nano_layout iso_spec.
