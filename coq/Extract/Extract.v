(* Extraction of the executable models to OCaml for the correspondence check.
   ExtrOcamlBasic only: Z, positive, nat stay the extracted inductives.
   Depends on model/spec files only, never on proof files. *)
From Coq Require Import ExtrOcamlBasic.
From Verif Require Import Base.GoInt.
From Verif Require Import Iso8601.Ext Generated.Iso8601Gen Iso8601.Spec.
From Verif Require Import Generated.AsmAsciiGen Ascii.AsmTotal Generated.AsciiGen Ascii.Spec.
From Verif Require Import Proto.Ext Generated.ProtoGen Proto.Model Proto.PrimSpec Proto.Spec.
From Verif Require Import Json.Ext Generated.JsonParseGen Json.Grammar Json.Spec.
From Verif Require Import Thrift.Model Thrift.Spec Thrift.SpecC.
From Verif Require Import Json.StreamModel Json.StateSpec.
From Verif Require Import Proto.RewriteModel Proto.ScanModel.
Extraction Language OCaml.
Extraction "model.ml"
  iso8601_Parse iso8601_Valid time_parse rfc3339nano_layout iso_spec
  ascii_Valid ascii_ValidString ascii_ValidPrint ascii_ValidPrintString ascii_EqualFold ascii_EqualFoldString
  ascii_HasPrefixFold ascii_HasPrefixFoldString ascii_HasSuffixFold ascii_HasSuffixFoldString
  ascii_ValidByte ascii_ValidRune ascii_ValidPrintByte ascii_ValidPrintRune
  is_ascii is_print fold_eq has_prefix_fold has_suffix_fold
  Proto.Model.Size Proto.Model.Marshal Proto.Model.MarshalTo Proto.Model.Unmarshal zero_val codec_of type_ok numbers_ok wf_val representable keys_distinct norm
  json_Valid g_valid std_valid json_escapeIndex first_index needs_escape_json json_decoder_parseValue json_internalParseFlags
  TMarshal TUnmarshal zero_of enc dec ty_ok tval_wf tnorm spec_enc pkg_dev no_dev
  d_init decode_all tokenize spec_tokens frame
  Proto.ScanModel.Scan
  Thrift.SpecC.TDecode.
