(* Extraction of the rewriter model (C19) for the correspondence check.
   ExtrOcamlBasic only; depends on model/spec files only. *)
From Coq Require Import ExtrOcamlBasic.
From Verif Require Import Base.GoInt Proto.Ext Generated.ProtoGen Proto.RewriteModel.
Extraction Language OCaml.
Extraction "model_c19.ml" Rewrite rewrite depth Parse Append.
