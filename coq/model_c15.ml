
type nat =
| O
| S of nat

(** val length : 'a1 list -> nat **)

let rec length = function
| [] -> O
| _ :: l' -> S (length l')

(** val app : 'a1 list -> 'a1 list -> 'a1 list **)

let rec app l m =
  match l with
  | [] -> m
  | a :: l1 -> a :: (app l1 m)

(** val add : nat -> nat -> nat **)

let rec add n m =
  match n with
  | O -> m
  | S p -> S (add p m)

(** val sub : nat -> nat -> nat **)

let rec sub n m =
  match n with
  | O -> n
  | S k -> (match m with
            | O -> n
            | S l -> sub k l)

type positive =
| XI of positive
| XO of positive
| XH

type z =
| Z0
| Zpos of positive
| Zneg of positive

module Nat =
 struct
  (** val leb : nat -> nat -> bool **)

  let rec leb n m =
    match n with
    | O -> true
    | S n' -> (match m with
               | O -> false
               | S m' -> leb n' m')

  (** val ltb : nat -> nat -> bool **)

  let ltb n m =
    leb (S n) m
 end

(** val firstn : nat -> 'a1 list -> 'a1 list **)

let rec firstn n l =
  match n with
  | O -> []
  | S n0 -> (match l with
             | [] -> []
             | a :: l0 -> a :: (firstn n0 l0))

(** val skipn : nat -> 'a1 list -> 'a1 list **)

let rec skipn n l =
  match n with
  | O -> l
  | S n0 -> (match l with
             | [] -> []
             | _ :: l0 -> skipn n0 l0)

(** val repeat : 'a1 -> nat -> 'a1 list **)

let rec repeat x = function
| O -> []
| S k -> x :: (repeat x k)

type gslice = { cells : z list; slen : nat }

(** val gcap : gslice -> nat **)

let gcap b =
  length b.cells

(** val gdata : gslice -> z list **)

let gdata b =
  firstn b.slen b.cells

(** val write_at : z list -> nat -> z list -> z list **)

let write_at cs i xs =
  app (firstn i cs) (app xs (skipn (add i (length xs)) cs))

(** val encode_bytes : gslice -> z list -> gslice * bool **)

let encode_bytes b body =
  let n = add (length body) (S (S O)) in
  let avail = sub (gcap b) b.slen in
  if Nat.ltb avail n
  then let cs =
         app (gdata b) (repeat Z0 (sub (add (gcap b) (sub n avail)) b.slen))
       in
       let re = true in
       let i = b.slen in
       ({ cells =
       (write_at cs i ((Zpos (XO (XI (XO (XO (XO
         XH)))))) :: (app body ((Zpos (XO (XI (XO (XO (XO XH)))))) :: []))));
       slen = (add i n) }, re)
  else let cs = b.cells in
       let re = false in
       let i = b.slen in
       ({ cells =
       (write_at cs i ((Zpos (XO (XI (XO (XO (XO
         XH)))))) :: (app body ((Zpos (XO (XI (XO (XO (XO XH)))))) :: []))));
       slen = (add i n) }, re)

(** val requote : gslice -> nat -> z list -> gslice **)

let requote b' i q =
  let j = b'.slen in
  let cs = write_at b'.cells j q in
  let moved = firstn (length q) (skipn j cs) in
  { cells = (write_at cs i moved); slen = (add i (length q)) }

(** val rollback_to : gslice -> nat -> gslice **)

let rollback_to b start =
  { cells = b.cells; slen = start }
